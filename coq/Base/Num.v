(* One definition, several interpretations: numerical models are written once over this record and
   instantiated with exact rationals (theorems, exact evaluation) and with IEEE-754 binary64
   (PrimFloat; bit-exact evaluation in the correspondence check). *)
From Coq Require Import ZArith QArith Bool PrimFloat.

Record Num := {
  T : Type;
  add : T -> T -> T; sub : T -> T -> T; mul : T -> T -> T; div : T -> T -> T;
  ltb : T -> T -> bool; leb : T -> T -> bool; eqb : T -> T -> bool;
  zero : T; one : T
}.

Definition QN : Num := {|
  T := Q; add := Qplus; sub := Qminus; mul := Qmult; div := Qdiv;
  ltb := fun a b => negb (Qle_bool b a); leb := Qle_bool; eqb := Qeq_bool;
  zero := 0%Q; one := 1%Q |}.

Definition FN : Num := {|
  T := float; add := PrimFloat.add; sub := PrimFloat.sub; mul := PrimFloat.mul; div := PrimFloat.div;
  ltb := PrimFloat.ltb; leb := PrimFloat.leb; eqb := PrimFloat.eqb;
  zero := 0%float; one := 1%float |}.
