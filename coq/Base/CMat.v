(* Small dense matrices over Coquelicot's C as lists of rows; used for the finite gate algebra (C18, C02, C04). *)
From Coq Require Import Reals Lra Ring Field List.
From Coquelicot Require Import Coquelicot.
Import ListNotations.
Local Open Scope R_scope.

Lemma C_ring_theory : ring_theory (RtoC 0) (RtoC 1) Cplus Cmult Cminus Copp eq.
Proof. constructor; intros; unfold Cminus; auto using Cplus_comm, Cplus_assoc, Cmult_comm, Cmult_assoc, Cmult_plus_distr_r, Cplus_0_l, Cmult_1_l, Cplus_opp_r. Qed.
Add Ring Cring : C_ring_theory.
Local Open Scope C_scope.

Definition M := list (list C).
Definition c0 : C := 0. Definition c1 : C := 1.
Definition cis (x : R) : C := (cos x, sin x).          (* e^{ix} *)
Definition dot (r v : list C) : C := fold_right Cplus c0 (map (fun p => fst p * snd p) (combine r v)).
Definition col (m : M) (j : nat) : list C := map (fun r => nth j r c0) m.
Definition mmul (a b : M) : M := map (fun r => map (fun j => dot r (col b j)) (seq 0 (length (hd [] b)))) a.
Definition kron2 (a b : M) : M := flat_map (fun ra => map (fun rb => flat_map (fun x => map (fun y => x * y) rb) ra) b) a.
Definition scal (c : C) (m : M) : M := map (map (Cmult c)) m.
Definition madd (a b : M) : M := map (fun p => map (fun q => fst q + snd q) (combine (fst p) (snd p))) (combine a b).
Definition I2 : M := [[c1; c0]; [c0; c1]].
Definition I4 : M := [[c1;c0;c0;c0];[c0;c1;c0;c0];[c0;c0;c1;c0];[c0;c0;c0;c1]].

(* closed forms of exp(-i c G) for the two structures the library's generators have *)
Definition expi_invol (c : R) (P : M) : M := madd (scal (cos c) I4) (scal (- Ci * sin c) P).      (* P^2 = 1 *)
Definition expi_proj (c mu : R) (G : M) : M := madd I4 (scal ((cis (- (c * mu)) - c1) / mu) G).    (* G^2 = mu G *)

Lemma Ceq (a b : C) : fst a = fst b -> snd a = snd b -> a = b.
Proof. destruct a, b; simpl; intros; subst; reflexivity. Qed.
Lemma cis_mult x y : cis (x + y) = cis x * cis y.
Proof. unfold cis. apply Ceq; simpl; [rewrite cos_plus|rewrite sin_plus]; ring. Qed.
Lemma cis_0 : cis 0 = c1. Proof. unfold cis, c1. rewrite cos_0, sin_0. reflexivity. Qed.
Lemma cis_PI : cis PI = - c1. Proof. unfold cis, c1. rewrite cos_PI, sin_PI. apply Ceq; simpl; ring. Qed.
Lemma cis_neg_PI : cis (- PI) = - c1. Proof. unfold cis, c1. rewrite cos_neg, sin_neg, cos_PI, sin_PI. apply Ceq; simpl; ring. Qed.
Lemma cis_neg x : cis (- x) = (cos x, (- sin x)%R).
Proof. unfold cis. rewrite cos_neg, sin_neg. reflexivity. Qed.
Lemma cis_conj_mult x : cis x * cis (- x) = c1.
Proof. rewrite <- cis_mult. replace (x + - x)%R with 0%R by ring. apply cis_0. Qed.

(* entrywise matrix equality *)
Ltac mat_unfold := unfold expi_invol, expi_proj, madd, scal, kron2, mmul, dot, col, I4, I2;
  cbn -[Cplus Cmult Cminus Copp Cdiv Cinv cos sin RtoC Ci cis PI sqrt IZR].
Ltac centry := apply Ceq; simpl; try field; try lra; try ring.
