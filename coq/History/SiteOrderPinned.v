(* History: the dense solvers used to_vec() as it is (site 0 least significant) with operators embedded site 0 first. *)
From Coq Require Import List Arith.
Import ListNotations.
From Yaqs Require Import Model.SiteOrder.
Lemma C06_conventions_pinned_refuted : exists sigma, vec_idx sigma <> kron_idx sigma.
Proof. exists [1; 0; 0]. vm_compute. discriminate. Qed.
