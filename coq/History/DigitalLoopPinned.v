(* History: the digital_tjm loop as on the pinned tree — labelled barriers were removed from the DAG only inside the
   sampling branch.  Compiled regression witness: a non-empty state that one iteration maps to itself. *)
From Coq Require Import List Arith Bool.
Import ListNotations.
From Yaqs Require Import Model.DigitalLoop.
Definition iter_pinned (sampling : bool) (rem : list instr) : list instr :=
  let layer := front rem in
  let dropped := filter (fun i => is_kind Meas i || is_kind Bar i) layer in
  let exec := filter gate layer in
  let sb := filter (is_kind SBar) layer in
  remove_all (dropped ++ exec ++ (if sampling then sb else [])) rem.
Lemma C16_pinned_loop_stuck_refuted : exists rem, rem <> [] /\ iter_pinned false rem = rem.
Proof. exists [mk 2 SBar [0;1;2]; mk 3 G2 [1;2]]. split; [discriminate|reflexivity]. Qed.
