(* History: the parameter handling of the pinned tree — num_traj overwritten by noise-free runs, weak measurement slots
   never re-initialised.  Compiled regression witnesses. *)
From Coq Require Import List Arith Bool.
Import ListNotations.
From Yaqs Require Import Model.Params.
Definition run_strong_pinned (noisy : bool) (p : sparams) : sparams * nat :=
  let n := if noisy then num_traj p else 1 in ({| num_traj := n; traj_rows := n |}, n).
Lemma C20_num_traj_pinned_refuted : exists p,
  snd (run_strong_pinned true (fst (run_strong_pinned false p))) <> snd (run_strong_pinned true p).
Proof. exists {| num_traj := 10; traj_rows := 0 |}. vm_compute. discriminate. Qed.
Definition run_weak_pinned (noisy : bool) (p : wparams) : wparams * nat * nat :=
  let n := if noisy then shots p else 1 in
  let per := if noisy then 1 else shots p in
  let filled := fold_left (fun m i => set_nth_opt m i per) (seq 0 n) (meas p) in
  ({| shots := shots p; meas := filled |}, n, aggregate filled).
Lemma C12_counts_pinned_refuted : exists p, shots p = 5 /\
  snd (run_weak_pinned false (fst (fst (run_weak_pinned true p)))) = 9.
Proof. exists {| shots := 5; meas := repeat None 5 |}. vm_compute. split; reflexivity. Qed.

(* the weak front-end before fix 2 of C20: shots was rewritten to 1 BEFORE the get_state assertion rejected the call *)
Definition attempt_weak_pinned (noisy get_state : bool) (p : wparams) : wparams * option (nat * nat) :=
  if noisy && get_state then ({| shots := 1; meas := repeat None (shots p) |}, None)
  else let r := run_weak noisy p in (fst (fst r), Some (snd (fst r), snd r)).
Lemma C20_refused_weak_run_pinned_refuted : exists p, shots p = 20 /\
  snd (run_weak true (fst (attempt_weak_pinned true true p))) = 1.
Proof. exists {| shots := 20; meas := repeat None 20 |}. vm_compute. split; reflexivity. Qed.
