(* History: on the pinned tree the weights were appended in site-sweep order while the drawn index selected
   noise_model.processes[k] by list position. *)
From Coq Require Import List Arith Bool.
Import ListNotations.
From Yaqs Require Import Model.NoiseAttrib.
Definition idx_kinds (ks : list pkind) := combine (seq 0 (length ks)) ks.
Definition sweep_order (L : nat) (ks : list pkind) : list nat :=
  flat_map (fun site =>
    map fst (filter (fun ik => match snd ik with One s => Nat.eqb s site | _ => false end) (idx_kinds ks)) ++
    map fst (filter (fun ik => match snd ik with Two s _ => Nat.eqb s site && (site <? L - 1) | _ => false end) (idx_kinds ks)))
    (seq 0 L).
Lemma C01_weights_aligned_pinned_refuted : exists L ks, sweep_order L ks <> seq 0 (length ks).
Proof. exists 2, [One 1; One 0]. vm_compute. discriminate. Qed.
