(* History: before fix 3 of C20 a run that failed inside the engines kept the temporary counts: a noise-free run that raised (e.g. a
   three-qubit gate: NotImplementedError) left num_traj = 1, and the next noisy run on the same object executed ONE trajectory. *)
From Coq Require Import List Arith Bool.
Import ListNotations.
From Yaqs Require Import Model.Params Model.Failures.
Definition try_strong_pinned (o : outcome) (noisy : bool) (p : sparams) : sparams :=
  match o with
  | Completes => fst (run_strong noisy p)
  | Refused => p
  | Fails => {| num_traj := (if noisy then num_traj p else 1); traj_rows := traj_rows p |}
  end.
Lemma C20_failed_run_pinned_refuted : exists p, num_traj p = 6 /\ snd (run_strong true (try_strong_pinned Fails false p)) = 1.
Proof. exists {| num_traj := 6; traj_rows := 0 |}. vm_compute. split; reflexivity. Qed.
