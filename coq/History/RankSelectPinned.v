(* History: split_mps_tensor's rank rule as it stood on the pinned tree (before the fix commits), kept as a
   compiled regression witness.  Not an obligation of any property. *)
From Coq Require Import List Arith Lia Bool QArith.
Import ListNotations.
From Yaqs Require Import Base.Num Model.RankSelect.
Definition keep_dw_pinned (N : Num) (s : list (T N)) (thr : T N) (minb maxb : nat) (dynamic : bool) : nat :=
  let len := length s in
  let keep0 := if dynamic then len else Nat.min len maxb in
  dw_loop N (rev s) 0 len (Nat.min len minb) (zero N) thr keep0.
Definition keep_rel_pinned (N : Num) (s : list (T N)) (thr : T N) (minb maxb : nat) : nat :=
  Nat.max (Nat.min (count_rel N s thr) maxb) minb.
Lemma C08_cap_pinned_refuted : exists s thr minb maxb, (keep_dw_pinned QN s thr minb maxb false > Nat.max maxb minb)%nat.
Proof. exists [1; 9#10; 8#10; 7#10]%Q, (1#1000000)%Q, 2%nat, 2%nat. vm_compute. lia. Qed.
Lemma C09_rank_pinned_refuted : exists s thr minb maxb, (keep_rel_pinned QN s thr minb maxb > length s)%nat.
Proof. exists [1; 1#2]%Q, (1#10)%Q, 3%nat, 8%nat. vm_compute. lia. Qed.
