(* History: split_mps_tensor's rank rule as it stood on the pinned tree (before the fix commits), kept as a
   compiled regression witness.  Not an obligation of any property. *)
From Coq Require Import List Arith Lia Bool QArith.
Import ListNotations.
From Yaqs Require Import Base.Num Model.RankSelect.
Definition keep_dw_pinned (N : Num) (s : list (T N)) (thr : T N) (minb maxb : nat) (dynamic : bool) : nat :=
  let len := length s in
  let keep0 := if dynamic then len else Nat.min len maxb in
  dw_loop N (rev s) 0 len (Nat.min len minb) (zero N) thr keep0.
Definition keep_rel_pinned (N : Num) (s : list (T N)) (thr : T N) (minb maxb : nat) : nat :=
  Nat.max (Nat.min (count_rel N s thr) maxb) minb.
Lemma C08_cap_pinned_refuted : exists s thr minb maxb, (keep_dw_pinned QN s thr minb maxb false > Nat.max maxb minb)%nat.
Proof. exists [1; 9#10; 8#10; 7#10]%Q, (1#1000000)%Q, 2%nat, 2%nat. vm_compute. lia. Qed.
Lemma C09_rank_pinned_refuted : exists s thr minb maxb, (keep_rel_pinned QN s thr minb maxb > length s)%nat.
Proof. exists [1; 1#2]%Q, (1#10)%Q, 3%nat, 8%nat. vm_compute. lia. Qed.

(* two_site_svd with its hard-coded floor of two kept values (before 2bbe02d): the uncapped SVD-based centre shift padded a
   rank-one (product-state) bond to 2 although max_bond_dim = min_bond_dim = 1 *)
Fixpoint tss_loop_pinned (N : Num) (rev_s : list (T N)) (idx len : nat) (discard thr : T N) : nat :=
  match rev_s with
  | [] => len
  | s :: r => let nd := add N discard (mul N s s) in
      if leb N thr nd then Nat.max (len - idx) 2 else tss_loop_pinned N r (S idx) len nd thr
  end.
Definition keep_tss_pinned (N : Num) (s : list (T N)) (thr : T N) : nat := tss_loop_pinned N (rev s) 0 (length s) (zero N) thr.
Lemma C08_svd_shift_pinned_refuted : exists s thr chi minb, Forall (fun x => x == 0)%Q (skipn chi s) /\ (thr <= tail_weight QN s 0)%Q /\
  (keep_tss_pinned QN s thr > Nat.max chi (Nat.min (length s) minb))%nat.
Proof. exists [1; 0]%Q, (1#1000000000000)%Q, 1%nat, 1%nat. split; [repeat constructor; reflexivity|]. split; vm_compute; [discriminate|lia]. Qed.
