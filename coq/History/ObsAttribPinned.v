(* History: on the pinned tree entropy / Schmidt spectrum were read from the un-centred state (centre at site 0). *)
From Coq Require Import List Arith Bool.
Import ListNotations.
From Yaqs Require Import Model.ObsAttrib.
Fixpoint reads_from_pinned (last : nat) (l : list obs) : list (nat * okind * nat * nat) :=
  match l with
  | [] => []
  | o :: r =>
      match kind o with
      | Diag => (oid o, kind o, site o, last) :: reads_from_pinned last r
      | Bond => (oid o, kind o, site o, 0) :: reads_from_pinned last r
      | _ => let c := Nat.max last (site o) in (oid o, kind o, site o, c) :: reads_from_pinned c r
      end
  end.
Lemma C11_entropy_centre_pinned_refuted : exists l, forallb read_ok (reads_from_pinned 0 (sorted_observables l)) = false.
Proof. exists [{| oid := 0; kind := Bond; site := 1 |}]. reflexivity. Qed.
