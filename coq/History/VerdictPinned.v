(* History: on the pinned tree |trace| was rounded to one decimal before the comparison. *)
From Coq Require Import List Arith Bool QArith Qround.
From Yaqs Require Import Base.Num.
(* round-half-even to one decimal on exact rationals, as numpy.round(x, 1) does up to representation *)
Definition round1 (q : Q) : Q :=
  let z := Qfloor (q * 10 + (1 # 2)) in (z # 10).
Definition verdict_pinned_eq (abs_trace : Q) (n : nat) (fidelity : Q) : bool :=
  Qle_bool fidelity (round1 abs_trace / inject_Z (2 ^ Z.of_nat n)).
(* n = 2, overlap 0.98877 (|trace| = 3.95508), fidelity 0.99: reported equivalent *)
Lemma C04_verdict_pinned_refuted : verdict_pinned_eq (395508 # 100000) 2 (99 # 100) = true.
Proof. vm_compute. reflexivity. Qed.
