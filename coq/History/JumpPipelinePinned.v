(* History: analog_tjm_2 / time matching / grid as on the pinned tree — compiled regression witnesses. *)
From Coq Require Import List Arith Lia Bool ZArith QArith PrimFloat.
Import ListNotations.
From Yaqs Require Import Base.Num Model.JumpPipeline Model.Grid.
Local Open Scope nat_scope.
Section P.
Variable sched : nat -> bool.
(* pinned: step_through at loop index j tested the schedule at times[j] (one step early, persistent) *)
Fixpoint phi_pinned (j : nat) : list sym :=
  match j with O => phi0 sched | S O => phi0 sched | S j' => phi_pinned j' ++ [U; D1; jump_or sched j] end.
Definition sample2_pinned (j : nat) := phi_pinned j ++ [U; Dh; jump_or sched j].
End P.
Lemma C14_order2_pinned_refuted : exists k j, 1 <= k /\
  count_S k (sample2_pinned (fun i => Nat.eqb i k) j) <> (if k <=? j then 1 else 0).
Proof. exists 2, 2. vm_compute. split; [lia|discriminate]. Qed.
(* pinned: order 2 with two grid points and sample_timesteps=False evaluated nothing *)
Definition cols2_pinned_nosampling (n : nat) : list (nat * list sym) :=
  match n with O | S O | S (S O) => [] | _ => [(0, sample2 (fun _ => false) (n - 1))] end.
Lemma C15_single_step_pinned_refuted : cols2_pinned_nosampling 2 = [].
Proof. reflexivity. Qed.
(* pinned: isclose with NumPy's default rtol = 1e-5 matches a neighbouring grid point on long grids *)
Lemma C14_time_match_pinned_refuted : exists (k j : Z) (dt : Q), k <> j /\ (0 < dt)%Q /\
  isclose QN (inject_Z k * dt)%Q (inject_Z j * dt)%Q (dt * (1 # 1000))%Q (1 # 100000)%Q = true.
Proof. exists 99950%Z, 99951%Z, (1 # 10)%Q. split; [discriminate|]. split; [reflexivity|]. vm_compute. reflexivity. Qed.
(* pinned: arange(0, T+dt, dt) has ceil((T+dt)/dt) points: 4 for T=0.2, dt=0.1 *)
Definition ceilZ (f : float) : Z :=
  match FloatOps.Prim2SF f with
  | SpecFloat.S754_finite s m e =>
      if (0 <=? e)%Z then (if s then (- (Z.pos m * 2 ^ e))%Z else (Z.pos m * 2 ^ e)%Z)
      else let d := (2 ^ (- e))%Z in let q := (Z.pos m / d)%Z in
           if s then (- q)%Z else if (Z.pos m mod d =? 0)%Z then q else (q + 1)%Z
  | _ => 0%Z
  end.
Definition arange_len_pinned (T dt : float) : Z := ceilZ ((T + dt) / dt)%float.
Lemma C15_grid_pinned_refuted : arange_len_pinned 0x1.999999999999ap-3%float 0x1.999999999999ap-4%float = 4%Z.
Proof. vm_compute. reflexivity. Qed.
