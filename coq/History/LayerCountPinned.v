(* History: the count of sampling barriers in simulator._run_strong_sim as on the pinned tree — the label was stripped of surrounding
   whitespace before the comparison, while the loop (process_layer) compares the label as it is.  Compiled regression witness: a
   barrier that got a result column although the loop never samples at it. *)
From Coq Require Import List Arith Bool String Ascii.
Import ListNotations.
From Yaqs Require Import Model.DigitalLoop Model.LayerRule.
Local Open Scope string_scope.
Definition counted_pinned (d : descr) : bool :=
  andb (String.eqb (d_name d) "barrier") (String.eqb (upper (str_strip (str_of (d_label d)))) "SAMPLE_OBSERVABLES").
Lemma C16_pinned_count_refuted : exists d, counted_pinned d = true /\ sampling_label d = false.
Proof. exists {| d_name := "barrier"; d_label := Some " sample_observables "; d_nq := 2; d_q0 := 0; d_q1 := 1 |}. vm_compute. split; reflexivity. Qed.
