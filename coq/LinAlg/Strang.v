(* C01 / C05 / C07 — symmetric compositions of exponentials are exact through second order in the step.
   Setting: any (non-commutative) ring R; a quantity a0 + dt*a1 + dt^2*a2 is the triple (a0, a1, 2*a2) — the last entry is TWICE the
   second-order coefficient, so that no 1/2 is needed in R — and products drop dt^3.
     texp X = (1, X, X*X)                       exp(dt*X) = 1 + dt*X + dt^2*X^2/2
   Theorems (componentwise equality):
     strang        texp C * texp B * texp C = texp (C + C + B)                       (half step, full step, half step)
     lie           texp A * texp B agrees with texp (A + B) in orders 0 and 1; the doubled second-order defect is A*B - B*A
     palindrome    for every list of generators, the forward product of texp C_i followed by the backward product
                   equals texp (sum_i (C_i + C_i)): a sweep followed by its mirror image — the structure of the TDVP time step and of
                   the order-2 trajectory pipeline — is second-order accurate, whatever the number and non-commutativity of the terms. *)
From Coq Require Import List Setoid Morphisms.
From Coq Require Import Ncring Ncring_tac.
Import ListNotations.

Section Strang.
Context {R : Type} {ring0 ring1 : R} {add mul sub : R -> R -> R} {opp : R -> R} {req : R -> R -> Prop}.
Context {Rops : @Ring_ops R ring0 ring1 add mul sub opp req}.
Context {Rr : Ring (Ro:=Rops)}.

Definition trip := (R * R * R)%type.
Definition t0 (x : trip) := fst (fst x).
Definition t1 (x : trip) := snd (fst x).
Definition t2 (x : trip) := snd x.
Definition teq (x y : trip) : Prop := t0 x == t0 y /\ t1 x == t1 y /\ t2 x == t2 y.
Definition tmul (x y : trip) : trip :=
  (t0 x * t0 y, t0 x * t1 y + t1 x * t0 y, t0 x * t2 y + (t1 x * t1 y + t1 x * t1 y) + t2 x * t0 y).
Definition tone : trip := (1, 0, 0).
Definition texp (X : R) : trip := (1, X, X * X).

Lemma teq_refl x : teq x x.
Proof. repeat split; reflexivity. Qed.
Lemma teq_trans x y z : teq x y -> teq y z -> teq x z.
Proof. intros (a & b & c) (d & e & f). repeat split; etransitivity; eassumption. Qed.
Lemma tmul_compat x x' y y' : teq x x' -> teq y y' -> teq (tmul x y) (tmul x' y').
Proof. intros (a & b & c) (d & e & f). unfold teq, tmul, t0, t1, t2 in *. cbn [fst snd] in *.
  repeat split; rewrite ?a, ?b, ?c, ?d, ?e, ?f; reflexivity. Qed.
Lemma texp_compat X Y : X == Y -> teq (texp X) (texp Y).
Proof. intro H. unfold teq, texp, t0, t1, t2. cbn [fst snd]. repeat split; rewrite ?H; reflexivity. Qed.
Lemma tmul_assoc x y z : teq (tmul (tmul x y) z) (tmul x (tmul y z)).
Proof. unfold teq, tmul, t0, t1, t2. cbn [fst snd]. repeat split; non_commutative_ring. Qed.
Lemma tmul_one_l x : teq (tmul tone x) x.
Proof. unfold teq, tmul, tone, t0, t1, t2. cbn [fst snd]. repeat split; non_commutative_ring. Qed.

Theorem strang C B : teq (tmul (tmul (texp C) (texp B)) (texp C)) (texp (C + C + B)).
Proof. unfold teq, tmul, texp, t0, t1, t2. cbn [fst snd]. repeat split; non_commutative_ring. Qed.

Theorem lie A B :
  t0 (tmul (texp A) (texp B)) == t0 (texp (A + B)) /\ t1 (tmul (texp A) (texp B)) == t1 (texp (A + B)) /\
  t2 (tmul (texp A) (texp B)) - t2 (texp (A + B)) == A * B - B * A.
Proof. unfold tmul, texp, t0, t1, t2. cbn [fst snd]. repeat split; non_commutative_ring. Qed.

Fixpoint tprod (l : list R) : trip := match l with [] => tone | c :: r => tmul (texp c) (tprod r) end.
Fixpoint dsum (l : list R) : R := match l with [] => 0 | c :: r => (c + c) + dsum r end.
Lemma tprod_app a b : teq (tprod (a ++ b)) (tmul (tprod a) (tprod b)).
Proof. induction a as [|c a IH]; cbn [app tprod].
  - apply teq_trans with (tprod b); [apply teq_refl|]. unfold teq. destruct (tmul_one_l (tprod b)) as (x & y & z). repeat split; symmetry; assumption.
  - eapply teq_trans; [apply tmul_compat; [apply teq_refl|exact IH]|].
    unfold teq. destruct (tmul_assoc (texp c) (tprod a) (tprod b)) as (x & y & z). repeat split; symmetry; assumption. Qed.
Lemma texp_zero : teq (texp 0) tone.
Proof. unfold teq, texp, tone, t0, t1, t2. cbn [fst snd]. repeat split; non_commutative_ring. Qed.

Theorem palindrome l : teq (tmul (tprod l) (tprod (rev l))) (texp (dsum l)).
Proof. induction l as [|c l IH]; cbn [rev tprod dsum].
  - eapply teq_trans; [apply tmul_one_l|]. destruct texp_zero as (x & y & z). repeat split; symmetry; assumption.
  - (* (texp c * P) * (Q ++ [c])  =  texp c * (P * Q) * texp c *)
    eapply teq_trans; [apply tmul_compat; [apply teq_refl|apply tprod_app]|]. cbn [tprod].
    set (P := tprod l) in *. set (Q := tprod (rev l)) in *.
    assert (E : teq (tmul (tmul (texp c) P) (tmul Q (tmul (texp c) tone))) (tmul (tmul (texp c) (tmul P Q)) (texp c))).
    { unfold teq, tmul, tone, texp, t0, t1, t2. cbn [fst snd]. repeat split; non_commutative_ring. }
    eapply teq_trans; [exact E|].
    eapply teq_trans; [apply tmul_compat; [apply tmul_compat; [apply teq_refl|exact IH]|apply teq_refl]|].
    eapply teq_trans; [apply strang|]. apply texp_compat. non_commutative_ring. Qed.
End Strang.
From Coq Require Import ZArith Ncring_initial.
Example strang_nonvacuous : tmul (tprod [1%Z; 2%Z]) (tprod (rev [1%Z; 2%Z])) = texp 6%Z.
Proof. vm_compute. reflexivity. Qed.
