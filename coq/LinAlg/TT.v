(* Tensor trains over an abstract commutative ring with an involution (conjugation): amplitude semantics by iterated
   bounded sums.  Any length, any bond dimensions, any physical dimensions.  Used by C10 (gauge moves), C12 (sampling),
   C11/C01 (the norm at the centre is the global norm). *)
From Coq Require Import List Arith Lia Ring Bool.
Import ListNotations.

Section TT.
Variable K : Type.
Variables (k0 k1 : K) (kadd kmul ksub : K -> K -> K) (kopp : K -> K) (cj : K -> K).
Hypothesis Kring : ring_theory k0 k1 kadd kmul ksub kopp (@eq K).
Hypothesis cj_add : forall a b, cj (kadd a b) = kadd (cj a) (cj b).
Hypothesis cj_mul : forall a b, cj (kmul a b) = kmul (cj a) (cj b).
Hypothesis cj_0 : cj k0 = k0.
Add Ring KR : Kring.
Notation "x + y" := (kadd x y). Notation "x * y" := (kmul x y).

Fixpoint bsum (n : nat) (f : nat -> K) : K := match n with O => k0 | S n' => bsum n' f + f n' end.
Lemma bsum_ext n f g : (forall i, i < n -> f i = g i) -> bsum n f = bsum n g.
Proof. induction n as [|n IH]; intro H; simpl; auto. rewrite IH, H; auto. Qed.
Lemma bsum_add n f g : bsum n (fun i => f i + g i) = bsum n f + bsum n g.
Proof. induction n as [|n IH]; simpl; [ring|rewrite IH; ring]. Qed.
Lemma bsum_zero n : bsum n (fun _ => k0) = k0.
Proof. induction n as [|n IH]; simpl; [reflexivity|rewrite IH; ring]. Qed.
Lemma bsum_mul_l n c f : bsum n (fun i => c * f i) = c * bsum n f.
Proof. induction n as [|n IH]; simpl; [ring|rewrite IH; ring]. Qed.
Lemma bsum_mul_r n c f : bsum n (fun i => f i * c) = bsum n f * c.
Proof. induction n as [|n IH]; simpl; [ring|rewrite IH; ring]. Qed.
Lemma bsum_swap m n (f : nat -> nat -> K) : bsum m (fun i => bsum n (fun j => f i j)) = bsum n (fun j => bsum m (fun i => f i j)).
Proof. induction m as [|m IH]; simpl; [rewrite bsum_zero; reflexivity|rewrite IH, <- bsum_add; reflexivity]. Qed.
Lemma cj_bsum n f : cj (bsum n f) = bsum n (fun i => cj (f i)).
Proof. induction n as [|n IH]; simpl; [apply cj_0|rewrite cj_add, IH; reflexivity]. Qed.
Lemma bsum_delta n l (g : nat -> K) : l < n -> bsum n (fun l' => (if Nat.eqb l l' then k1 else k0) * g l') = g l.
Proof. induction n as [|n IH]; intro H; [lia|]. simpl. destruct (Nat.eqb_spec l n) as [->|Ne].
  - rewrite (bsum_ext n _ (fun _ => k0)); [rewrite bsum_zero; ring|]. intros i Hi. destruct (Nat.eqb_spec n i); [lia|ring].
  - rewrite IH by lia. ring. Qed.
(* a sum over a longer range whose extra terms vanish *)
Lemma bsum_extend n m f : n <= m -> (forall i, n <= i -> i < m -> f i = k0) -> bsum m f = bsum n f.
Proof. intros H Z. induction m as [|m IH]; [assert (n = 0) by lia; subst; reflexivity|].
  destruct (Nat.eq_dec n (S m)) as [->|Ne]; [reflexivity|]. simpl. rewrite IH by (try lia; intros; apply Z; lia).
  rewrite (Z m) by lia. ring. Qed.

(* a site tensor: physical dimension, left and right bond dimension, entries A p l r *)
Record site := { d : nat; chiL : nat; chiR : nat; A : nat -> nat -> nat -> K }.
Definition vec := nat -> K.
Definition step (v : vec) (s : site) (p : nat) : vec := fun r => bsum (chiL s) (fun l => v l * A s p l r).
Fixpoint run (v : vec) (ss : list site) (sigma : list nat) : vec :=
  match ss, sigma with s :: ss', p :: sigma' => run (step v s p) ss' sigma' | _, _ => v end.
Definition e0 : vec := fun l => match l with O => k1 | _ => k0 end.
(* amplitude of the basis string sigma (one digit per site) *)
Definition amp (ss : list site) (sigma : list nat) : K := run e0 ss sigma 0.

Lemma step_ext v w s p : (forall l, v l = w l) -> forall r, step v s p r = step w s p r.
Proof. intros H r. unfold step. apply bsum_ext. intros l _. rewrite H. reflexivity. Qed.
Lemma run_ext ss : forall v w sigma, (forall l, v l = w l) -> forall r, run v ss sigma r = run w ss sigma r.
Proof. induction ss as [|s ss IH]; intros v w sigma H r; simpl; [destruct sigma; apply H|].
  destruct sigma as [|p sigma]; [apply H|]. apply IH. intro l. apply step_ext, H. Qed.

(* ---- gauge move to the right: site s1 = Q . R, the next site absorbs R (QR or SVD, any inner dimension m) ---- *)
Definition factors (s1 q : site) (R : nat -> nat -> K) (m : nat) : Prop :=
  chiL q = chiL s1 /\ chiR q = m /\ forall p l r, A s1 p l r = bsum m (fun k => A q p l k * R k r).
Definition absorb (R : nat -> nat -> K) (m : nat) (s2 : site) : site :=
  {| d := d s2; chiL := m; chiR := chiR s2; A := fun p k r => bsum (chiL s2) (fun j => R k j * A s2 p j r) |}.
Lemma two_step s1 s2 q R m v p1 p2 : factors s1 q R m -> chiR s1 = chiL s2 ->
  forall r, step (step v q p1) (absorb R m s2) p2 r = step (step v s1 p1) s2 p2 r.
Proof. intros (HL & HR & HA) Hc r. unfold step, absorb; cbn [chiL chiR A]. rewrite HL.
  transitivity (bsum m (fun k => bsum (chiL s2) (fun j => bsum (chiL s1) (fun l => v l * A q p1 l k * (R k j * A s2 p2 j r))))).
  { apply bsum_ext; intros k _. rewrite <- bsum_mul_l. apply bsum_ext; intros j _. rewrite <- bsum_mul_r. reflexivity. }
  rewrite bsum_swap. apply bsum_ext; intros j _. rewrite <- bsum_mul_r.
  rewrite bsum_swap. apply bsum_ext; intros l _.
  rewrite HA. rewrite <- bsum_mul_l, <- bsum_mul_r. apply bsum_ext; intros k _. ring. Qed.
Theorem gauge_move_preserves pre s1 s2 post q R m : factors s1 q R m -> chiR s1 = chiL s2 ->
  forall sigma, length sigma = length (pre ++ s1 :: s2 :: post) ->
  amp (pre ++ q :: absorb R m s2 :: post) sigma = amp (pre ++ s1 :: s2 :: post) sigma.
Proof. intros HF Hc. unfold amp. generalize e0. induction pre as [|s pre IH]; intros v sigma HL.
  - destruct sigma as [|p1 [|p2 sigma]]; simpl in HL; try lia. cbn [app run].
    apply run_ext. intro l. apply two_step; assumption.
  - destruct sigma as [|p sigma]; simpl in HL; [lia|]. cbn [app run]. apply IH. simpl; lia. Qed.

(* ---- gauge move to the left: site s2 = R . Q, the previous site absorbs R on its right bond ---- *)
Definition factors_l (s2 q : site) (R : nat -> nat -> K) (m : nat) : Prop :=
  chiR q = chiR s2 /\ chiL q = m /\ forall p l r, A s2 p l r = bsum m (fun k => R l k * A q p k r).
Definition absorb_r (R : nat -> nat -> K) (m : nat) (s1 : site) : site :=
  {| d := d s1; chiL := chiL s1; chiR := m; A := fun p l k => bsum (chiR s1) (fun j => A s1 p l j * R j k) |}.
Lemma two_step_l s1 s2 q R m v p1 p2 : factors_l s2 q R m -> chiR s1 = chiL s2 ->
  forall r, step (step v (absorb_r R m s1) p1) q p2 r = step (step v s1 p1) s2 p2 r.
Proof. intros (HR & HL & HA) Hc r. unfold step, absorb_r; cbn [chiL chiR A]. rewrite HL.
  transitivity (bsum m (fun k => bsum (chiL s1) (fun l => bsum (chiR s1) (fun j => v l * (A s1 p1 l j * R j k) * A q p2 k r)))).
  { apply bsum_ext; intros k _. rewrite <- bsum_mul_r. apply bsum_ext; intros l _. rewrite <- bsum_mul_l, <- bsum_mul_r.
    apply bsum_ext; intros j _. ring. }
  rewrite <- Hc.
  transitivity (bsum (chiR s1) (fun j => bsum (chiL s1) (fun l => v l * A s1 p1 l j) * bsum m (fun k => R j k * A q p2 k r))).
  2:{ apply bsum_ext; intros j _. rewrite HA. reflexivity. }
  rewrite bsum_swap.
  rewrite (bsum_ext (chiL s1) _ (fun l => bsum (chiR s1) (fun j => bsum m (fun k => v l * (A s1 p1 l j * R j k) * A q p2 k r)))) by (intros; apply bsum_swap).
  rewrite bsum_swap. apply bsum_ext; intros j _. rewrite <- bsum_mul_r.
  apply bsum_ext; intros l _. rewrite <- bsum_mul_l. apply bsum_ext; intros k _. ring. Qed.
Theorem gauge_move_left_preserves pre s1 s2 post q R m : factors_l s2 q R m -> chiR s1 = chiL s2 ->
  forall sigma, length sigma = length (pre ++ s1 :: s2 :: post) ->
  amp (pre ++ absorb_r R m s1 :: q :: post) sigma = amp (pre ++ s1 :: s2 :: post) sigma.
Proof. intros HF Hc. unfold amp. generalize e0. induction pre as [|s pre IH]; intros v sigma HL.
  - destruct sigma as [|p1 [|p2 sigma]]; simpl in HL; try lia. cbn [app run].
    apply run_ext. intro l. apply two_step_l; assumption.
  - destruct sigma as [|p sigma]; simpl in HL; [lia|]. cbn [app run]. apply IH. simpl; lia. Qed.

(* ---- scaling one site scales every amplitude (normalisation only rescales) ---- *)
Definition scale_site (c : K) (s : site) : site := {| d := d s; chiL := chiL s; chiR := chiR s; A := fun p l r => c * A s p l r |}.
Lemma step_scale c v s p r : step v (scale_site c s) p r = c * step v s p r.
Proof. unfold step, scale_site; cbn [chiL A]. rewrite <- bsum_mul_l. apply bsum_ext; intros; ring. Qed.
Lemma run_scale ss : forall c v sigma r, run (fun l => c * v l) ss sigma r = c * run v ss sigma r.
Proof. induction ss as [|s ss IH]; intros c v sigma r; simpl; [destruct sigma; reflexivity|].
  destruct sigma as [|p sigma]; [reflexivity|]. rewrite <- IH. apply run_ext. intro l. unfold step.
  rewrite <- bsum_mul_l. apply bsum_ext; intros; ring. Qed.
Theorem scale_preserves_direction pre s post c sigma : length sigma = length (pre ++ s :: post) ->
  amp (pre ++ scale_site c s :: post) sigma = c * amp (pre ++ s :: post) sigma.
Proof. unfold amp. generalize e0. revert sigma. induction pre as [|x pre IH]; intros sigma v HL.
  - destruct sigma as [|p sigma]; simpl in HL; [lia|]. cbn [app run]. rewrite <- run_scale. apply run_ext. intro l. apply step_scale.
  - destruct sigma as [|p sigma]; simpl in HL; [lia|]. cbn [app run]. apply IH. simpl in *; lia. Qed.

(* ---- sampling: for a right-isometric site the outcome weights add up to the weight of the incoming vector ---- *)
Definition nrm2 (n : nat) (v : vec) : K := bsum n (fun r => v r * cj (v r)).
Definition right_iso (s : site) : Prop := forall l l', l < chiL s -> l' < chiL s ->
  bsum (d s) (fun p => bsum (chiR s) (fun r => A s p l r * cj (A s p l' r))) = if Nat.eqb l l' then k1 else k0.
Theorem outcome_weights_sum v s : right_iso s -> bsum (d s) (fun p => nrm2 (chiR s) (step v s p)) = nrm2 (chiL s) v.
Proof. intro Iso. unfold nrm2, step.
  transitivity (bsum (chiL s) (fun l => bsum (chiL s) (fun l' => v l * cj (v l') * bsum (d s) (fun p => bsum (chiR s) (fun r => A s p l r * cj (A s p l' r)))))).
  { transitivity (bsum (d s) (fun p => bsum (chiR s) (fun r => bsum (chiL s) (fun l => bsum (chiL s) (fun l' => v l * cj (v l') * (A s p l r * cj (A s p l' r))))))).
    - apply bsum_ext; intros p _. apply bsum_ext; intros r _. rewrite cj_bsum. rewrite <- bsum_mul_r. apply bsum_ext; intros l _.
      rewrite <- bsum_mul_l. apply bsum_ext; intros l' _. rewrite cj_mul. ring.
    - rewrite (bsum_ext (d s) _ (fun p => bsum (chiL s) (fun l => bsum (chiR s) (fun r => bsum (chiL s) (fun l' => v l * cj (v l') * (A s p l r * cj (A s p l' r))))))) by (intros; apply bsum_swap).
      rewrite bsum_swap. apply bsum_ext; intros l _.
      rewrite (bsum_ext (d s) _ (fun p => bsum (chiL s) (fun l' => bsum (chiR s) (fun r => v l * cj (v l') * (A s p l r * cj (A s p l' r)))))) by (intros; apply bsum_swap).
      rewrite bsum_swap. apply bsum_ext; intros l' _. rewrite <- bsum_mul_l. apply bsum_ext; intros p _. rewrite <- bsum_mul_l. reflexivity. }
  apply bsum_ext; intros l Hl.
  rewrite (bsum_ext (chiL s) _ (fun l' => (if Nat.eqb l l' then k1 else k0) * (v l * cj (v l')))).
  - apply bsum_delta; auto.
  - intros l' Hl'. rewrite Iso by auto. ring. Qed.

(* total Born weight of all completions of a partial outcome, for a right-canonical remainder of the chain *)
Fixpoint chained (ss : list site) : Prop :=
  match ss with s1 :: ((s2 :: _) as r) => chiR s1 = chiL s2 /\ chained r | _ => True end.
Fixpoint total (chi_end : nat) (ss : list site) (v : vec) : K :=
  match ss with [] => nrm2 chi_end v | s :: r => bsum (d s) (fun p => total chi_end r (step v s p)) end.
Fixpoint ends_with (chi : nat) (ss : list site) : Prop :=
  match ss with [] => True | s :: r => match r with [] => chiR s = chi | _ => ends_with chi r end end.
Definition first_chi (chi : nat) (ss : list site) : nat := match ss with s :: _ => chiL s | [] => chi end.
Theorem completions_weight chi_end ss : forall v, chained ss -> ends_with chi_end ss -> Forall right_iso ss ->
  total chi_end ss v = nrm2 (first_chi chi_end ss) v.
Proof. induction ss as [|s r IH]; intros v Hc He Hi; [reflexivity|].
  inversion Hi as [|? ? Is Ir]; subst. cbn [total first_chi].
  destruct r as [|s2 r'].
  - cbn [total]. cbn [ends_with] in He. rewrite <- He. apply outcome_weights_sum. exact Is.
  - destruct Hc as [Hc1 Hc2]. cbn [ends_with] in He.
    rewrite (bsum_ext (d s) _ (fun p => nrm2 (chiL s2) (step v s p))).
    + rewrite <- Hc1. apply outcome_weights_sum. exact Is.
    + intros p _. exact (IH (step v s p) Hc2 He Ir). Qed.

(* ---- expectation values: for a chain that is left-isometric before site s and right-isometric after it, the expectation value of
   an operator on site s, summed over ALL basis strings, equals the contraction of the centre tensor alone (C11) ---- *)
Hypothesis cj_1 : cj k1 = k1.
Definition ip (n : nat) (v w : vec) : K := bsum n (fun r => v r * cj (w r)).
Definition left_iso (s : site) : Prop := forall r r', r < chiR s -> r' < chiR s ->
  bsum (d s) (fun p => bsum (chiL s) (fun l => A s p l r * cj (A s p l r'))) = if Nat.eqb r r' then k1 else k0.
(* chain of sites leading from bond dimension chi0 to bond dimension chi *)
Fixpoint lchain (chi0 : nat) (ss : list site) (chi : nat) : Prop :=
  match ss with [] => chi0 = chi | s :: r => chiL s = chi0 /\ lchain (chiR s) r chi end.
Lemma lchain_snoc ss : forall chi0 s chi, lchain chi0 (ss ++ [s]) chi <-> exists m, lchain chi0 ss m /\ chiL s = m /\ chiR s = chi.
Proof. induction ss as [|x ss IH]; intros chi0 s chi; cbn [app lchain].
  - split; [intros [H1 H2]; exists chi0; auto|intros (m & <- & H2 & H3); auto].
  - rewrite IH. split; [intros (H1 & m & H2); exists m; tauto|intros (m & (H1 & H2) & H3); split; [exact H1|exists m; tauto]]. Qed.

(* the overlap of two vectors pushed through one more site, written over the incoming vectors *)
Lemma ip_step v w s p p' : ip (chiR s) (step v s p') (step w s p) =
  bsum (chiL s) (fun l => bsum (chiL s) (fun l' => v l * cj (w l') * bsum (chiR s) (fun r => A s p' l r * cj (A s p l' r)))).
Proof. unfold ip, step.
  transitivity (bsum (chiR s) (fun r => bsum (chiL s) (fun l => bsum (chiL s) (fun l' => v l * cj (w l') * (A s p' l r * cj (A s p l' r)))))).
  - apply bsum_ext; intros r _. rewrite cj_bsum. rewrite <- bsum_mul_r. apply bsum_ext; intros l _.
    rewrite <- bsum_mul_l. apply bsum_ext; intros l' _. rewrite cj_mul. ring.
  - rewrite bsum_swap. apply bsum_ext; intros l _. rewrite bsum_swap. apply bsum_ext; intros l' _. rewrite <- bsum_mul_l. reflexivity. Qed.

Lemma right_iso_ip v w s : right_iso s -> bsum (d s) (fun p => ip (chiR s) (step v s p) (step w s p)) = ip (chiL s) v w.
Proof. intro Iso. rewrite (bsum_ext (d s) _ (fun p => bsum (chiL s) (fun l => bsum (chiL s) (fun l' => v l * cj (w l') * bsum (chiR s) (fun r => A s p l r * cj (A s p l' r))))))
    by (intros; apply ip_step).
  rewrite bsum_swap. unfold ip. apply bsum_ext; intros l Hl.
  rewrite bsum_swap.
  rewrite (bsum_ext (chiL s) _ (fun l' => (if Nat.eqb l l' then k1 else k0) * (v l * cj (w l')))).
  - apply bsum_delta; auto.
  - intros l' Hl'. rewrite bsum_mul_l. rewrite Iso by auto. ring. Qed.

(* overlap summed over all completions of the chain to the right *)
Fixpoint total2 (chi_end : nat) (ss : list site) (v w : vec) : K :=
  match ss with [] => ip chi_end v w | s :: r => bsum (d s) (fun p => total2 chi_end r (step v s p) (step w s p)) end.
Theorem completions_ip chi_end ss : forall chi0 v w, lchain chi0 ss chi_end -> Forall right_iso ss -> total2 chi_end ss v w = ip chi0 v w.
Proof. induction ss as [|s r IH]; intros chi0 v w Hc Hi; cbn [total2 lchain] in *; [rewrite Hc; reflexivity|].
  destruct Hc as [H1 H2]. inversion Hi as [|? ? Is Ir]; subst.
  rewrite (bsum_ext (d s) _ (fun p => ip (chiR s) (step v s p) (step w s p))) by (intros; apply (IH (chiR s)); auto).
  apply right_iso_ip. exact Is. Qed.

(* a function of the vector at a bond, summed over all outcomes of the sites to its left *)
Fixpoint lsum (ss : list site) (v : vec) (F : vec -> K) : K :=
  match ss with [] => F v | s :: r => bsum (d s) (fun p => lsum r (step v s p) F) end.
Lemma lsum_ext ss : forall v F G, (forall w, F w = G w) -> lsum ss v F = lsum ss v G.
Proof. induction ss as [|s r IH]; intros v F G H; cbn [lsum]; [apply H|]. apply bsum_ext; intros p _. apply IH. exact H. Qed.
Lemma lsum_app a : forall b v F, lsum (a ++ b) v F = lsum a v (fun w => lsum b w F).
Proof. induction a as [|s a IH]; intros b v F; cbn [app lsum]; [reflexivity|]. apply bsum_ext; intros p _. apply IH. Qed.
(* quadratic forms  Q_M(v) = sum_{l,l'} v_l conj(v_l') M_{l l'} *)
Definition qform (n : nat) (M : nat -> nat -> K) (v : vec) : K := bsum n (fun l => bsum n (fun l' => v l * cj (v l') * M l l')).
Definition pull (s : site) (M : nat -> nat -> K) : nat -> nat -> K :=
  fun l l' => bsum (d s) (fun p => bsum (chiR s) (fun r => bsum (chiR s) (fun r' => A s p l r * cj (A s p l' r') * M r r'))).
Lemma qform_step s M v : bsum (d s) (fun p => qform (chiR s) M (step v s p)) = qform (chiL s) (pull s M) v.
Proof. unfold qform, pull, step.
  transitivity (bsum (d s) (fun p => bsum (chiR s) (fun r => bsum (chiR s) (fun r' => bsum (chiL s) (fun l => bsum (chiL s) (fun l' =>
      v l * cj (v l') * (A s p l r * cj (A s p l' r') * M r r'))))))).
  - apply bsum_ext; intros p _. apply bsum_ext; intros r _. apply bsum_ext; intros r' _.
    rewrite cj_bsum. rewrite <- bsum_mul_r, <- bsum_mul_r. apply bsum_ext; intros l _.
    rewrite <- bsum_mul_l, <- bsum_mul_r. apply bsum_ext; intros l' _. rewrite cj_mul. ring.
  - transitivity (bsum (chiL s) (fun l => bsum (chiL s) (fun l' => bsum (d s) (fun p => bsum (chiR s) (fun r => bsum (chiR s) (fun r' =>
      v l * cj (v l') * (A s p l r * cj (A s p l' r') * M r r'))))))).
    + rewrite (bsum_ext (d s) _ (fun p => bsum (chiL s) (fun l => bsum (chiL s) (fun l' => bsum (chiR s) (fun r => bsum (chiR s) (fun r' =>
        v l * cj (v l') * (A s p l r * cj (A s p l' r') * M r r'))))))).
      * rewrite bsum_swap. apply bsum_ext; intros l _. rewrite bsum_swap. reflexivity.
      * intros p _.
        rewrite (bsum_ext (chiR s) _ (fun r => bsum (chiL s) (fun l => bsum (chiL s) (fun l' => bsum (chiR s) (fun r' =>
          v l * cj (v l') * (A s p l r * cj (A s p l' r') * M r r')))))).
        -- rewrite bsum_swap. apply bsum_ext; intros l _. rewrite bsum_swap. reflexivity.
        -- intros r _. rewrite bsum_swap. apply bsum_ext; intros l _. rewrite bsum_swap. reflexivity.
    + apply bsum_ext; intros l _. apply bsum_ext; intros l' _. rewrite <- bsum_mul_l. apply bsum_ext; intros p _.
      rewrite <- bsum_mul_l. apply bsum_ext; intros r _. rewrite <- bsum_mul_l. reflexivity. Qed.
Definition tr (n : nat) (M : nat -> nat -> K) : K := bsum n (fun l => M l l).
Lemma pull_trace s M : left_iso s -> tr (chiL s) (pull s M) = tr (chiR s) M.
Proof. intro Iso. unfold tr, pull.
  transitivity (bsum (chiR s) (fun r => bsum (chiR s) (fun r' => M r r' * bsum (d s) (fun p => bsum (chiL s) (fun l => A s p l r * cj (A s p l r')))))).
  - rewrite (bsum_ext (chiL s) _ (fun l => bsum (chiR s) (fun r => bsum (chiR s) (fun r' => bsum (d s) (fun p => M r r' * (A s p l r * cj (A s p l r'))))))).
    + rewrite bsum_swap. apply bsum_ext; intros r _. rewrite bsum_swap. apply bsum_ext; intros r' _.
      rewrite bsum_swap. rewrite <- bsum_mul_l. apply bsum_ext; intros p _. rewrite <- bsum_mul_l. reflexivity.
    + intros l _. rewrite bsum_swap. apply bsum_ext; intros r _. rewrite bsum_swap. apply bsum_ext; intros r' _.
      apply bsum_ext; intros p _. ring.
  - apply bsum_ext; intros r Hr.
    rewrite (bsum_ext (chiR s) _ (fun r' => (if Nat.eqb r r' then k1 else k0) * M r r')).
    + apply bsum_delta; auto.
    + intros r' Hr'. rewrite Iso by auto. ring. Qed.

(* the left environment is the identity: summed over all outcomes of a left-isometric prefix starting at bond dimension 1, a
   quadratic form of the vector at the bond is the trace of its matrix *)
Theorem left_environment pre : forall chi M, lchain 1 pre chi -> Forall left_iso pre -> lsum pre e0 (qform chi M) = tr chi M.
Proof. induction pre as [|s pre IH] using rev_ind; intros chi M Hc Hi.
  - cbn [lsum lchain] in *. subst chi. unfold qform, tr. cbn [bsum e0]. rewrite cj_1. ring.
  - apply lchain_snoc in Hc as (m & Hc & H1 & H2). apply Forall_app in Hi as [Hi Hs]. inversion Hs as [|? ? Is _]; subst.
    rewrite lsum_app. cbn [lsum].
    rewrite (lsum_ext pre e0 _ (qform (chiL s) (pull s M))) by (intro w; apply qform_step).
    rewrite (IH (chiL s) (pull s M) Hc Hi). apply pull_trace. exact Is. Qed.

(* dense definition of <psi| O_s |psi> for the chain pre ++ s :: post (all basis strings) = contraction of the centre tensor *)
Definition dense_expect (pre : list site) (s : site) (post : list site) (O : nat -> nat -> K) : K :=
  lsum pre e0 (fun v => bsum (d s) (fun p => bsum (d s) (fun p' => O p p' * total2 1 post (step v s p') (step v s p)))).
Definition local_expect (s : site) (O : nat -> nat -> K) : K :=
  bsum (d s) (fun p => bsum (d s) (fun p' => O p p' * bsum (chiL s) (fun l => bsum (chiR s) (fun r => A s p' l r * cj (A s p l r))))).
Theorem centred_expectation pre s post O : lchain 1 pre (chiL s) -> lchain (chiR s) post 1 -> Forall left_iso pre -> Forall right_iso post ->
  dense_expect pre s post O = local_expect s O.
Proof. intros Hpre Hpost Lpre Rpost. unfold dense_expect, local_expect.
  pose (M := fun l l' => bsum (d s) (fun p => bsum (d s) (fun p' => O p p' * bsum (chiR s) (fun r => A s p' l r * cj (A s p l' r))))).
  rewrite (lsum_ext pre e0 _ (qform (chiL s) M)).
  - rewrite (left_environment pre (chiL s) M Hpre Lpre). unfold tr, M.
    rewrite bsum_swap. apply bsum_ext; intros p _. rewrite bsum_swap. apply bsum_ext; intros p' _. rewrite <- bsum_mul_l. reflexivity.
  - intro v. unfold qform, M.
    transitivity (bsum (d s) (fun p => bsum (d s) (fun p' => bsum (chiL s) (fun l => bsum (chiL s) (fun l' =>
       v l * cj (v l') * (O p p' * bsum (chiR s) (fun r => A s p' l r * cj (A s p l' r)))))))).
    + apply bsum_ext; intros p _. apply bsum_ext; intros p' _.
      rewrite (completions_ip 1 post (chiR s)) by assumption. rewrite ip_step.
      rewrite <- bsum_mul_l. apply bsum_ext; intros l _. rewrite <- bsum_mul_l. apply bsum_ext; intros l' _. ring.
    + rewrite (bsum_ext (d s) _ (fun p => bsum (chiL s) (fun l => bsum (chiL s) (fun l' => bsum (d s) (fun p' =>
         v l * cj (v l') * (O p p' * bsum (chiR s) (fun r => A s p' l r * cj (A s p l' r)))))))).
      * rewrite bsum_swap. apply bsum_ext; intros l _. rewrite bsum_swap. apply bsum_ext; intros l' _.
        rewrite <- bsum_mul_l. apply bsum_ext; intros p _. rewrite <- bsum_mul_l. reflexivity.
      * intros p _. rewrite bsum_swap. apply bsum_ext; intros l _. rewrite bsum_swap. reflexivity. Qed.

(* dense_expect really is the sum over all basis strings of conj(amplitude) . O . amplitude *)
Fixpoint sum_over (ss : list site) (F : list nat -> K) : K :=
  match ss with [] => F [] | s :: r => bsum (d s) (fun p => sum_over r (fun rho => F (p :: rho))) end.
Lemma sum_over_ext ss : forall F G, (forall rho, F rho = G rho) -> sum_over ss F = sum_over ss G.
Proof. induction ss as [|s r IH]; intros F G H; cbn [sum_over]; [apply H|]. apply bsum_ext; intros p _. apply IH. intro rho. apply H. Qed.
Lemma lsum_sum_over ss : forall v F, lsum ss v F = sum_over ss (fun tau => F (run v ss tau)).
Proof. induction ss as [|s r IH]; intros v F; cbn [lsum sum_over run]; [reflexivity|]. apply bsum_ext; intros p _. apply IH. Qed.
Lemma total2_sum_over ss : forall v w, total2 1 ss v w = sum_over ss (fun rho => run v ss rho 0 * cj (run w ss rho 0)).
Proof. induction ss as [|s r IH]; intros v w; cbn [total2 sum_over run].
  - unfold ip. cbn [bsum]. ring.
  - apply bsum_ext; intros p _. apply IH. Qed.
Lemma run_app a : forall b v tau rho, length tau = length a -> run v (a ++ b) (tau ++ rho) = run (run v a tau) b rho.
Proof. induction a as [|s a IH]; intros b v tau rho H; destruct tau as [|p tau]; try discriminate; cbn [app run]; [reflexivity|].
  apply IH. cbn in H. lia. Qed.
Theorem dense_expect_is_sum_over_strings pre s post O :
  dense_expect pre s post O =
  sum_over pre (fun tau => bsum (d s) (fun p => bsum (d s) (fun p' => sum_over post (fun rho =>
    O p p' * (run (step (run e0 pre tau) s p') post rho 0 * cj (run (step (run e0 pre tau) s p) post rho 0)))))).
Proof. unfold dense_expect. rewrite lsum_sum_over. apply sum_over_ext; intro tau. apply bsum_ext; intros p _. apply bsum_ext; intros p' _.
  rewrite total2_sum_over.
  assert (E : forall F c, c * sum_over post F = sum_over post (fun rho => c * F rho)).
  { induction post as [|x post IHp]; intros F c; cbn [sum_over]; [reflexivity|]. rewrite <- bsum_mul_l. apply bsum_ext; intros q _. apply IHp. }
  apply E. Qed.

(* two-site operators: the merged tensor of two neighbouring sites (tdvp.merge_mps_tensors) is a site whose step is the
   composition of the two steps, so the one-site statement above applies to it with the physical index q = p1 * d2 + p2 *)
Definition merge (s1 s2 : site) : site :=
  {| d := d s1 * d s2; chiL := chiL s1; chiR := chiR s2;
     A := fun q l r => bsum (chiR s1) (fun k => A s1 (q / d s2) l k * A s2 (q mod d s2) k r) |}.
Lemma step_merge v s1 s2 q r : chiR s1 = chiL s2 -> step v (merge s1 s2) q r = step (step v s1 (q / d s2)) s2 (q mod d s2) r.
Proof. intro H. unfold step, merge. cbn [chiL A]. rewrite <- H.
  rewrite (bsum_ext (chiL s1) _ (fun l => bsum (chiR s1) (fun k => v l * A s1 (q / d s2) l k * A s2 (q mod d s2) k r)))
    by (intros l _; rewrite <- bsum_mul_l; apply bsum_ext; intros k _; ring).
  rewrite bsum_swap. apply bsum_ext; intros k _. rewrite <- bsum_mul_r. reflexivity. Qed.

(* ---- truncating a singular value decomposition (C09): theta = U diag(s) V with orthonormal columns of U and rows of V.  Keeping the
   first [keep] values changes theta by exactly the weight of the discarded ones: |theta - theta_keep|^2 = sum_{k >= keep} s_k conj(s_k) ---- *)
Definition tail_ind (keep k : nat) : K := if Nat.leb keep k then k1 else k0.
Definition svd_tail (m n rank keep : nat) (U : nat -> nat -> K) (s : nat -> K) (V : nat -> nat -> K) : nat -> nat -> K :=
  fun a b => bsum rank (fun k => tail_ind keep k * (U a k * s k * V k b)).
Definition frob2 (m n : nat) (D : nat -> nat -> K) : K := bsum m (fun a => bsum n (fun b => D a b * cj (D a b))).
Lemma tail_ind_cj keep k : cj (tail_ind keep k) = tail_ind keep k.
Proof. unfold tail_ind. destruct (Nat.leb keep k); [apply cj_1|apply cj_0]. Qed.
Lemma tail_ind_idem keep k : tail_ind keep k * tail_ind keep k = tail_ind keep k.
Proof. unfold tail_ind. destruct (Nat.leb keep k); ring. Qed.
Lemma bsum_prod m n (f g : nat -> K) c : bsum m (fun a => bsum n (fun b => c * (f a * g b))) = c * (bsum m f * bsum n g).
Proof. rewrite (bsum_ext m _ (fun a => c * (f a * bsum n g))).
  - rewrite bsum_mul_l, bsum_mul_r. reflexivity.
  - intros a _. rewrite bsum_mul_l, bsum_mul_l. reflexivity. Qed.
Theorem truncation_error_is_discarded_weight m n rank keep U s V :
  (forall k k', k < rank -> k' < rank -> bsum m (fun a => U a k * cj (U a k')) = if Nat.eqb k k' then k1 else k0) ->
  (forall k k', k < rank -> k' < rank -> bsum n (fun b => V k b * cj (V k' b)) = if Nat.eqb k k' then k1 else k0) ->
  frob2 m n (svd_tail m n rank keep U s V) = bsum rank (fun k => tail_ind keep k * (s k * cj (s k))).
Proof. intros OU OV. unfold frob2, svd_tail.
  transitivity (bsum rank (fun k => bsum rank (fun k' => tail_ind keep k * tail_ind keep k' * (s k * cj (s k')) *
      (bsum m (fun a => U a k * cj (U a k')) * bsum n (fun b => V k b * cj (V k' b)))))).
  - transitivity (bsum m (fun a => bsum n (fun b => bsum rank (fun k => bsum rank (fun k' =>
        tail_ind keep k * tail_ind keep k' * (s k * cj (s k')) * ((U a k * cj (U a k')) * (V k b * cj (V k' b)))))))).
    + apply bsum_ext; intros a _. apply bsum_ext; intros b _. rewrite cj_bsum. rewrite <- bsum_mul_r. apply bsum_ext; intros k _.
      rewrite <- bsum_mul_l. apply bsum_ext; intros k' _. rewrite !cj_mul, tail_ind_cj. ring.
    + rewrite (bsum_ext m _ (fun a => bsum rank (fun k => bsum rank (fun k' => bsum n (fun b =>
        tail_ind keep k * tail_ind keep k' * (s k * cj (s k')) * ((U a k * cj (U a k')) * (V k b * cj (V k' b)))))))).
      * rewrite bsum_swap. apply bsum_ext; intros k _. rewrite bsum_swap. apply bsum_ext; intros k' _.
        exact (bsum_prod m n (fun a => U a k * cj (U a k')) (fun b => V k b * cj (V k' b)) _).
      * intros a _. rewrite bsum_swap. apply bsum_ext; intros k _. rewrite bsum_swap. reflexivity.
  - apply bsum_ext; intros k Hk.
    rewrite (bsum_ext rank _ (fun k' => (if Nat.eqb k k' then k1 else k0) * (tail_ind keep k * tail_ind keep k' * (s k * cj (s k'))))).
    + rewrite bsum_delta by exact Hk. rewrite <- tail_ind_idem at 3. ring.
    + intros k' Hk'. rewrite OU, OV by assumption. destruct (Nat.eqb k k'); ring. Qed.

(* ---- measuring in another local basis (C12): the site tensor is rotated on its physical index by a matrix with orthonormal columns;
   the rotated site is again right-isometric, so the outcome weights of the rotated basis again add up to the incoming weight ---- *)
Definition rotate (u : nat -> nat -> K) (s : site) : site :=
  {| d := d s; chiL := chiL s; chiR := chiR s; A := fun p l r => bsum (d s) (fun q => u p q * A s q l r) |}.
Theorem rotate_right_iso u s :
  (forall q q', q < d s -> q' < d s -> bsum (d s) (fun p => u p q * cj (u p q')) = if Nat.eqb q q' then k1 else k0) ->
  right_iso s -> right_iso (rotate u s).
Proof. intros Un Iso l l' Hl Hl'. unfold rotate. cbn [d chiL chiR A] in *.
  transitivity (bsum (d s) (fun q => bsum (d s) (fun q' => bsum (chiR s) (fun r => A s q l r * cj (A s q' l' r)) * bsum (d s) (fun p => u p q * cj (u p q'))))).
  - transitivity (bsum (d s) (fun p => bsum (chiR s) (fun r => bsum (d s) (fun q => bsum (d s) (fun q' =>
        (A s q l r * cj (A s q' l' r)) * (u p q * cj (u p q'))))))).
    + apply bsum_ext; intros p _. apply bsum_ext; intros r _. rewrite cj_bsum. rewrite <- bsum_mul_r. apply bsum_ext; intros q _.
      rewrite <- bsum_mul_l. apply bsum_ext; intros q' _. rewrite cj_mul. ring.
    + rewrite (bsum_ext (d s) _ (fun p => bsum (d s) (fun q => bsum (d s) (fun q' => bsum (chiR s) (fun r =>
        (A s q l r * cj (A s q' l' r)) * (u p q * cj (u p q'))))))).
      * rewrite bsum_swap. apply bsum_ext; intros q _. rewrite bsum_swap. apply bsum_ext; intros q' _.
        rewrite (bsum_ext (d s) _ (fun p => bsum (chiR s) (fun r => A s q l r * cj (A s q' l' r)) * (u p q * cj (u p q'))))
          by (intros p _; rewrite <- bsum_mul_r; reflexivity).
        rewrite bsum_mul_l. reflexivity.
      * intros p _. rewrite bsum_swap. apply bsum_ext; intros q _. rewrite bsum_swap. reflexivity.
  - rewrite <- (Iso l l' Hl Hl'). apply bsum_ext; intros q Hq.
    rewrite (bsum_ext (d s) _ (fun q' => (if Nat.eqb q q' then k1 else k0) * bsum (chiR s) (fun r => A s q l r * cj (A s q' l' r)))).
    + apply bsum_delta. exact Hq.
    + intros q' Hq'. rewrite Un by assumption. ring. Qed.
Corollary rotated_outcome_weights_sum u s v :
  (forall q q', q < d s -> q' < d s -> bsum (d s) (fun p => u p q * cj (u p q')) = if Nat.eqb q q' then k1 else k0) ->
  right_iso s -> bsum (d s) (fun p => nrm2 (chiR s) (step v (rotate u s) p)) = nrm2 (chiL s) v.
Proof. intros Un Iso. exact (outcome_weights_sum v (rotate u s) (rotate_right_iso u s Un Iso)). Qed.

(* ---- flipping the network (MPS.flip_network: sites reversed, left and right bond of every tensor exchanged) represents the same
   amplitudes, read with the string reversed (C10) ---- *)
Definition flip_site (s : site) : site := {| d := d s; chiL := chiR s; chiR := chiL s; A := fun p l r => A s p r l |}.
Definition flip (ss : list site) : list site := map flip_site (rev ss).
(* contraction from the right end: the column vector w pulled back through the chain *)
Fixpoint back (ss : list site) (sigma : list nat) (w : vec) : vec :=
  match ss, sigma with
  | s :: ss', p :: sigma' => fun l => bsum (chiR s) (fun r => A s p l r * back ss' sigma' w r)
  | _, _ => w
  end.
Lemma back_ext ss : forall sigma w w', (forall r, w r = w' r) -> forall l, back ss sigma w l = back ss sigma w' l.
Proof. induction ss as [|s ss IH]; intros sigma w w' H l; destruct sigma as [|p sigma]; cbn [back]; try apply H.
  apply bsum_ext; intros r _. rewrite (IH sigma w w' H r). reflexivity. Qed.
Lemma pairing ss : forall chi0 chi v sigma w, lchain chi0 ss chi -> length sigma = length ss ->
  bsum chi (fun r => run v ss sigma r * w r) = bsum chi0 (fun l => v l * back ss sigma w l).
Proof. induction ss as [|s ss IH]; intros chi0 chi v sigma w Hc Hl; destruct sigma as [|p sigma]; try discriminate; cbn [run back lchain] in *.
  - subst chi. reflexivity.
  - destruct Hc as [H1 H2]. rewrite (IH (chiR s) chi (step v s p) sigma w H2) by (cbn in Hl; lia). unfold step. rewrite <- H1.
    rewrite (bsum_ext (chiR s) _ (fun m => bsum (chiL s) (fun l => v l * (A s p l m * back ss sigma w m))))
      by (intros m _; rewrite <- bsum_mul_r; apply bsum_ext; intros l _; ring).
    rewrite bsum_swap. apply bsum_ext; intros l _. rewrite <- bsum_mul_l. reflexivity. Qed.
Lemma run_snoc ss : forall v sigma s p, length sigma = length ss -> forall r, run v (ss ++ [s]) (sigma ++ [p]) r = step (run v ss sigma) s p r.
Proof. induction ss as [|x ss IH]; intros v sigma s p H r; destruct sigma as [|q sigma]; try discriminate; cbn [app run]; [reflexivity|].
  apply IH. cbn in H. lia. Qed.
Lemma back_snoc ss : forall sigma s p w, length sigma = length ss -> forall l,
  back (ss ++ [s]) (sigma ++ [p]) w l = back ss sigma (fun m => bsum (chiR s) (fun r => A s p m r * w r)) l.
Proof. induction ss as [|x ss IH]; intros sigma s p w H l; destruct sigma as [|q sigma]; try discriminate; cbn [app back]; [reflexivity|].
  apply bsum_ext; intros r _. rewrite IH by (cbn in H; lia). reflexivity. Qed.
(* running through the flipped chain from the left is contracting the original chain from the right *)
Lemma run_flip ss : forall sigma v, length sigma = length ss -> forall l, run v (flip ss) (rev sigma) l = back ss sigma v l.
Proof. induction ss as [|s ss IH] using rev_ind; intros sigma v H l.
  - destruct sigma; [reflexivity|discriminate].
  - destruct sigma as [|p sigma _] using rev_ind; [rewrite app_length in H; cbn in H; lia|].
    rewrite !app_length in H. cbn in H. assert (H' : length sigma = length ss) by lia.
    unfold flip. rewrite !rev_app_distr. cbn [rev app map run]. fold (flip ss).
    rewrite back_snoc by exact H'.
    rewrite (run_ext (flip ss) (step v (flip_site s) p) (fun m => bsum (chiR s) (fun r => A s p m r * v r)) (rev sigma)).
    + apply IH. exact H'.
    + intro m. unfold step, flip_site. cbn [chiL A]. apply bsum_ext; intros r _. ring. Qed.
Theorem flip_preserves_amplitudes ss sigma : lchain 1 ss 1 -> length sigma = length ss -> amp (flip ss) (rev sigma) = amp ss sigma.
Proof. intros Hc Hl. unfold amp. rewrite run_flip by exact Hl.
  pose proof (pairing ss 1 1 e0 sigma e0 Hc Hl) as P. cbn [bsum e0] in P.
  transitivity (k0 + run e0 ss sigma 0 * k1); [|ring]. rewrite P. ring. Qed.

(* padding a bond with zero entries (MPS.pad_bond_dimension before its renormalisation) does not change any amplitude *)
Definition pad_right (extra : nat) (s : site) : site :=
  {| d := d s; chiL := chiL s; chiR := chiR s + extra; A := fun p l r => if Nat.ltb r (chiR s) then A s p l r else k0 |}.
Definition pad_left (extra : nat) (s : site) : site :=
  {| d := d s; chiL := chiL s + extra; chiR := chiR s; A := fun p l r => if Nat.ltb l (chiL s) then A s p l r else k0 |}.
Theorem pad_bond_preserves v s1 s2 extra p1 p2 r : chiR s1 = chiL s2 ->
  step (step v (pad_right extra s1) p1) (pad_left extra s2) p2 r = step (step v s1 p1) s2 p2 r.
Proof. intro H.
  transitivity (bsum (chiL s2 + extra) (fun m => step v (pad_right extra s1) p1 m * (if Nat.ltb m (chiL s2) then A s2 p2 m r else k0))); [reflexivity|].
  rewrite (bsum_extend (chiL s2) (chiL s2 + extra)).
  - unfold step at 2. apply bsum_ext; intros m Hm. rewrite (proj2 (Nat.ltb_lt m (chiL s2)) Hm). f_equal.
    unfold step, pad_right. cbn [chiL A]. apply bsum_ext; intros l _. rewrite H, (proj2 (Nat.ltb_lt m (chiL s2)) Hm). reflexivity.
  - lia.
  - intros m H1 H2. destruct (Nat.ltb_spec m (chiL s2)); [lia|]. ring. Qed.

(* ---- gate MPOs (C18, gate_library.extend_gate): an operator chain is a train whose physical index is the pair (out, in) coded as
   out * dd + in.  Padding the two halves of a two-site gate with identity tensors that pass the bond through gives the gate on the two
   outer sites and the identity on every site in between; the reversed orientation is the flipped train (flip_preserves_amplitudes). ---- *)
Definition id_site (chi dd : nat) : site :=
  {| d := dd * dd; chiL := chi; chiR := chi; A := fun p l r => if Nat.eqb (p / dd) (p mod dd) && Nat.eqb l r then k1 else k0 |}.
Definition diag (dd p : nat) : bool := Nat.eqb (p / dd) (p mod dd).
Lemma step_id v chi dd p r : r < chi -> step v (id_site chi dd) p r = if diag dd p then v r else k0.
Proof. intro Hr. unfold step, id_site, diag. cbn [chiL A]. destruct (Nat.eqb (p / dd) (p mod dd)); cbn [andb].
  - rewrite (bsum_ext chi _ (fun l => (if Nat.eqb r l then k1 else k0) * v l)).
    + apply bsum_delta. exact Hr.
    + intros l _. rewrite (Nat.eqb_sym l r). destruct (Nat.eqb r l); ring.
  - rewrite (bsum_ext chi _ (fun _ => k0)) by (intros; ring). apply bsum_zero. Qed.
Lemma step_ext_bounded v w s p : (forall l, l < chiL s -> v l = w l) -> forall r, step v s p r = step w s p r.
Proof. intros H r. unfold step. apply bsum_ext. intros l Hl. rewrite (H l Hl). reflexivity. Qed.
Lemma run_ids chi dd : forall mids v r, r < chi ->
  run v (repeat (id_site chi dd) (length mids)) mids r = if forallb (diag dd) mids then v r else k0.
Proof. induction mids as [|p mids IH]; intros v r Hr; cbn [length repeat run forallb]; [reflexivity|].
  rewrite IH by exact Hr. destruct (diag dd p) eqn:E; cbn [andb].
  - destruct (forallb (diag dd) mids); [|reflexivity]. rewrite step_id by exact Hr. rewrite E. reflexivity.
  - destruct (forallb (diag dd) mids); [|reflexivity]. rewrite step_id by exact Hr. rewrite E. reflexivity. Qed.
Theorem padded_gate_mpo t1 t2 chi dd mids p1 p2 : chiL t1 = 1 -> chiR t1 = chi -> chiL t2 = chi -> chiR t2 = 1 ->
  amp (t1 :: repeat (id_site chi dd) (length mids) ++ [t2]) (p1 :: mids ++ [p2]) =
  (if forallb (diag dd) mids then k1 else k0) * bsum chi (fun m => A t1 p1 0 m * A t2 p2 m 0).
Proof. intros H1 H2 H3 H4. unfold amp. cbn [run].
  rewrite run_app by (rewrite repeat_length; reflexivity). cbn [run].
  unfold step at 1. rewrite H3.
  rewrite (bsum_ext chi _ (fun m => (if forallb (diag dd) mids then k1 else k0) * (A t1 p1 0 m * A t2 p2 m 0))).
  - rewrite bsum_mul_l. reflexivity.
  - intros m Hm. rewrite run_ids by exact Hm. unfold step. rewrite H1. cbn [bsum e0].
    destruct (forallb (diag dd) mids); ring. Qed.

(* ---- applying a local operator (one-qubit gate, jump operator, projector) by contracting it with the site tensor acts on the
   represented vector exactly as the operator acts on that tensor factor: new_amp(.. p ..) = sum_q u[p,q] amp(.. q ..)  (C02, C14, C12) ---- *)
Lemma step_linear n (c : nat -> K) (w : nat -> vec) s p r :
  step (fun l => bsum n (fun q => c q * w q l)) s p r = bsum n (fun q => c q * step (w q) s p r).
Proof. unfold step.
  rewrite (bsum_ext (chiL s) _ (fun l => bsum n (fun q => c q * (w q l * A s p l r))))
    by (intros l _; rewrite <- bsum_mul_r; apply bsum_ext; intros q _; ring).
  rewrite bsum_swap. apply bsum_ext; intros q _. rewrite bsum_mul_l. reflexivity. Qed.
Lemma run_linear ss : forall n (c : nat -> K) (w : nat -> vec) sigma r,
  run (fun l => bsum n (fun q => c q * w q l)) ss sigma r = bsum n (fun q => c q * run (w q) ss sigma r).
Proof. induction ss as [|s ss IH]; intros n c w sigma r; destruct sigma as [|p sigma]; cbn [run]; try reflexivity.
  rewrite (run_ext ss _ (fun l => bsum n (fun q => c q * step (w q) s p l)) sigma) by (intro l; apply step_linear).
  apply IH. Qed.
Theorem local_operator_acts_on_amplitudes pre s post u spre p spost : length spre = length pre ->
  amp (pre ++ rotate u s :: post) (spre ++ p :: spost) = bsum (d s) (fun q => u p q * amp (pre ++ s :: post) (spre ++ q :: spost)).
Proof. intro H. unfold amp. rewrite run_app by exact H. cbn [run].
  rewrite (run_ext post _ (fun l => bsum (d s) (fun q => u p q * step (run e0 pre spre) s q l)) spost).
  - rewrite run_linear. apply bsum_ext; intros q _. rewrite run_app by exact H. reflexivity.
  - intro r. unfold step, rotate. cbn [chiL d A].
    rewrite (bsum_ext (chiL s) _ (fun l => bsum (d s) (fun q => u p q * (run e0 pre spre l * A s q l r))))
      by (intros l _; rewrite <- bsum_mul_l; apply bsum_ext; intros q _; ring).
    rewrite bsum_swap. apply bsum_ext; intros q _. rewrite bsum_mul_l. reflexivity. Qed.
(* ---- operators as tensor trains (C04): the physical index of an MPO site is p = o * D + i (output digit o, input digit i, both
   below D); for the merged tensor theta of update_mpo, D = dd * dd and o = (o1, o2), i = (i1, i2) (the einsum "abcd,efdg->aecbfg").
   apply_gate contracts the gate with the output digits ("ijkl,klmnop->ijmnop"), or its complex conjugate with the input digits
   when the gate comes from the second circuit.  Entry by entry this is the matrix product G . O, resp. O . G^dagger. ---- *)
Lemma bsum_plus n m f : bsum (n + m) f = bsum n f + bsum m (fun y => f (n + y)%nat).
Proof. induction m as [|m IH]; [rewrite Nat.add_0_r; cbn [bsum]; ring|].
  rewrite Nat.add_succ_r. cbn [bsum]. rewrite IH. ring. Qed.
Lemma bsum_split a b f : bsum (a * b) f = bsum a (fun x => bsum b (fun y => f (x * b + y)%nat)).
Proof. induction a as [|a IH]; [reflexivity|]. rewrite Nat.mul_succ_l, bsum_plus, IH. reflexivity. Qed.
Definition lact (U : nat -> nat -> K) (D : nat) : nat -> nat -> K :=
  fun p q => U (p / D)%nat (q / D)%nat * (if Nat.eqb (p mod D) (q mod D) then k1 else k0).
Definition ract (U : nat -> nat -> K) (D : nat) : nat -> nat -> K :=
  fun p q => (if Nat.eqb (p / D) (q / D) then k1 else k0) * cj (U (p mod D)%nat (q mod D)%nat).
Lemma divmod_digits D x y : y < D -> ((x * D + y) / D = x /\ (x * D + y) mod D = y)%nat.
Proof. intro H. assert (D <> 0)%nat by lia. split.
  - rewrite Nat.div_add_l by assumption. rewrite Nat.div_small by assumption. lia.
  - rewrite Nat.add_comm, Nat.mod_add by assumption. apply Nat.mod_small; assumption. Qed.
Lemma lact_sum U D p F : (0 < D)%nat ->
  bsum (D * D) (fun q => lact U D p q * F q) = bsum D (fun o' => U (p / D)%nat o' * F (o' * D + p mod D)%nat).
Proof. intro HD. rewrite bsum_split. apply bsum_ext; intros x _.
  assert (Hm : (p mod D < D)%nat) by (apply Nat.mod_upper_bound; lia).
  rewrite (bsum_ext D _ (fun y => (if Nat.eqb (p mod D) y then k1 else k0) * (U (p / D)%nat x * F (x * D + y)%nat))).
  - apply bsum_delta; exact Hm.
  - intros y Hy. unfold lact. destruct (divmod_digits D x y Hy) as [E1 E2]. rewrite E1, E2. ring. Qed.
Lemma ract_sum U D p F : (0 < D)%nat -> (p < D * D)%nat ->
  bsum (D * D) (fun q => ract U D p q * F q) = bsum D (fun i' => cj (U (p mod D)%nat i') * F ((p / D) * D + i')%nat).
Proof. intros HD Hp. rewrite bsum_split.
  assert (Hd : (p / D < D)%nat) by (apply Nat.div_lt_upper_bound; lia).
  rewrite (bsum_ext D _ (fun x => (if Nat.eqb (p / D) x then k1 else k0) * bsum D (fun y => cj (U (p mod D)%nat y) * F (x * D + y)%nat))).
  - apply bsum_delta; exact Hd.
  - intros x _. rewrite <- bsum_mul_l. apply bsum_ext; intros y Hy. unfold ract.
    destruct (divmod_digits D x y Hy) as [E1 E2]. rewrite E1, E2. ring. Qed.
(* left application: the entry (o, i) of the new operator is sum_o' G(o, o') * old entry (o', i) — the product G . O *)
Theorem mpo_left_application pre s post U D spre p spost : (0 < D)%nat -> d s = (D * D)%nat -> length spre = length pre ->
  amp (pre ++ rotate (lact U D) s :: post) (spre ++ p :: spost)
  = bsum D (fun o' => U (p / D)%nat o' * amp (pre ++ s :: post) (spre ++ (o' * D + p mod D)%nat :: spost)).
Proof. intros HD Hs H. rewrite local_operator_acts_on_amplitudes by exact H. rewrite Hs. apply lact_sum; exact HD. Qed.
(* right application of the conjugated gate: sum_i' old entry (o, i') * conj G(i, i') — the product O . G^dagger *)
Theorem mpo_right_application pre s post U D spre p spost : (0 < D)%nat -> d s = (D * D)%nat -> (p < D * D)%nat -> length spre = length pre ->
  amp (pre ++ rotate (ract U D) s :: post) (spre ++ p :: spost)
  = bsum D (fun i' => cj (U (p mod D)%nat i') * amp (pre ++ s :: post) (spre ++ ((p / D) * D + i')%nat :: spost)).
Proof. intros HD Hs Hp H. rewrite local_operator_acts_on_amplitudes by exact H. rewrite Hs. apply ract_sum; assumption. Qed.
(* the merged tensor of two neighbouring MPO sites with output digits grouped before input digits, and its amplitudes: the entry of
   the chain with the merged site at ((o1, o2), (i1, i2)) is the entry of the original chain at (o1, i1), (o2, i2) *)
Definition merge_mpo (dd : nat) (s1 s2 : site) : site :=
  {| d := (dd * dd) * (dd * dd); chiL := chiL s1; chiR := chiR s2;
     A := fun q l r => bsum (chiR s1) (fun k =>
            A s1 ((q / (dd * dd) / dd) * dd + (q mod (dd * dd)) / dd)%nat l k * A s2 ((q / (dd * dd) mod dd) * dd + (q mod (dd * dd)) mod dd)%nat k r) |}.
Lemma step_merge_mpo v dd s1 s2 q r : chiR s1 = chiL s2 ->
  step v (merge_mpo dd s1 s2) q r
  = step (step v s1 ((q / (dd * dd) / dd) * dd + (q mod (dd * dd)) / dd)%nat) s2 ((q / (dd * dd) mod dd) * dd + (q mod (dd * dd)) mod dd)%nat r.
Proof. intro H. unfold step, merge_mpo. cbn [chiL A]. rewrite <- H.
  set (p1 := ((q / (dd * dd) / dd) * dd + (q mod (dd * dd)) / dd)%nat). set (p2 := ((q / (dd * dd) mod dd) * dd + (q mod (dd * dd)) mod dd)%nat).
  rewrite (bsum_ext (chiL s1) _ (fun l => bsum (chiR s1) (fun k => v l * A s1 p1 l k * A s2 p2 k r)))
    by (intros l _; rewrite <- bsum_mul_l; apply bsum_ext; intros k _; ring).
  rewrite bsum_swap. apply bsum_ext; intros k _. rewrite <- bsum_mul_r. reflexivity. Qed.
Theorem merged_mpo_amplitudes pre s1 s2 post dd spre q spost : chiR s1 = chiL s2 -> length spre = length pre ->
  amp (pre ++ merge_mpo dd s1 s2 :: post) (spre ++ q :: spost)
  = amp (pre ++ s1 :: s2 :: post)
        (spre ++ ((q / (dd * dd) / dd) * dd + (q mod (dd * dd)) / dd)%nat :: ((q / (dd * dd) mod dd) * dd + (q mod (dd * dd)) mod dd)%nat :: spost).
Proof. intros Hc H. unfold amp. rewrite !run_app by exact H. cbn [run].
  apply run_ext. intro r. apply step_merge_mpo; exact Hc. Qed.
(* ---- the three ways of handing the singular values to the factors (C09): left factor U.diag(s), right factor diag(s).V, or diag(r) on
   both with s = r*r: the product of the two factors is the same matrix, entry by entry, for every kept rank ---- *)
Theorem svd_distributions keep (U : nat -> nat -> K) (s r : nat -> K) (V : nat -> nat -> K) :
  (forall k, s k = r k * r k) -> forall a b,
  bsum keep (fun k => (U a k * s k) * V k b) = bsum keep (fun k => U a k * (s k * V k b)) /\
  bsum keep (fun k => (U a k * s k) * V k b) = bsum keep (fun k => (U a k * r k) * (r k * V k b)).
Proof. intros H a b. split; apply bsum_ext; intros k _; [ring|rewrite H; ring]. Qed.
(* ---- the product of two operators given as tensor trains (C04: a long-range gate's MPO applied to the MPO held by the checker; any
   MPO-times-MPO): site by site the physical legs are contracted (output digit of the right operand = input digit of the left one)
   and the bonds are paired, (l1, l2) -> l1 * chi2 + l2.  Theorem: every entry of the product chain is the sum over the intermediate
   digit string of the products of the entries — matrix multiplication. ---- *)
Definition mpo_mul_site (dd : nat) (g m : site) : site :=
  {| d := dd * dd; chiL := chiL g * chiL m; chiR := chiR g * chiR m;
     A := fun p l r => bsum dd (fun k => A g ((p / dd) * dd + k)%nat (l / chiL m)%nat (r / chiR m)%nat
                                        * A m (k * dd + p mod dd)%nat (l mod chiL m)%nat (r mod chiR m)%nat) |}.
Definition pv (c2 : nat) (u v : vec) : vec := fun l => u (l / c2)%nat * v (l mod c2)%nat.
Lemma step_mul dd g m u v p r :
  step (pv (chiL m) u v) (mpo_mul_site dd g m) p r
  = bsum dd (fun k => pv (chiR m) (step u g ((p / dd) * dd + k)%nat) (step v m (k * dd + p mod dd)%nat) r).
Proof. unfold step at 1. unfold mpo_mul_site. cbn [chiL A]. rewrite bsum_split.
  rewrite (bsum_ext (chiL g) _ (fun l1 => bsum (chiL m) (fun l2 => bsum dd (fun k =>
     (u l1 * A g ((p / dd) * dd + k)%nat l1 (r / chiR m)%nat) * (v l2 * A m (k * dd + p mod dd)%nat l2 (r mod chiR m)%nat))))).
  2:{ intros l1 _. apply bsum_ext; intros l2 H2. unfold pv. destruct (divmod_digits (chiL m) l1 l2 H2) as [E1 E2]. rewrite E1, E2.
      rewrite <- bsum_mul_l. apply bsum_ext; intros k _. ring. }
  rewrite (bsum_ext (chiL g) _ (fun l1 => bsum dd (fun k => bsum (chiL m) (fun l2 =>
     (u l1 * A g ((p / dd) * dd + k)%nat l1 (r / chiR m)%nat) * (v l2 * A m (k * dd + p mod dd)%nat l2 (r mod chiR m)%nat)))))
    by (intros l1 _; apply bsum_swap).
  rewrite bsum_swap. apply bsum_ext; intros k _. unfold pv, step.
  rewrite <- bsum_mul_r. apply bsum_ext; intros l1 _. rewrite <- bsum_mul_l. reflexivity. Qed.

Fixpoint ksum (dd : nat) (sigma : list nat) (F : list nat -> K) : K :=
  match sigma with [] => F [] | _ :: s' => bsum dd (fun k => ksum dd s' (fun ks => F (k :: ks))) end.
Fixpoint mid_out (dd : nat) (sigma ks : list nat) : list nat :=
  match sigma, ks with p :: s', k :: ks' => ((p / dd) * dd + k)%nat :: mid_out dd s' ks' | _, _ => [] end.
Fixpoint mid_in (dd : nat) (sigma ks : list nat) : list nat :=
  match sigma, ks with p :: s', k :: ks' => (k * dd + p mod dd)%nat :: mid_in dd s' ks' | _, _ => [] end.
Fixpoint chained_from (c : nat) (ms : list site) : Prop := match ms with [] => True | m :: r => chiL m = c /\ chained_from (chiR m) r end.
Definition last_chi (c : nat) (ms : list site) : nat := fold_left (fun _ m => chiR m) ms c.
Fixpoint mul_chain (dd : nat) (gs ms : list site) : list site :=
  match gs, ms with g :: gs', m :: ms' => mpo_mul_site dd g m :: mul_chain dd gs' ms' | _, _ => [] end.
Lemma ksum_ext dd sigma : forall F G, (forall ks, F ks = G ks) -> ksum dd sigma F = ksum dd sigma G.
Proof. induction sigma as [|p s IH]; intros F G H; cbn [ksum]; [apply H|]. apply bsum_ext; intros k _. apply IH. intro ks. apply H. Qed.

Theorem mpo_product_run dd gs : forall ms sigma c2 u v r, length ms = length gs -> length sigma = length gs -> chained_from c2 ms ->
  run (pv c2 u v) (mul_chain dd gs ms) sigma r
  = ksum dd sigma (fun ks => pv (last_chi c2 ms) (run u gs (mid_out dd sigma ks)) (run v ms (mid_in dd sigma ks)) r).
Proof. induction gs as [|g gs IH]; intros ms sigma c2 u v r Hm Hs Hc.
  - destruct ms; [|discriminate]. destruct sigma; [|discriminate]. reflexivity.
  - destruct ms as [|m ms]; [discriminate|]. destruct sigma as [|p sigma]; [discriminate|].
    cbn [mul_chain run ksum]. destruct Hc as [Hc1 Hc2]. subst c2.
    rewrite (run_ext (mul_chain dd gs ms) _ (fun l => bsum dd (fun k => k1 * pv (chiR m) (step u g ((p / dd) * dd + k)%nat) (step v m (k * dd + p mod dd)%nat) l)) sigma).
    2:{ intro l. rewrite step_mul. apply bsum_ext; intros k _. ring. }
    rewrite run_linear. apply bsum_ext; intros k _.
    rewrite IH by (cbn [length] in *; try lia; exact Hc2).
    assert (E : k1 * ksum dd sigma (fun ks => pv (last_chi (chiR m) ms) (run (step u g ((p / dd) * dd + k)%nat) gs (mid_out dd sigma ks)) (run (step v m (k * dd + p mod dd)%nat) ms (mid_in dd sigma ks)) r)
                = ksum dd sigma (fun ks => pv (last_chi (chiR m) ms) (run (step u g ((p / dd) * dd + k)%nat) gs (mid_out dd sigma ks)) (run (step v m (k * dd + p mod dd)%nat) ms (mid_in dd sigma ks)) r)) by ring.
    rewrite E. apply ksum_ext. intro ks. reflexivity. Qed.

(* closed chains (boundary bonds of dimension 1): the entry of the product is the sum over intermediate strings of the products of entries *)
Theorem mpo_product_is_operator_product dd gs ms sigma : length ms = length gs -> length sigma = length gs ->
  chained_from 1 ms -> last_chi 1 ms = 1%nat ->
  amp (mul_chain dd gs ms) sigma = ksum dd sigma (fun ks => amp gs (mid_out dd sigma ks) * amp ms (mid_in dd sigma ks)).
Proof. intros Hm Hs Hc Hl. unfold amp.
  rewrite (run_ext (mul_chain dd gs ms) e0 (pv 1 e0 e0) sigma).
  - rewrite mpo_product_run by assumption. rewrite Hl. apply ksum_ext. intro ks. unfold pv. rewrite Nat.div_1_r. reflexivity.
  - intro l. unfold pv. rewrite Nat.div_1_r, Nat.mod_1_r. unfold e0 at 3. ring. Qed.
End TT.
