(* C17 — a process tensor predicts held-out interventions by linearity in every slot.
   Setting: slots take values in a space V, outcomes live in a space W with a sum and a scaling by coefficients from K (no laws are
   needed).  T : list V -> W is the true process: the outcome of a sequence of operations.  A probe family b_0 .. b_{n-1} of V with
   coefficient functionals c_j is EXPANDING for T when replacing the operation in any one slot by its expansion sum_j c_j(x) b_j does
   not change the outcome — which is what linearity of T in that slot together with x = sum_j c_j(x) b_j (informational completeness,
   C17_probe_states_complete) gives.
     tensor js      = T (b_{j1}, .., b_{jk})                       what tomography measures: one entry per probe sequence
     contract js xs = sum_{j} c_j(x1) * contract (js ++ [j]) rest   the dual-frame contraction of predict_final_state
   Theorem: T (b_js ++ xs) = contract js xs for every list xs of held-out operations, of any length. *)
From Coq Require Import List Arith.
Import ListNotations.

Section Multilinear.
Variables (K V W : Type) (wzero : W) (wadd : W -> W -> W) (scale : K -> W -> W).
Variable n : nat.
Variable b : nat -> V.
Variable c : nat -> V -> K.
Variable T : list V -> W.

Fixpoint wsum (m : nat) (f : nat -> W) : W := match m with O => wzero | S m' => wadd (wsum m' f) (f m') end.
Lemma wsum_ext m f g : (forall j, j < m -> f j = g j) -> wsum m f = wsum m g.
Proof. induction m as [|m IH]; intro H; [reflexivity|]. cbn [wsum]. rewrite IH by (intros j Hj; apply H; auto). rewrite H by auto. reflexivity. Qed.

Hypothesis expanding : forall pre x post, T (pre ++ x :: post) = wsum n (fun j => scale (c j x) (T (pre ++ b j :: post))).

Definition tensor (js : list nat) : W := T (map b js).
Fixpoint contract (js : list nat) (xs : list V) : W :=
  match xs with [] => tensor js | x :: r => wsum n (fun j => scale (c j x) (contract (js ++ [j]) r)) end.

Theorem prediction_is_contraction xs : forall js, T (map b js ++ xs) = contract js xs.
Proof. induction xs as [|x r IH]; intro js; cbn [contract].
  - rewrite app_nil_r. reflexivity.
  - rewrite expanding. apply wsum_ext. intros j _. f_equal. rewrite <- IH. rewrite map_app. cbn [map]. rewrite <- app_assoc. reflexivity. Qed.
Corollary held_out_prediction xs : T xs = contract [] xs.
Proof. exact (prediction_is_contraction xs []). Qed.
End Multilinear.

(* the hypothesis is satisfiable: the product of a list of integers is linear in every slot, the single probe 1 with coefficient x expands it *)
From Coq Require Import ZArith Lia.
Example expanding_nonvacuous :
  let T := fold_right Z.mul 1%Z in
  (forall pre x post, T (pre ++ x :: post) = wsum Z 0%Z Z.add 1 (fun j => Z.mul x (T (pre ++ 1%Z :: post)))) /\
  contract Z Z Z 0%Z Z.add Z.mul 1 (fun _ => 1%Z) (fun _ x => x) T [] [2%Z; 3%Z; 7%Z] = 42%Z.
Proof. split; [|vm_compute; reflexivity]. intros pre x post. cbn [wsum]. induction pre as [|p pre IH]; cbn [app fold_right] in *; [lia|]. rewrite IH. lia. Qed.
