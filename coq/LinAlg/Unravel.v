(* C01 / C03 — one step of the quantum-jump unravelling reproduces the Lindblad generator to first order in the step.
   Setting: any (non-commutative) ring R with an anti-involution "dag"; operators of the model are elements of R; the step length is a
   formal first-order parameter: a quantity a0 + dt*a1 is the pair (a0, a1) and products drop dt^2 (dual numbers over R).
     V        = (1, A + H)        one time step without a jump: the unitary part 1 + dt*A (A anti-self-adjoint: A = -i*Hamiltonian) times
                                  the damping 1 + dt*H, where H + H = - sum_k L_k^dag L_k (H = -1/2 sum L^dag L, L_k = sqrt(gamma_k) * jump operator)
     nojump   = V rho V^dag                                  the UNNORMALISED no-jump branch (its trace is the no-jump probability)
     jumps    = (0, sum_k L_k rho L_k^dag)                   the jump branches, each weighted with its probability dt*gamma_k*<L^dag L>
                                                             (the norm cancels: C01_branch_carries_own_rate)
   Theorem: nojump + jumps = rho + dt * ( [A, rho] + sum_k ( L_k rho L_k^dag - 1/2 { L_k^dag L_k, rho } ) ), for every list of jump operators.
   (Stated doubled, so that no 1/2 is needed in R.) *)
From Coq Require Import List Setoid Morphisms.
From Coq Require Import Ncring Ncring_tac.
Import ListNotations.

Section Unravel.
Context {R : Type} {ring0 ring1 : R} {add mul sub : R -> R -> R} {opp : R -> R} {req : R -> R -> Prop}.
Context {Rops : @Ring_ops R ring0 ring1 add mul sub opp req}.
Context {Rr : Ring (Ro:=Rops)}.
Variable dag : R -> R.
Hypothesis dag_proper : Proper (req ==> req) dag.
Hypothesis dag_add : forall a b, dag (a + b) == dag a + dag b.
Hypothesis dag_mul : forall a b, dag (a * b) == dag b * dag a.
Hypothesis dag_one : dag 1 == 1.

Definition dual := (R * R)%type.
Definition deq (x y : dual) : Prop := fst x == fst y /\ snd x == snd y.
Definition dadd (x y : dual) : dual := (fst x + fst y, snd x + snd y).
Definition dmul (x y : dual) : dual := (fst x * fst y, fst x * snd y + snd x * fst y).
Definition ddag (x : dual) : dual := (dag (fst x), dag (snd x)).

Fixpoint sumL (ls : list R) (f : R -> R) : R := match ls with [] => 0 | l :: r => f l + sumL r f end.
Definition gram (ls : list R) : R := sumL ls (fun l => dag l * l).

Lemma sumL_mul_r ls f x : sumL ls f * x == sumL ls (fun l => f l * x).
Proof. induction ls as [|l r IH]; cbn [sumL]; [non_commutative_ring|]. rewrite <- IH. non_commutative_ring. Qed.
Lemma sumL_mul_l ls f x : x * sumL ls f == sumL ls (fun l => x * f l).
Proof. induction ls as [|l r IH]; cbn [sumL]; [non_commutative_ring|]. rewrite <- IH. non_commutative_ring. Qed.
Lemma sumL_add ls f g : sumL ls f + sumL ls g == sumL ls (fun l => f l + g l).
Proof. induction ls as [|l r IH]; cbn [sumL]; [non_commutative_ring|]. rewrite <- IH. non_commutative_ring. Qed.
Lemma sumL_opp ls f : - sumL ls f == sumL ls (fun l => - f l).
Proof. induction ls as [|l r IH]; cbn [sumL]; [non_commutative_ring|]. rewrite <- IH. non_commutative_ring. Qed.

(* unitary part times damping, to first order *)
Lemma step_factor A H : deq (dmul (1, A) (1, H)) (1, A + H).
Proof. unfold deq, dmul; cbn [fst snd]. split; non_commutative_ring. Qed.

Definition nojump (A H rho : R) : dual := dmul (dmul (1, A + H) (rho, 0)) (ddag (1, A + H)).
Definition jumps (ls : list R) (rho : R) : dual := (0, sumL ls (fun l => l * rho * dag l)).
Definition average (ls : list R) (A H rho : R) : dual := dadd (nojump A H rho) (jumps ls rho).

Lemma dissipator_sum ls rho :
  (- gram ls * rho + rho * - gram ls) + (sumL ls (fun l => l * rho * dag l) + sumL ls (fun l => l * rho * dag l))
  == sumL ls (fun l => (l * rho * dag l + l * rho * dag l) - (dag l * l * rho + rho * (dag l * l))).
Proof. unfold gram. induction ls as [|l r IH]; cbn [sumL]; [non_commutative_ring|]. rewrite <- IH. non_commutative_ring. Qed.

Theorem unravelling_first_order ls A H rho :
  dag A == - A -> dag H == H -> H + H == - gram ls ->
  fst (average ls A H rho) == rho /\
  snd (average ls A H rho) + snd (average ls A H rho)
  == ((A * rho - rho * A) + (A * rho - rho * A))
     + sumL ls (fun l => (l * rho * dag l + l * rho * dag l) - (dag l * l * rho + rho * (dag l * l))).
Proof. intros HA HH HK. unfold average, nojump, jumps, dadd, dmul, ddag. cbn [fst snd]. split.
  - rewrite dag_one. non_commutative_ring.
  - rewrite dag_one, dag_add, HA, HH.
    set (J := sumL ls (fun l => l * rho * dag l)).
    assert (E : (1 * rho * (- A + H) + (1 * 0 + (A + H) * rho) * 1 + J) + (1 * rho * (- A + H) + (1 * 0 + (A + H) * rho) * 1 + J)
                == ((A * rho - rho * A) + (A * rho - rho * A)) + (((H + H) * rho + rho * (H + H)) + (J + J))) by non_commutative_ring.
    rewrite E, HK. unfold J. rewrite dissipator_sum. reflexivity. Qed.
End Unravel.
From Coq Require Import ZArith Ncring_initial.
Example unravel_nonvacuous : let r := average (fun x : Z => x) [2%Z] 0%Z (-2)%Z 3%Z in fst r = 3%Z /\ (snd r + snd r = 0)%Z.
Proof. vm_compute. split; reflexivity. Qed.
