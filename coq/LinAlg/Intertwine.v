(* C19 — on an invariant Krylov subspace the projected polynomial is exact (the "breakdown" exit of the Lanczos / Arnoldi loops).
   Setting: any (non-commutative) ring R.  V intertwines a with t when a * V = V * t:  a is the operator, V the basis of the Krylov
   space, t the small (tridiagonal / Hessenberg) matrix, all embedded in one ring (block matrices).  When the Krylov space is invariant
   the loops stop with exactly this relation (no residual term).
   Theorem: intertwining is preserved by sums, products and powers, hence by every polynomial whose coefficients are intertwined
   themselves (scalars are: c*I_big * V = V * c*I_small): p(a) * V = V * p(t).  The truncated Taylor polynomials of exp(-i dt a) are such
   polynomials, of every degree — so on an invariant subspace exp(-i dt a) V e_1 is V exp(-i dt t) e_1 with no Krylov error. *)
From Coq Require Import List Setoid Morphisms.
From Coq Require Import Ncring Ncring_tac.
Import ListNotations.

Section Intertwine.
Context {R : Type} {ring0 ring1 : R} {add mul sub : R -> R -> R} {opp : R -> R} {req : R -> R -> Prop}.
Context {Rops : @Ring_ops R ring0 ring1 add mul sub opp req}.
Context {Rr : Ring (Ro:=Rops)}.
Variable V : R.
Definition inter (a t : R) : Prop := a * V == V * t.

Lemma inter_zero : inter 0 0.
Proof. unfold inter. non_commutative_ring. Qed.
Lemma inter_one : inter 1 1.
Proof. unfold inter. non_commutative_ring. Qed.
Lemma inter_add a t a' t' : inter a t -> inter a' t' -> inter (a + a') (t + t').
Proof. unfold inter. intros H H'.
  assert (E : (a + a') * V == a * V + a' * V) by non_commutative_ring. rewrite E, H, H'. non_commutative_ring. Qed.
Lemma inter_mul a t a' t' : inter a t -> inter a' t' -> inter (a * a') (t * t').
Proof. unfold inter. intros H H'.
  assert (E : a * a' * V == a * (a' * V)) by non_commutative_ring. rewrite E, H'.
  assert (E2 : a * (V * t') == (a * V) * t') by non_commutative_ring. rewrite E2, H. non_commutative_ring. Qed.
Fixpoint rpow (a : R) (k : nat) : R := match k with O => 1 | S k' => a * rpow a k' end.
Lemma inter_pow a t k : inter a t -> inter (rpow a k) (rpow t k).
Proof. intro H. induction k as [|k IH]; cbn [rpow]; [apply inter_one|]. apply inter_mul; assumption. Qed.
(* sum_k c_k * x^k, the coefficient list starting with degree d *)
Fixpoint peval (cs : list R) (x : R) (d : nat) : R := match cs with [] => 0 | c :: r => c * rpow x d + peval r x (S d) end.
Theorem polynomial_exact_on_invariant_subspace a t (cs : list (R * R)) :
  inter a t -> Forall (fun p => inter (fst p) (snd p)) cs ->
  forall d, inter (peval (map fst cs) a d) (peval (map snd cs) t d).
Proof. intros H Hc. induction Hc as [|p r Hp Hr IH]; intro d; cbn [map peval]; [apply inter_zero|].
  apply inter_add; [apply inter_mul; [exact Hp|apply inter_pow; exact H]|apply IH]. Qed.
End Intertwine.
