(* Proofs about Model/DigitalLoop.v (C16, C02) *)
From Coq Require Import List Arith Lia Bool Permutation.
Import ListNotations.
From Yaqs Require Import Model.DigitalLoop.

(* ---------- sorting is a permutation ---------- *)
Lemma insert_perm i l : Permutation (insert_by i l) (i :: l).
Proof. induction l as [|x r IH]; simpl; [reflexivity|]. destruct (minq i <? minq x); [reflexivity|].
  rewrite IH. apply perm_swap. Qed.
Lemma sort_perm l : Permutation (sort_by l) l.
Proof. induction l as [|x r IH]; simpl; [reflexivity|]. rewrite insert_perm. constructor. exact IH. Qed.
Lemma sort_in l x : In x (sort_by l) <-> In x l.
Proof. split; apply Permutation_in; [apply sort_perm|symmetry; apply sort_perm]. Qed.

(* ---------- membership facts ---------- *)
Lemma mem_spec q l : mem q l = true <-> In q l.
Proof. unfold mem. rewrite existsb_exists. split; [intros (x & H & E); apply Nat.eqb_eq in E; subst; auto|intro H; exists q; split; auto; apply Nat.eqb_refl]. Qed.
Lemma disjoint_spec a b : disjoint a b = true <-> forall q, In q a -> ~ In q b.
Proof. unfold disjoint. rewrite forallb_forall. split; intros H q Hq.
  - specialize (H q Hq). apply negb_true_iff in H. intro C. apply mem_spec in C. congruence.
  - apply negb_true_iff. destruct (mem q b) eqn:E; auto. apply mem_spec in E. exfalso; eapply H; eauto. Qed.
Lemma disjoint_sym a b : disjoint a b = true -> disjoint b a = true.
Proof. rewrite !disjoint_spec. intros H q Hq C. eapply H; eauto. Qed.

(* i is in the front layer iff it is in rem, and disjoint from busy and from every earlier instruction *)
Lemma front_aux_spec rem : forall busy i, In i (front_aux rem busy) <->
  exists l1 l2, rem = l1 ++ i :: l2 /\ disjoint (qs i) busy = true /\ forall j, In j l1 -> disjoint (qs i) (qs j) = true.
Proof. induction rem as [|x r IH]; intros busy i; simpl.
  - split; [tauto|]. intros (l1 & l2 & E & _). destruct l1; discriminate.
  - rewrite in_app_iff, IH. split.
    + intros [H|(l1 & l2 & E & D & F)].
      * destruct (disjoint (qs x) busy) eqn:Dx; simpl in H; [|tauto]. destruct H as [<-|[]]. exists [], r. repeat split; auto; try (intros j []).
      * exists (x :: l1), l2. subst r. repeat split; auto.
        -- apply disjoint_spec. intros q Hq C. apply disjoint_spec with (q:=q) in D; auto. apply D. apply in_app_iff; auto.
        -- intros j [<-|Hj]; auto. apply disjoint_spec. intros q Hq C. apply disjoint_spec with (q:=q) in D; auto. apply D. apply in_app_iff; auto.
    + intros (l1 & l2 & E & D & F). destruct l1 as [|y l1]; simpl in E; injection E as -> ->.
      * left. rewrite D. left; reflexivity.
      * right. exists l1, l2. split; [reflexivity|]. split.
        -- apply disjoint_spec. intros q Hq C. apply in_app_iff in C as [C|C].
           ++ specialize (F y (or_introl eq_refl)). apply disjoint_spec with (q:=q) in F; auto.
           ++ apply disjoint_spec with (q:=q) in D; auto.
        -- intros j Hj. apply F. right; exact Hj. Qed.
Lemma front_subset rem i : In i (front rem) -> In i rem.
Proof. intro H. apply front_aux_spec in H as (l1 & l2 & -> & _). apply in_app_iff; right; left; reflexivity. Qed.
Lemma front_nonempty i r : In i (front (i :: r)).
Proof. unfold front. simpl. assert (D : disjoint (qs i) [] = true) by (unfold disjoint; induction (qs i); simpl; auto).
  rewrite D. left. reflexivity. Qed.

(* ---------- one iteration ---------- *)
Definition gone (rem : list instr) : list instr :=
  filter (fun i => is_kind Meas i || is_kind Bar i) (front rem) ++
  (sort_by (filter (is_kind G1) (front rem)) ++
   sort_by (filter (fun i => is_kind G2 i && is_even i) (front rem)) ++
   sort_by (filter (fun i => is_kind G2 i && negb (is_even i)) (front rem))) ++
  filter (is_kind SBar) (front rem).

Lemma iter_rem sampling rem : snd (iter sampling rem) = remove_all (gone rem) rem.
Proof. reflexivity. Qed.
Lemma iter_exec_def sampling rem : fst (fst (iter sampling rem)) =
  sort_by (filter (is_kind G1) (front rem)) ++ sort_by (filter (fun i => is_kind G2 i && is_even i) (front rem)) ++
  sort_by (filter (fun i => is_kind G2 i && negb (is_even i)) (front rem)).
Proof. reflexivity. Qed.

Lemma iter_exec sampling rem x : In x (fst (fst (iter sampling rem))) <-> In x (front rem) /\ gate x = true.
Proof. rewrite iter_exec_def. rewrite !in_app_iff, !sort_in, !filter_In. unfold gate.
  destruct (is_kind G1 x) eqn:A, (is_kind G2 x) eqn:B, (is_even x) eqn:C; simpl; intuition congruence. Qed.

Lemma gone_front rem x : In x (gone rem) <-> In x (front rem).
Proof. unfold gone. rewrite !in_app_iff, !sort_in, !filter_In. split; [tauto|]. intro H.
  unfold is_kind. destruct (kind x) eqn:K; simpl; destruct (is_even x); simpl; tauto. Qed.

Lemma in_ids_self l i : In i l -> in_ids l i = true.
Proof. intro H. unfold in_ids. apply existsb_exists. exists i. split; auto. apply Nat.eqb_refl. Qed.
Lemma filter_len_le {A} (f : A -> bool) l : length (filter f l) <= length l.
Proof. induction l as [|y l IH]; simpl; auto. destruct (f y); simpl; lia. Qed.
Lemma filter_length_lt {A} (f : A -> bool) l x : In x l -> f x = false -> length (filter f l) < length l.
Proof. induction l as [|y l IH]; intros H Hf; simpl in *; [tauto|]. destruct H as [->|H].
  - rewrite Hf. pose proof (filter_len_le f l). lia.
  - destruct (f y); simpl; specialize (IH H Hf); lia. Qed.

Lemma iter_decreases sampling i r : length (snd (iter sampling (i :: r))) < length (i :: r).
Proof. rewrite iter_rem. unfold remove_all. apply (filter_length_lt _ _ i); [left; reflexivity|].
  apply negb_false_iff. apply in_ids_self. apply gone_front. apply front_nonempty. Qed.

(* ---------- termination (C16): the loop ends for every circuit, with sampling on or off ---------- *)
Theorem loop_terminates sampling : forall fuel rem, length rem <= fuel -> run sampling fuel rem <> None.
Proof. induction fuel as [|f IH]; intros rem H.
  - destruct rem; simpl in *; [discriminate|lia].
  - destruct rem as [|i r]; [simpl; discriminate|]. cbn [run].
    pose proof (iter_decreases sampling i r) as D. destruct (iter sampling (i :: r)) as [[ex ev] rem'] eqn:E. cbn [snd] in D.
    specialize (IH rem' ltac:(simpl in *; lia)). destruct (run sampling f rem') as [[ex' ev']|]; [discriminate|congruence]. Qed.

Theorem trajectory_terminates sampling c : trajectory sampling c <> None.
Proof. unfold trajectory. pose proof (loop_terminates sampling (length c) c (le_n _)) as H.
  destruct (run sampling (length c) c) as [[ex ev]|]; [discriminate|congruence]. Qed.

(* ---------- what is kept ---------- *)
Lemma nodup_of_ids l : NoDup (map id l) -> NoDup l.
Proof. induction l as [|x l IH]; intro H; simpl in *; constructor; inversion H; subst; auto. intro C. apply H2. apply in_map; auto. Qed.
Lemma id_inj rem : forall x y, NoDup (map id rem) -> In x rem -> In y rem -> id x = id y -> x = y.
Proof. induction rem as [|z r IH]; intros x y ND Hx Hy E; simpl in *; [tauto|]. inversion ND as [|? ? Hn ND']; subst.
  destruct Hx as [Hx|Hx], Hy as [Hy|Hy]; subst; auto.
  - exfalso. apply Hn. rewrite E. apply in_map; auto.
  - exfalso. apply Hn. rewrite <- E. apply in_map; auto. Qed.
Lemma in_ids_spec l rem x : NoDup (map id rem) -> In x rem -> (forall y, In y l -> In y rem) -> (in_ids l x = true <-> In x l).
Proof. intros ND Hx Sub. unfold in_ids. rewrite existsb_exists. split.
  - intros (y & Hy & E). apply Nat.eqb_eq in E. assert (y = x) by (eapply id_inj; eauto). subst; auto.
  - intro H. exists x. split; auto. apply Nat.eqb_refl. Qed.

Lemma iter_keep sampling rem x : NoDup (map id rem) ->
  (In x (snd (iter sampling rem)) <-> In x rem /\ ~ In x (front rem)).
Proof. intros ND. rewrite iter_rem. unfold remove_all. rewrite filter_In. split.
  - intros (Hx & N). split; auto. intro C. apply negb_true_iff in N.
    rewrite (proj2 (in_ids_spec _ rem x ND Hx (fun y Hy => front_subset _ _ (proj1 (gone_front _ _) Hy)))) in N; [discriminate|].
    apply gone_front; exact C.
  - intros (Hx & N). split; auto. apply negb_true_iff. destruct (in_ids _ x) eqn:E; auto. exfalso. apply N.
    apply (in_ids_spec _ rem x ND Hx (fun y Hy => front_subset _ _ (proj1 (gone_front _ _) Hy))) in E.
    apply gone_front; exact E. Qed.

Lemma filter_map_nodup (f : instr -> bool) rem : NoDup (map id rem) -> NoDup (map id (filter f rem)).
Proof. induction rem as [|x r IH]; simpl; intro H; auto. inversion H; subst. destruct (f x); simpl; auto. constructor; auto.
  intro C. apply H2. apply in_map_iff in C as (y & E & Hy). apply filter_In in Hy as (Hy & _). rewrite <- E. apply in_map; auto. Qed.
Lemma iter_nodup sampling rem : NoDup (map id rem) -> NoDup (map id (snd (iter sampling rem))).
Proof. rewrite iter_rem. unfold remove_all. apply filter_map_nodup. Qed.

Lemma instr_eq_dec (a b : instr) : {a = b} + {a <> b}.
Proof. decide equality; [apply (list_eq_dec Nat.eq_dec)|decide equality|apply Nat.eq_dec]. Defined.

(* ---------- the executed sequence is a permutation of the circuit's gates (C02) ---------- *)
Lemma perm_partition (f : instr -> bool) l : Permutation l (filter f l ++ filter (fun x => negb (f x)) l).
Proof. induction l as [|x l IH]; simpl; [reflexivity|]. destruct (f x); simpl.
  - constructor. exact IH.
  - rewrite IH at 1. apply Permutation_middle. Qed.

Lemma front_aux_nodup rem : forall busy, NoDup rem -> NoDup (front_aux rem busy).
Proof. induction rem as [|x r IH]; intros busy ND; simpl; [constructor|]. inversion ND; subst.
  destruct (disjoint (qs x) busy); simpl; [|apply IH; assumption]. constructor; [|apply IH; assumption].
  intro C. apply front_aux_spec in C as (l1 & l2 & E & _). apply H1. rewrite E. apply in_app_iff; right; left; reflexivity. Qed.

Lemma exec_perm_front sampling rem : Permutation (fst (fst (iter sampling rem))) (filter gate (front rem)).
Proof. rewrite iter_exec_def.
  transitivity (filter (is_kind G1) (front rem) ++ filter (fun i => is_kind G2 i && is_even i) (front rem) ++
                filter (fun i => is_kind G2 i && negb (is_even i)) (front rem)).
  { repeat apply Permutation_app; apply sort_perm. }
  symmetry. induction (front rem) as [|x l IH]; [reflexivity|]. cbn [filter].
  assert (Eg : gate x = is_kind G1 x || is_kind G2 x) by reflexivity. rewrite Eg.
  destruct (is_kind G1 x) eqn:A, (is_kind G2 x) eqn:B, (is_even x) eqn:C; cbn [orb andb negb app];
    try (exfalso; unfold is_kind in A, B; destruct (kind x); discriminate).
  - constructor. exact IH.
  - constructor. exact IH.
  - apply Permutation_cons_app. exact IH.
  - rewrite app_assoc. apply Permutation_cons_app. rewrite <- app_assoc. exact IH.
  - exact IH.
  - exact IH. Qed.

Lemma perm_filter {A} (f : A -> bool) l l' : Permutation l l' -> Permutation (filter f l) (filter f l').
Proof. induction 1 as [|x l l' H IH|x y l|l l' l'' H1 IH1 H2 IH2]; simpl.
  - reflexivity.
  - destruct (f x); [constructor|]; exact IH.
  - destruct (f x), (f y); try reflexivity. apply perm_swap.
  - etransitivity; eauto. Qed.

Lemma gates_split sampling rem : NoDup (map id rem) ->
  Permutation (filter gate rem) (fst (fst (iter sampling rem)) ++ filter gate (snd (iter sampling rem))).
Proof. intro ND. pose proof (nodup_of_ids _ ND) as ND'.
  rewrite (exec_perm_front sampling rem). rewrite iter_rem. unfold remove_all.
  rewrite (perm_filter gate _ _ (perm_partition (in_ids (gone rem)) rem)). rewrite filter_app.
  apply Permutation_app; [|reflexivity]. apply perm_filter.
  apply NoDup_Permutation.
  - apply NoDup_filter; exact ND'.
  - apply front_aux_nodup; exact ND'.
  - intro x. rewrite filter_In. split.
    + intros (Hx & E). apply gone_front. eapply in_ids_spec; eauto. intros y Hy. apply front_subset. apply gone_front; exact Hy.
    + intro Hx. split; [apply front_subset; exact Hx|]. apply in_ids_self. apply gone_front; exact Hx. Qed.

Theorem executed_perm sampling : forall fuel rem ex ev, NoDup (map id rem) -> run sampling fuel rem = Some (ex, ev) ->
  Permutation ex (filter gate rem).
Proof. induction fuel as [|f IH]; intros rem ex ev ND R; destruct rem as [|i r]; cbn [run] in R; try discriminate.
  - injection R as <- <-. reflexivity.
  - injection R as <- <-. reflexivity.
  - pose proof (gates_split sampling (i :: r) ND) as G. pose proof (iter_nodup sampling (i :: r) ND) as ND'.
    destruct (iter sampling (i :: r)) as [[ex1 ev1] rem'] eqn:E. cbn [fst snd] in *.
    destruct (run sampling f rem') as [[ex' ev']|] eqn:R'; [|discriminate]. injection R as <- <-.
    rewrite G. apply Permutation_app; [reflexivity|]. eapply IH; eauto. Qed.

(* ---------- dependent gates keep their program order (C02) ---------- *)
Definition before (l : list instr) (a b : instr) := exists l1 l2 l3, l = l1 ++ a :: l2 ++ b :: l3.

Lemma nodup_split_unique {A} (l : list A) b x1 : forall y1 x2 y2, NoDup l -> l = x1 ++ b :: y1 -> l = x2 ++ b :: y2 -> x1 = x2.
Proof. revert l; induction x1 as [|a x1 IH]; intros l y1 x2 y2 ND E1 E2; rewrite E1 in E2, ND; clear E1 l.
  - destruct x2 as [|c x2]; auto. simpl in E2. injection E2 as Hc Hy. subst c. exfalso. inversion ND as [|? ? Hn _]; subst. apply Hn. apply in_app_iff; right; left; auto.
  - destruct x2 as [|c x2]; simpl in E2; injection E2 as Hc Hy.
    + subst a. exfalso. inversion ND as [|? ? Hn _]; subst. apply Hn. apply in_app_iff; right; left; auto.
    + subst c. f_equal. inversion ND as [|? ? _ ND']; subst. eapply (IH _ y1 x2 y2 ND' eq_refl Hy). Qed.

Lemma front_blocked rem a b l1 l2 l3 : NoDup rem -> rem = l1 ++ a :: l2 ++ b :: l3 -> In b (front rem) -> shares a b = false.
Proof. intros ND E F. apply front_aux_spec in F as (x & y & E2 & _ & D).
  assert (x = l1 ++ a :: l2). { symmetry. eapply (nodup_split_unique rem b); eauto. rewrite E, <- app_assoc. reflexivity. }
  subst x. unfold shares. apply negb_false_iff. apply disjoint_sym. apply D. apply in_app_iff; right; left; auto. Qed.

Lemma before_app_lr l1 l2 a b : In a l1 -> In b l2 -> before (l1 ++ l2) a b.
Proof. intros Ha Hb. apply in_split in Ha as (x1 & x2 & ->). apply in_split in Hb as (y1 & y2 & ->).
  exists x1, (x2 ++ y1), y2. repeat (rewrite <- app_assoc; simpl). reflexivity. Qed.
Lemma before_app_r l1 l2 a b : before l2 a b -> before (l1 ++ l2) a b.
Proof. intros (x & y & z & ->). exists (l1 ++ x), y, z. rewrite <- app_assoc. reflexivity. Qed.
Lemma before_filter (f : instr -> bool) l a b : before l a b -> f a = true -> f b = true -> before (filter f l) a b.
Proof. intros (x & y & z & ->) Fa Fb. exists (filter f x), (filter f y), (filter f z).
  rewrite filter_app. simpl. rewrite Fa. rewrite filter_app. simpl. rewrite Fb. reflexivity. Qed.
Lemma before_in l a b : before l a b -> In a l /\ In b l.
Proof. intros (x & y & z & ->). split; apply in_app_iff; right; [left; auto|right; apply in_app_iff; right; left; auto]. Qed.

Theorem order_preserved sampling : forall fuel rem ex ev, NoDup (map id rem) -> run sampling fuel rem = Some (ex, ev) ->
  forall a b, gate a = true -> gate b = true -> before rem a b -> shares a b = true -> before ex a b.
Proof. induction fuel as [|f IH]; intros rem ex ev ND R a b Ga Gb B S; destruct rem as [|i r];
    try (destruct B as (x & y & z & B); destruct x; discriminate); cbn [run] in R; try discriminate.
  pose proof (iter_nodup sampling (i :: r) ND) as ND'.
  pose proof (iter_exec sampling (i :: r)) as IE. pose proof (iter_keep sampling (i :: r)) as IK.
  pose proof (iter_rem sampling (i :: r)) as IR.
  destruct (iter sampling (i :: r)) as [[ex1 ev1] rem'] eqn:E. cbn [fst snd] in *.
  destruct (run sampling f rem') as [[ex' ev']|] eqn:R'; [|discriminate]. injection R as <- <-.
  pose proof (before_in _ _ _ B) as (Ia & Ib).
  assert (Nb : ~ In b (front (i :: r))).
  { intro Fb. destruct B as (x & y & z & B). rewrite (front_blocked _ a b x y z (nodup_of_ids _ ND) B Fb) in S. discriminate. }
  assert (Kb : In b rem') by (apply IK; auto).
  assert (Eb : In b ex'). { eapply Permutation_in; [symmetry; eapply executed_perm; eauto|]. apply filter_In; auto. }
  destruct (in_dec instr_eq_dec a ex1) as [Ia1|Na].
  - apply before_app_lr; auto.
  - apply before_app_r. apply (IH rem' ex' ev'); auto.
    assert (Ka : In a rem'). { apply IK; auto. split; auto. intro Fa. apply Na. apply IE. auto. }
    rewrite IR in *. unfold remove_all in *. apply before_filter; auto.
    + apply filter_In in Ka. tauto.
    + apply filter_In in Kb. tauto. Qed.

(* ---------- events: gates in execution order, one sample per labelled barrier ---------- *)
Definition gates_of (ev : list event) : list nat := flat_map (fun e => match e with EGate i => [i] | ESample => [] end) ev.
Lemma gates_of_app a b : gates_of (a ++ b) = gates_of a ++ gates_of b.
Proof. unfold gates_of. apply flat_map_app. Qed.
Lemma count_samples_app a b : count_samples (a ++ b) = count_samples a + count_samples b.
Proof. unfold count_samples. rewrite filter_app, app_length. reflexivity. Qed.
Lemma gates_of_map l : gates_of (map (fun i => EGate (id i)) l) = map id l.
Proof. induction l; simpl; congruence. Qed.
Lemma gates_of_samples {A} (l : list A) : gates_of (map (fun _ => ESample) l) = [].
Proof. induction l; simpl; auto. Qed.
Lemma count_samples_gates l : count_samples (map (fun i => EGate (id i)) l) = 0.
Proof. induction l; simpl; auto. Qed.
Lemma count_samples_samples {A} (l : list A) : count_samples (map (fun _ => ESample) l) = length l.
Proof. induction l; simpl; auto. unfold count_samples in *. simpl. lia. Qed.

Lemma iter_events sampling rem : snd (fst (iter sampling rem)) =
  map (fun i => EGate (id i)) (fst (fst (iter sampling rem))) ++
  (if sampling then map (fun _ => ESample) (filter (is_kind SBar) (front rem)) else []).
Proof. reflexivity. Qed.

Theorem events_gates sampling : forall fuel rem ex ev, run sampling fuel rem = Some (ex, ev) -> gates_of ev = map id ex.
Proof. induction fuel as [|f IH]; intros rem ex ev R; destruct rem as [|i r]; cbn [run] in R; try discriminate;
    try (injection R as <- <-; reflexivity).
  pose proof (iter_events sampling (i :: r)) as IE.
  destruct (iter sampling (i :: r)) as [[ex1 ev1] rem'] eqn:E. cbn [fst snd] in IE.
  destruct (run sampling f rem') as [[ex' ev']|] eqn:R'; [|discriminate].
  injection R as <- <-. rewrite gates_of_app, map_app. rewrite (IH _ _ _ R'). f_equal. rewrite IE.
  rewrite gates_of_app, gates_of_map. destruct sampling; [rewrite gates_of_samples|]; rewrite ?app_nil_r; reflexivity. Qed.

Lemma sbar_split rem : NoDup (map id rem) ->
  length (filter (is_kind SBar) rem) = length (filter (is_kind SBar) (front rem)) + length (filter (is_kind SBar) (remove_all (gone rem) rem)).
Proof. intro ND. pose proof (nodup_of_ids _ ND) as ND'. unfold remove_all.
  rewrite (Permutation_length (perm_filter (is_kind SBar) _ _ (perm_partition (in_ids (gone rem)) rem))).
  rewrite filter_app, app_length. f_equal. apply Permutation_length. apply perm_filter.
  apply NoDup_Permutation.
  - apply NoDup_filter; exact ND'.
  - apply front_aux_nodup; exact ND'.
  - intro x. rewrite filter_In. split.
    + intros (Hx & E). apply gone_front. eapply in_ids_spec; eauto. intros y Hy. apply front_subset. apply gone_front; exact Hy.
    + intro Hx. split; [apply front_subset; exact Hx|]. apply in_ids_self. apply gone_front; exact Hx. Qed.

Theorem samples_count sampling : forall fuel rem ex ev, NoDup (map id rem) -> run sampling fuel rem = Some (ex, ev) ->
  count_samples ev = if sampling then length (filter (is_kind SBar) rem) else 0.
Proof. induction fuel as [|f IH]; intros rem ex ev ND R; destruct rem as [|i r]; cbn [run] in R; try discriminate;
    try (injection R as <- <-; destruct sampling; reflexivity).
  pose proof (iter_nodup sampling (i :: r) ND) as ND'. pose proof (sbar_split (i :: r) ND) as SS.
  rewrite <- (iter_rem sampling) in SS. pose proof (iter_events sampling (i :: r)) as IE.
  destruct (iter sampling (i :: r)) as [[ex1 ev1] rem'] eqn:E. cbn [fst snd] in *.
  destruct (run sampling f rem') as [[ex' ev']|] eqn:R'; [|discriminate].
  injection R as <- <-. rewrite !count_samples_app. rewrite (IH _ _ _ ND' R'). rewrite IE, count_samples_app, count_samples_gates.
  destruct sampling; [rewrite count_samples_samples; lia|reflexivity]. Qed.

(* the number of evaluated columns is exactly the number the front-end allocated *)
Theorem columns_match sampling c ev : NoDup (map id c) -> trajectory sampling c = Some ev ->
  count_samples ev = columns_allocated sampling c.
Proof. intros ND T. unfold trajectory in T. destruct (run sampling (length c) c) as [[ex ev0]|] eqn:R; [|discriminate].
  injection T as <-. rewrite !count_samples_app. rewrite (samples_count _ _ _ _ _ ND R). unfold columns_allocated.
  change (count_samples [ESample]) with 1. destruct sampling; simpl; lia. Qed.

(* ---------- all dependency-preserving linearisations have the same product (trace-monoid argument) ---------- *)
Section Monoid.
Variable M : Type.
Variable op : M -> M -> M.
Variable e : M.
Hypothesis op_assoc : forall a b c, op a (op b c) = op (op a b) c.
Hypothesis op_e_l : forall a, op e a = a.
Hypothesis op_e_r : forall a, op a e = a.
Variable sem : instr -> M.
Hypothesis commute : forall a b, shares a b = false -> op (sem a) (sem b) = op (sem b) (sem a).
Definition prod (l : list instr) : M := fold_right (fun i acc => op (sem i) acc) e l.
Lemma prod_app a b : prod (a ++ b) = op (prod a) (prod b).
Proof. induction a as [|x a IH]; simpl; [rewrite op_e_l; reflexivity|]. rewrite IH, op_assoc. reflexivity. Qed.
Lemma commute_past a x : (forall b, In b x -> shares a b = false) -> op (prod x) (sem a) = op (sem a) (prod x).
Proof. induction x as [|b x IH]; intro H; simpl; [rewrite op_e_l, op_e_r; reflexivity|].
  rewrite <- op_assoc. rewrite IH by (intros; apply H; right; assumption). rewrite !op_assoc.
  rewrite (commute a b) by (apply H; left; reflexivity). reflexivity. Qed.

Lemma before_antisym l a b : NoDup l -> before l a b -> before l b a -> False.
Proof. intros ND (x1 & y1 & z1 & E1) (x2 & y2 & z2 & E2).
  assert (A : x1 = x2 ++ b :: y2).
  { eapply (nodup_split_unique l a); eauto. rewrite E2. rewrite <- app_assoc. reflexivity. }
  subst x1. rewrite E1 in ND. rewrite <- !app_assoc in ND. simpl in ND.
  apply NoDup_remove_2 in ND. apply ND. rewrite !in_app_iff. right. right. simpl. right. apply in_app_iff. right. left. reflexivity. Qed.

Lemma filter_notin a l : ~ In a l -> filter (fun i => if instr_eq_dec i a then false else true) l = l.
Proof. induction l as [|h l IHl]; intro H; simpl; [reflexivity|]. destruct (instr_eq_dec h a) as [->|N].
  - exfalso. apply H. left. reflexivity.
  - rewrite IHl; [reflexivity|]. intro C. apply H. right. exact C. Qed.
Lemma before_remove l a p q x y : NoDup l -> l = x ++ a :: y -> before l p q -> p <> a -> q <> a -> before (x ++ y) p q.
Proof. intros ND E B Hp Hq. subst l.
  assert (F : before (filter (fun i => if instr_eq_dec i a then false else true) (x ++ a :: y)) p q).
  { apply before_filter; auto; destruct (instr_eq_dec _ a); congruence. }
  rewrite filter_app in F. cbn [filter] in F. destruct (instr_eq_dec a a) as [_|N]; [|congruence].
  pose proof (NoDup_remove_2 _ _ _ ND) as Na. rewrite in_app_iff in Na.
  rewrite !filter_notin in F by tauto. exact F. Qed.

Theorem linearisations_agree : forall l1 l2, NoDup l1 -> Permutation l1 l2 ->
  (forall a b, shares a b = true -> before l1 a b -> before l2 a b) -> prod l1 = prod l2.
Proof. induction l1 as [|a l1 IH]; intros l2 ND P H.
  - apply Permutation_nil in P. subst. reflexivity.
  - assert (Ia : In a l2) by (eapply Permutation_in; eauto; left; reflexivity).
    apply in_split in Ia as (x & y & E). subst l2.
    assert (ND2 : NoDup (x ++ a :: y)) by (eapply Permutation_NoDup; eauto).
    inversion ND as [|? ? Hna ND1]; subst.
    assert (Cx : forall b, In b x -> shares a b = false).
    { intros b Hb. destruct (shares a b) eqn:S; auto. exfalso.
      assert (B1 : before (a :: l1) a b).
      { assert (In b l1). { assert (In b (a :: l1)) by (eapply Permutation_in; [symmetry; exact P|apply in_app_iff; left; exact Hb]).
          destruct H0 as [->|]; auto. exfalso. apply NoDup_remove_2 in ND2. apply ND2. apply in_app_iff; left; exact Hb. }
        apply in_split in H0 as (s & t & ->). exists [], s, t. reflexivity. }
      apply H in B1; auto.
      apply in_split in Hb as (s & t & ->). apply (before_antisym _ a b ND2 B1).
      exists s, t, y. rewrite <- app_assoc. reflexivity. }
    simpl. rewrite prod_app. simpl. rewrite op_assoc, (commute_past a x Cx), <- op_assoc, <- prod_app. f_equal.
    apply IH; auto.
    + apply Permutation_cons_app_inv with (a := a). exact P.
    + intros p q S B. assert (p <> a /\ q <> a).
      { apply before_in in B as (Ip & Iq). split; intro; subst; contradiction. }
      destruct H0. eapply (before_remove (x ++ a :: y) a); eauto. apply H; auto.
      destruct B as (s & t & r' & ->). exists (a :: s), t, r'. reflexivity. Qed.
End Monoid.

(* barriers and measurements are transparent: the circuit with them and the circuit without them execute
   dependency-preserving linearisations of the same gate list, hence the same operator in every semantics in which
   gates on disjoint qubits commute *)
Lemma filter_idem {A} (f : A -> bool) l : filter f (filter f l) = filter f l.
Proof. induction l as [|x l IH]; simpl; auto. destruct (f x) eqn:E; simpl; [rewrite E, IH|]; auto. Qed.
Lemma before_unfilter (f : instr -> bool) c : forall a b, f a = true -> f b = true -> before (filter f c) a b -> before c a b.
Proof. induction c as [|x c IH]; intros a b Fa Fb B.
  - destruct B as (u & v & w & B). destruct u; discriminate.
  - simpl in B. destruct (f x) eqn:G.
    + destruct B as (u & v & w & B). destruct u as [|h u]; simpl in B; injection B as E0 B.
      * subst x. assert (In b (filter f c)) by (rewrite B; apply in_app_iff; right; left; reflexivity).
        apply filter_In in H as (H & _). apply in_split in H as (s & t & ->). exists [], s, t. reflexivity.
      * subst h. destruct (IH a b Fa Fb) as (s & t & r' & ->); [exists u, v, w; exact B|]. exists (x :: s), t, r'. reflexivity.
    + destruct (IH a b Fa Fb B) as (s & t & r' & ->). exists (x :: s), t, r'. reflexivity. Qed.
Lemma before_strip c a b : gate a = true -> gate b = true -> before c a b -> before (strip c) a b.
Proof. intros. apply before_filter; auto. Qed.

Lemma strip_nodup c : NoDup (map id c) -> NoDup (map id (strip c)).
Proof. apply filter_map_nodup. Qed.

Lemma before_gate_in l a b : before l a b -> In a l /\ In b l. Proof. apply before_in. Qed.

Theorem transparent (M : Type) (op : M -> M -> M) (e : M)
  (op_assoc : forall a b c, op a (op b c) = op (op a b) c) (op_e_l : forall a, op e a = a) (op_e_r : forall a, op a e = a)
  (sem : instr -> M) (commute : forall a b, shares a b = false -> op (sem a) (sem b) = op (sem b) (sem a))
  sampling1 sampling2 c ex1 ev1 ex2 ev2 : NoDup (map id c) ->
  run sampling1 (length c) c = Some (ex1, ev1) -> run sampling2 (length (strip c)) (strip c) = Some (ex2, ev2) ->
  prod M op e sem ex1 = prod M op e sem ex2.
Proof. intros ND R1 R2.
  pose proof (executed_perm _ _ _ _ _ ND R1) as P1. pose proof (executed_perm _ _ _ _ _ (strip_nodup c ND) R2) as P2.
  assert (SS : filter gate (strip c) = strip c) by apply filter_idem.
  rewrite SS in P2. fold (strip c) in P1.
  assert (NDs : NoDup (strip c)) by (apply nodup_of_ids, strip_nodup, ND).
  transitivity (prod M op e sem (strip c)); [symmetry|].
  - apply linearisations_agree; auto; [symmetry; exact P1|].
    intros a b S B. pose proof (before_in _ _ _ B) as (Ia & Ib). unfold strip in Ia, Ib. apply filter_In in Ia as (Ia & Ga), Ib as (Ib & Gb).
    apply (order_preserved sampling1 (length c) c ex1 ev1 ND R1 a b Ga Gb); [|exact S].
    apply (before_unfilter gate); auto.
  - apply linearisations_agree; auto; [symmetry; exact P2|].
    intros a b S B. pose proof (before_in _ _ _ B) as (Ia & Ib). unfold strip in Ia, Ib. apply filter_In in Ia as (Ia & Ga), Ib as (Ib & Gb).
    exact (order_preserved sampling2 (length (strip c)) (strip c) ex2 ev2 (strip_nodup c ND) R2 a b Ga Gb B S). Qed.

(* ---------- gauge discipline: every two-qubit gate finds the state right-canonical ---------- *)
Theorem gauge_discipline ex : forallb (fun b => b) (gauge_run true (gauge_word ex)) = true.
Proof. unfold gauge_word. induction ex as [|i ex IH]; simpl; [reflexivity|]. destruct (is_kind G2 i); simpl; exact IH. Qed.


(* ---------- the whole trajectory: every gate AND every read (observables at the start, at each labelled barrier, at the end;
   measure_shots in weak mode) finds the orthogonality centre at site 0, in all three modes ---------- *)
Fixpoint gauge_final (at0 : bool) (w : list gstep) : bool :=
  match w with
  | [] => at0
  | GOne :: r => gauge_final at0 r
  | GTwo :: r => gauge_final false r
  | GRestore :: r => gauge_final true r
  | GRead :: r => gauge_final at0 r
  end.
Definition all_ok (l : list bool) := forallb (fun b => b) l.
Lemma gauge_run_app at0 w1 w2 : gauge_run at0 (w1 ++ w2) = gauge_run at0 w1 ++ gauge_run (gauge_final at0 w1) w2.
Proof. revert at0. induction w1 as [|g w1 IH]; intros at0; [reflexivity|]. destruct g; simpl; rewrite IH; reflexivity. Qed.
Lemma gauge_final_app at0 w1 w2 : gauge_final at0 (w1 ++ w2) = gauge_final (gauge_final at0 w1) w2.
Proof. revert at0. induction w1 as [|g w1 IH]; intros at0; [reflexivity|]. destruct g; simpl; apply IH. Qed.
Lemma all_ok_app a b : all_ok (a ++ b) = all_ok a && all_ok b.
Proof. unfold all_ok. apply forallb_app. Qed.
Definition good (w : list gstep) := all_ok (gauge_run true w) = true /\ gauge_final true w = true.
Lemma good_nil : good []. Proof. split; reflexivity. Qed.
Lemma good_app w1 w2 : good w1 -> good w2 -> good (w1 ++ w2).
Proof. intros (A1 & F1) (A2 & F2). split.
  - rewrite gauge_run_app, all_ok_app, F1, A1, A2. reflexivity.
  - rewrite gauge_final_app, F1. exact F2. Qed.
Lemma good_gates ex : good (gauge_word ex).
Proof. unfold gauge_word. induction ex as [|i ex IH]; [apply good_nil|]. cbn [flat_map].
  apply good_app; [|exact IH]. destruct (is_kind G2 i); split; reflexivity. Qed.
Lemma good_reads {A} (l : list A) : good (map (fun _ => GRead) l).
Proof. induction l as [|x l IH]; [apply good_nil|]. change (good ([GRead] ++ map (fun _ => GRead) l)). apply good_app; [split; reflexivity|exact IH]. Qed.
Lemma good_iter sampling rem : good (fst (fst (iter_g sampling rem))).
Proof. unfold iter_g. cbn [fst]. apply good_app; [apply good_gates|]. destruct sampling; [apply good_reads|apply good_nil]. Qed.
Lemma good_run sampling fuel : forall rem w lost, run_g sampling fuel rem = Some (w, lost) -> good w.
Proof. induction fuel as [|f IH]; intros rem w lost R.
  - destruct rem; simpl in R; [|discriminate]. inversion R. apply good_nil.
  - destruct rem as [|i0 r0]; [simpl in R; inversion R; apply good_nil|].
    cbn [run_g] in R. pose proof (good_iter sampling (i0 :: r0)) as GI.
    destruct (iter_g sampling (i0 :: r0)) as [[w1 fl] rem'] eqn:EI. cbn [fst] in GI.
    destruct (run_g sampling f rem') as [[w' fl']|] eqn:ER; [|discriminate]. inversion R; subst.
    apply good_app; [exact GI|]. exact (IH _ _ _ ER). Qed.
Theorem trajectory_gauge m c w : traj_word m c = Some w -> all_ok (gauge_run true w) = true.
Proof. unfold traj_word. destruct (run_g (samples m) (length c) c) as [[w0 lost]|] eqn:R; [|discriminate].
  intros E. inversion E; subst. pose proof (good_run _ _ _ _ _ R) as G.
  assert (GT : good (match m with Weak => [GRead] | _ => (if lost then [GRestore] else []) ++ [GRead] end))
    by (destruct m, lost; split; reflexivity).
  assert (GH : good (if samples m then [GRead] else [])) by (destruct (samples m); split; reflexivity).
  exact (proj1 (good_app _ _ GH (good_app _ _ G GT))). Qed.

(* run_g is run with the gauge steps written out: same remaining lists, hence same termination; its non-read steps are the
   gauge word of the executed gates *)
Lemma iter_g_rem sampling rem : snd (iter_g sampling rem) = snd (iter sampling rem).
Proof. reflexivity. Qed.
Lemma filter_no_read_gates ex : filter no_read (gauge_word ex) = gauge_word ex.
Proof. unfold gauge_word. induction ex as [|i ex IH]; [reflexivity|]. cbn [flat_map]. rewrite filter_app, IH.
  destruct (is_kind G2 i); reflexivity. Qed.
Lemma filter_no_read_reads {A} (l : list A) : filter no_read (map (fun _ => GRead) l) = [].
Proof. induction l as [|x l IH]; [reflexivity|exact IH]. Qed.
Lemma gauge_word_app a b : gauge_word (a ++ b) = gauge_word a ++ gauge_word b.
Proof. unfold gauge_word. apply flat_map_app. Qed.
Theorem run_g_refines_run sampling fuel : forall rem ex ev, run sampling fuel rem = Some (ex, ev) ->
  exists w lost, run_g sampling fuel rem = Some (w, lost) /\ filter no_read w = gauge_word ex.
Proof. induction fuel as [|f IH]; intros rem ex ev R.
  - destruct rem; simpl in R; [|discriminate]. inversion R. exists [], false. split; reflexivity.
  - destruct rem as [|i0 r0]; [simpl in R; inversion R; exists [], false; split; reflexivity|].
    cbn [run] in R. cbn [run_g].
    unfold iter in R. unfold iter_g.
    set (layer := front (i0 :: r0)) in *.
    set (dropped := filter (fun i => is_kind Meas i || is_kind Bar i) layer) in *.
    set (singles := sort_by (filter (is_kind G1) layer)) in *.
    set (evens := sort_by (filter (fun i => is_kind G2 i && is_even i) layer)) in *.
    set (odds := sort_by (filter (fun i => is_kind G2 i && negb (is_even i)) layer)) in *.
    set (sb := filter (is_kind SBar) layer) in *.
    set (rem' := remove_all (dropped ++ (singles ++ evens ++ odds) ++ sb) (i0 :: r0)) in *.
    destruct (run sampling f rem') as [[ex' ev']|] eqn:ER; [|discriminate]. inversion R; subst.
    destruct (IH _ _ _ ER) as (w' & lost' & RG & FW). rewrite RG.
    eexists _, _. split; [reflexivity|].
    rewrite (gauge_word_app (singles ++ evens ++ odds) ex'), !filter_app, filter_no_read_gates, FW.
    destruct sampling; [rewrite filter_no_read_reads|]; cbn [filter]; rewrite app_nil_r; reflexivity. Qed.
Theorem traj_word_terminates m c : traj_word m c <> None.
Proof. unfold traj_word. pose proof (loop_terminates (samples m) (length c) c (le_n _)) as T.
  destruct (run (samples m) (length c) c) as [[ex ev]|] eqn:R; [|contradiction].
  destruct (run_g_refines_run _ _ _ _ _ R) as (w & lost & RG & _). rewrite RG. discriminate. Qed.
