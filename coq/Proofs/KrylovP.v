From Coq Require Import List Arith Lia Bool Ring.
Import ListNotations.
From Yaqs Require Import Model.Krylov LinAlg.TT.

Lemma kloop_bounds m small conv : forall fuel j, j + fuel = m -> 1 <= m ->
  1 <= exit_dim (kloop m small conv j fuel) <= m.
Proof. induction fuel as [|f IH]; intros j H Hm; cbn [kloop]; [cbn [exit_dim]; lia|].
  destruct ((j <? m - 1) && small j) eqn:A.
  - apply andb_true_iff in A as [A _]. apply Nat.ltb_lt in A. cbn [exit_dim]. lia.
  - destruct ((1 <=? j) && (j <? m - 1) && conv j) eqn:B.
    + apply andb_true_iff in B as [B _]. apply andb_true_iff in B as [_ B]. apply Nat.ltb_lt in B. cbn [exit_dim]. lia.
    + apply IH; lia. Qed.
(* every path through the routine returns, with a subspace dimension between 1 and m_max *)
Theorem exit_well_defined m small conv : 1 <= m -> 1 <= exit_dim (krylov_exit m small conv) <= m.
Proof. intro H. unfold krylov_exit. apply kloop_bounds; lia. Qed.

Lemma kloop_breakdown m small conv : forall fuel j k, kloop m small conv j fuel = Breakdown k ->
  j < k /\ small (k - 1) = true /\ k - 1 < m - 1 /\ forall i, j <= i -> i < k - 1 -> small i = false \/ ~ (i < m - 1).
Proof. induction fuel as [|f IH]; intros j k H; cbn [kloop] in H; [discriminate|].
  destruct ((j <? m - 1) && small j) eqn:A.
  - try rewrite A in H. injection H as <-. apply andb_true_iff in A as [A1 A2]. apply Nat.ltb_lt in A1. replace (S j - 1) with j by lia.
    repeat split; auto; try lia; intros i Hi1 Hi2; lia.
  - try rewrite A in H. destruct ((1 <=? j) && (j <? m - 1) && conv j) eqn:B; [discriminate|].
    destruct (IH (S j) k H) as (H1 & H2 & H3 & H4). split; [lia|]. split; [exact H2|]. split; [exact H3|].
    intros i Hi1 Hi2. destruct (Nat.eq_dec i j) as [->|Ne]; [|apply H4; lia].
    apply andb_false_iff in A as [A|A]; [right; apply Nat.ltb_ge in A; lia|left; exact A]. Qed.
(* a breakdown exit happens at the FIRST iteration whose new direction is negligible *)
Theorem breakdown_is_first_small m small conv k : krylov_exit m small conv = Breakdown k ->
  small (k - 1) = true /\ forall i, i < k - 1 -> small i = false.
Proof. intro H. destruct (kloop_breakdown m small conv m 0 k H) as (H1 & H2 & H3 & H4). split; [exact H2|].
  intros i Hi. destruct (H4 i ltac:(lia) Hi) as [A|A]; [exact A|lia]. Qed.

Lemma kloop_full m small conv : forall fuel j, j + fuel = m ->
  (forall i, j <= i -> i < m - 1 -> small i = false /\ conv i = false) -> kloop m small conv j fuel = Full m.
Proof. induction fuel as [|f IH]; intros j H Hs; cbn [kloop]; [reflexivity|].
  destruct (Nat.ltb_spec j (m - 1)) as [L|L].
  - destruct (Hs j ltac:(lia) L) as [A B]. rewrite A, B. rewrite !andb_false_r. apply IH; [lia|]. intros i Hi; apply Hs; lia.
  - cbn [andb]. rewrite andb_false_r. cbn [andb]. apply IH; [lia|]. intros i Hi; apply Hs; lia. Qed.
(* without breakdown and without convergence the full subspace of dimension m_max is used *)
Theorem no_exit_uses_full m small conv : (forall i, i < m - 1 -> small i = false /\ conv i = false) ->
  krylov_exit m small conv = Full m.
Proof. intro H. unfold krylov_exit. apply kloop_full; [lia|]. intros i _ Hi. apply H. exact Hi. Qed.

(* norm preservation of the two projection steps of the result  V_k (U (phases . U^T e_1)) ||v|| :
   a matrix with orthonormal rows (as a one-physical-index site: right-isometric) preserves the squared norm, and unit-modulus
   phases preserve it — over any commutative ring with an involution *)
Section Norm.
Variable K : Type.
Variables (k0 k1 : K) (kadd kmul ksub : K -> K -> K) (kopp : K -> K) (cj : K -> K).
Hypothesis Kring : ring_theory k0 k1 kadd kmul ksub kopp (@eq K).
Hypothesis cj_add : forall a b, cj (kadd a b) = kadd (cj a) (cj b).
Hypothesis cj_mul : forall a b, cj (kmul a b) = kmul (cj a) (cj b).
Hypothesis cj_0 : cj k0 = k0.
Add Ring KR2 : Kring.
Theorem isometry_preserves_norm (n m : nat) (Vt : nat -> nat -> K) (y : nat -> K) :
  (forall l l', l < n -> l' < n -> bsum K k0 kadd m (fun r => kmul (Vt l r) (cj (Vt l' r))) = if Nat.eqb l l' then k1 else k0) ->
  nrm2 K k0 kadd kmul cj m (fun r => bsum K k0 kadd n (fun l => kmul (y l) (Vt l r))) = nrm2 K k0 kadd kmul cj n y.
Proof. intro Iso.
  pose (s := {| d := 1; chiL := n; chiR := m; A := fun _ l r => Vt l r |}).
  assert (R : right_iso K k0 k1 kadd kmul cj s).
  { intros l l' Hl Hl'. cbn [d chiR A s]. cbn [bsum]. rewrite (Iso l l' Hl Hl'). ring. }
  pose proof (outcome_weights_sum K k0 k1 kadd kmul ksub kopp cj Kring cj_add cj_mul cj_0 y s R) as H.
  cbn [d chiR chiL s bsum] in H. unfold step in H. cbn [chiL A s] in H. rewrite <- H. ring. Qed.
Theorem phases_preserve_norm (n : nat) (e c : nat -> K) : (forall l, l < n -> kmul (e l) (cj (e l)) = k1) ->
  nrm2 K k0 kadd kmul cj n (fun l => kmul (e l) (c l)) = nrm2 K k0 kadd kmul cj n c.
Proof. intro H. unfold nrm2. apply bsum_ext. intros l Hl. rewrite cj_mul.
  transitivity (kmul (kmul (e l) (cj (e l))) (kmul (c l) (cj (c l)))); [ring|]. rewrite (H l Hl). ring. Qed.
End Norm.
