(* Proofs about the REGENERATED gate tables (Gen/GatesGen.v) against the standard matrices (Model/Gates.v). *)
From Coq Require Import Reals Lra Ring Field List.
From Coquelicot Require Import Coquelicot.
From Yaqs Require Import Base.CMat Model.Gates Gen.GatesGen.
Import ListNotations.
Local Open Scope R_scope.

(* normalise the argument of every cos / sin / cis occurrence to field_simplify's normal form, so that algebraically
   equal ways of writing an angle in the source (theta/2, 0.5*theta, ...) lead to the same term *)
Ltac canon1 a :=
  let x := fresh "x" in let H := fresh "H" in
  evar (x : R); assert (H : a = x) by (field_simplify; subst x; reflexivity);
  subst x; rewrite H; clear H.
Ltac canon := repeat match goal with
  | |- context [cis ?a] => progress (canon1 a)
  | |- context [cos ?a] => progress (canon1 a)
  | |- context [sin ?a] => progress (canon1 a)
  end.
Lemma sqrt2_neq_0 : sqrt 2 <> 0. Proof. apply Rgt_not_eq. apply Rlt_gt. apply sqrt_lt_R0. lra. Qed.
Lemma sqrt2_sq : sqrt 2 * sqrt 2 = 2. Proof. apply sqrt_sqrt. lra. Qed.
Ltac entry := unfold cis, c0, c1; apply Ceq; cbn -[cos sin PI sqrt IZR Rmult Rplus Rminus Ropp Rinv Rdiv];
  try (field; try apply sqrt2_neq_0; try lra); try (ring); try lra.
Lemma cons_eq {A} (x y : A) l l' : x = y -> l = l' -> x :: l = y :: l'. Proof. intros; subst; reflexivity. Qed.
Ltac split_list := repeat match goal with
  | |- (_ :: _) = (_ :: _) => apply cons_eq
  | |- [] = [] => reflexivity
  end.
Ltac mat_eq := canon; unfold scal; cbn [map]; split_list; try reflexivity; try entry.

Section G.
Variables theta phi lam : R.
Lemma m_x : gen_x_matrix theta phi lam = std_x. Proof. unfold gen_x_matrix, std_x, X2. mat_eq. Qed.
Lemma m_y : gen_y_matrix theta phi lam = std_y. Proof. unfold gen_y_matrix, std_y, Y2. mat_eq. Qed.
Lemma m_z : gen_z_matrix theta phi lam = std_z. Proof. unfold gen_z_matrix, std_z, Z2. mat_eq. Qed.
Lemma m_id : gen_id_matrix theta phi lam = std_id. Proof. unfold gen_id_matrix, std_id, I2. mat_eq. Qed.
Lemma m_h : gen_h_matrix theta phi lam = std_h. Proof. unfold gen_h_matrix, std_h. mat_eq. Qed.
Lemma m_sx : gen_sx_matrix theta phi lam = std_sx. Proof. unfold gen_sx_matrix, std_sx. mat_eq. Qed.
Lemma m_rx : gen_rx_matrix theta phi lam = std_rx theta. Proof. unfold gen_rx_matrix, std_rx. mat_eq. Qed.
Lemma m_ry : gen_ry_matrix theta phi lam = std_ry theta. Proof. unfold gen_ry_matrix, std_ry. mat_eq. Qed.
Lemma m_rz : gen_rz_matrix theta phi lam = std_rz theta. Proof. unfold gen_rz_matrix, std_rz. mat_eq. Qed.
Lemma m_p : gen_p_matrix theta phi lam = std_p theta. Proof. unfold gen_p_matrix, std_p. mat_eq. Qed.
Lemma m_u : gen_u_matrix theta phi lam = std_u theta phi lam. Proof. unfold gen_u_matrix, std_u. mat_eq. Qed.
Lemma m_u2 : gen_u2_matrix theta phi lam = std_u2 phi lam. Proof. unfold gen_u2_matrix, std_u2. mat_eq. Qed.
Lemma m_cx : gen_cx_matrix theta phi lam = std_cx. Proof. unfold gen_cx_matrix, std_cx. mat_eq. Qed.
Lemma m_cz : gen_cz_matrix theta phi lam = std_cz. Proof. unfold gen_cz_matrix, std_cz. mat_eq. Qed.
Lemma m_cp : gen_cp_matrix theta phi lam = std_cp theta. Proof. unfold gen_cp_matrix, std_cp. mat_eq. Qed.
Lemma m_swap : gen_swap_matrix theta phi lam = std_swap. Proof. unfold gen_swap_matrix, std_swap. mat_eq. Qed.
Lemma m_rxx : gen_rxx_matrix theta phi lam = std_rxx theta. Proof. unfold gen_rxx_matrix, std_rxx. mat_eq. Qed.
Lemma m_ryy : gen_ryy_matrix theta phi lam = std_ryy theta. Proof. unfold gen_ryy_matrix, std_ryy. mat_eq. Qed.
Lemma m_rzz : gen_rzz_matrix theta phi lam = std_rzz theta. Proof. unfold gen_rzz_matrix, std_rzz. rewrite !cis_neg. mat_eq. Qed.
End G.

(* ---------------- generators: the stored pair (A, B) exponentiates to the gate matrix ---------------- *)
Local Open Scope C_scope.
Definition invol_generator (A B mat : M) : Prop :=
  exists (c : R) (P : M), kron2 A B = scal (RtoC c) P /\ mmul P P = I4 /\ expi_invol c P = mat.
Definition proj_generator (A B mat : M) : Prop :=
  exists (c mu : R) (G0 : M), mu <> 0%R /\ kron2 A B = scal (RtoC c) G0 /\ mmul G0 G0 = scal (RtoC mu) G0 /\ expi_proj c mu G0 = mat.

Ltac kron_eq := unfold kron2, scal; cbn [flat_map map app]; split_list; try reflexivity; try entry.
Ltac mm_eq := unfold expi_invol, expi_proj, madd, mmul, dot, col, kron2, scal, I4; cbn [flat_map map app seq length hd nth combine fold_right fst snd];
  split_list; try reflexivity; try entry.

Definition XX : M := kron2 X2 X2.
Definition YY : M := kron2 Y2 Y2.
Definition ZZ : M := kron2 Z2 Z2.

Section Gen.
Variables theta phi lam : R.
Lemma g_rxx : invol_generator (gen_rxx_genA theta phi lam) (gen_rxx_genB theta phi lam) (gen_rxx_matrix theta phi lam).
Proof. exists (theta / 2)%R, XX. split; [|split].
  - unfold gen_rxx_genA, gen_rxx_genB, XX, X2. kron_eq.
  - unfold XX, X2. mm_eq.
  - rewrite m_rxx. unfold std_rxx, XX, X2. mm_eq. Qed.
Lemma g_ryy : invol_generator (gen_ryy_genA theta phi lam) (gen_ryy_genB theta phi lam) (gen_ryy_matrix theta phi lam).
Proof. exists (theta / 2)%R, YY. split; [|split].
  - unfold gen_ryy_genA, gen_ryy_genB, YY, Y2. kron_eq.
  - unfold YY, Y2. mm_eq.
  - rewrite m_ryy. unfold std_ryy, YY, Y2. mm_eq. Qed.
Lemma g_rzz : invol_generator (gen_rzz_genA theta phi lam) (gen_rzz_genB theta phi lam) (gen_rzz_matrix theta phi lam).
Proof. exists (theta / 2)%R, ZZ. split; [|split].
  - unfold gen_rzz_genA, gen_rzz_genB, ZZ, Z2. kron_eq.
  - unfold ZZ, Z2. mm_eq.
  - rewrite m_rzz. unfold std_rzz, ZZ, Z2. rewrite !cis_neg. mm_eq. Qed.
End Gen.

Definition GCX : M := kron2 [[c0; c0]; [c0; RtoC 2]] [[c1; - c1]; [- c1; c1]].     (* (I-Z) (x) (I-X) *)
Definition GCZ : M := kron2 [[c0; c0]; [c0; RtoC 2]] [[c0; c0]; [c0; RtoC 2]].     (* (I-Z) (x) (I-Z) *)
Definition P11 : M := kron2 P1m P1m.
Lemma cis_mpi4 : cis (- (PI / 4 * 4)) = - c1.
Proof. replace (- (PI / 4 * 4))%R with (- PI)%R by field. apply cis_neg_PI. Qed.

Section Gen2.
Variables theta phi lam : R.
Lemma g_cx : proj_generator (gen_cx_genA theta phi lam) (gen_cx_genB theta phi lam) (gen_cx_matrix theta phi lam).
Proof. exists (PI / 4)%R, 4%R, GCX. split; [lra|]. split; [|split].
  - unfold gen_cx_genA, gen_cx_genB, GCX. kron_eq.
  - unfold GCX. mm_eq.
  - rewrite m_cx. unfold std_cx, GCX, expi_proj. rewrite cis_mpi4. mm_eq. Qed.
Lemma g_cz : proj_generator (gen_cz_genA theta phi lam) (gen_cz_genB theta phi lam) (gen_cz_matrix theta phi lam).
Proof. exists (PI / 4)%R, 4%R, GCZ. split; [lra|]. split; [|split].
  - unfold gen_cz_genA, gen_cz_genB, GCZ. kron_eq.
  - unfold GCZ. mm_eq.
  - rewrite m_cz. unfold std_cz, GCZ, expi_proj. rewrite cis_mpi4. mm_eq. Qed.
Lemma g_cp : proj_generator (gen_cp_genA theta phi lam) (gen_cp_genB theta phi lam) (gen_cp_matrix theta phi lam).
Proof. exists (- theta)%R, 1%R, P11. split; [lra|]. split; [|split].
  - unfold gen_cp_genA, gen_cp_genB, P11, P1m. kron_eq.
  - unfold P11, P1m. mm_eq.
  - rewrite m_cp. unfold std_cp, P11, P1m, expi_proj. replace (- (- theta * 1))%R with theta by ring. mm_eq. Qed.
End Gen2.

(* the closed forms are one-parameter groups through the identity (exp(-i(a+b)G) = exp(-iaG) exp(-ibG)) *)
Ltac trig := rewrite ?cos_plus, ?sin_plus.
Lemma invol_group_XX a b : mmul (expi_invol a XX) (expi_invol b XX) = expi_invol (a + b) XX.
Proof. unfold XX, X2. mm_eq; rewrite ?cos_plus, ?sin_plus; try ring. Qed.
Lemma invol_group_YY a b : mmul (expi_invol a YY) (expi_invol b YY) = expi_invol (a + b) YY.
Proof. unfold YY, Y2. mm_eq; rewrite ?cos_plus, ?sin_plus; try ring. Qed.
Lemma invol_group_ZZ a b : mmul (expi_invol a ZZ) (expi_invol b ZZ) = expi_invol (a + b) ZZ.
Proof. unfold ZZ, Z2. mm_eq; rewrite ?cos_plus, ?sin_plus; try ring. Qed.
Lemma invol_zero_XX : expi_invol 0 XX = I4. Proof. unfold XX, X2. mm_eq; rewrite ?cos_0, ?sin_0; try ring. Qed.
Lemma invol_zero_YY : expi_invol 0 YY = I4. Proof. unfold YY, Y2. mm_eq; rewrite ?cos_0, ?sin_0; try ring. Qed.
Lemma invol_zero_ZZ : expi_invol 0 ZZ = I4. Proof. unfold ZZ, Z2. mm_eq; rewrite ?cos_0, ?sin_0; try ring. Qed.
