(* The time grid GENERATED from /repo's current source (Gen/TimesGen.v, AnalogSimParams.__init__: self.times = ...) is the hand-written
   model the C15 theorems are about.  A changed rounding function or stop expression breaks these equalities. *)
From Coq Require Import ZArith List Bool PrimFloat.
Import ListNotations.
From Yaqs Require Import Base.Num Model.Grid Gen.TimesGen.

Theorem times_src_is_model elapsed_time dt : times_src elapsed_time dt = grid elapsed_time dt.
Proof. reflexivity. Qed.
Theorem times_src_length elapsed_time dt : Z.of_nat (length (times_src elapsed_time dt)) = Z.max 0 (grid_len elapsed_time dt).
Proof. unfold times_src. rewrite map_length, seq_length. fold (grid_steps elapsed_time dt). fold (grid_len elapsed_time dt).
  destruct (grid_len elapsed_time dt) as [|p|p]; cbn; try reflexivity. rewrite positive_nat_Z. reflexivity. Qed.
