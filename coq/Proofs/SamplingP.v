From Coq Require Import List Arith ZArith Lia.
Import ListNotations.
From Yaqs Require Import Model.Sampling.
Definition binary (l : list nat) := Forall (fun b => b < 2) l.
(* bit i of the key is the outcome of site i *)
Theorem encode_bit l : binary l -> forall i, i < length l -> (encode l / 2 ^ i) mod 2 = nth i l 0.
Proof. induction 1 as [|c l Hc Hl IH]; intros i Hi; [simpl in Hi; lia|]. cbn [encode].
  destruct i as [|i].
  - cbn [nth Nat.pow]. rewrite Nat.div_1_r. replace (c + 2 * encode l) with (c + encode l * 2) by lia. rewrite Nat.mod_add by lia. apply Nat.mod_small. exact Hc.
  - cbn [nth]. rewrite Nat.pow_succ_r', <- Nat.div_div by (try lia; apply Nat.pow_nonzero; lia).
    assert (E : (c + 2 * encode l) / 2 = encode l).
    { replace (c + 2 * encode l) with (encode l * 2 + c) by lia. rewrite Nat.div_add_l by lia. rewrite (Nat.div_small c 2) by exact Hc. lia. }
    rewrite E. apply IH. simpl in Hi. lia. Qed.
Theorem encode_injective l l' : binary l -> binary l' -> length l = length l' -> encode l = encode l' -> l = l'.
Proof. intros H. revert l'. induction H as [|c l Hc Hl IH]; intros [|c' l'] H' Hlen E; simpl in Hlen; try lia; [reflexivity|].
  inversion H' as [|? ? Hc' Hl']; subst. cbn [encode] in E.
  assert (c = c') by lia. subst c'. f_equal. apply IH; auto; lia. Qed.
(* the binary-integer form of the key is the same number, for registers of any width *)
Theorem encodeZ_encode l : encodeZ l = Z.of_nat (encode l).
Proof. induction l as [|c l IH]; [reflexivity|]. cbn [encode encodeZ]. rewrite IH. lia. Qed.
