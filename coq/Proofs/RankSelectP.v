(* Proofs about Model/RankSelect.v (C08, C09) *)
From Coq Require Import List Arith Lia Bool QArith Qabs Permutation.
Import ListNotations.
From Yaqs Require Import Base.Num Model.RankSelect.
Local Open Scope nat_scope.

(* ---------- structural facts, for ANY number system (hence also for binary64) ---------- *)
Section Any.
Context (N : Num).

Lemma dw_loop_le r : forall idx len mk d thr k0, k0 <= len -> mk <= len ->
  dw_loop N r idx len mk d thr k0 <= len.
Proof. induction r as [|s r IH]; intros idx len mk d thr k0 H0 Hm; simpl; [exact H0|].
  destruct (ltb N thr _); [lia|apply IH; assumption]. Qed.

Lemma dw_loop_ge r : forall idx len mk d thr k0, mk <= k0 -> mk <= dw_loop N r idx len mk d thr k0.
Proof. induction r as [|s r IH]; intros idx len mk d thr k0 H0; simpl; [exact H0|].
  destruct (ltb N thr _); [lia|apply IH; assumption]. Qed.

(* the loop result does not depend on keep0 once it breaks; otherwise it is keep0 *)
Lemma dw_loop_keep0 r : forall idx len mk d thr k0 k1,
  dw_loop N r idx len mk d thr k0 = k0 /\ dw_loop N r idx len mk d thr k1 = k1 \/
  dw_loop N r idx len mk d thr k0 = dw_loop N r idx len mk d thr k1.
Proof. induction r as [|s r IH]; intros idx len mk d thr k0 k1; simpl; [left; auto|].
  destruct (ltb N thr _); [right; reflexivity|apply IH]. Qed.

Theorem keep_dw_cap s thr minb maxb dyn : keep_dw N s thr minb maxb dyn <= Nat.max maxb (Nat.min (length s) minb).
Proof. unfold keep_dw. lia. Qed.

Theorem keep_dw_le_len s thr minb maxb dyn : keep_dw N s thr minb maxb dyn <= length s.
Proof. unfold keep_dw.
  assert (H : dw_loop N (rev s) 0 (length s) (Nat.min (length s) minb) (zero N) thr
                (if dyn then length s else Nat.min (length s) maxb) <= length s).
  { apply dw_loop_le; destruct dyn; lia. }
  lia. Qed.

Theorem keep_dw_ge_min s thr minb maxb dyn : Nat.min (length s) minb <= keep_dw N s thr minb maxb dyn.
Proof. unfold keep_dw. lia. Qed.

(* the capped result is the uncapped loop choice clamped into [min_keep, maxb] *)
Theorem keep_dw_is_clamped_uncapped s thr minb maxb dyn :
  keep_dw N s thr minb maxb dyn =
  Nat.max (Nat.min (keep_dw_uncapped N s thr minb) maxb) (Nat.min (length s) minb).
Proof. unfold keep_dw, keep_dw_uncapped.
  set (len := length s). set (mk := Nat.min len minb).
  destruct (dw_loop_keep0 (rev s) 0 len mk (zero N) thr (if dyn then len else Nat.min len maxb) len) as [[E0 E1]|E].
  - rewrite E0, E1. destruct dyn; lia.
  - rewrite E. reflexivity. Qed.

Theorem keep_rel_cap s thr minb maxb : keep_rel N s thr minb maxb <= Nat.max maxb minb.
Proof. unfold keep_rel. lia. Qed.

Theorem keep_rel_le_len s thr minb maxb : keep_rel N s thr minb maxb <= length s.
Proof. unfold keep_rel. lia. Qed.

Theorem keep_rel_clamp s thr minb maxb :
  keep_rel N s thr minb maxb = Nat.min (Nat.max (Nat.min (count_rel N s thr) maxb) minb) (length s).
Proof. reflexivity. Qed.

Lemma tss_loop_le r : forall idx len d thr mk, mk <= len -> tss_loop N r idx len d thr mk <= len.
Proof. induction r as [|s r IH]; intros idx len d thr mk H; simpl; [lia|]. destruct (leb N thr _); [lia|apply IH; exact H]. Qed.

Lemma tss_loop_ge r : forall idx len d thr mk, mk <= len -> mk <= tss_loop N r idx len d thr mk.
Proof. induction r as [|s r IH]; intros idx len d thr mk H; simpl; [lia|]. destruct (leb N thr _); [lia|apply IH; exact H]. Qed.

Theorem keep_tss_cap s thr minb m : keep_tss N s thr minb (Some m) <= m.
Proof. unfold keep_tss. lia. Qed.

Theorem keep_tss_le_len s thr minb mb : keep_tss N s thr minb mb <= length s.
Proof. unfold keep_tss. pose proof (tss_loop_le (rev s) 0 (length s) (zero N) thr (Nat.min (length s) minb) ltac:(lia)). destruct mb; lia. Qed.

Theorem keep_tss_min s thr minb : Nat.min (length s) minb <= keep_tss N s thr minb None.
Proof. unfold keep_tss. apply tss_loop_ge. lia. Qed.

Lemma trs_loop_le r : forall idx len a thr, 1 <= len -> trs_loop N r idx len a thr <= len.
Proof. induction r as [|s r IH]; intros idx len a thr H; simpl; [lia|]. destruct (leb N thr _); [lia|apply IH; exact H]. Qed.

Theorem keep_trs_cap s thr m : keep_trs N s thr (Some m) <= m.
Proof. unfold keep_trs. lia. Qed.
End Any.

(* ---------- the bond-dimension invariant (C08): every sequence of operations, adversarial spectra ---------- *)
Definition op_ok (B : nat) (o : bond_op) : Prop := match o with SplitAt _ k => k <= B | ShrinkAt _ _ => True end.
Definition bounded (B : nat) (dims0 dims : list nat) : Prop := Forall2 (fun d d0 => d <= Nat.max B d0) dims dims0.

Lemma set_nth_forall2 (P : nat -> nat -> Prop) l l0 i v :
  Forall2 P l l0 -> (forall d0, nth_error l0 i = Some d0 -> P v d0) -> Forall2 P (set_nth l i v) l0.
Proof. intro H. revert i. induction H as [|x y l l0 Hxy H IH]; intros i Hv; simpl; [constructor|].
  destruct i; constructor; auto. Qed.

Lemma forall2_nth (P : nat -> nat -> Prop) l l0 i d0 : Forall2 P l l0 -> nth_error l0 i = Some d0 -> P (nth i l 0) d0.
Proof. intro H. revert i. induction H as [|x y l l0 Hxy H IH]; intros i Hn; destruct i; simpl in *; try discriminate.
  - injection Hn as <-. exact Hxy.
  - apply IH. exact Hn. Qed.

Lemma bond_step_bounded B dims0 dims o : op_ok B o -> bounded B dims0 dims -> bounded B dims0 (bond_step dims o).
Proof. intros Ho Hb. destruct o as [i k|i d]; simpl in *.
  - apply set_nth_forall2; [exact Hb|]. intros d0 _. lia.
  - apply set_nth_forall2; [exact Hb|]. intros d0 Hd. pose proof (forall2_nth _ _ _ i d0 Hb Hd) as H. simpl in H. lia. Qed.

Theorem bond_invariant B dims0 ops : forall dims, Forall (op_ok B) ops -> bounded B dims0 dims ->
  bounded B dims0 (fold_left bond_step ops dims).
Proof. induction ops as [|o ops IH]; intros dims Ho Hb; simpl; [exact Hb|].
  inversion Ho; subst. apply IH; [assumption|]. apply bond_step_bounded; assumption. Qed.

Theorem bounded_refl B dims : bounded B dims dims.
Proof. unfold bounded. induction dims; constructor; auto. lia. Qed.

(* every split the simulator performs is an admissible operation for B = max cap min_bond *)
Theorem split_dw_ok N i s thr minb maxb dyn : op_ok (Nat.max maxb minb) (SplitAt i (keep_dw N s thr minb maxb dyn)).
Proof. simpl. pose proof (keep_dw_cap N s thr minb maxb dyn). lia. Qed.
Theorem split_rel_ok N i s thr minb maxb : op_ok (Nat.max maxb minb) (SplitAt i (keep_rel N s thr minb maxb)).
Proof. simpl. apply keep_rel_cap. Qed.

(* ---------- the discarded-weight rule over exact rationals (C09) ---------- *)
Local Open Scope Q_scope.
Definition fq (acc x : Q) : Q := acc + x * x.

Lemma tail_weight_Q s k : tail_weight QN s k = fold_left fq (rev (skipn k s)) 0.
Proof. reflexivity. Qed.

(* number of elements consumed before the loop breaks *)
Fixpoint consumed (r : list Q) (d thr : Q) : nat :=
  match r with [] => 0%nat | s :: r' => if negb (Qle_bool (d + s * s) thr) then 0%nat else S (consumed r' (d + s * s) thr) end.

Lemma dw_loop_consumed r : forall idx len mk d thr k0,
  dw_loop QN r idx len mk d thr k0 =
  if (consumed r d thr <? length r)%nat then Nat.max (len - (idx + consumed r d thr)) mk else k0.
Proof. induction r as [|s r IH]; intros idx len mk d thr k0; simpl; [reflexivity|].
  unfold ltb; simpl. destruct (negb (Qle_bool (d + s * s) thr)) eqn:E.
  - simpl. rewrite Nat.add_0_r. reflexivity.
  - rewrite IH. change (S (consumed r (d + s * s) thr) <? S (length r))%nat with (consumed r (d + s * s) thr <? length r)%nat.
    destruct (consumed r (d + s * s) thr <? length r)%nat; [|reflexivity]. f_equal. lia. Qed.

Lemma consumed_le r : forall d thr, (consumed r d thr <= length r)%nat.
Proof. induction r as [|s r IH]; intros d thr; simpl; [lia|]. destruct (negb _); [lia|]. specialize (IH (d + s * s) thr). lia. Qed.

Lemma consumed_prefix_ok r : forall d thr m, d <= thr -> (m <= consumed r d thr)%nat -> fold_left fq (firstn m r) d <= thr.
Proof. induction r as [|s r IH]; intros d thr m Hd Hm; simpl in *.
  - destruct m; simpl; exact Hd.
  - destruct (negb (Qle_bool (d + s * s) thr)) eqn:E.
    + assert (m = 0)%nat by lia. subst m. simpl. exact Hd.
    + destruct m as [|m]; simpl; [exact Hd|]. change (fq d s) with (d + s * s). apply IH; [|lia].
      apply negb_false_iff in E. apply Qle_bool_iff in E. exact E. Qed.

Lemma consumed_break r : forall d thr, (consumed r d thr < length r)%nat -> thr < fold_left fq (firstn (S (consumed r d thr)) r) d.
Proof. induction r as [|s r IH]; intros d thr H; simpl in *; [lia|].
  destruct (negb (Qle_bool (d + s * s) thr)) eqn:E.
  - simpl. unfold fq. apply negb_true_iff in E. apply Qnot_le_lt. intro C. apply Qle_bool_iff in C. congruence.
  - change (fq d s) with (d + s * s). apply IH. lia. Qed.

Lemma rev_skipn {A} (l : list A) k : rev (skipn k l) = firstn (length l - k) (rev l).
Proof. rewrite <- (firstn_skipn k l) at 3. rewrite rev_app_distr, firstn_app, rev_length, skipn_length.
  rewrite Nat.sub_diag. cbn [firstn]. rewrite app_nil_r.
  rewrite <- (skipn_length k l), <- rev_length. symmetry. apply firstn_all. Qed.

(* what the loop discards weighs at most the threshold *)
Theorem dw_uncapped_weight s thr minb : 0 <= thr ->
  tail_weight QN s (keep_dw_uncapped QN s thr minb) <= thr.
Proof. intro Ht. rewrite tail_weight_Q. unfold keep_dw_uncapped. rewrite dw_loop_consumed. rewrite rev_length. simpl zero.
  set (c := consumed (rev s) 0 thr). destruct (Nat.ltb_spec c (length s)) as [L|L].
  - rewrite rev_skipn. apply consumed_prefix_ok; [exact Ht|]. fold c. lia.
  - rewrite skipn_all. simpl. exact Ht. Qed.

(* ... and it discards as much as the threshold allows (unless min_bond_dim holds it back) *)
Theorem dw_uncapped_maximal s thr minb : let k := keep_dw_uncapped QN s thr minb in
  (Nat.min (length s) minb < k)%nat -> (k < length s)%nat \/ (consumed (rev s) 0 thr < length s)%nat ->
  (1 <= k)%nat /\ thr < tail_weight QN s (k - 1).
Proof. intro k. unfold k, keep_dw_uncapped. rewrite dw_loop_consumed, rev_length. simpl zero.
  set (c := consumed (rev s) 0 thr). intros Hk Hb. destruct (Nat.ltb_spec c (length s)) as [L|L]; [|lia].
  assert (E : Nat.max (length s - (0 + c)) (Nat.min (length s) minb) = (length s - c)%nat) by lia.
  rewrite E in *. split; [lia|]. rewrite tail_weight_Q, rev_skipn.
  replace (length s - (length s - c - 1))%nat with (S c) by lia. apply consumed_break. rewrite rev_length. exact L. Qed.

(* C09 rule for the value split_mps_tensor really uses (capped): either the discarded weight is within the
   threshold, or the cap forced a smaller rank than the loop chose *)
Theorem dw_rule s thr minb maxb dyn : 0 <= thr -> let keep := keep_dw QN s thr minb maxb dyn in
  tail_weight QN s keep <= thr \/
  ((maxb < keep_dw_uncapped QN s thr minb)%nat /\ keep = Nat.max maxb (Nat.min (length s) minb)).
Proof. intros Ht keep. unfold keep. rewrite keep_dw_is_clamped_uncapped.
  pose proof (dw_uncapped_weight s thr minb Ht) as W.
  assert (G : (Nat.min (length s) minb <= keep_dw_uncapped QN s thr minb)%nat).
  { unfold keep_dw_uncapped. apply dw_loop_ge. lia. }
  destruct (Nat.leb_spec (keep_dw_uncapped QN s thr minb) maxb) as [L|L].
  - left. replace (Nat.max (Nat.min (keep_dw_uncapped QN s thr minb) maxb) (Nat.min (length s) minb)) with (keep_dw_uncapped QN s thr minb) by lia. exact W.
  - right. split; [lia|]. lia. Qed.

(* relative mode over Q: counted are exactly the values >= thr * s_max *)
Theorem count_rel_spec smax r thr : 0 < smax ->
  count_rel QN (smax :: r) thr = length (filter (fun x => Qle_bool (thr * smax) x) (smax :: r)).
Proof. intro Hp. unfold count_rel. simpl eqb. simpl zero.
  assert (E : Qeq_bool smax 0 = false). { destruct (Qeq_bool smax 0) eqn:E; auto. apply Qeq_bool_iff in E. rewrite E in Hp. discriminate Hp. }
  rewrite E. f_equal. apply filter_ext. intro x. simpl leb. simpl div.
  destruct (Qle_bool (thr * smax) x) eqn:A.
  - apply Qle_bool_iff. apply Qle_bool_iff in A. apply Qle_shift_div_l; assumption.
  - destruct (Qle_bool thr (x / smax)) eqn:B; auto. apply Qle_bool_iff in B.
    assert (C : thr * smax <= x). { apply (Qmult_le_r _ _ smax Hp) in B. unfold Qdiv in B. rewrite <- Qmult_assoc in B. rewrite (Qmult_comm (/ smax)) in B. rewrite Qmult_inv_r in B by (intro Z; rewrite Z in Hp; discriminate Hp). rewrite Qmult_1_r in B. exact B. }
    apply Qle_bool_iff in C. congruence. Qed.

(* two_site_svd over Q: strictly less than the threshold is discarded *)
Fixpoint consumed_ge (r : list Q) (d thr : Q) : nat :=
  match r with [] => 0%nat | s :: r' => if Qle_bool thr (d + s * s) then 0%nat else S (consumed_ge r' (d + s * s) thr) end.
Lemma tss_loop_consumed r : forall idx len d thr mk,
  tss_loop QN r idx len d thr mk =
  if (consumed_ge r d thr <? length r)%nat then Nat.max (len - (idx + consumed_ge r d thr)) mk else len.
Proof. induction r as [|s r IH]; intros idx len d thr mk; simpl; [reflexivity|].
  destruct (Qle_bool thr (d + s * s)) eqn:E.
  - simpl. rewrite Nat.add_0_r. reflexivity.
  - rewrite IH. change (S (consumed_ge r (d + s * s) thr) <? S (length r))%nat with (consumed_ge r (d + s * s) thr <? length r)%nat.
    destruct (consumed_ge r (d + s * s) thr <? length r)%nat; [|reflexivity]. f_equal. lia. Qed.
Lemma consumed_ge_prefix r : forall d thr m, d < thr -> (m <= consumed_ge r d thr)%nat -> fold_left fq (firstn m r) d < thr.
Proof. induction r as [|s r IH]; intros d thr m Hd Hm; simpl in *.
  - destruct m; simpl; exact Hd.
  - destruct (Qle_bool thr (d + s * s)) eqn:E.
    + assert (m = 0)%nat by lia. subst m. simpl. exact Hd.
    + destruct m as [|m]; simpl; [exact Hd|]. change (fq d s) with (d + s * s). apply IH; [|lia].
      apply Qnot_le_lt. intro C. apply Qle_bool_iff in C. congruence. Qed.
Theorem tss_weight s thr minb : 0 < thr -> tail_weight QN s (keep_tss QN s thr minb None) < thr.
Proof. intro Ht. rewrite tail_weight_Q. unfold keep_tss. rewrite tss_loop_consumed, rev_length. simpl zero.
  set (c := consumed_ge (rev s) 0 thr). destruct (Nat.ltb_spec c (length s)) as [L|L].
  - rewrite rev_skipn. apply consumed_ge_prefix; [exact Ht|]. fold c. lia.
  - rewrite skipn_all. simpl. exact Ht. Qed.

(* the SVD-based centre shift (two_site_svd without a cap) cannot enlarge a bond beyond max(chi, min_bond_dim): the merged
   matrix has rank <= chi, so the singular values after the first chi vanish; as soon as the state carries at least the
   threshold weight they are discarded *)
Lemma consumed_ge_le r : forall d thr, (consumed_ge r d thr <= length r)%nat.
Proof. induction r as [|s r IH]; intros d thr; simpl; [lia|]. destruct (Qle_bool thr (d + s * s)); [lia|]. specialize (IH (d + s * s) thr). lia. Qed.
Lemma consumed_ge_zeros z : forall r d thr, d < thr -> Forall (fun x => x == 0) z -> (length z <= consumed_ge (z ++ r) d thr)%nat \/ False.
Proof. induction z as [|x z IH]; intros r d thr Hd Hz; left; simpl; [lia|].
  inversion Hz as [|? ? Hx Hz']; subst.
  assert (E : d + x * x < thr) by (rewrite Hx; ring_simplify; exact Hd).
  destruct (Qle_bool thr (d + x * x)) eqn:F; [apply Qle_bool_iff in F; exfalso; apply (Qlt_not_le _ _ E F)|].
  destruct (IH r (d + x * x) thr E Hz') as [G|[]]. lia. Qed.
Theorem tss_rank_bound s thr minb chi : 0 < thr -> Forall (fun x => x == 0) (skipn chi s) -> thr <= tail_weight QN s 0 ->
  (keep_tss QN s thr minb None <= Nat.max chi (Nat.min (length s) minb))%nat.
Proof. intros Ht Hz Hw. unfold keep_tss. rewrite tss_loop_consumed, rev_length. simpl zero.
  change (T QN) with Q in *. set (c := consumed_ge (rev s) 0 thr).
  assert (Hc : (c < length s)%nat).
  { destruct (Nat.ltb_spec c (length s)) as [L|L]; [exact L|]. exfalso.
    rewrite tail_weight_Q in Hw. simpl skipn in Hw.
    pose proof (consumed_ge_prefix (rev s) 0 thr (length (rev s)) Ht) as P. rewrite firstn_all in P. rewrite rev_length in P.
    apply (Qlt_not_le _ _ (P L) Hw). }
  apply Nat.ltb_lt in Hc. rewrite Hc. simpl Nat.add.
  assert (Hge : (length s - chi <= c)%nat).
  { unfold c. rewrite <- (firstn_skipn chi s) at 2. rewrite rev_app_distr.
    destruct (consumed_ge_zeros (rev (skipn chi s)) (rev (firstn chi s)) 0 thr Ht) as [G|[]].
    - apply Forall_rev. exact Hz.
    - rewrite rev_length, skipn_length in G. exact G. }
  lia. Qed.

(* ---------- MPS.truncate visits every bond exactly once ---------- *)
Local Open Scope nat_scope.
Lemma map_seq_rev_perm n c : c <= n -> Permutation (map (fun i => n - 1 - i) (seq 0 (n - c))) (seq c (n - c)).
Proof. intro H. remember (n - c) as m eqn:Em. revert c H Em. induction m as [|m IH]; intros c H Em; [reflexivity|].
  rewrite seq_S, map_app. cbn [map Nat.add]. replace (n - 1 - m) with c by lia.
  cbn [seq]. symmetry. transitivity (c :: map (fun i => n - 1 - i) (seq 0 m)).
  - constructor. symmetry. apply IH; lia.
  - apply Permutation_cons_append. Qed.
Theorem truncate_covers_all_bonds L c : c < L -> Permutation (map (bond_of L) (truncate_calls L c)) (seq 0 (L - 1)).
Proof. intro H. unfold truncate_calls. destruct (Nat.eqb_spec L 1) as [->|N]; [reflexivity|].
  rewrite map_app, !map_map. unfold bond_of; simpl fst; simpl snd. rewrite map_id.
  replace (seq 0 (L - 1)) with (seq 0 c ++ seq c (L - 1 - c)) by (rewrite <- seq_app; f_equal; lia).
  apply Permutation_app; [reflexivity|].
  rewrite (map_ext _ (fun i => (L - 1) - 1 - i)) by (intros; lia). apply map_seq_rev_perm. lia. Qed.
