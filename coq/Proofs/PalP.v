(* C05 — with uniform decisions (all one-site or all two-site updates) the step list of one TDVP time step is a palindrome: the
   right-to-left half sweep is the left-to-right one read backwards.  (With mixed decisions it is not; see Props/C05.) *)
From Coq Require Import List Arith Bool Lia.
Import ListNotations.
From Yaqs Require Import Model.TdvpSweep.

Definition P1 (i n : nat) : list tstep := flat_map (fun j => [TSite j true; TBond j]) (seq i n) ++ [TSite (i + n) true].
Definition P2 (i n : nat) : list tstep := flat_map (fun j => [TPair j; TSite (S j) false]) (seq i n) ++ [TPair (i + n)].

Lemma fw_all_true n : forall i lock, fw i (repeat true (S n)) lock = P1 i n.
Proof. unfold P1. induction n as [|n IH]; intros i lock.
  - cbn. rewrite Nat.add_0_r. reflexivity.
  - change (repeat true (S (S n))) with (true :: repeat true (S n)). cbn [fw].
    change (repeat true (S n)) with (true :: repeat true n) at 1. cbn [orb].
    change (true :: repeat true n) with (repeat true (S n)). rewrite IH. cbn [seq flat_map app].
    replace (S i + n) with (i + S n) by lia. reflexivity. Qed.
Lemma fw_false_step i a b r : fw i (false :: a :: b :: r) false = TPair i :: TSite (S i) false :: fw (S i) (a :: b :: r) false.
Proof. reflexivity. Qed.
Lemma fw_all_false n : forall i, fw i (repeat false (S (S n))) false = P2 i n.
Proof. unfold P2. induction n as [|n IH]; intro i.
  - cbn. rewrite Nat.add_0_r. reflexivity.
  - change (repeat false (S (S (S n)))) with (false :: false :: false :: repeat false n). rewrite fw_false_step.
    change (false :: false :: repeat false n) with (repeat false (S (S n))). rewrite IH. cbn [seq flat_map app].
    replace (S i + n) with (i + S n) by lia. reflexivity. Qed.

Lemma P1_step i n : P1 i (S n) = TSite i true :: TBond i :: P1 (S i) n.
Proof. unfold P1. cbn [seq flat_map app]. replace (S i + n) with (i + S n) by lia. reflexivity. Qed.
Lemma P1_snoc i n : P1 i (S n) = P1 i n ++ [TBond (i + n); TSite (i + S n) true].
Proof. unfold P1. rewrite seq_S, flat_map_app. cbn [flat_map app]. rewrite <- !app_assoc. reflexivity. Qed.
Lemma P2_step i n : P2 i (S n) = TPair i :: TSite (S i) false :: P2 (S i) n.
Proof. unfold P2. cbn [seq flat_map app]. replace (S i + n) with (i + S n) by lia. reflexivity. Qed.
Lemma P2_snoc i n : P2 i (S n) = P2 i n ++ [TSite (S (i + n)) false; TPair (i + S n)].
Proof. unfold P2. rewrite seq_S, flat_map_app. cbn [flat_map app]. rewrite <- !app_assoc. reflexivity. Qed.

Lemma mirror_P1 L n : forall i, i + n + 1 = L -> map (mirror L) (P1 i n) = rev (P1 (L - 1 - i - n) n).
Proof. induction n as [|n IH]; intros i H.
  - unfold P1. cbn. f_equal. f_equal. lia.
  - rewrite P1_step. cbn [map mirror]. rewrite IH by lia.
    replace (L - 1 - i - S n) with (L - 1 - S i - n) by lia. rewrite P1_snoc, rev_app_distr. cbn [rev app].
    f_equal; [f_equal; lia|]. f_equal. f_equal. lia. Qed.
Lemma mirror_P2 L n : forall i, i + n + 2 = L -> map (mirror L) (P2 i n) = rev (P2 (L - 2 - i - n) n).
Proof. induction n as [|n IH]; intros i H.
  - unfold P2. cbn. f_equal. f_equal. lia.
  - rewrite P2_step. cbn [map mirror]. rewrite IH by lia.
    replace (L - 2 - i - S n) with (L - 2 - S i - n) by lia. rewrite P2_snoc, rev_app_distr. cbn [rev app].
    f_equal; [f_equal; lia|]. f_equal. f_equal. lia. Qed.

Lemma rev_repeat (A : Type) (x : A) n : rev (repeat x n) = repeat x n.
Proof. induction n as [|n IH]; [reflexivity|]. cbn [repeat rev]. rewrite IH. clear IH.
  induction n as [|n IH]; [reflexivity|]. cbn [repeat app]. rewrite IH. reflexivity. Qed.

Theorem sweep_one_site_palindrome n : let o := repeat true (S n) in rev (sweep o o) = sweep o o.
Proof. cbn zeta. unfold sweep. rewrite repeat_length, rev_repeat, !fw_all_true.
  rewrite (mirror_P1 (S n) n 0) by lia. replace (S n - 1 - 0 - n) with 0 by lia.
  rewrite rev_app_distr, rev_involutive. reflexivity. Qed.
Theorem sweep_two_site_palindrome n : let o := repeat false (S (S n)) in rev (sweep o o) = sweep o o.
Proof. cbn zeta. unfold sweep. rewrite repeat_length, rev_repeat, !fw_all_false.
  rewrite (mirror_P2 (S (S n)) n 0) by lia. replace (S (S n) - 2 - 0 - n) with 0 by lia.
  rewrite rev_app_distr, rev_involutive. reflexivity. Qed.
