From Coq Require Import List Arith ZArith Lia Permutation.
Import ListNotations.
From Yaqs Require Import Model.BugSweep.

Lemma btotal_app j a b : btotal j (a ++ b) = (btotal j a + btotal j b)%Z.
Proof. unfold btotal. induction a as [|x a IH]; cbn [app map fold_right]; [reflexivity|]. rewrite IH. lia. Qed.
Lemma btotal_upd j (l : list nat) : NoDup l ->
  btotal j (map (fun i => BUpd i i i (S i)) l) = if in_dec Nat.eq_dec j l then 1%Z else 0%Z.
Proof. induction l as [|x l IH]; intro H; [reflexivity|]. inversion H as [|? ? Hx Hl]; subst.
  unfold btotal in *. cbn [map fold_right bsite_time]. rewrite (IH Hl).
  destruct (Nat.eqb_spec x j) as [E|E].
  - subst. destruct (in_dec Nat.eq_dec j l) as [I|I]; [contradiction|]. destruct (in_dec Nat.eq_dec j (j :: l)) as [_|N]; [reflexivity|].
    exfalso; apply N; left; reflexivity.
  - destruct (in_dec Nat.eq_dec j l) as [I|I]; destruct (in_dec Nat.eq_dec j (x :: l)) as [I'|I']; try reflexivity.
    + exfalso; apply I'; right; exact I.
    + destruct I' as [I'|I']; [congruence|contradiction]. Qed.
Lemma nodup_rev_seq L : NoDup (rev (seq 0 L)).
Proof. apply (Permutation_NoDup (Permutation_rev _)). apply seq_NoDup. Qed.

(* every site is evolved forward by exactly one dt, once; nothing else is *)
Theorem bug_time_budget L j : btotal j (bug_steps L) = if j <? L then 1%Z else 0%Z.
Proof. unfold bug_steps. rewrite btotal_app, btotal_upd by apply nodup_rev_seq.
  cbn [btotal map fold_right bsite_time]. destruct (in_dec Nat.eq_dec j (rev (seq 0 L))) as [I|I]; destruct (Nat.ltb_spec j L) as [H|H]; try lia.
  - apply in_rev, in_seq in I. lia.
  - exfalso. apply I. apply -> in_rev. apply in_seq. lia. Qed.
(* each update works with the operator tensor of its own site, the left block of the sites below it and the right block of the sites above it *)
Theorem bug_own_blocks L s : In s (bug_steps L) -> match s with BUpd i o l r => i < L /\ o = i /\ l = i /\ r = S i | BTrunc => True end.
Proof. unfold bug_steps. intro H. apply in_app_or in H. destruct H as [H|[H|[]]]; [|subst; exact I].
  apply in_map_iff in H. destruct H as [i [E H]]. subst. apply in_rev, in_seq in H. repeat split; lia. Qed.
Lemma bsites_app a b : bsites (a ++ b) = bsites a ++ bsites b.
Proof. unfold bsites. apply flat_map_app. Qed.
Lemma bsites_upd l : bsites (map (fun i => BUpd i i i (S i)) l) = l.
Proof. induction l as [|x l IH]; [reflexivity|]. cbn. f_equal. exact IH. Qed.
Theorem bug_sites_descending L : bsites (bug_steps L) = rev (seq 0 L).
Proof. unfold bug_steps. rewrite bsites_app, bsites_upd. cbn. apply app_nil_r. Qed.
(* the right block handed to the update of site i contains only sites that have already been updated in this step *)
Theorem bug_right_block_is_updated L pre i o l r post : bug_steps L = pre ++ BUpd i o l r :: post ->
  forall j, i < j -> j < L -> In j (bsites pre).
Proof. intros E j Hij HjL. pose proof (bug_sites_descending L) as D. rewrite E, bsites_app in D. cbn [bsites flat_map] in D.
  change (flat_map (fun s => match s with BUpd i _ _ _ => [i] | BTrunc => [] end) post) with (bsites post) in D. cbn [app] in D.
  assert (Hj : In j (rev (seq 0 L))) by (apply -> in_rev; apply in_seq; lia).
  rewrite <- D in Hj. apply in_app_or in Hj. destruct Hj as [Hj|[Hj|Hj]]; [exact Hj|lia|].
  exfalso.
  (* rev (seq 0 L) is strictly decreasing: an element after i is smaller than i *)
  assert (S : forall n a x b, rev (seq 0 n) = a ++ x :: b -> forall y, In y b -> y < x).
  { induction n as [|n IH]; intros a x b Hn y Hy; [destruct a; discriminate|].
    rewrite seq_S in Hn. rewrite rev_app_distr in Hn. cbn [rev app] in Hn. destruct a as [|a0 a].
    - cbn [app] in Hn. injection Hn as Hx Hb. subst. apply in_rev, in_seq in Hy. lia.
    - cbn [app] in Hn. injection Hn as _ Hn. eapply IH; eassumption. }
  specialize (S L (bsites pre) i (bsites post) (eq_sym D) j Hj). lia. Qed.
(* the truncation is the last thing that happens, once *)
Theorem bug_truncates_last L : exists pre, bug_steps L = pre ++ [BTrunc] /\ ~ In BTrunc pre.
Proof. eexists; split; [reflexivity|]. intro H. apply in_map_iff in H. destruct H as [i [E _]]. discriminate. Qed.
