From Coq Require Import List Arith Lia Bool Reals Lra.
From Coquelicot Require Import Coquelicot.
From Yaqs Require Import Base.Num Model.Verdict Proofs.NoiseAttribP.
Local Open Scope R_scope.

Lemma pow2_R n : pow2 RN n = 2 ^ n.
Proof. induction n as [|n IH]; simpl; [reflexivity|]. rewrite IH. simpl. lra. Qed.
Lemma verdict_R t n f e : verdict RN t n f e = true <-> f - e <= t / 2 ^ n.
Proof. unfold verdict. simpl. rewrite pow2_R. destruct (Rle_dec (f - e) (t / 2 ^ n)); split; intro; try assumption; try reflexivity; try discriminate. contradiction. Qed.

(* sound: an overlap below the requested fidelity by more than the noise allowance is never reported equivalent *)
Theorem verdict_sound t n f e : t / 2 ^ n < f - e -> verdict RN t n f e = false.
Proof. intro H. destruct (verdict RN t n f e) eqn:E; [|reflexivity]. apply verdict_R in E. lra. Qed.
(* complete: an overlap at or above the fidelity is reported equivalent (in particular overlap 1 for equal unitaries) *)
Theorem verdict_complete t n f e : 0 <= e -> f <= t / 2 ^ n -> verdict RN t n f e = true.
Proof. intros He H. apply verdict_R. lra. Qed.
Theorem verdict_equal_unitaries n f e : 0 <= e -> f <= 1 -> verdict RN (2 ^ n) n f e = true.
Proof. intros He Hf. apply verdict_complete; [exact He|]. unfold Rdiv. rewrite Rinv_r; [exact Hf|]. apply pow_nonzero. lra. Qed.
(* symmetric: swapping the circuits conjugates the trace, |conj z| = |z| *)
Theorem verdict_symmetric (z : C) n f e : verdict RN (Cmod (Cconj z)) n f e = verdict RN (Cmod z) n f e.
Proof. assert (E : Cmod (Cconj z) = Cmod z).
  { unfold Cmod, Cconj. simpl. f_equal. ring. }
  rewrite E. reflexivity. Qed.
