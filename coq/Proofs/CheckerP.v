From Coq Require Import List Arith Bool Lia Permutation.
Import ListNotations.
From Yaqs Require Import Model.DigitalLoop Proofs.DigitalLoopP Model.Checker.

(* ---------- the temporal zone ---------- *)
Lemma sub_spec a b : sub a b = true <-> forall q, In q a -> In q b.
Proof. unfold sub. rewrite forallb_forall. split; intros H q Hq; specialize (H q Hq); apply mem_spec; exact H. Qed.
Lemma minus_spec cone a q : In q (minus cone a) <-> In q cone /\ ~ In q a.
Proof. unfold minus. rewrite filter_In. rewrite negb_true_iff. split; intros [H1 H2]; split; auto.
  - intro C. apply mem_spec in C. congruence.
  - destruct (mem q a) eqn:E; auto. exfalso. apply H2. apply mem_spec. exact E. Qed.

Lemma zone_taken_sub : forall c cone t r, zone cone c = (t, r) -> forall g, In g t -> forall q, In q (qs g) -> In q cone.
Proof. induction c as [|g c IH]; intros cone t r Z x Hx q Hq; cbn [zone] in Z.
  - injection Z as <- <-. destruct Hx.
  - destruct cone as [|c0 cone']; [injection Z as <- <-; destruct Hx|]. set (cone := c0 :: cone') in *.
    destruct (sub (qs g) cone) eqn:S.
    + destruct (zone cone c) as [t' r'] eqn:Z'. injection Z as <- <-. destruct Hx as [<-|Hx].
      * exact (proj1 (sub_spec _ _) S q Hq).
      * eapply IH; eauto.
    + destruct (zone (minus cone (qs g)) c) as [t' r'] eqn:Z'. injection Z as <- <-.
      pose proof (IH _ _ _ Z' x Hx q Hq) as H. apply minus_spec in H. tauto. Qed.

Lemma zone_skipped_disjoint : forall c cone t r g, zone cone (g :: c) = (t, g :: r) -> ~ In g t -> cone <> [] -> sub (qs g) cone = false ->
  forall x, In x t -> shares g x = false.
Proof. intros c cone t r g Z _ Hc S x Hx. cbn [zone] in Z. destruct cone as [|c0 cone']; [congruence|]. rewrite S in Z.
  destruct (zone (minus (c0 :: cone') (qs g)) c) as [t' r'] eqn:Z'. injection Z as <- <-.
  unfold shares. apply negb_false_iff. apply disjoint_spec. intros q Hq Hq2.
  pose proof (zone_taken_sub _ _ _ _ Z' x Hx q Hq2) as H. apply minus_spec in H. tauto. Qed.

Lemma zone_perm : forall c cone t r, zone cone c = (t, r) -> Permutation c (t ++ r).
Proof. induction c as [|g c IH]; intros cone t r Z; cbn [zone] in Z.
  - injection Z as <- <-. constructor.
  - destruct cone as [|c0 cone']; [injection Z as <- <-; apply Permutation_refl|]. set (cone := c0 :: cone') in *.
    destruct (sub (qs g) cone).
    + destruct (zone cone c) as [t' r'] eqn:Z'. injection Z as <- <-. cbn [app]. constructor. eapply IH; eauto.
    + destruct (zone (minus cone (qs g)) c) as [t' r'] eqn:Z'. injection Z as <- <-.
      apply Permutation_cons_app. eapply IH; eauto. Qed.

Lemma before_cons_in g l b : In b l -> before (g :: l) g b.
Proof. intro H. apply in_split in H as (x & y & ->). exists [], x, y. reflexivity. Qed.
Lemma before_cons g l a b : before l a b -> before (g :: l) a b.
Proof. intros (x & y & z & ->). exists (g :: x), y, z. reflexivity. Qed.
Lemma before_inv_cons g l a b : before (g :: l) a b -> (a = g /\ In b l) \/ before l a b.
Proof. intros (x & y & z & E). destruct x as [|x0 x]; cbn [app] in E; injection E as E1 E2.
  - left. split; [symmetry; exact E1|]. rewrite E2. apply in_app_iff. right. left. reflexivity.
  - right. exists x, y, z. exact E2. Qed.
Lemma before_insert g l1 l2 a b : before (l1 ++ l2) a b -> before (l1 ++ g :: l2) a b.
Proof. intros (x & y & z & E).
  (* position of the split point relative to x, y, z *)
  revert x y z E. induction l1 as [|h l1 IH]; intros x y z E; cbn [app] in *.
  - apply before_cons. exists x, y, z. exact E.
  - destruct x as [|x0 x]; cbn [app] in E; injection E as E1 E2.
    + subst h. assert (In b (l1 ++ l2)) by (rewrite E2; apply in_app_iff; right; left; reflexivity).
      apply before_cons_in. apply in_app_iff in H as [H|H]; apply in_app_iff; [left; exact H|right; right; exact H].
    + subst h. apply before_cons. eapply IH. exact E2. Qed.

(* gates that depend on each other keep their order when a zone is pulled in front of the rest *)
Lemma zone_order : forall c cone t r, zone cone c = (t, r) ->
  forall a b, shares a b = true -> before c a b -> before (t ++ r) a b.
Proof. induction c as [|g c IH]; intros cone t r Z a b S B; cbn [zone] in Z.
  - destruct B as (x & y & z & E). destruct x; discriminate.
  - destruct cone as [|c0 cone']; [injection Z as <- <-; exact B|]. set (cone := c0 :: cone') in *.
    destruct (sub (qs g) cone) eqn:Sg.
    + destruct (zone cone c) as [t' r'] eqn:Z'. injection Z as <- <-. cbn [app].
      apply before_inv_cons in B as [[-> Hb]|B].
      * apply before_cons_in. eapply Permutation_in; [eapply zone_perm; eauto|exact Hb].
      * apply before_cons. eapply IH; eauto.
    + destruct (zone (minus cone (qs g)) c) as [t' r'] eqn:Z'. injection Z as <- <-.
      apply before_inv_cons in B as [[-> Hb]|B].
      * assert (Hb' : In b (t' ++ r')) by (eapply Permutation_in; [eapply zone_perm; eauto|exact Hb]).
        apply in_app_iff in Hb' as [Hb'|Hb'].
        -- exfalso. assert (shares g b = false).
           { unfold shares. apply negb_false_iff. apply disjoint_spec. intros q Hq Hq2.
             pose proof (zone_taken_sub _ _ _ _ Z' b Hb' q Hq2) as H. apply minus_spec in H. tauto. }
           congruence.
        -- apply in_split in Hb' as (x & y & ->). exists t', x, y. reflexivity.
      * apply before_insert. eapply IH; eauto. Qed.

(* ---------- the invariant: log-side ++ remaining is a dependency-preserving rearrangement of the circuit ---------- *)
Definition virt (sd : side) (s : cstate) : list instr := side_log sd (log s) ++ (match sd with L => c1 s | R => c2 s end).
Definition rearr (orig cur : list instr) : Prop :=
  Permutation orig cur /\ forall a b, shares a b = true -> before orig a b -> before cur a b.
Lemma rearr_refl l : rearr l l. Proof. split; [apply Permutation_refl|auto]. Qed.
Lemma rearr_trans a b c : rearr a b -> rearr b c -> rearr a c.
Proof. intros [P1 H1] [P2 H2]. split; [eapply Permutation_trans; eauto|]. intros x y S B. apply H2; auto. Qed.

Lemma side_log_app sd a b : side_log sd (a ++ b) = side_log sd a ++ side_log sd b.
Proof. unfold side_log. rewrite filter_app, map_app. reflexivity. Qed.
Lemma side_log_same sd t : side_log sd (map (pair sd) t) = t.
Proof. unfold side_log. induction t as [|x t IH]; cbn; [reflexivity|]. destruct sd; cbn; rewrite IH; reflexivity. Qed.
Lemma side_log_other sd sd' t : sd <> sd' -> side_log sd (map (pair sd') t) = [].
Proof. intro H. unfold side_log. induction t as [|x t IH]; cbn; [reflexivity|]. destruct sd, sd'; try congruence; cbn; exact IH. Qed.

Lemma before_app_l (l1 l2 : list instr) a b : before l1 a b -> before (l1 ++ l2) a b.
Proof. intros (x & y & z & ->). exists x, y, (z ++ l2). rewrite <- !app_assoc. cbn. rewrite <- app_assoc. reflexivity. Qed.
Lemma before_app_inv (l1 l2 : list instr) a b : before (l1 ++ l2) a b -> before l1 a b \/ (In a l1 /\ In b l2) \/ before l2 a b.
Proof. revert a b. induction l1 as [|h l1 IH]; intros a b B; cbn [app] in B.
  - right. right. exact B.
  - apply before_inv_cons in B as [[-> Hb]|B].
    + apply in_app_iff in Hb as [Hb|Hb]; [left; apply before_cons_in; exact Hb|right; left; split; [left; reflexivity|exact Hb]].
    + destruct (IH _ _ B) as [H|[[H1 H2]|H]]; [left; apply before_cons; exact H|right; left; split; [right; exact H1|exact H2]|right; right; exact H]. Qed.

(* pulling a zone out of the remaining part of one side *)
Lemma rearr_zone pre c cone t r : zone cone c = (t, r) -> rearr (pre ++ c) ((pre ++ t) ++ r).
Proof. intro Z. rewrite <- app_assoc. split.
  - apply Permutation_app_head. eapply zone_perm; eauto.
  - intros a b S B. destruct (before_app_inv _ _ _ _ B) as [H|[[H1 H2]|H]].
    + apply before_app_l. exact H.
    + apply before_app_lr; [exact H1|]. eapply Permutation_in; [eapply zone_perm; eauto|exact H2].
    + apply before_app_r. eapply zone_order; eauto. Qed.

Lemma update_virt_L n s : rearr (virt L s) (virt L (update n s)).
Proof. unfold virt, update. destruct (zone [n; S n] (c1 s)) as [t1 r1] eqn:Z1. destruct (zone [n; S n] (c2 s)) as [t2 r2] eqn:Z2.
  cbn [log c1]. rewrite !side_log_app, side_log_same, (side_log_other L R) by congruence. rewrite app_nil_r.
  eapply rearr_zone. exact Z1. Qed.
Lemma update_virt_R n s : rearr (virt R s) (virt R (update n s)).
Proof. unfold virt, update. destruct (zone [n; S n] (c1 s)) as [t1 r1] eqn:Z1. destruct (zone [n; S n] (c2 s)) as [t2 r2] eqn:Z2.
  cbn [log c2]. rewrite !side_log_app, side_log_same, (side_log_other R L) by congruence. cbn [app].
  eapply rearr_zone. exact Z2. Qed.
Lemma updates_virt sd ns : forall s, rearr (virt sd s) (virt sd (fold_left (fun st n => update n st) ns s)).
Proof. induction ns as [|n ns IH]; intro s; cbn [fold_left]; [apply rearr_refl|].
  eapply rearr_trans; [|apply IH]. destruct sd; [apply update_virt_L|apply update_virt_R]. Qed.

(* removing a front gate and logging it *)
Lemma remove_id_split g c : NoDup (map id c) -> In g c -> exists x y, c = x ++ g :: y /\ remove_id g c = x ++ y.
Proof. intros ND Hg. apply in_split in Hg as (x & y & ->). exists x, y. split; [reflexivity|].
  unfold remove_id. rewrite filter_app. cbn [filter]. rewrite Nat.eqb_refl. cbn [negb].
  rewrite map_app in ND. cbn [map] in ND. pose proof (NoDup_remove_2 _ _ _ ND) as N.
  assert (F : forall l, (forall i, In i l -> id i <> id g) -> filter (fun i => negb (id i =? id g)) l = l).
  { induction l as [|h l IHl]; intro H; cbn; [reflexivity|]. destruct (Nat.eqb_spec (id h) (id g)) as [E|E].
    - exfalso. apply (H h); [left; reflexivity|exact E].
    - cbn. rewrite IHl; [reflexivity|]. intros i Hi. apply H. right. exact Hi. }
  rewrite !F; [reflexivity| |].
  - intros i Hi E. apply N. apply in_app_iff. right. rewrite <- E. apply in_map. exact Hi.
  - intros i Hi E. apply N. apply in_app_iff. left. rewrite <- E. apply in_map. exact Hi. Qed.

Lemma rearr_front pre c g : NoDup (map id c) -> In g (front c) -> rearr (pre ++ c) ((pre ++ [g]) ++ remove_id g c).
Proof. intros ND F. pose proof (front_subset _ _ F) as Hg. destruct (remove_id_split g c ND Hg) as (x & y & E & ->).
  rewrite <- app_assoc. cbn [app]. split.
  - apply Permutation_app_head. rewrite E. symmetry. apply Permutation_middle.
  - intros a b S B. destruct (before_app_inv _ _ _ _ B) as [H|[[H1 H2]|H]].
    + apply before_app_l. exact H.
    + apply before_app_lr; [exact H1|]. rewrite E in H2. apply in_app_iff in H2 as [H2|[<-|H2]];
        [right; apply in_app_iff; left; exact H2|left; reflexivity|right; apply in_app_iff; right; exact H2].
    + apply before_app_r. rewrite E in H.
      (* g is in the front layer: nothing before it shares a qubit with it *)
      destruct (instr_eq_dec b g) as [->|Nb].
      * exfalso. destruct H as (u & v & w & E2).
        assert (shares a g = false). { eapply (front_blocked c a g u v w); [apply nodup_of_ids; exact ND|rewrite E; exact E2|exact F]. }
        congruence.
      * destruct (instr_eq_dec a g) as [->|Na].
        -- apply before_cons_in. apply before_in in H as [_ Hb]. apply in_app_iff in Hb as [Hb|[Hb|Hb]];
             [apply in_app_iff; left; exact Hb|congruence|apply in_app_iff; right; exact Hb].
        -- apply before_cons. eapply (before_remove (x ++ g :: y) g); eauto. rewrite <- E. apply nodup_of_ids. exact ND. Qed.

Lemma find_some_in {A} (f : A -> bool) l x : find f l = Some x -> In x l.
Proof. intro H. apply find_some in H. tauto. Qed.

Definition wf (s : cstate) : Prop := NoDup (map id (c1 s)) /\ NoDup (map id (c2 s)).
Lemma nodup_app_r {A} (l1 l2 : list A) : NoDup (l1 ++ l2) -> NoDup l2.
Proof. induction l1 as [|a l1 IH]; cbn; intro H; [exact H|]. inversion H; subst. apply IH. assumption. Qed.
Lemma zone_nodup c cone t r : zone cone c = (t, r) -> NoDup (map id c) -> NoDup (map id r).
Proof. intros Z ND. pose proof (zone_perm _ _ _ _ Z) as P. apply (Permutation_map id) in P. rewrite map_app in P.
  apply (Permutation_NoDup P) in ND. apply nodup_app_r in ND. exact ND. Qed.
Lemma update_wf n s : wf s -> wf (update n s).
Proof. intros [W1 W2]. unfold update. destruct (zone [n; S n] (c1 s)) as [t1 r1] eqn:Z1. destruct (zone [n; S n] (c2 s)) as [t2 r2] eqn:Z2.
  split; cbn [c1 c2]; [eapply zone_nodup; eauto|eapply zone_nodup; eauto]. Qed.
Lemma updates_wf ns : forall s, wf s -> wf (fold_left (fun st n => update n st) ns s).
Proof. induction ns as [|n ns IH]; intros s W; cbn [fold_left]; [exact W|]. apply IH. apply update_wf. exact W. Qed.
Lemma remove_id_nodup g c : NoDup (map id c) -> NoDup (map id (remove_id g c)).
Proof. intro H. unfold remove_id. apply filter_map_nodup. exact H. Qed.

Lemma reorder_in prefs l g : In g (reorder prefs l) -> In g l.
Proof. unfold reorder. intro H. apply in_app_iff in H as [H|H]; [|exact H]. apply in_flat_map in H as (i & _ & H). apply filter_In in H. tauto. Qed.
Lemma lr_step_virt prefs sd s : wf s -> rearr (virt sd s) (virt sd (lr_step prefs s)) /\ wf (lr_step prefs s).
Proof. intros [W1 W2]. unfold lr_step. destruct (longest (c1 s) <? longest (c2 s)) eqn:Cj.
  - destruct (long_gate prefs (c2 s)) as [g|] eqn:LG; [|split; [apply rearr_refl|split; assumption]].
    apply find_some_in in LG. apply reorder_in in LG. split.
    + eapply rearr_trans; [|apply updates_virt]. unfold virt. cbn [log c1 c2]. rewrite side_log_app. destruct sd.
      * cbn. rewrite app_nil_r. apply rearr_refl.
      * change (side_log R [(R, g)]) with [g]. apply rearr_front; assumption.
    + apply updates_wf. split; cbn [c1 c2]; [exact W1|apply remove_id_nodup; exact W2].
  - destruct (long_gate prefs (c1 s)) as [g|] eqn:LG; [|split; [apply rearr_refl|split; assumption]].
    apply find_some_in in LG. apply reorder_in in LG. split.
    + eapply rearr_trans; [|apply updates_virt]. unfold virt. cbn [log c1 c2]. rewrite side_log_app. destruct sd.
      * change (side_log L [(L, g)]) with [g]. apply rearr_front; assumption.
      * cbn. rewrite app_nil_r. apply rearr_refl.
    + apply updates_wf. split; cbn [c1 c2]; [apply remove_id_nodup; exact W1|exact W2]. Qed.

Lemma step_virt prefs sweep sd s : wf s -> rearr (virt sd s) (virt sd (step prefs sweep s)) /\ wf (step prefs sweep s).
Proof. intro W. unfold step. destruct (short_layers s).
  - split; [apply updates_virt|apply updates_wf; exact W].
  - apply lr_step_virt. exact W. Qed.

Theorem iterate_rearr prefs sweep : forall fuel s s', wf s -> iterate_with prefs fuel sweep s = Some s' ->
  c1 s' = [] /\ c2 s' = [] /\ rearr (virt L s) (side_log L (log s')) /\ rearr (virt R s) (side_log R (log s')).
Proof. induction fuel as [|f IH]; intros s s' W It; cbn [iterate_with] in It.
  - destruct (c1 s) eqn:E1; [destruct (c2 s) eqn:E2|]; try discriminate. injection It as <-.
    unfold virt. rewrite E1, E2, !app_nil_r. repeat split; auto; apply rearr_refl.
  - destruct (c1 s) eqn:E1; [destruct (c2 s) eqn:E2|].
    + injection It as <-. unfold virt. rewrite E1, E2, !app_nil_r. repeat split; auto; apply rearr_refl.
    + destruct (step_virt prefs sweep L s W) as [RL W']. destruct (step_virt prefs sweep R s W) as [RR _].
      destruct (IH _ _ W' It) as (A & B & C & D). repeat split; auto; eapply rearr_trans; eauto.
    + destruct (step_virt prefs sweep L s W) as [RL W']. destruct (step_virt prefs sweep R s W) as [RR _].
      destruct (IH _ _ W' It) as (A & B & C & D). repeat split; auto; eapply rearr_trans; eauto. Qed.

(* ---------- what the MPO holds: U1 . U2^dagger, in every semantics where gates on disjoint qubits commute ---------- *)
Section Sem.
Variable M : Type.
Variable op : M -> M -> M.
Variable e : M.
Variable star : M -> M.
Hypothesis op_assoc : forall a b c, op a (op b c) = op (op a b) c.
Hypothesis op_e_l : forall a, op e a = a.
Hypothesis op_e_r : forall a, op a e = a.
Hypothesis star_op : forall a b, star (op a b) = op (star b) (star a).
Hypothesis star_e : star e = e.
Variable sem : instr -> M.
Hypothesis commute : forall a b, shares a b = false -> op (sem a) (sem b) = op (sem b) (sem a).

(* the unitary of a circuit: later gates multiply from the left *)
Definition U (c : list instr) : M := fold_left (fun m g => op (sem g) m) c e.
(* the value the checker's MPO holds after a sequence of applications: left = G.M, right = M.G^dagger *)
Definition apply1 (m : M) (p : side * instr) : M := match fst p with L => op (sem (snd p)) m | R => op m (star (sem (snd p))) end.
Definition value (l : list (side * instr)) : M := fold_left apply1 l e.

Lemma U_snoc c g : U (c ++ [g]) = op (sem g) (U c).
Proof. unfold U. rewrite fold_left_app. reflexivity. Qed.
Lemma value_snoc l p : value (l ++ [p]) = apply1 (value l) p.
Proof. unfold value. rewrite fold_left_app. reflexivity. Qed.
Lemma side_log_snoc sd l p : side_log sd (l ++ [p]) = side_log sd l ++ (match fst p, sd with L, L | R, R => [snd p] | _, _ => [] end).
Proof. rewrite side_log_app. f_equal. unfold side_log. cbn. destruct (fst p), sd; reflexivity. Qed.

Theorem value_factorises l : value l = op (U (side_log L l)) (star (U (side_log R l))).
Proof. induction l as [|p l IH] using rev_ind.
  - cbn. rewrite star_e, op_e_l. reflexivity.
  - rewrite value_snoc, !side_log_snoc, IH. unfold apply1. destruct p as [[|] g]; cbn [fst snd].
    + rewrite U_snoc, app_nil_r. rewrite op_assoc. reflexivity.
    + rewrite U_snoc, app_nil_r. rewrite star_op. rewrite <- op_assoc. reflexivity. Qed.

(* U as a product in the opposite monoid, to reuse the trace-monoid lemma *)
Let op' (a b : M) := op b a.
Lemma op'_assoc a b c : op' a (op' b c) = op' (op' a b) c. Proof. unfold op'. rewrite op_assoc. reflexivity. Qed.
Lemma op'_e_l a : op' e a = a. Proof. unfold op'. apply op_e_r. Qed.
Lemma op'_e_r a : op' a e = a. Proof. unfold op'. apply op_e_l. Qed.
Lemma op'_commute a b : shares a b = false -> op' (sem a) (sem b) = op' (sem b) (sem a).
Proof. intro H. unfold op'. symmetry. apply commute. exact H. Qed.
Lemma U_prod c : U c = prod M op' e sem c.
Proof. induction c as [|g c IH] using rev_ind; [reflexivity|]. rewrite U_snoc, IH.
  rewrite (prod_app M op' e op'_assoc op'_e_l sem). cbn [prod fold_right]. rewrite op'_e_r. reflexivity. Qed.

Theorem U_rearr a b : NoDup a -> rearr a b -> U a = U b.
Proof. intros ND [P H]. rewrite !U_prod.
  exact (linearisations_agree M op' e op'_assoc op'_e_l op'_e_r sem op'_commute a b ND P H). Qed.

(* the construction: for any two circuits and any sweep order, if the loop ends the MPO holds U1 . U2^dagger *)
Theorem checker_builds_product prefs fuel sweep a b s : NoDup (map id a) -> NoDup (map id b) ->
  iterate_with prefs fuel sweep (init a b) = Some s -> value (log s) = op (U a) (star (U b)).
Proof. intros Na Nb It. destruct (iterate_rearr prefs sweep fuel (init a b) s (conj Na Nb) It) as (_ & _ & RL & RR).
  unfold virt, init in RL, RR. cbn in RL, RR. rewrite value_factorises.
  rewrite <- (U_rearr a _ (nodup_of_ids _ Na) RL), <- (U_rearr b _ (nodup_of_ids _ Nb) RR). reflexivity. Qed.
End Sem.

(* ---------- termination: every step consumes a gate ---------- *)
Definition mu (s : cstate) : nat := length (c1 s) + length (c2 s).
Definition fits (n : nat) (g : instr) : bool := sub (qs g) [n; S n].
(* the sweep reaches every short gate: some pair (n, n+1) of the sweep contains its qubits *)
Definition covered (sweep : list nat) (s : cstate) : Prop :=
  forall g, In g (c1 s) \/ In g (c2 s) -> dist g <= 2 -> exists n, In n sweep /\ fits n g = true.

Lemma zone_len : forall c cone t r, zone cone c = (t, r) -> length c = length t + length r.
Proof. intros c cone t r Z. pose proof (zone_perm _ _ _ _ Z) as P. apply Permutation_length in P. rewrite app_length in P. exact P. Qed.
Lemma zone_rest_in : forall c cone t r, zone cone c = (t, r) -> forall g, In g r -> In g c.
Proof. intros c cone t r Z g H. eapply Permutation_in; [symmetry; eapply zone_perm; eauto|]. apply in_app_iff. right. exact H. Qed.

Lemma update_c1_le n s : length (c1 (update n s)) <= length (c1 s).
Proof. unfold update. destruct (zone [n; S n] (c1 s)) as [t1 r1] eqn:Z1. destruct (zone [n; S n] (c2 s)) as [t2 r2] eqn:Z2.
  cbn [c1]. apply zone_len in Z1. lia. Qed.
Lemma update_c2_le n s : length (c2 (update n s)) <= length (c2 s).
Proof. unfold update. destruct (zone [n; S n] (c1 s)) as [t1 r1] eqn:Z1. destruct (zone [n; S n] (c2 s)) as [t2 r2] eqn:Z2.
  cbn [c2]. apply zone_len in Z2. lia. Qed.
Lemma updates_le ns : forall s, length (c1 (fold_left (fun st n => update n st) ns s)) <= length (c1 s) /\
                               length (c2 (fold_left (fun st n => update n st) ns s)) <= length (c2 s).
Proof. induction ns as [|n ns IH]; intro s; cbn [fold_left]; [lia|]. destruct (IH (update n s)) as [A B].
  pose proof (update_c1_le n s). pose proof (update_c2_le n s). lia. Qed.
Lemma update_in n s g : In g (c1 (update n s)) \/ In g (c2 (update n s)) -> In g (c1 s) \/ In g (c2 s).
Proof. unfold update. destruct (zone [n; S n] (c1 s)) as [t1 r1] eqn:Z1. destruct (zone [n; S n] (c2 s)) as [t2 r2] eqn:Z2.
  cbn [c1 c2]. intros [H|H]; [left; eapply zone_rest_in; eauto|right; eapply zone_rest_in; eauto]. Qed.
Lemma updates_in ns : forall s g, In g (c1 (fold_left (fun st n => update n st) ns s)) \/ In g (c2 (fold_left (fun st n => update n st) ns s)) ->
  In g (c1 s) \/ In g (c2 s).
Proof. induction ns as [|n ns IH]; intros s g H; cbn [fold_left] in H; [exact H|]. apply update_in with (n := n). apply IH. exact H. Qed.

(* the first remaining gate of a circuit is consumed by the sweep *)
Lemma zone_head n g c : fits n g = true -> length (snd (zone [n; S n] (g :: c))) <= length c.
Proof. intro F. cbn [zone]. unfold fits in F. rewrite F. destruct (zone [n; S n] c) as [t r] eqn:Z. cbn [snd]. apply zone_len in Z. lia. Qed.
Lemma zone_head_stays n g c : fits n g = false -> exists r, snd (zone [n; S n] (g :: c)) = g :: r /\ length r <= length c.
Proof. intro F. cbn [zone]. unfold fits in F. rewrite F. destruct (zone (minus [n; S n] (qs g)) c) as [t r] eqn:Z. cbn [snd].
  exists r. split; [reflexivity|]. apply zone_len in Z. lia. Qed.
Lemma c1_update n s : c1 (update n s) = snd (zone [n; S n] (c1 s)).
Proof. unfold update. destruct (zone [n; S n] (c1 s)); destruct (zone [n; S n] (c2 s)); reflexivity. Qed.
Lemma c2_update n s : c2 (update n s) = snd (zone [n; S n] (c2 s)).
Proof. unfold update. destruct (zone [n; S n] (c1 s)); destruct (zone [n; S n] (c2 s)); reflexivity. Qed.

Lemma sweep_consumes_head1 ns : forall s g c, c1 s = g :: c -> (exists n, In n ns /\ fits n g = true) ->
  length (c1 (fold_left (fun st n => update n st) ns s)) < length (c1 s).
Proof. induction ns as [|n ns IH]; intros s g c E (m & Hm & F); [destruct Hm|]. cbn [fold_left].
  destruct (fits n g) eqn:Fn.
  - pose proof (proj1 (updates_le ns (update n s))) as A. rewrite c1_update, E in *. pose proof (zone_head n g c Fn). cbn [length]. lia.
  - destruct (zone_head_stays n g c Fn) as (r & Er & Lr).
    assert (E' : c1 (update n s) = g :: r) by (rewrite c1_update, E; exact Er).
    destruct Hm as [<-|Hm]; [congruence|].
    pose proof (IH (update n s) g r E' (ex_intro _ m (conj Hm F))) as A. rewrite E' in A. rewrite E. cbn [length] in *. lia. Qed.
Lemma sweep_consumes_head2 ns : forall s g c, c2 s = g :: c -> (exists n, In n ns /\ fits n g = true) ->
  length (c2 (fold_left (fun st n => update n st) ns s)) < length (c2 s).
Proof. induction ns as [|n ns IH]; intros s g c E (m & Hm & F); [destruct Hm|]. cbn [fold_left].
  destruct (fits n g) eqn:Fn.
  - pose proof (proj2 (updates_le ns (update n s))) as A. rewrite c2_update, E in *. pose proof (zone_head n g c Fn). cbn [length]. lia.
  - destruct (zone_head_stays n g c Fn) as (r & Er & Lr).
    assert (E' : c2 (update n s) = g :: r) by (rewrite c2_update, E; exact Er).
    destruct Hm as [<-|Hm]; [congruence|].
    pose proof (IH (update n s) g r E' (ex_intro _ m (conj Hm F))) as A. rewrite E' in A. rewrite E. cbn [length] in *. lia. Qed.

Lemma longest_ge c g : In g (front c) -> dist g <= longest c.
Proof. unfold longest. induction (front c) as [|x l IH]; intro H; [destruct H|]. cbn [map fold_right]. destruct H as [->|H]; [lia|].
  specialize (IH H). lia. Qed.
Lemma longest_has c : 2 < longest c -> exists g, In g (front c) /\ (2 <? dist g) = true.
Proof. unfold longest. induction (front c) as [|x l IH]; cbn [map fold_right]; intro H; [lia|].
  destruct (2 <? dist x) eqn:E.
  - exists x. split; [left; reflexivity|exact E].
  - apply Nat.ltb_ge in E. assert (2 < fold_right Nat.max 1 (map dist l)) by lia. destruct (IH H0) as (g & A & B). exists g. split; [right; exact A|exact B]. Qed.
Lemma find_exists {A} (f : A -> bool) l x : In x l -> f x = true -> exists y, find f l = Some y.
Proof. induction l as [|h l IH]; intros H F; [destruct H|]. cbn. destruct (f h) eqn:E; [exists h; reflexivity|].
  destruct H as [->|H]; [congruence|]. apply IH; auto. Qed.
Lemma longest_witness prefs c : 2 < longest c -> exists g, long_gate prefs c = Some g /\ In g (front c).
Proof. intro H. destruct (longest_has c H) as (x & Ix & Fx). unfold long_gate.
  destruct (find_exists (fun g => 2 <? dist g) (reorder prefs (front c)) x) as (g & Eg); [unfold reorder; apply in_app_iff; right; exact Ix|exact Fx|].
  exists g. split; [exact Eg|]. apply find_some_in in Eg. apply reorder_in in Eg. exact Eg. Qed.
Lemma remove_id_lt g c : In g c -> length (remove_id g c) < length c.
Proof. intro H. unfold remove_id. apply (filter_length_lt _ c g H). rewrite Nat.eqb_refl. reflexivity. Qed.
Lemma remove_id_in g c x : In x (remove_id g c) -> In x c.
Proof. unfold remove_id. intro H. apply filter_In in H. tauto. Qed.

Lemma step_decreases prefs sweep s : covered sweep s -> (c1 s <> [] \/ c2 s <> []) -> mu (step prefs sweep s) < mu s /\ covered sweep (step prefs sweep s).
Proof. intros Cov NE. unfold step. destruct (short_layers s) eqn:Sh.
  - apply andb_true_iff in Sh as [S1 S2]. apply Nat.leb_le in S1, S2. split.
    + destruct (updates_le sweep s) as [A B]. unfold mu. destruct (c1 s) as [|g c] eqn:E1.
      * destruct (c2 s) as [|g c] eqn:E2; [destruct NE; congruence|].
        assert (D : dist g <= 2). { pose proof (longest_ge (g :: c) g (front_nonempty g c)) as H. lia. }
        assert (I2 : In g (c1 s) \/ In g (c2 s)) by (right; rewrite E2; left; reflexivity).
        pose proof (sweep_consumes_head2 sweep s g c E2 (Cov g I2 D)) as H. rewrite E2 in H. cbn [length] in *. lia.
      * assert (D : dist g <= 2). { pose proof (longest_ge (g :: c) g (front_nonempty g c)) as H. lia. }
        assert (I1 : In g (c1 s) \/ In g (c2 s)) by (left; rewrite E1; left; reflexivity).
        pose proof (sweep_consumes_head1 sweep s g c E1 (Cov g I1 D)) as H. rewrite E1 in H. cbn [length] in *. lia.
    + intros g Hg D. apply Cov; [|exact D]. eapply updates_in. exact Hg.
  - unfold lr_step. apply andb_false_iff in Sh.
    destruct (longest (c1 s) <? longest (c2 s)) eqn:Cj.
    + apply Nat.ltb_lt in Cj. assert (L2 : 2 < longest (c2 s)).
      { destruct Sh as [Sh|Sh]; apply Nat.leb_gt in Sh; lia. }
      destruct (longest_witness prefs _ L2) as (g & LG & Fg). rewrite LG. pose proof (front_subset _ _ Fg) as Ig.
      set (s1 := {| c1 := c1 s; c2 := remove_id g (c2 s); log := log s ++ [(R, g)] |}).
      destruct (updates_le (lr_pairs (minq g) (dist g)) s1) as [A B]. split.
      * subst s1. unfold mu. cbn [c1 c2] in A, B. pose proof (remove_id_lt g _ Ig). lia.
      * subst s1. intros x Hx D. apply Cov; [|exact D]. apply updates_in in Hx. cbn [c1 c2] in Hx. destruct Hx as [Hx|Hx]; [left; exact Hx|right; eapply remove_id_in; eauto].
    + apply Nat.ltb_ge in Cj. assert (L1 : 2 < longest (c1 s)).
      { destruct Sh as [Sh|Sh]; apply Nat.leb_gt in Sh; lia. }
      destruct (longest_witness prefs _ L1) as (g & LG & Fg). rewrite LG. pose proof (front_subset _ _ Fg) as Ig.
      set (s1 := {| c1 := remove_id g (c1 s); c2 := c2 s; log := log s ++ [(L, g)] |}).
      destruct (updates_le (lr_pairs (minq g) (dist g)) s1) as [A B]. split.
      * subst s1. unfold mu. cbn [c1 c2] in A, B. pose proof (remove_id_lt g _ Ig). lia.
      * subst s1. intros x Hx D. apply Cov; [|exact D]. apply updates_in in Hx. cbn [c1 c2] in Hx. destruct Hx as [Hx|Hx]; [left; eapply remove_id_in; eauto|right; exact Hx]. Qed.

Theorem iterate_terminates prefs sweep : forall fuel s, mu s <= fuel -> covered sweep s -> iterate_with prefs fuel sweep s <> None.
Proof. induction fuel as [|f IH]; intros s Hm Cov; cbn [iterate_with].
  - unfold mu in Hm. destruct (c1 s); [destruct (c2 s)|]; cbn [length] in Hm; try lia. discriminate.
  - destruct (c1 s) eqn:E1; [destruct (c2 s) eqn:E2|]; try discriminate.
    + destruct (step_decreases prefs sweep s Cov) as [D C]; [right; congruence|]. apply IH; [lia|exact C].
    + destruct (step_decreases prefs sweep s Cov) as [D C]; [left; congruence|]. apply IH; [lia|exact C]. Qed.

(* the checkerboard sweep of select_starting_point covers every one-qubit gate and every nearest-neighbour gate of an nq-qubit circuit *)
Lemma sweep_of_in nq o n : n < nq - 1 -> In n (sweep_of nq o).
Proof. intro H. unfold sweep_of. assert (I : In n (seq 0 (nq - 1))) by (apply in_seq; lia).
  destruct (Nat.even n) eqn:E.
  - destruct o; apply in_app_iff; [right|left]; apply filter_In; auto.
  - assert (Nat.odd n = true) by (unfold Nat.odd; rewrite E; reflexivity). destruct o; apply in_app_iff; [left|right]; apply filter_In; auto. Qed.
Definition gate_ok (nq : nat) (g : instr) : Prop :=
  match qs g with [q] => q < nq | [a; b] => a < nq /\ b < nq /\ a <> b | _ => False end.
Lemma sweep_of_covers nq o g : 2 <= nq -> gate_ok nq g -> dist g <= 2 -> exists n, In n (sweep_of nq o) /\ fits n g = true.
Proof. intros Hn Ok D. unfold gate_ok in Ok. unfold dist in D. unfold fits, sub. destruct (qs g) as [|a [|b [|c l]]]; try contradiction.
  - destruct (Nat.ltb_spec a (nq - 1)) as [H|H].
    + exists a. split; [apply sweep_of_in; exact H|]. cbn. rewrite Nat.eqb_refl. reflexivity.
    + exists (a - 1). split; [apply sweep_of_in; lia|]. cbn. replace (S (a - 1)) with a by lia. rewrite Nat.eqb_refl, orb_true_r. reflexivity.
  - destruct Ok as (Ha & Hb & Nab). exists (Nat.min a b). split; [apply sweep_of_in; lia|]. cbn.
    destruct (Nat.le_ge_cases a b) as [Le|Ge].
    + rewrite Nat.min_l by lia. rewrite Nat.max_r, Nat.min_l in D by lia. assert (b = S a) by lia. subst b.
      rewrite !Nat.eqb_refl. cbn. rewrite orb_true_r. reflexivity.
    + rewrite Nat.min_r by lia. rewrite Nat.max_l, Nat.min_r in D by lia. assert (a = S b) by lia. subst a.
      rewrite !Nat.eqb_refl. cbn. rewrite orb_true_r. reflexivity. Qed.

Theorem checker_terminates prefs nq o a b : 2 <= nq -> (forall g, In g a \/ In g b -> gate_ok nq g) ->
  iterate_with prefs (length a + length b) (sweep_of nq o) (init a b) <> None.
Proof. intros Hn Ok. apply iterate_terminates; [unfold mu, init; cbn; lia|]. intros g Hg D. apply sweep_of_covers; auto. Qed.

(* the pairs treated inside a long-range step cover every site of the gate's range, so every tensor of the gate MPO is merged in *)
Theorem lr_pairs_cover lo d k : 2 <= d -> k < d -> exists n, In n (lr_pairs lo d) /\ (lo + k = n \/ lo + k = S n).
Proof. intros Hd Hk. unfold lr_pairs. destruct (Nat.ltb_spec k (2 * (d / 2))) as [Lt|Ge].
  - exists (lo + 2 * (k / 2)). split.
    + apply in_app_iff. left. apply in_map_iff. exists (k / 2). split; [reflexivity|]. apply in_seq. split; [lia|].
      cbn [Nat.add]. apply Nat.div_lt_upper_bound; lia.
    + pose proof (Nat.div_mod_eq k 2). pose proof (Nat.mod_upper_bound k 2 ltac:(lia)). lia.
  - pose proof (Nat.div_mod_eq d 2) as E. pose proof (Nat.mod_upper_bound d 2 ltac:(lia)) as B.
    assert (O : Nat.odd d = true).
    { rewrite <- Nat.negb_even. destruct (Nat.even d) eqn:Ev; [|reflexivity]. apply Nat.even_spec in Ev. destruct Ev as [m ->].
      rewrite (Nat.mul_comm 2 m), Nat.div_mul in Ge by lia. lia. }
    rewrite O. exists (lo + d - 2). split; [apply in_app_iff; right; left; reflexivity|].
    assert (d mod 2 = 1). { destruct (Nat.even d) eqn:Ev; [rewrite <- Nat.negb_even, Ev in O; discriminate|]. pose proof (Nat.mod_upper_bound d 2). 
      destruct (d mod 2) as [|[|x]] eqn:M; [|reflexivity|lia]. exfalso. assert (Nat.even d = true); [|congruence]. apply Nat.even_spec. exists (d / 2). lia. }
    right. lia. Qed.
