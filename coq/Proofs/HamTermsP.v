From Coq Require Import ZArith QArith List Bool Arith Lia.
Import ListNotations.
From Yaqs Require Import Model.PauliFSM Proofs.PauliFSMP Model.HamTerms.
Local Open Scope nat_scope.

Lemma labels_length L s : length (labels L s) = L.
Proof. unfold labels. rewrite map_length, seq_length. reflexivity. Qed.

(* open chain: each two-body entry couples every bond (i, i+1), i < L-1, exactly once and in order *)
Theorem two_terms_open L tb : map sites_of (two_terms L false tb) = map (fun i => [i; i + 1]) (seq 0 (L - 1)).
Proof. unfold two_terms, bonds. rewrite map_map. apply map_ext_in. intros i Hi. apply in_seq in Hi.
  unfold sites_of. cbn [snd map fst]. rewrite Nat.mod_small by lia. reflexivity. Qed.

(* periodic chain: the same bonds plus the wrap-around (L-1, 0) *)
Theorem two_terms_periodic L tb : 1 <= L ->
  map sites_of (two_terms L true tb) = map (fun i => [i; i + 1]) (seq 0 (L - 1)) ++ [[L - 1; 0]].
Proof. intro H. unfold two_terms, bonds. replace L with (L - 1 + 1) at 1 by lia. rewrite seq_app, map_app, map_app. f_equal.
  - rewrite map_map. apply map_ext_in. intros i Hi. apply in_seq in Hi. unfold sites_of. cbn [snd map fst].
    rewrite Nat.mod_small by lia. reflexivity.
  - cbn [seq map]. unfold sites_of. cbn [snd map fst]. replace (0 + (L - 1) + 1) with L by lia. rewrite Nat.mod_same by lia. reflexivity. Qed.

Theorem one_terms_sites L ob : map sites_of (one_terms L ob) = map (fun i => [i]) (seq 0 L).
Proof. unfold one_terms. rewrite map_map. reflexivity. Qed.

Theorem two_terms_coeff L per tb t : In t (two_terms L per tb) -> fst t = fst (fst tb).
Proof. unfold two_terms. intro H. apply in_map_iff in H as (i & <- & _). reflexivity. Qed.
Theorem one_terms_coeff L ob t : In t (one_terms L ob) -> fst t = fst ob.
Proof. unfold one_terms. intro H. apply in_map_iff in H as (i & <- & _). reflexivity. Qed.

Lemma flat_map_length_const {A B} (f : A -> list B) l n : (forall a, In a l -> length (f a) = n) -> length (flat_map f l) = length l * n.
Proof. induction l as [|a l IH]; intro H; cbn [flat_map length]; [reflexivity|]. rewrite app_length.
  rewrite IH by (intros b Hb; apply H; right; exact Hb). rewrite (H a) by (left; reflexivity). lia. Qed.
Theorem ham_terms_count L two one per :
  length (ham_terms L two one per) = length two * (if per then L else L - 1) + length one * L.
Proof. unfold ham_terms. rewrite app_length. f_equal.
  - apply flat_map_length_const. intros a _. unfold two_terms, bonds. rewrite map_length, seq_length. reflexivity.
  - apply flat_map_length_const. intros a _. unfold one_terms. rewrite map_length, seq_length. reflexivity. Qed.

(* what a two-body spec spells on the chain: its two operators at the two sites, identity elsewhere (distinct sites) *)
Lemma lookup_two a b p q k : a <> b -> lookup k [(a, p); (b, q)] PI = if Nat.eqb k b then q else if Nat.eqb k a then p else PI.
Proof. intro H. cbn [lookup]. destruct (Nat.eqb k b); destruct (Nat.eqb k a); reflexivity. Qed.

(* the automaton from_pauli_sum builds for these term lists denotes exactly them: for every length and every parameter list *)
Theorem ham_fsm_denotes L two one per : 1 <= L ->
  denote (build L (map (expand L) (ham_terms L two one per))) = map (expand L) (ham_terms L two one per).
Proof. intro H. apply fsm_denotes_terms; [exact H|]. intros t Ht. apply in_map_iff in Ht as (s & <- & _).
  unfold expand. cbn [snd]. apply labels_length. Qed.
