(* The verdict rule GENERATED from /repo's current source (Gen/VerdictGen.v, MPO.check_if_identity) is the hand-written model the C04
   theorems and bit-exact correspondences are about.  A changed constant or comparison in the source breaks this equality. *)
From Coq Require Import ZArith List Bool PrimFloat.
Import ListNotations.
From Yaqs Require Import Base.Num Model.Verdict Gen.VerdictGen.

(* the allowance of the verdict in the source: the double 1e-9, non-negative *)
Definition verdict_eps : float := 0x1.12e0be826d695p-30%float.
Lemma verdict_eps_nonneg : (0 <=? verdict_eps)%float = true. Proof. vm_compute. reflexivity. Qed.

Theorem verdict_src_is_model abs_trace n fidelity : verdict_src abs_trace n fidelity = verdict FN abs_trace n fidelity verdict_eps.
Proof. reflexivity. Qed.
