From Coq Require Import List Arith Lia Bool Permutation Sorted.
Import ListNotations.
From Yaqs Require Import Model.ObsAttrib.

Lemma insert_perm o l : Permutation (insert_stable o l) (o :: l).
Proof. induction l as [|x r IH]; simpl; [reflexivity|]. destruct (site o <=? site x); [reflexivity|]. rewrite IH. apply perm_swap. Qed.
Lemma sort_perm l : Permutation (sort_stable l) l.
Proof. induction l as [|x r IH]; simpl; [reflexivity|]. rewrite insert_perm. constructor. exact IH. Qed.

Definition le_site (a b : obs) := site a <= site b.
Lemma insert_sorted o l : StronglySorted le_site l -> StronglySorted le_site (insert_stable o l).
Proof. induction l as [|x r IH]; intro S; simpl; [repeat constructor|]. destruct (Nat.leb_spec (site o) (site x)).
  - constructor; [exact S|]. inversion S; subst. constructor; [unfold le_site; lia|].
    eapply Forall_impl; [|exact H3]. unfold le_site. intros; lia.
  - inversion S; subst. constructor; [apply IH; assumption|].
    apply Forall_forall. intros y Hy. apply (Permutation_in _ (insert_perm o r)) in Hy. destruct Hy as [<-|Hy].
    + unfold le_site; lia.
    + rewrite Forall_forall in H3. apply H3. exact Hy. Qed.
Lemma sort_sorted l : StronglySorted le_site (sort_stable l).
Proof. induction l as [|x r IH]; simpl; [constructor|]. apply insert_sorted. exact IH. Qed.

(* every observable object appears exactly once among the rows *)
Theorem sorted_is_permutation l : Permutation (sorted_observables l) l.
Proof. unfold sorted_observables. rewrite sort_perm.
  induction l as [|x l IH]; simpl; [reflexivity|]. destruct (is_diag x); simpl.
  - apply Permutation_sym, Permutation_cons_app, Permutation_sym. exact IH.
  - constructor. exact IH. Qed.

(* each object receives the value computed for itself, whatever the listing order *)
Theorem each_gets_its_own value l : forall i v, In (i, v) (stitched value l) -> exists o, In o l /\ oid o = i /\ v = value o.
Proof. unfold stitched, rows. intros i v H. rewrite <- map_map with (f := fun o => o) (g := oid) in H at 1. rewrite map_id in H.
  assert (G : forall m, In (i, v) (combine (map oid m) (map value m)) -> exists o, In o m /\ oid o = i /\ v = value o).
  { induction m as [|x m IHm]; simpl; [tauto|]. intros [E|E]; [injection E as <- <-; exists x; auto|].
    destruct (IHm E) as (o & A & B & C). exists o; auto. }
  destruct (G _ H) as (o & A & B & C). exists o. split; [|auto]. eapply Permutation_in; [apply sorted_is_permutation|exact A]. Qed.
Theorem every_object_is_served value l o : In o l -> In (oid o, value o) (stitched value l).
Proof. intro H. unfold stitched, rows. apply (Permutation_in _ (Permutation_sym (sorted_is_permutation l))) in H.
  induction (sorted_observables l) as [|x m IH]; simpl in *; [tauto|]. destruct H as [->|H]; [left; reflexivity|right; auto]. Qed.

(* centre discipline: on a site-sorted list every local value is read with the centre on the observable's own site *)
Lemma reads_from_ok l : forall last, StronglySorted le_site l -> (forall o, In o l -> is_diag o = false) ->
  (forall o, In o l -> last <= site o) -> forallb read_ok (reads_from last l) = true.
Proof. induction l as [|x r IH]; intros last S ND LB; simpl; [reflexivity|].
  rewrite (ND x (or_introl eq_refl)). inversion S; subst.
  assert (E : Nat.max last (site x) = site x) by (specialize (LB x (or_introl eq_refl)); lia). rewrite E.
  simpl. apply andb_true_intro. split.
  - destruct (kind x); simpl; rewrite ?Nat.eqb_refl; auto.
  - apply IH; [exact H1|intros o Ho; apply ND; right; exact Ho|].
    intros o Ho. rewrite Forall_forall in H2. apply H2. exact Ho. Qed.
Lemma reads_from_diag l : forall last, (forall o, In o l -> is_diag o = true) -> forallb read_ok (reads_from last l) = true.
Proof. induction l as [|x r IH]; intros last D; simpl; [reflexivity|]. rewrite (D x (or_introl eq_refl)).
  simpl. assert (K : kind x = Diag). { specialize (D x (or_introl eq_refl)). unfold is_diag in D. destruct (kind x); try discriminate; reflexivity. }
  rewrite K. simpl. apply IH. intros; apply D; right; assumption. Qed.
Lemma reads_from_app a : forall b last, reads_from last (a ++ b) =
  reads_from last a ++ reads_from (fold_left (fun c o => if is_diag o then c else Nat.max c (site o)) a last) b.
Proof. induction a as [|x a IH]; intros b last; simpl; [reflexivity|]. destruct (is_diag x); simpl; rewrite IH; reflexivity. Qed.

Theorem centre_discipline l : forallb read_ok (reads l) = true.
Proof. unfold reads, sorted_observables. rewrite reads_from_app, forallb_app. apply andb_true_intro. split.
  - apply reads_from_ok; [apply sort_sorted| |intros; lia].
    intros o Ho. apply (Permutation_in _ (sort_perm _)) in Ho. apply filter_In in Ho as (_ & H). apply negb_true_iff in H. exact H.
  - apply reads_from_diag. intros o Ho. apply filter_In in Ho. tauto. Qed.
