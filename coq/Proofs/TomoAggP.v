From Coq Require Import List Arith QArith Lia Permutation.
Import ListNotations.
From Yaqs Require Import Model.TomoAgg.
Local Open Scope nat_scope.

(* the jobs of sequence i are i*ntraj, ..., i*ntraj + ntraj - 1, one per trajectory *)
Lemma jobs_of_seq nseq ntraj i : 0 < ntraj -> i < nseq ->
  filter (fun j => Nat.eqb (job_seq ntraj j) i) (seq 0 (nseq * ntraj)) = seq (i * ntraj) ntraj.
Proof. intros Ht Hi. unfold job_seq.
  assert (E : nseq * ntraj = i * ntraj + (ntraj + (nseq - S i) * ntraj)) by nia.
  rewrite E, seq_app, seq_app, !filter_app. cbn [Nat.add].
  assert (A : forall l, (forall j, In j l -> (j / ntraj) <> i) -> filter (fun j => Nat.eqb (j / ntraj) i) l = []).
  { induction l as [|x l IH]; intro H; cbn; [reflexivity|]. destruct (Nat.eqb_spec (x / ntraj) i) as [Ex|Nx].
    - exfalso. apply (H x); [left; reflexivity|exact Ex].
    - apply IH. intros j Hj. apply H. right. exact Hj. }
  assert (B : forall l, (forall j, In j l -> (j / ntraj) = i) -> filter (fun j => Nat.eqb (j / ntraj) i) l = l).
  { induction l as [|x l IH]; intro H; cbn; [reflexivity|]. rewrite (proj2 (Nat.eqb_eq _ _) (H x (or_introl eq_refl))). f_equal.
    apply IH. intros j Hj. apply H. right. exact Hj. }
  rewrite A, B, A; [rewrite app_nil_r; reflexivity| | |].
  - intros j Hj. apply in_seq in Hj. intro C. assert (j < S i * ntraj).
    { rewrite <- C. pose proof (Nat.div_mod_eq j ntraj). pose proof (Nat.mod_upper_bound j ntraj ltac:(lia)). nia. }
    nia.
  - intros j Hj. apply in_seq in Hj. symmetry. apply (Nat.div_unique j ntraj i (j - i * ntraj)); lia.
  - intros j Hj. apply in_seq in Hj. intro C. assert (i * ntraj <= j).
    { rewrite <- C. pose proof (Nat.div_mod_eq j ntraj). nia. }
    lia. Qed.

Lemma seq_add_map s n : seq s n = map (fun t => s + t) (seq 0 n).
Proof. induction n as [|n IH]; [reflexivity|]. rewrite !seq_S, map_app, <- IH. cbn. reflexivity. Qed.
Lemma map_jobs ntraj i (val : nat -> nat -> Q) : 0 < ntraj ->
  map (fun j => val (job_seq ntraj j) (job_traj ntraj j)) (seq (i * ntraj) ntraj) = map (fun t => val i t) (seq 0 ntraj).
Proof. intro Ht. rewrite (seq_add_map (i * ntraj) ntraj), map_map. apply map_ext_in. intros t Ht'. apply in_seq in Ht'.
  unfold job_seq, job_traj.
  assert (E1 : (i * ntraj + t) / ntraj = i) by (symmetry; apply (Nat.div_unique _ ntraj i t); lia).
  assert (E2 : (i * ntraj + t) mod ntraj = t) by (symmetry; apply (Nat.mod_unique _ ntraj i t); lia).
  rewrite E1, E2. reflexivity. Qed.

(* every sequence receives the average over its own trajectories, each counted once *)
Theorem aggregated_is_average nseq ntraj val i : 0 < ntraj -> i < nseq ->
  aggregated nseq ntraj val i = average ntraj (val i).
Proof. intros Ht Hi. unfold aggregated, average. rewrite jobs_of_seq, map_jobs by assumption. reflexivity. Qed.

(* the shuffle of the sequence list does not matter: the tensor entry of a tuple is the average over the runs of THAT tuple *)
Lemma index_of_nth sigma : forall seqs i, index_of sigma seqs = Some i -> nth i seqs [] = sigma /\ i < length seqs.
Proof. induction seqs as [|s r IH]; intros i H; cbn [index_of] in H; [discriminate|].
  destruct (list_eq_dec Nat.eq_dec s sigma) as [->|N].
  - injection H as <-. cbn. split; [reflexivity|lia].
  - destruct (index_of sigma r) as [k|] eqn:E; cbn [option_map] in H; [|discriminate]. injection H as <-.
    destruct (IH k eq_refl) as [A B]. cbn. split; [exact A|lia]. Qed.
Lemma index_of_in sigma : forall seqs, In sigma seqs -> exists i, index_of sigma seqs = Some i.
Proof. induction seqs as [|s r IH]; intro H; [destruct H|]. cbn [index_of]. destruct (list_eq_dec Nat.eq_dec s sigma) as [E|N].
  - exists 0. reflexivity.
  - destruct H as [H|H]; [contradiction|]. destruct (IH H) as (i & E). rewrite E. exists (S i). reflexivity. Qed.
Theorem tensor_entry_is_own_average seqs ntraj f sigma : 0 < ntraj -> In sigma seqs ->
  tensor_at seqs ntraj f sigma = Some (average ntraj (f sigma)).
Proof. intros Ht Hin. unfold tensor_at. destruct (index_of_in sigma seqs Hin) as (i & E). rewrite E.
  destruct (index_of_nth sigma seqs i E) as [A B]. rewrite aggregated_is_average by assumption. rewrite A. reflexivity. Qed.
Theorem shuffle_irrelevant seqs seqs' ntraj f sigma : 0 < ntraj -> Permutation seqs seqs' -> In sigma seqs ->
  tensor_at seqs ntraj f sigma = tensor_at seqs' ntraj f sigma.
Proof. intros Ht P Hin. rewrite !tensor_entry_is_own_average; auto. eapply Permutation_in; eauto. Qed.
