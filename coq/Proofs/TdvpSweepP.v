From Coq Require Import List Arith Lia Bool ZArith.
Import ListNotations.
From Yaqs Require Import Model.TdvpSweep.
Local Open Scope Z_scope.

Lemma ts_cons j a l : total_site j (a :: l) = site_time j a + total_site j l. Proof. reflexivity. Qed.
Lemma tb_cons j a l : total_bond j (a :: l) = bond_time j a + total_bond j l. Proof. reflexivity. Qed.
Ltac cmp := repeat match goal with
  | |- context [Nat.eqb ?a ?b] => destruct (Nat.eqb_spec a b)
  | |- context [Nat.leb ?a ?b] => destruct (Nat.leb_spec a b)
  | |- context [Nat.ltb ?a ?b] => destruct (Nat.ltb_spec a b)
  end; cbn [orb andb]; try lia.

Definition sane (ones : list bool) : Prop := last ones false = true -> forallb (fun b => b) ones = true.
Lemma sane_tail o ones : ones <> [] -> sane (o :: ones) -> sane ones.
Proof. intros Hne H Hl. unfold sane in H. assert (E : last (o :: ones) false = last ones false) by (destruct ones; [congruence|reflexivity]).
  rewrite E in H. specialize (H Hl). simpl in H. apply andb_true_iff in H. tauto. Qed.

(* every site of the half sweep receives net time +h, every bond net time -h, for every pattern of one-/two-site steps *)
Lemma fw_budget : forall ones i lock, (2 <= length ones)%nat -> sane ones ->
  (forall j, total_site j (fw i ones lock) = if (i <=? j)%nat && (j <? i + length ones)%nat then 1 else 0) /\
  (forall j, total_bond j (fw i ones lock) = if (i <=? j)%nat && (j <? i + length ones - 1)%nat then -1 else 0).
Proof. induction ones as [|o ones IH]; intros i lock Hlen Hs; [simpl in Hlen; lia|].
  destruct ones as [|o2 rest]; [simpl in Hlen; lia|]. destruct rest as [|x r].
  - (* i = L-2 *) cbn [fw length]. destruct (o || lock) eqn:Eo.
    + rewrite ?orb_true_r. split; intro j; rewrite ?ts_cons, ?tb_cons; unfold total_site, total_bond; cbn [map fold_right site_time bond_time]; cmp.
    + assert (o2 = false).
      { destruct o2; [|reflexivity]. unfold sane in Hs. specialize (Hs eq_refl). simpl in Hs. apply orb_false_iff in Eo. destruct Eo as [-> _]. discriminate. }
      subst o2. cbn [orb]. rewrite ?orb_false_r. split; intro j; rewrite ?ts_cons, ?tb_cons; unfold total_site, total_bond; cbn [map fold_right site_time bond_time]; cmp.
  - (* i <= L-3 *)
    assert (Hs' : sane (o2 :: x :: r)) by (apply (sane_tail o); [discriminate|exact Hs]).
    assert (Hl' : (2 <= length (o2 :: x :: r))%nat) by (simpl; lia).
    cbn [fw]. destruct (o || lock) eqn:Eo.
    + destruct (IH (S i) lock Hl' Hs') as [A B]. split; intro j.
      * rewrite !ts_cons, A. cbn [site_time length]. cbn [length] in *. cmp.
      * rewrite !tb_cons, B. cbn [bond_time length]. cbn [length] in *. cmp.
    + destruct (IH (S i) false Hl' Hs') as [A B]. split; intro j.
      * rewrite !ts_cons, A. cbn [site_time length]. cbn [length] in *. cmp.
      * rewrite !tb_cons, B. cbn [bond_time length]. cbn [length] in *. cmp. Qed.

Theorem half_sweep_time_budget ones : (2 <= length ones)%nat -> sane ones ->
  (forall j, (j < length ones)%nat -> total_site j (fw 0 ones false) = 1) /\
  (forall j, (j < length ones - 1)%nat -> total_bond j (fw 0 ones false) = -1).
Proof. intros Hl Hs. destruct (fw_budget ones 0%nat false Hl Hs) as [A B]. split; intros j Hj.
  - rewrite A. cmp.
  - rewrite B. cmp. Qed.

(* the mirrored half sweep has the same budget at the mirrored positions *)
Lemma site_time_mirror L j s : (match s with TSite i _ => i < L | TBond i => S i < L | TPair i => S i < L end)%nat -> (j < L)%nat ->
  site_time j (mirror L s) = site_time (L - 1 - j) s.
Proof. destruct s as [i f|i|i]; intros Hi Hj; cbn [mirror site_time]; cmp. Qed.

(* time is spent on site j exactly in the steps that work with operator tensor j of the Hamiltonian handed to the call *)
Theorem site_time_iff_own_operator j s : site_time j s <> 0%Z <-> In j (step_ops s).
Proof. destruct s as [i f|i|i]; cbn [site_time step_ops In].
  - destruct (Nat.eqb_spec i j) as [->|Ne]; [destruct f; split; intro H; [left; reflexivity|discriminate|left; reflexivity|discriminate]|].
    split; [intro H; exfalso; apply H; reflexivity|intros [H|[]]; exfalso; apply Ne; exact H].
  - split; [intro H; exfalso; apply H; reflexivity|intros []].
  - destruct (Nat.eqb_spec i j) as [->|Ne]; cbn [orb].
    + split; [intro; left; reflexivity|discriminate].
    + destruct (Nat.eqb_spec (S i) j) as [<-|Ne2].
      * split; [intro; right; left; reflexivity|discriminate].
      * split; [intro H; exfalso; apply H; reflexivity|intros [H|[H|[]]]; exfalso; [apply Ne|apply Ne2]; exact H]. Qed.
