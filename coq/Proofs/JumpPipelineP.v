(* Proofs about Model/JumpPipeline.v (C14, C15, C01) *)
From Coq Require Import List Arith Lia Bool.
Import ListNotations.
From Yaqs Require Import Model.JumpPipeline.

Lemma count_app a x y : count_sym a (x ++ y) = count_sym a x + count_sym a y.
Proof. unfold count_sym. rewrite filter_app, app_length. reflexivity. Qed.

Lemma sym_eqb_refl a : sym_eqb a a = true. Proof. destruct a; simpl; auto. apply Nat.eqb_refl. Qed.
Lemma sym_eqb_eq a b : sym_eqb a b = true -> a = b.
Proof. destruct a, b; simpl; try discriminate; auto. intro H. apply Nat.eqb_eq in H. congruence. Qed.

Ltac cmp := repeat match goal with
  | |- context [?a <=? ?b] => destruct (Nat.leb_spec a b)
  | |- context [?a <? ?b] => destruct (Nat.ltb_spec a b)
  end; try lia; try reflexivity.

Section S.
Variable sched : nat -> bool.

Lemma count_jump k m : count_S k [jump_or sched m] = if sched m && (m =? k) then 1 else 0.
Proof. unfold count_S, count_sym, jump_or. destruct (sched m); simpl; [|reflexivity].
  rewrite (Nat.eqb_sym k m). destruct (m =? k); reflexivity. Qed.

Lemma count_tail k b m : b = D1 \/ b = Dh -> count_S k [U; b; jump_or sched m] = if sched m && (m =? k) then 1 else 0.
Proof. intros [->| ->]; unfold count_S, count_sym, jump_or; destruct (sched m); simpl; auto;
  rewrite (Nat.eqb_sym k m); destruct (m =? k); reflexivity. Qed.

(* ---------------- order 1 ---------------- *)
Theorem order1_once k j : 1 <= k -> count_S k (w1 sched true j) = if sched k && (k <=? j) then 1 else 0.
Proof. intro Hk. induction j as [|j IH].
  - simpl. destruct (sched k); simpl; [|reflexivity]. destruct (Nat.leb_spec k 0); [lia|reflexivity].
  - cbn [w1]. unfold count_S in *. rewrite count_app. rewrite IH.
    change (U :: [D1; jump_or sched (S j)]) with [U; D1; jump_or sched (S j)]. fold (count_S k [U; D1; jump_or sched (S j)]).
    rewrite count_tail by auto.
    destruct (Nat.eqb_spec (S j) k) as [E|E].
    + subst k. destruct (sched (S j)); cbn [andb]; [|reflexivity]. cmp.
    + rewrite andb_false_r. destruct (sched k); cbn [andb]; [|reflexivity]. cmp. Qed.

Theorem order1_no_noise_no_jump k j : count_S k (w1 sched false j) = 0.
Proof. induction j as [|j IH]; [reflexivity|]. cbn [w1]. unfold count_S in *. rewrite count_app, IH. reflexivity. Qed.

Lemma w1_U noise j : count_sym U (w1 sched noise j) = j.
Proof. induction j as [|j IH]; [reflexivity|]. cbn [w1]. rewrite count_app, IH.
  destruct noise; unfold count_sym, jump_or; simpl; [destruct (sched (S j)); simpl; lia|lia]. Qed.

Lemma w1_D1 j : count_sym D1 (w1 sched true j) = j.
Proof. induction j as [|j IH]; [reflexivity|]. cbn [w1]. rewrite count_app, IH.
  unfold count_sym, jump_or; simpl. destruct (sched (S j)); simpl; lia. Qed.

(* ---------------- order 2 ---------------- *)
Lemma phi_S j : 1 <= j -> phi sched (S j) = phi sched j ++ [U; D1; jump_or sched j].
Proof. intro H. destruct j; [lia|reflexivity]. Qed.

Lemma phi_count k j : 1 <= j -> count_S k (phi sched j) = if sched k && (k <? j) then 1 else 0.
Proof. intro Hj. induction j as [|j IH]; [lia|]. destruct (Nat.eq_dec j 0) as [->|Nz].
  - simpl phi. unfold phi0. change [Dh; jump_or sched 0] with ([Dh] ++ [jump_or sched 0]). unfold count_S. rewrite count_app.
    fold (count_S k [jump_or sched 0]). rewrite count_jump. unfold count_sym; simpl.
    destruct k; [destruct (sched 0); reflexivity|]. simpl. rewrite !andb_false_r. reflexivity.
  - rewrite phi_S by lia. unfold count_S in *. rewrite count_app, IH by lia. fold (count_S k [U; D1; jump_or sched j]).
    rewrite count_tail by auto.
    destruct (Nat.eqb_spec j k) as [E|E].
    + subst k. destruct (sched j); cbn [andb]; [|reflexivity]. cmp.
    + rewrite andb_false_r. destruct (sched k); cbn [andb]; [|reflexivity]. cmp. Qed.

Theorem order2_once k j : 1 <= j -> count_S k (sample2 sched j) = if sched k && (k <=? j) then 1 else 0.
Proof. intro Hj. unfold sample2, count_S. rewrite count_app. fold (count_S k (phi sched j)). rewrite phi_count by lia.
  fold (count_S k [U; Dh; jump_or sched j]). rewrite count_tail by auto.
  destruct (Nat.eqb_spec j k) as [E|E].
  - subst k. destruct (sched j); cbn [andb]; [|reflexivity]. cmp.
  - rewrite andb_false_r. destruct (sched k); cbn [andb]; [|reflexivity]. cmp. Qed.

Lemma phi_U j : 1 <= j -> count_sym U (phi sched j) = j - 1.
Proof. intro Hj. induction j as [|j IH]; [lia|]. destruct (Nat.eq_dec j 0) as [->|Nz].
  - unfold phi, phi0, count_sym, jump_or. simpl. destruct (sched 0); reflexivity.
  - rewrite phi_S by lia. rewrite count_app, IH by lia. unfold count_sym, jump_or; simpl. destruct (sched j); simpl; lia. Qed.

Theorem order2_time j : 1 <= j -> count_sym U (sample2 sched j) = j.
Proof. intro Hj. unfold sample2. rewrite count_app, phi_U by lia. unfold count_sym, jump_or; simpl. destruct (sched j); simpl; lia. Qed.

(* dissipation budget of the Strang composition: two half steps and j-1 full steps *)
Lemma phi_D j : 1 <= j -> count_sym Dh (phi sched j) = 1 /\ count_sym D1 (phi sched j) = j - 1.
Proof. intro Hj. induction j as [|j IH]; [lia|]. destruct (Nat.eq_dec j 0) as [->|Nz].
  - unfold phi, phi0, count_sym, jump_or. simpl. destruct (sched 0); auto.
  - rewrite phi_S by lia. rewrite !count_app. destruct IH as [A B]; [lia|]. rewrite A, B.
    unfold count_sym, jump_or; simpl. destruct (sched j); simpl; lia. Qed.
Theorem order2_dissipation_budget j : 1 <= j -> count_sym Dh (sample2 sched j) = 2 /\ count_sym D1 (sample2 sched j) = j - 1.
Proof. intro Hj. unfold sample2. rewrite !count_app. destruct (phi_D j Hj) as [A B]. rewrite A, B.
  unfold count_sym, jump_or; simpl. destruct (sched j); simpl; lia. Qed.

(* ---------------- position of the scheduled jump: after exactly k unitary steps ---------------- *)
Lemma u_before_none k w : count_S k w = 0 -> u_before k w = None.
Proof. induction w as [|x w IH]; intro H; simpl; [reflexivity|]. unfold count_S, count_sym in H. simpl in H.
  destruct x; simpl in *; try (rewrite IH; [reflexivity|exact H]).
  rewrite (Nat.eqb_sym k0 k). destruct (k =? k0) eqn:E; simpl in H; [discriminate|]. rewrite IH; [reflexivity|exact H]. Qed.

Lemma u_before_app k a b : u_before k (a ++ b) =
  match u_before k a with Some m => Some m | None => option_map (Nat.add (count_sym U a)) (u_before k b) end.
Proof. induction a as [|x a IH]; simpl.
  - destruct (u_before k b); reflexivity.
  - destruct (sym_eqb x (Sj k)) eqn:E; [reflexivity|]. rewrite IH. destruct (u_before k a); [reflexivity|].
    destruct (u_before k b); simpl; [|reflexivity]. f_equal. unfold count_sym. simpl.
    destruct x; simpl; try reflexivity. Qed.

Theorem order1_position k j : 1 <= k -> k <= j -> sched k = true -> u_before k (w1 sched true j) = Some k.
Proof. intros Hk Hj Hs. induction j as [|j IH]; [lia|]. cbn [w1]. rewrite u_before_app.
  destruct (Nat.eq_dec k (S j)) as [E|E].
  - rewrite u_before_none. 2:{ rewrite order1_once by lia. rewrite Hs. simpl. destruct (Nat.leb_spec k j); [lia|reflexivity]. }
    rewrite w1_U. subst k. unfold jump_or. rewrite Hs. simpl. rewrite Nat.eqb_refl. simpl. f_equal. lia.
  - rewrite IH by lia. reflexivity. Qed.

Lemma phi_position k j : k < j -> sched k = true -> u_before k (phi sched j) = Some k.
Proof. intros Hj Hs. induction j as [|j IH]; [lia|]. destruct (Nat.eq_dec j 0) as [->|Nz].
  - assert (k = 0) by lia. subst k. unfold phi, phi0, jump_or. rewrite Hs. reflexivity.
  - rewrite phi_S by lia. rewrite u_before_app. destruct (Nat.eq_dec k j) as [E|E].
    + rewrite u_before_none. 2:{ rewrite phi_count by lia. rewrite Hs. simpl. destruct (Nat.ltb_spec k j); [lia|reflexivity]. }
      rewrite phi_U by lia. subst k. unfold jump_or. rewrite Hs. simpl. rewrite Nat.eqb_refl. simpl. f_equal. lia.
    + rewrite IH by lia. reflexivity. Qed.

Theorem order2_position k j : 1 <= j -> k <= j -> sched k = true -> u_before k (sample2 sched j) = Some k.
Proof. intros H1 Hj Hs. unfold sample2. rewrite u_before_app. destruct (Nat.eq_dec k j) as [E|E].
  - rewrite u_before_none. 2:{ rewrite phi_count by lia. rewrite Hs. simpl. destruct (Nat.ltb_spec k j); [lia|reflexivity]. }
    rewrite phi_U by lia. subst k. unfold jump_or. rewrite Hs. simpl. rewrite Nat.eqb_refl. simpl. f_equal. lia.
  - rewrite phi_position by (auto; lia). reflexivity. Qed.
End S.

(* ---------------- nothing changes before the scheduled time ---------------- *)
Theorem w1_ext s1 s2 noise j : (forall i, i <= j -> s1 i = s2 i) -> w1 s1 noise j = w1 s2 noise j.
Proof. induction j as [|j IH]; intro H; [reflexivity|]. cbn [w1]. rewrite IH by (intros; apply H; lia).
  unfold jump_or. rewrite (H (S j)) by lia. reflexivity. Qed.

Lemma phi_ext s1 s2 j : (forall i, i < Nat.max j 1 -> s1 i = s2 i) -> phi s1 j = phi s2 j.
Proof. induction j as [|j IH]; intro H.
  - unfold phi, phi0, jump_or. rewrite (H 0) by lia. reflexivity.
  - destruct (Nat.eq_dec j 0) as [->|Nz].
    + unfold phi, phi0, jump_or. rewrite (H 0) by lia. reflexivity.
    + rewrite !phi_S by lia. rewrite IH by (intros; apply H; lia). unfold jump_or. rewrite (H j) by lia. reflexivity. Qed.

Theorem sample2_ext s1 s2 j : (forall i, i <= j -> s1 i = s2 i) -> sample2 s1 j = sample2 s2 j.
Proof. intro H. unfold sample2. rewrite (phi_ext s1 s2 j) by (intros; apply H; lia). unfold jump_or. rewrite (H j) by lia. reflexivity. Qed.

(* the Strang shape of the order-2 word (C01): D(dt/2) J (U D(dt) J)^(j-1) U D(dt/2) J *)
Definition nosched (_ : nat) := false.
Fixpoint rep (w : list sym) (m : nat) : list sym := match m with O => [] | S m' => rep w m' ++ w end.
Lemma phi_shape j : 1 <= j -> phi nosched j = [Dh; J] ++ rep [U; D1; J] (j - 1).
Proof. intro Hj. induction j as [|j IH]; [lia|]. destruct (Nat.eq_dec j 0) as [->|Nz]; [reflexivity|].
  rewrite phi_S by lia. rewrite IH by lia. replace (S j - 1) with (S (j - 1)) by lia. cbn [rep].
  rewrite <- !app_assoc. reflexivity. Qed.
Theorem order2_shape j : 1 <= j -> sample2 nosched j = [Dh; J] ++ rep [U; D1; J] (j - 1) ++ [U; Dh; J].
Proof. intro Hj. unfold sample2. rewrite phi_shape by lia. rewrite <- app_assoc. reflexivity. Qed.
Theorem order1_shape j : w1 nosched true j = rep [U; D1; J] j.
Proof. induction j as [|j IH]; [reflexivity|]. cbn [w1 rep]. rewrite IH. reflexivity. Qed.

(* ---------------- result columns (C15) ---------------- *)
Theorem cols1_sampling sched noise n : map fst (cols1 sched noise true n) = seq 0 n.
Proof. unfold cols1. rewrite map_map. simpl. apply map_id. Qed.
Theorem cols2_sampling sched n : map fst (cols2 sched true n) = seq 0 n.
Proof. unfold cols2. rewrite map_app, map_map. simpl. rewrite map_id. destruct n as [|n]; [reflexivity|].
  simpl. rewrite Nat.sub_0_r. reflexivity. Qed.
Theorem cols1_final sched noise n : 2 <= n -> cols1 sched noise false n = [(0, w1 sched noise (n - 1))].
Proof. intro H. unfold cols1. destruct n as [|[|n]]; try lia. reflexivity. Qed.
Theorem cols2_final sched n : 2 <= n -> cols2 sched false n = [(0, sample2 sched (n - 1))].
Proof. intro H. unfold cols2. destruct n as [|[|n]]; try lia. reflexivity. Qed.
Theorem cols1_entry sched noise n j w : In (j, w) (cols1 sched noise true n) -> count_sym U w = j.
Proof. unfold cols1. intro H. apply in_map_iff in H as (i & E & _). injection E as <- <-. apply w1_U. Qed.
Theorem cols2_entry sched n j w : In (j, w) (cols2 sched true n) -> count_sym U w = j.
Proof. unfold cols2. intro H. apply in_app_iff in H as [H|H].
  - destruct (1 <=? n); [|destruct H]. destruct H as [E|[]]. injection E as <- <-. reflexivity.
  - apply in_map_iff in H as (i & E & Hi). injection E as <- <-. apply in_seq in Hi. apply order2_time. lia. Qed.

(* ---------------- inside one scheduled time: every matching jump once, in listed order ---------------- *)
From Coq Require Import Sorted.
Lemma applied_at_spec ms : forall pos p, In p (applied_at ms pos) <-> pos <= p /\ nth_error ms (p - pos) = Some true.
Proof. induction ms as [|m r IH]; intros pos p; simpl.
  - split; [tauto|]. intros (_ & H). destruct (p - pos); discriminate.
  - rewrite in_app_iff, IH. split.
    + intros [H|(H1 & H2)].
      * destruct m; [|destruct H]. destruct H as [<-|[]]. rewrite Nat.sub_diag. auto.
      * split; [lia|]. replace (p - pos) with (S (p - S pos)) by lia. exact H2.
    + intros (H1 & H2). destruct (Nat.eq_dec p pos) as [->|N].
      * left. rewrite Nat.sub_diag in H2. simpl in H2. injection H2 as ->. left. reflexivity.
      * right. split; [lia|]. replace (p - pos) with (S (p - S pos)) in H2 by lia. exact H2. Qed.
Lemma applied_at_lb ms : forall pos p, In p (applied_at ms pos) -> pos <= p.
Proof. intros pos p H. apply applied_at_spec in H. tauto. Qed.
Theorem applied_at_sorted ms : forall pos, StronglySorted lt (applied_at ms pos).
Proof. induction ms as [|m r IH]; intro pos; simpl; [constructor|]. destruct m; simpl; [|apply IH].
  constructor; [apply IH|]. apply Forall_forall. intros x Hx. apply applied_at_lb in Hx. lia. Qed.
Theorem applied_at_complete ms p : In p (applied_at ms 0) <-> nth_error ms p = Some true.
Proof. rewrite applied_at_spec. rewrite Nat.sub_0_r. split; [tauto|]. intro H. split; [lia|exact H]. Qed.
