From Coq Require Import List Arith Lia Bool.
Import ListNotations.
From Yaqs Require Import Model.SiteOrder.

Definition binary (l : list nat) := Forall (fun b => b < 2) l.

Lemma kron_acc l : forall acc, fold_left (fun a b => 2 * a + b) l acc = acc * 2 ^ length l + kron_idx l.
Proof. unfold kron_idx. induction l as [|b l IH]; intro acc; cbn [fold_left length]; [simpl; lia|].
  rewrite (IH (2 * acc + b)), (IH (2 * 0 + b)). rewrite Nat.pow_succ_r'. lia. Qed.
Lemma kron_cons b l : kron_idx (b :: l) = b * 2 ^ length l + kron_idx l.
Proof. unfold kron_idx at 1. cbn [fold_left]. rewrite kron_acc. lia. Qed.
Lemma kron_bound l : binary l -> kron_idx l < 2 ^ length l.
Proof. induction 1 as [|b l Hb _ IH]; [simpl; unfold kron_idx; simpl; lia|]. rewrite kron_cons. simpl length. simpl Nat.pow.
  assert (b * 2 ^ length l <= 1 * 2 ^ length l) by (apply Nat.mul_le_mono_r; lia). lia. Qed.
Lemma to_digits_kron l : binary l -> to_digits (length l) (kron_idx l) = l.
Proof. induction 1 as [|b l Hb Hl IH]; [reflexivity|]. simpl length. cbn [to_digits]. rewrite kron_cons.
  pose proof (kron_bound l Hl) as B. assert (P : 2 ^ length l <> 0) by (apply Nat.pow_nonzero; lia).
  rewrite Nat.div_add_l by exact P. rewrite Nat.div_small by exact B. rewrite Nat.add_0_r.
  rewrite Nat.add_comm, Nat.mod_add by exact P. rewrite Nat.mod_small by exact B. rewrite IH. reflexivity. Qed.
Lemma binary_rev l : binary l -> binary (rev l).
Proof. unfold binary. intro H. apply Forall_rev. exact H. Qed.

(* the dense solvers hold the amplitude of basis string sigma at the index at which they embed their operators *)
Theorem conventions_agree sigma : binary sigma -> solver_state_idx sigma = kron_idx sigma.
Proof. intro H. unfold solver_state_idx, reorder, vec_idx. rewrite <- (rev_length sigma).
  rewrite to_digits_kron by (apply binary_rev; exact H). rewrite rev_involutive. reflexivity. Qed.

(* Z embedded on site i reads digit i of the string, i.e. site i of the state *)
Theorem z_reads_site sigma i : binary sigma -> i < length sigma ->
  z_sign (length sigma) i (solver_state_idx sigma) = Nat.eqb (nth i sigma 0) 1.
Proof. intros H Hi. unfold z_sign. rewrite conventions_agree by exact H. rewrite to_digits_kron by exact H. reflexivity. Qed.

(* two-site operators: the embedded operator acts on the digits of sites s and s+1 *)
Theorem pair_reads_its_sites sigma s : binary sigma -> S s < length sigma ->
  pair_digit (length sigma) s (solver_state_idx sigma) = 2 * nth s sigma 0 + nth (S s) sigma 0.
Proof. intros B H. unfold pair_digit. rewrite conventions_agree by exact B. rewrite to_digits_kron by exact B. reflexivity. Qed.
