(* every noise process is damped exactly once per dissipation sweep, at its own (right-most) site *)
From Coq Require Import List Arith Bool Lia.
Import ListNotations.
From Yaqs Require Import Base.Num Model.NoiseAttrib.

Definition cnt (k : nat) (l : list nat) : nat := length (filter (Nat.eqb k) l).
Lemma cnt_app k a b : cnt k (a ++ b) = cnt k a + cnt k b.
Proof. unfold cnt. rewrite filter_app, app_length. reflexivity. Qed.

(* positions are unique in the indexed list *)
Lemma cnt_absent {A} (f : nat * A -> bool) k : forall l, ~ In k (map fst l) -> cnt k (map fst (filter f l)) = 0.
Proof. induction l as [|p l IH]; intro H; [reflexivity|]. cbn [filter]. cbn [map] in H.
  assert (H2 : ~ In k (map fst l)) by (intro C; apply H; right; exact C).
  destruct (f p); [|apply IH; exact H2]. cbn [map]. unfold cnt in *. cbn [filter].
  destruct (Nat.eqb_spec k (fst p)) as [E|E]; [exfalso; apply H; left; symmetry; exact E|apply IH; exact H2]. Qed.
Lemma cnt_nodup {A} (f : nat * A -> bool) k v : forall l, NoDup (map fst l) -> In (k, v) l ->
  cnt k (map fst (filter f l)) = if f (k, v) then 1 else 0.
Proof. induction l as [|p l IH]; intros ND H; [destruct H|]. cbn [map] in ND. inversion ND as [|? ? Hn ND']; subst. cbn [filter].
  destruct H as [->|H].
  - cbn [fst] in Hn. destruct (f (k, v)); [|apply cnt_absent; exact Hn]. cbn [map fst]. unfold cnt. cbn [filter]. rewrite Nat.eqb_refl. cbn [length].
    fold (cnt k (map fst (filter f l))). rewrite cnt_absent by exact Hn. reflexivity.
  - assert (Ne : k <> fst p). { intro E. apply Hn. rewrite <- E. change k with (fst (k, v)). apply in_map. exact H. }
    destruct (f p); [|apply IH; assumption]. cbn [map]. unfold cnt. cbn [filter]. destruct (Nat.eqb_spec k (fst p)); [contradiction|].
    apply IH; assumption. Qed.
Lemma fst_combine_seq {A} (ks : list A) : forall b, map fst (combine (seq b (length ks)) ks) = seq b (length ks).
Proof. induction ks as [|x ks IH]; intro b; [reflexivity|]. cbn. rewrite IH. reflexivity. Qed.
Lemma in_indexed {A} (ks : list A) : forall b k v, nth_error ks k = Some v -> In (b + k, v) (combine (seq b (length ks)) ks).
Proof. induction ks as [|x ks IH]; intros b k v H; [destruct k; discriminate|]. cbn [length seq combine]. destruct k as [|k]; cbn [nth_error] in H.
  - injection H as ->. left. rewrite Nat.add_0_r. reflexivity.
  - right. replace (b + S k) with (S b + k) by lia. apply IH. exact H. Qed.
Lemma cnt_indexed (f : nat * pkind -> bool) kinds k kd : nth_error kinds k = Some kd ->
  cnt k (map fst (filter f (combine (seq 0 (length kinds)) kinds))) = if f (k, kd) then 1 else 0.
Proof. intro H. apply cnt_nodup.
  - rewrite fst_combine_seq. apply seq_NoDup.
  - exact (in_indexed kinds 0 k kd H). Qed.

Lemma cnt_damp_at kinds i k kd : nth_error kinds k = Some kd ->
  cnt k (map snd (damp_at kinds i)) = if damp_here i kd then 1 else 0.
Proof. intro H. unfold damp_at. rewrite map_app, cnt_app, !map_map. cbn [snd].
  change (fun x : nat * pkind => fst x) with (@fst nat pkind).
  pose proof (cnt_indexed (fun p => negb (two_site (snd p)) && damp_here i (snd p)) kinds k kd H) as A.
  pose proof (cnt_indexed (fun p => two_site (snd p) && damp_here i (snd p)) kinds k kd H) as B.
  cbn [snd] in A, B. rewrite A, B. destruct (two_site kd), (damp_here i kd); reflexivity. Qed.

Lemma cnt_flat kinds k kd : nth_error kinds k = Some kd -> forall l,
  cnt k (map snd (flat_map (damp_at kinds) l)) = length (filter (fun i => damp_here i kd) l).
Proof. intros H l. induction l as [|i l IH]; [reflexivity|]. cbn [flat_map]. rewrite map_app, cnt_app, IH, (cnt_damp_at kinds i k kd H).
  cbn [filter]. destruct (damp_here i kd); reflexivity. Qed.

Lemma filter_rev_length {A} (f : A -> bool) l : length (filter f (rev l)) = length (filter f l).
Proof. induction l as [|x l IH]; [reflexivity|]. cbn [rev]. rewrite filter_app, app_length, IH. cbn. destruct (f x); cbn; lia. Qed.
Lemma filter_eq_seq n j : length (filter (fun i => Nat.eqb j i) (seq 0 n)) = if j <? n then 1 else 0.
Proof. induction n as [|n IH]; [reflexivity|]. rewrite seq_S, filter_app, app_length, IH. cbn [filter Nat.add].
  destruct (Nat.eqb_spec j n) as [->|N]; cbn [length].
  - rewrite Nat.ltb_irrefl. rewrite (proj2 (Nat.ltb_lt n (S n))) by lia. reflexivity.
  - destruct (Nat.ltb_spec j n); destruct (Nat.ltb_spec j (S n)); lia. Qed.

Theorem damped_exactly_once L kinds k kd : nth_error kinds k = Some kd -> damp_reached L kd = true ->
  cnt k (map snd (damp_schedule L kinds)) = 1.
Proof. intros H R. unfold damp_schedule. rewrite (cnt_flat kinds k kd H), filter_rev_length. destruct kd as [s|s t]; cbn [damp_here damp_reached] in *.
  - rewrite filter_eq_seq, R. reflexivity.
  - apply andb_true_iff in R as [R1 R2]. apply Nat.ltb_lt in R1.
    rewrite (filter_ext _ (fun i => Nat.eqb t i)); [rewrite filter_eq_seq, R2; reflexivity|].
    intro i. destruct (Nat.eqb_spec t i) as [<-|N]; [|reflexivity]. destruct (Nat.eqb_spec t 0); [lia|reflexivity]. Qed.

Lemma indexed_in {A} (ks : list A) : forall b a v, In (a, v) (combine (seq b (length ks)) ks) -> b <= a /\ nth_error ks (a - b) = Some v.
Proof. induction ks as [|x ks IH]; intros b a v H; [destruct H|]. cbn [length seq combine] in H. destruct H as [E|H].
  - injection E as <- <-. rewrite Nat.sub_diag. split; [lia|reflexivity].
  - destruct (IH (S b) a v H) as [Le E]. split; [lia|]. replace (a - b) with (S (a - S b)) by lia. exact E. Qed.

(* ... and at its own site: a one-site process at its site, a two-site process at its right site *)
Theorem damped_at_own_site L kinds i k : In (i, k) (damp_schedule L kinds) ->
  exists kd, nth_error kinds k = Some kd /\ damp_here i kd = true.
Proof. unfold damp_schedule. intro H. apply in_flat_map in H as (j & _ & H). unfold damp_at in H.
  assert (G : forall f : pkind -> bool, In (i, k) (map (fun p : nat * pkind => (j, fst p)) (filter (fun p => f (snd p) && damp_here j (snd p)) (combine (seq 0 (length kinds)) kinds))) ->
    exists kd, nth_error kinds k = Some kd /\ damp_here i kd = true).
  { intros f Hin. apply in_map_iff in Hin as ([a kd] & E & Hin). cbn [fst] in E. injection E as <- <-. apply filter_In in Hin as [Hc Hf].
    cbn [snd] in Hf. apply andb_true_iff in Hf as [_ Hd]. exists kd. split; [|exact Hd].
    destruct (indexed_in kinds 0 a kd Hc) as [_ E]. rewrite Nat.sub_0_r in E. exact E. }
  apply in_app_iff in H as [H|H]; [exact (G (fun kd => negb (two_site kd)) H)|exact (G two_site H)]. Qed.
