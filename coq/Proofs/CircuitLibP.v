From Coq Require Import List Arith Lia Bool Permutation ZArith.
Import ListNotations.
From Yaqs Require Import Model.CircuitLib.
Ltac Zify.zify_post_hook ::= Z.to_euclidean_division_equations.

Lemma in_ising_open L a b : In (a, b) (ising_bonds L false) <-> b = a + 1 /\ a + 1 < L.
Proof. unfold ising_bonds. rewrite !in_app_iff, !in_map_iff. cbn [andb In]. split.
  - intros [(s & E & Hs)|[(s & E & Hs)|[H|[]]]].
    + injection E as <- <-. apply in_seq in Hs. split; [lia|]. assert (2 * (L / 2) <= L) by (apply Nat.mul_div_le; lia). lia.
    + injection E as <- <-. apply in_seq in Hs. split; [lia|]. assert (2 * (L / 2) <= L) by (apply Nat.mul_div_le; lia). lia.
    + destruct (Nat.odd L) eqn:O; cbn [andb negb In] in H; [|destruct H]. destruct (Nat.eqb_spec L 1); cbn [andb negb In] in H; [destruct H|].
      destruct H as [E|[]]. injection E as <- <-. apply Nat.odd_spec in O. destruct O as [k ->]. lia.
  - intros (-> & H). destruct (Nat.even a) eqn:Ev.
    + left. apply Nat.even_spec in Ev. destruct Ev as [k ->]. exists k. split.
      * f_equal; lia.
      * apply in_seq. split; [lia|]. assert (k + 1 <= L / 2) by (apply Nat.div_le_lower_bound; lia). lia.
    + right. assert (Od : Nat.odd a = true) by (rewrite <- Nat.negb_even, Ev; reflexivity). apply Nat.odd_spec in Od. destruct Od as [k ->].
      destruct (Nat.eq_dec (2 * k + 1 + 2) L) as [EL|NL].
      * right. left. subst L. replace (Nat.odd (2 * k + 1 + 2)) with true by (symmetry; apply Nat.odd_spec; exists (k + 1); lia).
        destruct (Nat.eqb_spec (2 * k + 1 + 2) 1); [lia|]. cbn [andb negb In]. left. f_equal; lia.
      * left. exists (k + 1). split; [f_equal; lia|]. apply in_seq. split; [lia|].
        assert (k + 2 <= L / 2) by (apply Nat.div_le_lower_bound; lia). lia. Qed.

Lemma chain_nodup L : NoDup (chain_bonds L).
Proof. unfold chain_bonds. apply FinFun.Injective_map_NoDup; [|apply seq_NoDup]. intros x y E. injection E. lia. Qed.
Lemma ising_open_length L : length (ising_bonds L false) = L - 1.
Proof. unfold ising_bonds. rewrite !app_length, !map_length, !seq_length. cbn [andb length].
  destruct (Nat.odd L) eqn:O.
  - apply Nat.odd_spec in O. destruct O as [k ->]. destruct (Nat.eqb_spec (2 * k + 1) 1); cbn [andb negb length].
    + assert (k = 0) by lia. subst k. reflexivity.
    + assert (E : (2 * k + 1) / 2 = k) by (symmetry; apply (Nat.div_unique (2 * k + 1) 2 k 1); lia). rewrite E. lia.
  - assert (Ev : Nat.even L = true) by (rewrite <- Nat.negb_odd, O; reflexivity). apply Nat.even_spec in Ev. destruct Ev as [k ->].
    cbn [andb length]. assert (E : 2 * k / 2 = k) by (rewrite Nat.mul_comm; apply Nat.div_mul; lia). rewrite E. lia. Qed.

(* one Trotter step couples every nearest-neighbour bond of the chain exactly once (open boundary), for every L *)
Theorem ising_bonds_cover_chain L : Permutation (ising_bonds L false) (chain_bonds L).
Proof. symmetry. apply NoDup_Permutation_bis.
  - apply chain_nodup.
  - rewrite ising_open_length. unfold chain_bonds. rewrite map_length, seq_length. lia.
  - intros [a b] H. unfold chain_bonds in H. apply in_map_iff in H as (i & E & Hi). injection E as <- <-. apply in_seq in Hi.
    apply in_ising_open. lia. Qed.
(* periodic boundary: the same bonds plus the wrap-around bond (0, L-1) *)
Theorem ising_bonds_periodic L : 1 < L -> ising_bonds L true = ising_bonds L false ++ [(0, L - 1)].
Proof. intro H. unfold ising_bonds. destruct (Nat.ltb_spec 1 L); [|lia]. cbn [andb]. rewrite !app_nil_r, <- !app_assoc. reflexivity. Qed.

(* every coupling of the Heisenberg step acts on exactly the bonds of the Ising pattern: each chain bond once (plus the closing bond) *)
Lemma bonds_of_map_same g l : bonds_of g (map (pair g) l) = l.
Proof. unfold bonds_of. induction l as [|x l IH]; [reflexivity|]. cbn [map filter fst]. destruct g; cbn [map snd]; f_equal; exact IH. Qed.
Lemma bonds_of_map_other g g' l : g <> g' -> bonds_of g (map (pair g') l) = [].
Proof. intro H. unfold bonds_of. induction l as [|x l IH]; [reflexivity|]. cbn [map filter fst]. destruct g, g'; try congruence; exact IH. Qed.
Lemma bonds_of_app g a b : bonds_of g (a ++ b) = bonds_of g a ++ bonds_of g b.
Proof. unfold bonds_of. rewrite filter_app, map_app. reflexivity. Qed.
Lemma bonds_of_fields g L : g <> HRz -> bonds_of g (map (fun q => (HRz, (q, q))) (seq 0 L)) = [].
Proof. intro H. unfold bonds_of. induction (seq 0 L) as [|x l IH]; [reflexivity|]. cbn [map filter fst]. destruct g; try congruence; exact IH. Qed.
Theorem heis_bonds L periodic g : g <> HRz -> bonds_of g (heis_step L periodic) = ising_bonds L periodic.
Proof. intro H. unfold heis_step. rewrite !bonds_of_app, bonds_of_fields by exact H.
  destruct g; try congruence; rewrite ?bonds_of_map_same, ?bonds_of_map_other by congruence; cbn [app]; rewrite ?app_nil_r; reflexivity. Qed.
Theorem heis_couplings_cover_chain L g : g <> HRz -> Permutation (bonds_of g (heis_step L false)) (chain_bonds L).
Proof. intro H. rewrite heis_bonds by exact H. apply ising_bonds_cover_chain. Qed.

(* Fermi-Hubbard sub-step: the hopping block visits every chain bond exactly once (even bonds first, then odd bonds) *)
Lemma fh_up_even L j : j + 1 < L -> flat_map (fun g => match g with FXX a b => if a <? L then [(b, a)] else [] | _ => [] end) (fh_bond L j) = [(j, j + 1)].
Proof. intro H. unfold fh_bond. cbn [flat_map app].
  destruct (Nat.ltb_spec (j + 1) L) as [H1|H1]; [|lia]. destruct (Nat.ltb_spec (L + j + 1) L) as [H2|H2]; [lia|]. reflexivity. Qed.
Lemma fh_up_xx_split L : fh_up_xx L =
  filter (fun b => Nat.even (fst b)) (chain_bonds L) ++ filter (fun b => negb (Nat.even (fst b))) (chain_bonds L).
Proof. unfold fh_up_xx, fh_hop, chain_bonds. rewrite flat_map_app. f_equal.
  - assert (E : forall l, (forall j, In j l -> j + 1 < L) ->
      flat_map (fun g => match g with FXX a b => if a <? L then [(b, a)] else [] | _ => [] end) (flat_map (fun j => if Nat.even j then fh_bond L j else []) l)
      = filter (fun b : nat * nat => Nat.even (fst b)) (map (fun i => (i, i + 1)) l)).
    { induction l as [|j l IH]; intro Hl; [reflexivity|]. cbn [flat_map map filter fst]. rewrite flat_map_app.
      rewrite IH by (intros x Hx; apply Hl; right; exact Hx). destruct (Nat.even j) eqn:Ej; [rewrite fh_up_even by (apply Hl; left; reflexivity)|]; reflexivity. }
    apply E. intros j Hj. apply in_seq in Hj. lia.
  - assert (E : forall l, (forall j, In j l -> j + 1 < L) ->
      flat_map (fun g => match g with FXX a b => if a <? L then [(b, a)] else [] | _ => [] end) (flat_map (fun j => if Nat.even j then [] else fh_bond L j) l)
      = filter (fun b : nat * nat => negb (Nat.even (fst b))) (map (fun i => (i, i + 1)) l)).
    { induction l as [|j l IH]; intro Hl; [reflexivity|]. cbn [flat_map map filter fst]. rewrite flat_map_app.
      rewrite IH by (intros x Hx; apply Hl; right; exact Hx). destruct (Nat.even j) eqn:Ej; cbn [negb]; [|rewrite fh_up_even by (apply Hl; left; reflexivity)]; reflexivity. }
    apply E. intros j Hj. apply in_seq in Hj. lia. Qed.
Lemma filter_partition_perm {A} (f : A -> bool) l : Permutation (filter f l ++ filter (fun x => negb (f x)) l) l.
Proof. induction l as [|x l IH]; [constructor|]. cbn [filter]. destruct (f x); cbn [negb app].
  - constructor. exact IH.
  - eapply Permutation_trans; [apply Permutation_sym, Permutation_middle|]. constructor. exact IH. Qed.
Theorem fh_hopping_covers_chain L : Permutation (fh_up_xx L) (chain_bonds L).
Proof. rewrite fh_up_xx_split. apply filter_partition_perm. Qed.
(* the sub-step is half - half - full - half - half: the angle classes read the same backwards (symmetric splitting) *)
Theorem fh_step_symmetric L : map fst (rev (fh_step L)) = map fst (fh_step L).
Proof. unfold fh_step. rewrite !rev_app_distr, !map_app, !map_rev, !map_map. cbn [fst].
  assert (C : forall (a : fhangle) (l : list fhgate), rev (map (fun _ => a) l) = map (fun _ => a) l).
  { intros a l. induction l as [|x l IH]; [reflexivity|]. cbn [map rev]. rewrite IH. clear IH. induction l as [|y l IH]; [reflexivity|]. cbn [map app]. rewrite IH. reflexivity. }
  rewrite !C. rewrite <- !app_assoc. reflexivity. Qed.
