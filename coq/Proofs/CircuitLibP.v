From Coq Require Import List Arith Lia Bool Permutation ZArith.
Import ListNotations.
From Yaqs Require Import Model.CircuitLib.
Ltac Zify.zify_post_hook ::= Z.to_euclidean_division_equations.

Lemma in_ising_open L a b : In (a, b) (ising_bonds L false) <-> b = a + 1 /\ a + 1 < L.
Proof. unfold ising_bonds. rewrite !in_app_iff, !in_map_iff. cbn [andb In]. split.
  - intros [(s & E & Hs)|[(s & E & Hs)|[H|[]]]].
    + injection E as <- <-. apply in_seq in Hs. split; [lia|]. assert (2 * (L / 2) <= L) by (apply Nat.mul_div_le; lia). lia.
    + injection E as <- <-. apply in_seq in Hs. split; [lia|]. assert (2 * (L / 2) <= L) by (apply Nat.mul_div_le; lia). lia.
    + destruct (Nat.odd L) eqn:O; cbn [andb negb In] in H; [|destruct H]. destruct (Nat.eqb_spec L 1); cbn [andb negb In] in H; [destruct H|].
      destruct H as [E|[]]. injection E as <- <-. apply Nat.odd_spec in O. destruct O as [k ->]. lia.
  - intros (-> & H). destruct (Nat.even a) eqn:Ev.
    + left. apply Nat.even_spec in Ev. destruct Ev as [k ->]. exists k. split.
      * f_equal; lia.
      * apply in_seq. split; [lia|]. assert (k + 1 <= L / 2) by (apply Nat.div_le_lower_bound; lia). lia.
    + right. assert (Od : Nat.odd a = true) by (rewrite <- Nat.negb_even, Ev; reflexivity). apply Nat.odd_spec in Od. destruct Od as [k ->].
      destruct (Nat.eq_dec (2 * k + 1 + 2) L) as [EL|NL].
      * right. left. subst L. replace (Nat.odd (2 * k + 1 + 2)) with true by (symmetry; apply Nat.odd_spec; exists (k + 1); lia).
        destruct (Nat.eqb_spec (2 * k + 1 + 2) 1); [lia|]. cbn [andb negb In]. left. f_equal; lia.
      * left. exists (k + 1). split; [f_equal; lia|]. apply in_seq. split; [lia|].
        assert (k + 2 <= L / 2) by (apply Nat.div_le_lower_bound; lia). lia. Qed.

Lemma chain_nodup L : NoDup (chain_bonds L).
Proof. unfold chain_bonds. apply FinFun.Injective_map_NoDup; [|apply seq_NoDup]. intros x y E. injection E. lia. Qed.
Lemma ising_open_length L : length (ising_bonds L false) = L - 1.
Proof. unfold ising_bonds. rewrite !app_length, !map_length, !seq_length. cbn [andb length].
  destruct (Nat.odd L) eqn:O.
  - apply Nat.odd_spec in O. destruct O as [k ->]. destruct (Nat.eqb_spec (2 * k + 1) 1); cbn [andb negb length].
    + assert (k = 0) by lia. subst k. reflexivity.
    + assert (E : (2 * k + 1) / 2 = k) by (symmetry; apply (Nat.div_unique (2 * k + 1) 2 k 1); lia). rewrite E. lia.
  - assert (Ev : Nat.even L = true) by (rewrite <- Nat.negb_odd, O; reflexivity). apply Nat.even_spec in Ev. destruct Ev as [k ->].
    cbn [andb length]. assert (E : 2 * k / 2 = k) by (rewrite Nat.mul_comm; apply Nat.div_mul; lia). rewrite E. lia. Qed.

(* one Trotter step couples every nearest-neighbour bond of the chain exactly once (open boundary), for every L *)
Theorem ising_bonds_cover_chain L : Permutation (ising_bonds L false) (chain_bonds L).
Proof. symmetry. apply NoDup_Permutation_bis.
  - apply chain_nodup.
  - rewrite ising_open_length. unfold chain_bonds. rewrite map_length, seq_length. lia.
  - intros [a b] H. unfold chain_bonds in H. apply in_map_iff in H as (i & E & Hi). injection E as <- <-. apply in_seq in Hi.
    apply in_ising_open. lia. Qed.
(* periodic boundary: the same bonds plus the wrap-around bond (0, L-1) *)
Theorem ising_bonds_periodic L : 1 < L -> ising_bonds L true = ising_bonds L false ++ [(0, L - 1)].
Proof. intro H. unfold ising_bonds. destruct (Nat.ltb_spec 1 L); [|lia]. cbn [andb]. rewrite !app_nil_r, <- !app_assoc. reflexivity. Qed.

(* every coupling of the Heisenberg step acts on exactly the bonds of the Ising pattern: each chain bond once (plus the closing bond) *)
Lemma bonds_of_map_same g l : bonds_of g (map (pair g) l) = l.
Proof. unfold bonds_of. induction l as [|x l IH]; [reflexivity|]. cbn [map filter fst]. destruct g; cbn [map snd]; f_equal; exact IH. Qed.
Lemma bonds_of_map_other g g' l : g <> g' -> bonds_of g (map (pair g') l) = [].
Proof. intro H. unfold bonds_of. induction l as [|x l IH]; [reflexivity|]. cbn [map filter fst]. destruct g, g'; try congruence; exact IH. Qed.
Lemma bonds_of_app g a b : bonds_of g (a ++ b) = bonds_of g a ++ bonds_of g b.
Proof. unfold bonds_of. rewrite filter_app, map_app. reflexivity. Qed.
Lemma bonds_of_fields g L : g <> HRz -> bonds_of g (map (fun q => (HRz, (q, q))) (seq 0 L)) = [].
Proof. intro H. unfold bonds_of. induction (seq 0 L) as [|x l IH]; [reflexivity|]. cbn [map filter fst]. destruct g; try congruence; exact IH. Qed.
Theorem heis_bonds L periodic g : g <> HRz -> bonds_of g (heis_step L periodic) = ising_bonds L periodic.
Proof. intro H. unfold heis_step. rewrite !bonds_of_app, bonds_of_fields by exact H.
  destruct g; try congruence; rewrite ?bonds_of_map_same, ?bonds_of_map_other by congruence; cbn [app]; rewrite ?app_nil_r; reflexivity. Qed.
Theorem heis_couplings_cover_chain L g : g <> HRz -> Permutation (bonds_of g (heis_step L false)) (chain_bonds L).
Proof. intro H. rewrite heis_bonds by exact H. apply ising_bonds_cover_chain. Qed.
