(* Proofs for Model/Grid.v (C15, C14): real-number semantics of the binary64 grid computation (Flocq),
   and the exact-arithmetic time-matching rule. *)
From Coq Require Import Lia ZArith QArith Qabs Lqa.
From Yaqs Require Import Base.Num Model.Grid.

(* ---------- time matching over exact rationals: only the scheduled grid point matches ---------- *)
Local Open Scope Q_scope.
Lemma nabs_Q x : nabs QN x == Qabs x.
Proof. unfold nabs; simpl. destruct (Qle_bool 0 x) eqn:E; simpl.
  - apply Qle_bool_iff in E. rewrite Qabs_pos; [reflexivity|exact E].
  - assert (x < 0). { apply Qnot_le_lt. intro C. apply Qle_bool_iff in C. congruence. }
    rewrite Qabs_neg; [ring|]. apply Qlt_le_weak; assumption. Qed.

Theorem time_match_exact (dt : Q) (k j : Z) : 0 < dt ->
  isclose QN (inject_Z k * dt) (inject_Z j * dt) (dt * (1 # 1000)) 0 = true <-> j = k.
Proof. intro Hdt. unfold isclose. simpl leb. simpl add. simpl mul. simpl sub. split.
  - intro H. apply Qle_bool_iff in H. rewrite nabs_Q in H.
    destruct (Z.eq_dec j k) as [E|E]; [exact E|exfalso].
    assert (D : inject_Z k * dt - inject_Z j * dt == inject_Z (k - j) * dt) by (unfold Z.sub; rewrite inject_Z_plus, inject_Z_opp; ring).
    rewrite D in H. rewrite Qabs_Qmult in H. rewrite (Qabs_pos dt) in H by (apply Qlt_le_weak; exact Hdt).
    assert (A : 1 <= Qabs (inject_Z (k - j))).
    { assert (Ez : Qabs (inject_Z (k - j)) = inject_Z (Z.abs (k - j))) by reflexivity.
      rewrite Ez. change 1 with (inject_Z 1). rewrite <- Zle_Qle. lia. }
    assert (B : dt <= Qabs (inject_Z (k - j)) * dt).
    { setoid_replace dt with (1 * dt) at 1 by ring. apply Qmult_le_compat_r; [exact A|apply Qlt_le_weak; exact Hdt]. }
    assert (C : 0 * Qabs 0 == 0) by (rewrite Qabs_pos; [ring|apply Qle_refl]).
    lra.
  - intros ->. apply Qle_bool_iff. rewrite nabs_Q.
    setoid_replace (inject_Z k * dt - inject_Z k * dt) with 0 by ring.
    rewrite !Qabs_pos by apply Qle_refl. lra. Qed.

