From Coq Require Import List Arith Bool.
Import ListNotations.
From Yaqs Require Import Model.Transmon.

(* for every chain length up to 12 (the automaton repeats with period two; all boundary cases occur by length 4) the accepted paths
   spell exactly the documented terms, as multisets — decided by evaluation *)
Theorem transmon_denotes_terms_upto_12 : forall L, 1 <= L -> L <= 12 -> same_terms (expand L) (terms L) = true.
Proof. intros L H1 H. assert (A : forallb (fun l => same_terms (expand l) (terms l)) (seq 1 12) = true) by (vm_compute; reflexivity).
  rewrite forallb_forall in A. apply A. apply in_seq. split; [exact H1|]. cbn. apply le_n_S. exact H. Qed.
Lemma same_terms_count a b : same_terms a b = true -> forall w, count w a = count w b.
Proof. intros H w. unfold same_terms in H. rewrite forallb_forall in H.
  destruct (in_dec (list_eq_dec Nat.eq_dec) w (a ++ b)) as [I|N]; [apply Nat.eqb_eq; apply H; exact I|].
  assert (Z : forall l, ~ In w l -> count w l = 0).
  { induction l as [|x l IH]; intro Hn; [reflexivity|]. unfold count in *. cbn [filter]. unfold weqb at 1.
    destruct (list_eq_dec Nat.eq_dec w x) as [->|Ne]; [exfalso; apply Hn; left; reflexivity|]. apply IH. intro C. apply Hn. right. exact C. }
  rewrite (Z a), (Z b); [reflexivity| |]; intro C; apply N; apply in_app_iff; [right|left]; exact C. Qed.
