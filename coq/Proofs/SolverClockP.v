From Coq Require Import List Arith Bool Lia.
Import ListNotations.
From Yaqs Require Import Model.SolverClock.

Lemma flat_map_all (f : nat -> nat * nat) l : flat_map (fun t => [f t]) l = map f l.
Proof. induction l as [|x l IH]; [reflexivity|]. cbn [flat_map map app]. rewrite IH. reflexivity. Qed.
Theorem mcwf_cols_sampling n : 1 <= n -> mcwf_cols true n = map (fun t => (t, t)) (seq 0 n).
Proof. intro H. unfold mcwf_cols, mcwf_written. cbn [orb]. rewrite flat_map_all.
  destruct n as [|n]; [lia|]. cbn [seq map app]. replace (S n - 1) with n by lia. reflexivity. Qed.
Lemma flat_map_none n l : (forall t, In t l -> t <> n - 1) ->
  flat_map (fun t => if false || Nat.eqb t (n - 1) then [(t, t)] else []) l = [].
Proof. induction l as [|x l IH]; intro H; [reflexivity|]. cbn [flat_map orb].
  destruct (Nat.eqb_spec x (n - 1)) as [E|E]; [exfalso; apply (H x); [left; reflexivity|exact E]|].
  cbn [app]. apply IH. intros t Ht. apply H. right. exact Ht. Qed.
Theorem mcwf_cols_final n : 2 <= n -> mcwf_cols false n = [(0, n - 1)].
Proof. intro H. unfold mcwf_cols, mcwf_written. cbn [app].
  assert (E : seq 1 (n - 1) = seq 1 (n - 2) ++ [n - 1]).
  { destruct n as [|[|m]]; [lia|lia|]. replace (S (S m) - 1) with (S m) by lia. replace (S (S m) - 2) with m by lia. rewrite seq_S. reflexivity. }
  rewrite E, flat_map_app.
  rewrite flat_map_none by (intros t Ht; apply in_seq in Ht; lia).
  cbn [flat_map app orb]. rewrite Nat.eqb_refl. cbn [app].
  unfold last_column. cbn [filter fst]. rewrite Nat.eqb_refl. reflexivity. Qed.
Lemma filter_last_map n : 1 <= n ->
  filter (fun p : nat * nat => Nat.eqb (fst p) (n - 1)) (map (fun t => (t, t)) (seq 0 n)) = [(n - 1, n - 1)].
Proof. intro H. assert (S0 : seq 0 n = seq 0 (n - 1) ++ [n - 1]).
  { destruct n as [|m]; [lia|]. replace (S m - 1) with m by lia. rewrite seq_S. reflexivity. }
  rewrite S0, map_app, filter_app. cbn [map filter fst].
  rewrite Nat.eqb_refl.
  assert (E : forall l, (forall t, In t l -> t <> n - 1) -> filter (fun p : nat * nat => Nat.eqb (fst p) (n - 1)) (map (fun t => (t, t)) l) = []).
  { induction l as [|x l IH]; intro Hl; [reflexivity|]. cbn [map filter fst].
    destruct (Nat.eqb_spec x (n - 1)) as [E|E]; [exfalso; apply (Hl x); [left; reflexivity|exact E]|].
    apply IH. intros t Ht. apply Hl. right. exact Ht. }
  rewrite E by (intros t Ht; apply in_seq in Ht; lia). reflexivity. Qed.
Theorem lindblad_cols_final n : 1 <= n -> lindblad_cols false n = [(0, n - 1)].
Proof. intro H. unfold lindblad_cols, last_column. rewrite filter_last_map by exact H. reflexivity. Qed.
(* both back-ends: entry c is evaluated at grid point c; with sampling off the single entry is evaluated at the last grid point *)
Theorem dense_backends_entries sampling n : 2 <= n ->
  mcwf_cols sampling n = lindblad_cols sampling n /\
  lindblad_cols sampling n = if sampling then map (fun t => (t, t)) (seq 0 n) else [(0, n - 1)].
Proof. intro H. destruct sampling.
  - rewrite mcwf_cols_sampling by lia. split; reflexivity.
  - rewrite mcwf_cols_final by lia. rewrite lindblad_cols_final by lia. split; reflexivity. Qed.
