(* Proofs for Model/Grid.v (C15): real-number semantics of the binary64 grid computation (Flocq). *)
From Coq Require Import Reals Lra Lia ZArith Psatz.
From Flocq Require Import Core Relative.
(* ---------- grid length: round(fl(fl(k*dt)/dt)) = k in binary64, for 1 <= k <= 2^40 ---------- *)
Local Open Scope R_scope.
Section G.
Let prec := 53%Z. Let emin := (-1074)%Z.
Instance prec_gt_0 : Prec_gt_0 prec. Proof. unfold Prec_gt_0, prec. lia. Qed.
Definition rnd (x : R) := round radix2 (FLT_exp emin prec) ZnearestE x.
Definition u : R := / 2 * bpow radix2 (- prec + 1).
Lemma u_val : u = / 9007199254740992. Proof. unfold u, prec. simpl. unfold Z.pow_pos; simpl. lra. Qed.

Theorem grid_count_core (k : Z) (dt : R) : (1 <= k <= 2 ^ 40)%Z -> 0 < dt ->
  bpow radix2 (emin + prec - 1) <= IZR k * dt ->
  bpow radix2 (emin + prec - 1) <= rnd (IZR k * dt) / dt ->
  Rabs (rnd (rnd (IZR k * dt) / dt) - IZR k) <= / 2048.
Proof. intros Hk Hdt H1 H2. unfold rnd in *.
  assert (Kpos : 1 <= IZR k) by (apply IZR_le; lia).
  assert (Kmax : IZR k <= 1099511627776) by (apply IZR_le; lia).
  destruct (@relative_error_N_FLT_ex radix2 emin prec prec_gt_0 (fun x => negb (Z.even x)) (IZR k * dt)) as (e1 & E1 & R1).
  { rewrite Rabs_pos_eq; [exact H1|nra]. }
  fold ZnearestE in R1. rewrite R1 in *.
  destruct (@relative_error_N_FLT_ex radix2 emin prec prec_gt_0 (fun x => negb (Z.even x)) (IZR k * dt * (1 + e1) / dt)) as (e2 & E2 & R2).
  { rewrite Rabs_pos_eq; [exact H2|]. eapply Rle_trans; [|exact H2]. apply bpow_ge_0. }
  fold ZnearestE in R2. rewrite R2. fold u in E1, E2. rewrite u_val in E1, E2.
  assert (EQ : IZR k * dt * (1 + e1) / dt * (1 + e2) - IZR k = IZR k * (e1 + e2 + e1 * e2)).
  { field. apply Rgt_not_eq; exact Hdt. }
  rewrite EQ.
  apply Rabs_le_inv in E1. apply Rabs_le_inv in E2. set (kk := IZR k) in *.
  assert (B : Rabs (e1 + e2 + e1 * e2) <= / 4503599627370000).
  { apply Rabs_le. split; nra. }
  rewrite Rabs_mult. rewrite (Rabs_pos_eq kk) by lra.
  apply Rle_trans with (1099511627776 * / 4503599627370000); [|lra].
  apply Rmult_le_compat; try lra. apply Rabs_pos. Qed.

(* the number of steps the (repaired) grid construction computes is exactly k *)
Theorem grid_steps_exact (k : Z) (dt : R) : (1 <= k <= 2 ^ 40)%Z -> 0 < dt ->
  bpow radix2 (emin + prec - 1) <= IZR k * dt ->
  bpow radix2 (emin + prec - 1) <= rnd (IZR k * dt) / dt ->
  ZnearestE (rnd (rnd (IZR k * dt) / dt)) = k.
Proof. intros Hk Hdt H1 H2. apply Znearest_imp. pose proof (grid_count_core k dt Hk Hdt H1 H2). lra. Qed.
End G.
