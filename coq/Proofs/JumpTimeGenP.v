(* The time-matching tests GENERATED from /repo's current source (Gen/JumpTimeGen.v, has_scheduled_jump / apply_scheduled_jumps) are
   the hand-written model the C14 theorems are about.  A changed tolerance or comparison breaks these equalities. *)
From Coq Require Import ZArith List Bool PrimFloat.
Import ListNotations.
From Yaqs Require Import Base.Num Model.Grid Gen.JumpTimeGen.

Theorem jump_announced_src_is_model jump_time time dt : jump_announced_src jump_time time dt = has_jump_at jump_time time dt.
Proof. reflexivity. Qed.
Theorem jump_applied_src_is_model jump_time time dt : jump_applied_src jump_time time dt = has_jump_at jump_time time dt.
Proof. reflexivity. Qed.
(* the test that announces a jump (has_scheduled_jump) and the test that applies it (apply_scheduled_jumps) are the same *)
Theorem announced_iff_applied jump_time time dt : jump_announced_src jump_time time dt = jump_applied_src jump_time time dt.
Proof. reflexivity. Qed.
