From Coq Require Import List Arith Lia Bool Permutation Reals Lra.
Import ListNotations.
From Yaqs Require Import Base.Num Model.NoiseAttrib.
Local Open Scope R_scope.

Definition RN : Num := {|
  T := R; add := Rplus; sub := Rminus; mul := Rmult; div := Rdiv;
  ltb := fun a b => if Rlt_dec a b then true else false; leb := fun a b => if Rle_dec a b then true else false;
  eqb := fun a b => if Req_EM_T a b then true else false; zero := 0; one := 1 |}.

(* listing order does not matter: the weight attached to a process depends on that process only *)
Theorem weights_permutation (N : Num) L dt ns (l l' : list (proc N)) : Permutation l l' ->
  Permutation (combine l (weights N L dt ns l)) (combine l' (weights N L dt ns l')).
Proof. unfold weights. intro P.
  assert (E : forall m : list (proc N), combine m (map (weight N L dt ns) m) = map (fun p => (p, weight N L dt ns p)) m).
  { induction m as [|x m IH]; simpl; [reflexivity|]. rewrite IH. reflexivity. }
  rewrite !E. apply Permutation_map. exact P. Qed.

Theorem weight_of_position (N : Num) L dt ns (l : list (proc N)) k p :
  nth_error l k = Some p -> nth_error (weights N L dt ns l) k = Some (weight N L dt ns p).
Proof. intro H. unfold weights. rewrite nth_error_map, H. reflexivity. Qed.

(* over the reals: a probability distribution *)
Definition Rtot (l : list R) : R := fold_right Rplus 0 l.
Lemma total_R (l : list R) : total RN l = Rtot l. Proof. reflexivity. Qed.
Lemma Rtot_div (ws : list R) (s : R) : s <> 0 -> Rtot (map (fun w => w / s) ws) = Rtot ws / s.
Proof. intro H. unfold Rtot. induction ws as [|x ws IH]; simpl; [field; exact H|]. rewrite IH. field. exact H. Qed.
Theorem probabilities_sum_to_one L dt ns (l : list (proc RN)) :
  total RN (weights RN L dt ns l) <> 0 -> total RN (probabilities RN L dt ns l) = 1.
Proof. intro H. unfold probabilities. cbv zeta. rewrite total_R in *.
  change (Rtot (map (fun w : R => w / Rtot (weights RN L dt ns l)) (weights RN L dt ns l)) = 1).
  rewrite Rtot_div by exact H. field. exact H. Qed.

Definition proc_nonneg (p : proc RN) : Prop := 0 <= gamma RN p /\ 0 <= njump RN p.
Lemma weight_nonneg L dt ns p : 0 <= dt -> 0 <= ns -> proc_nonneg p -> 0 <= weight RN L dt ns p.
Proof. intros Hd Hn (Hg & Hj). unfold weight. destruct (visited RN L p); [|simpl; lra].
  destruct (pk RN p); [|destruct (pauli RN p)]; simpl; repeat apply Rmult_le_pos; assumption. Qed.
Lemma total_nonneg (ws : list R) : Forall (fun w => 0 <= w) ws -> 0 <= total RN ws.
Proof. rewrite total_R. unfold Rtot. induction 1; simpl; lra. Qed.
Theorem probabilities_nonneg L dt ns (l : list (proc RN)) : 0 <= dt -> 0 <= ns -> Forall proc_nonneg l ->
  0 < total RN (weights RN L dt ns l) -> Forall (fun q : R => 0 <= q) (probabilities RN L dt ns l).
Proof. intros Hd Hn Hl Ht. unfold probabilities. cbv zeta. apply Forall_forall. intros q Hq.
  apply in_map_iff in Hq as (w & <- & Hw). unfold weights in Hw. apply in_map_iff in Hw as (p & <- & Hp).
  simpl. apply Rmult_le_pos; [apply weight_nonneg; auto; rewrite Forall_forall in Hl; apply Hl; exact Hp|].
  apply Rlt_le, Rinv_0_lt_compat. exact Ht. Qed.

(* the averaged post-lottery state: the branch of process k (probability (1-n0)*w_k/W, renormalised by its own jump norm)
   contributes the un-normalised operator L_k phi phi^+ L_k^+ with coefficient (1-n0)/W * dt * gamma_k — the jump norm cancels:
   every process enters with its own rate, independently of the state *)
Theorem branch_coefficient (dt g nj n0 W : R) : nj <> 0 -> W <> 0 ->
  (1 - n0) * ((dt * g * nj) / W) / nj = ((1 - n0) / W) * (dt * g).
Proof. intros. field. split; assumption. Qed.
(* first order: when the jump probability 1-n0 equals the total weight (which it does to first order in dt), the
   coefficient is exactly dt * gamma_k: the Lindblad jump term *)
Theorem branch_coefficient_first_order (dt g nj W : R) : nj <> 0 -> W <> 0 -> W * ((dt * g * nj) / W) / nj = dt * g.
Proof. intros. field. split; assumption. Qed.

(* ---------- local noise model of a two-qubit gate (C03) ---------- *)
Lemma list_eqb_spec x y : list_eqb x y = true <-> x = y.
Proof. unfold list_eqb. destruct (list_eq_dec Nat.eq_dec x y); split; congruence. Qed.
Theorem local_selection {A} (kind_of : A -> pkind) a b procs p :
  In p (local_procs kind_of a b procs) <->
  In p procs /\ (sites_of (kind_of p) = [a; b] \/ sites_of (kind_of p) = [a] \/ sites_of (kind_of p) = [b]).
Proof. unfold local_procs. rewrite filter_In. unfold is_local. rewrite !orb_true_iff, !list_eqb_spec. tauto. Qed.
Theorem local_keeps_order {A} (kind_of : A -> pkind) a b procs : exists keep, local_procs kind_of a b procs = filter keep procs.
Proof. eexists. reflexivity. Qed.
