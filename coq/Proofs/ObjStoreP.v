From Coq Require Import List Arith ZArith Bool Lia.
Import ListNotations.
From Yaqs Require Import Model.ObjStore.

Lemma set_nth_length {A} (l : list A) k v : length (set_nth l k v) = length l.
Proof. revert k. induction l as [|x l IH]; intros [|k]; simpl; auto. Qed.
Lemma set_nth_other {A} (l : list A) k v i : i <> k -> nth_error (set_nth l k v) i = nth_error l i.
Proof. revert k i. induction l as [|x l IH]; intros [|k] [|i] N; simpl; auto; try (exfalso; apply N; reflexivity). Qed.
Lemma update_length h d f : length (update h d f) = length h.
Proof. unfold update. destruct (nth_error h d); [apply set_nth_length|reflexivity]. Qed.
Lemma update_other h d f i : i <> d -> nth_error (update h d f) i = nth_error h i.
Proof. intros N. unfold update. destruct (nth_error h d); [apply set_nth_other; exact N|reflexivity]. Qed.
Lemma step_length h o : length h <= length (step h o).
Proof. destruct o; simpl; [rewrite app_length; simpl; lia| |]; rewrite update_length; lia. Qed.

(* a step that respects the discipline leaves every caller object as it was *)
Lemma step_frame n0 h o i : n0 <= length h -> owned n0 o = true -> i < n0 -> nth_error (step h o) i = nth_error h i.
Proof. intros L O I. destruct o as [src|d k v|d]; simpl in *.
  - apply nth_error_app1. lia.
  - apply Nat.leb_le in O. apply update_other. lia.
  - apply Nat.leb_le in O. apply update_other. lia. Qed.
Theorem caller_objects_unchanged ops : forall n0 h, n0 <= length h -> forallb (owned n0) ops = true ->
  forall i, i < n0 -> nth_error (exec ops h) i = nth_error h i.
Proof. unfold exec. induction ops as [|o ops IH]; intros n0 h L A i I; [reflexivity|].
  simpl in A. apply andb_true_iff in A as (O & A). cbn [fold_left].
  rewrite (IH n0 (step h o)); [apply (step_frame n0); assumption| |exact A|exact I].
  pose proof (step_length h o). lia. Qed.

(* the noise model handed to run: sampled first, everything afterwards addressed to the sample *)
Theorem sampled_run_leaves_model h nm internal :
  forallb (owned (length h)) (internal (length h)) = true ->
  forall i, i < length h -> nth_error (run_on_sample h nm internal) i = nth_error h i.
Proof. intros A i I. unfold run_on_sample.
  rewrite (caller_objects_unchanged _ (length h)); [apply (step_frame (length h)); auto| |exact A|exact I].
  pose proof (step_length h (Copy nm)). lia. Qed.

(* and it matters: without the fresh copy the same internal writes reach the caller (the discipline is not vacuous) *)
Example aliased_run_changes_model :
  nth_error (exec [Prune 0] [[0; 5; 0; 3]%Z]) 0 = Some [5; 3]%Z
  /\ nth_error (run_on_sample [[0; 5; 0; 3]%Z] 0 (fun fresh => [Prune fresh; Write fresh 0 7%Z])) 0 = Some [0; 5; 0; 3]%Z
  /\ nth_error (run_on_sample [[0; 5; 0; 3]%Z] 0 (fun fresh => [Prune fresh; Write fresh 0 7%Z])) 1 = Some [7; 3]%Z.
Proof. vm_compute. repeat split; reflexivity. Qed.
