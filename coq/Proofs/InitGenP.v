(* The allocation rule GENERATED from /repo's current source (Gen/InitGen.v, Observable.initialize) is the hand-written rule: one row per
   requested trajectory or shot, the columns the front-end models count, and nothing that depends on an earlier run (C20, C16). *)
From Coq Require Import List Arith Bool.
Import ListNotations.
From Yaqs Require Import Model.InitRule Model.Params Model.DigitalLoop Gen.InitGen.

Theorem init_shape_src_is_model k flag num_traj ntimes shots mid :
  init_shape_src k flag num_traj ntimes shots mid = init_shape k flag num_traj ntimes shots mid.
Proof. unfold init_shape_src, init_shape. destruct k, flag; reflexivity. Qed.

(* circuits: as many rows as trajectories the front-end is about to execute, as many columns as Params.run_layers / DigitalLoop count *)
Theorem strong_allocation_matches_front_end sampling n ntimes shots (c : list instr) :
  init_shape_src KStrong sampling n ntimes shots (length (filter (is_kind SBar) c))
  = Some (n, columns_allocated sampling c, columns_allocated sampling c).
Proof. rewrite init_shape_src_is_model. unfold init_shape, columns_allocated. destruct sampling; reflexivity. Qed.
Theorem strong_allocation_matches_layers labelled p n ntimes shots :
  init_shape_src KStrong (sample_layers p) n ntimes shots labelled
  = Some (n, snd (run_layers labelled p), snd (run_layers labelled p)).
Proof. rewrite init_shape_src_is_model. unfold init_shape, run_layers. destruct (sample_layers p); reflexivity. Qed.
(* weak runs: one row per shot; analog runs: one row per trajectory, one column per grid point when sampling *)
Theorem weak_allocation flag n ntimes shots mid : init_shape_src KWeak flag n ntimes shots mid = Some (shots, 1, 1).
Proof. rewrite init_shape_src_is_model. reflexivity. Qed.
Theorem analog_allocation flag n ntimes shots mid :
  init_shape_src KAnalog flag n ntimes shots mid = Some (n, (if flag then ntimes else 1), ntimes).
Proof. rewrite init_shape_src_is_model. reflexivity. Qed.
