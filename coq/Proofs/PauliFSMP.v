(* Proof that the FSM built by from_pauli_sum denotes exactly the list of terms it was built from. *)

From Coq Require Import ZArith QArith List Bool Arith Lia.
Import ListNotations.
From Yaqs Require Import Model.PauliFSM.
Local Open Scope nat_scope.
(* --- facts about assign --- *)
Lemma find_sig_spec s m k r : find_sig s m k = Some r -> k <= r /\ r - k < length m /\ sig_eqb s (nth (r - k) m (PI,0%nat)) = true.
Proof. revert k; induction m as [|x m IH]; intros k H; simpl in H; [discriminate|].
  destruct (sig_eqb s x) eqn:E.
  - injection H as <-. rewrite Nat.sub_diag. simpl. split; [lia|split; [lia|exact E]].
  - apply IH in H. destruct H as (A&B&C). split; [lia|]. split; [simpl; lia|].
    replace (r - k) with (S (r - S k)) by lia. simpl. exact C. Qed.
Lemma peqb_eq a b : peqb a b = true -> a = b. Proof. destruct a, b; simpl; congruence. Qed.
Lemma sig_eqb_eq a b : sig_eqb a b = true -> a = b.
Proof. destruct a, b; unfold sig_eqb; simpl. intro H. apply andb_prop in H as [A B]. apply peqb_eq in A. apply Nat.eqb_eq in B. congruence. Qed.
Lemma assign_spec sigs : forall m m' ids, assign sigs m = (m', ids) ->
  length ids = length sigs /\ (exists ext, m' = m ++ ext) /\
  forall t, t < length sigs -> nth t ids 0%nat < length m' /\ nth (nth t ids 0%nat) m' (PI,0%nat) = nth t sigs (PI,0%nat).
Proof. induction sigs as [|s r IH]; intros m m' ids H; simpl in H.
  - injection H as <- <-. split; [reflexivity|]. split; [exists []; rewrite app_nil_r; reflexivity|]. intros t Ht; simpl in Ht; lia.
  - destruct (find_sig s m 0) as [k|] eqn:F.
    + destruct (assign r m) as [m1 ids1] eqn:A. injection H as <- <-. destruct (IH _ _ _ A) as (L1&(ext&E1)&P1).
      split; [simpl; lia|]. split; [exists ext; exact E1|]. intros [|t] Ht; simpl.
      * apply find_sig_spec in F. destruct F as (_&B&C). rewrite Nat.sub_0_r in *. apply sig_eqb_eq in C.
        subst m1. split; [rewrite app_length; lia|]. rewrite app_nth1 by lia. symmetry; exact C.
      * apply P1. simpl in Ht; lia.
    + destruct (assign r (m ++ [s])) as [m1 ids1] eqn:A. injection H as <- <-. destruct (IH _ _ _ A) as (L1&(ext&E1)&P1).
      split; [simpl; lia|]. split; [exists ([s] ++ ext); rewrite E1, <- app_assoc; reflexivity|]. intros [|t] Ht; simpl.
      * subst m1. split; [rewrite !app_length; simpl; lia|]. rewrite <- app_assoc. rewrite app_nth2 by lia. rewrite Nat.sub_diag. reflexivity.
      * apply P1. simpl in Ht; lia. Qed.
(* --- pushing columns onto per-term suffixes --- *)
Fixpoint zipcons (col : list pauli) (sufs : list (list pauli)) : list (list pauli) :=
  match col, sufs with c :: cr, s :: sr => (c :: s) :: zipcons cr sr | _, _ => [] end.
Fixpoint push (cols : list (list pauli)) (sufs : list (list pauli)) := match cols with [] => sufs | c :: r => push r (zipcons c sufs) end.
Lemma zipcons_len c s : length c = length s -> length (zipcons c s) = length s.
Proof. revert s; induction c as [|x c IH]; intros [|y s] H; simpl in *; try lia. rewrite IH; lia. Qed.
Lemma zipcons_nth c s t : length c = length s -> t < length s -> nth t (zipcons c s) [] = nth t c PI :: nth t s [].
Proof. revert s t; induction c as [|x c IH]; intros [|y s] t H Ht; simpl in *; try lia. destruct t; [reflexivity|]. apply IH; lia. Qed.
Lemma nth_combine {A B} (l : list A) (l' : list B) t da db : length l = length l' -> nth t (combine l l') (da, db) = (nth t l da, nth t l' db).
Proof. revert l' t; induction l as [|x l IH]; intros [|y l'] t H; simpl in *; try lia; destruct t; auto. Qed.
Lemma build_rec_spec cols : forall ids acc sufs n, length ids = n -> length sufs = n ->
  (forall t, t < n -> suffix acc (nth t ids 0%nat) = nth t sufs []) -> (forall c, In c cols -> length c = n) ->
  forall ids' tabs, build_rec cols ids acc = (ids', tabs) ->
  length ids' = n /\ forall t, t < n -> suffix tabs (nth t ids' 0%nat) = nth t (push cols sufs) [].
Proof. induction cols as [|col cols IH]; intros ids acc sufs n Li Ls Hs Hc ids' tabs H; simpl in H.
  - injection H as <- <-. split; auto.
  - destruct (assign (combine col ids) []) as [m ids1] eqn:A.
    assert (Lc : length col = n) by (apply Hc; left; reflexivity).
    destruct (assign_spec _ _ _ _ A) as (L1&_&P1). rewrite (combine_length col ids) in L1. rewrite Lc, Li, Nat.min_id in L1.
    eapply (IH ids1 (m :: acc) (zipcons col sufs) n); eauto.
    + rewrite zipcons_len; lia.
    + intros t Ht. cbn [suffix]. destruct (P1 t) as (B&C). { rewrite combine_length; lia. }
      rewrite C. rewrite (nth_combine col ids t PI 0%nat) by lia. simpl. rewrite Hs by lia. rewrite zipcons_nth by lia. reflexivity.
    + intros c Hin. apply Hc. right; exact Hin. Qed.

Lemma push_app a c s : push (a ++ [c]) s = zipcons c (push a s).
Proof. revert s; induction a as [|x a IH]; intro s; simpl; auto. Qed.
Lemma push_len cols : forall s n, length s = n -> (forall c, In c cols -> length c = n) -> length (push cols s) = n.
Proof. induction cols as [|c r IH]; intros s n H Hc; simpl; auto. apply IH; [rewrite zipcons_len; auto; rewrite H; apply Hc; left; auto|intros; apply Hc; right; auto]. Qed.
Lemma skipn_nth {A} n (l : list A) d : n < length l -> skipn n l = nth n l d :: skipn (S n) l.
Proof. revert l; induction n as [|n IH]; intros [|x l] H; simpl in *; try lia; auto. apply IH; lia. Qed.
Definition d0 : term := (0%Q, []).
Lemma column_nth ts i : forall t, t < length ts -> nth t (column ts i) PI = nth i (snd (nth t ts d0)) PI.
Proof. unfold column. induction ts as [|x ts IH]; intros t H; simpl in *; [lia|]. destruct t; auto. apply IH; lia. Qed.
Lemma push_columns L ts : (forall t, In t ts -> length (snd t) = L) -> forall k, k <= L ->
  let cols := map (column ts) (rev (seq (L - k) k)) in
  length (push cols (map (fun _ => []) ts)) = length ts /\ forall t, t < length ts -> nth t (push cols (map (fun _ => []) ts)) [] = skipn (L - k) (snd (nth t ts d0)).
Proof. intros Hl k. induction k as [|k IH]; intro Hk; cbn zeta.
  - simpl. rewrite map_length. split; auto. intros t Ht. rewrite Nat.sub_0_r.
    assert (E : forall (l : list term) t, nth t (map (fun _ => @nil pauli) l) [] = []) by (induction l as [|? ? IHl]; intros [|?]; simpl; auto). rewrite E.
    rewrite skipn_all2; auto. rewrite Hl; auto. apply nth_In; auto.
  - destruct IH as (LenI & IH); [lia|].
    replace (seq (L - S k) (S k)) with ((L - S k) :: seq (L - k) k) by (simpl; f_equal; f_equal; lia).
    cbn [rev]. rewrite map_app. cbn [map]. rewrite push_app.
    assert (Lc : length (column ts (L - S k)) = length ts) by (unfold column; apply map_length).
    assert (Lz := eq_trans Lc (eq_sym LenI)).
    split; [rewrite zipcons_len; [exact LenI|exact Lz]|].
    intros t Ht. rewrite zipcons_nth; [|exact Lz|exact (eq_ind_r (fun n => t < n) Ht LenI)]. rewrite IH by lia. rewrite column_nth by lia.
    rewrite (skipn_nth (L - S k) _ PI). { f_equal. f_equal. lia. }
    rewrite Hl; [lia|apply nth_In; auto]. Qed.
Lemma map_combine_id {A B} (g : A * B -> A) (l : list A) (l' : list B) da db : length l = length l' ->
  (forall t, t < length l -> g (nth t l da, nth t l' db) = nth t l da) -> map g (combine l l') = l.
Proof. revert l'; induction l as [|x l IH]; intros [|y l'] H G; simpl in *; try lia; auto.
  f_equal. - apply (G 0); lia. - apply IH; [lia|]. intros t Ht. apply (G (S t)); lia. Qed.
Lemma nth_map_nil (l : list term) t : nth t (map (fun _ => @nil pauli) l) [] = [].
Proof. revert t; induction l as [|? ? IHl]; intros [|?]; simpl; auto. Qed.
Theorem fsm_denotes_terms L ts : 1 <= L -> (forall t, In t ts -> length (snd t) = L) -> denote (build L ts) = ts.
Proof. intros HL Hl. unfold build.
  destruct (build_rec (map (column ts) (rev (seq 1 (L - 1)))) (map (fun _ => 0) ts) []) as [ids tabs] eqn:B.
  pose proof (push_columns L ts Hl (L - 1) ltac:(lia)) as P; cbn zeta in P. replace (L - (L - 1)) with 1 in P by lia. destruct P as (PL & P).
  assert (H1 : length (map (fun _ : term => 0) ts) = length ts) by apply map_length.
  assert (H2 : length (map (fun _ : term => @nil pauli) ts) = length ts) by apply map_length.
  assert (H3 : forall t, t < length ts -> suffix [] (nth t (map (fun _ : term => 0) ts) 0) = nth t (map (fun _ : term => @nil pauli) ts) []).
  { intros t _. rewrite nth_map_nil. reflexivity. }
  assert (H4 : forall c, In c (map (column ts) (rev (seq 1 (L - 1)))) -> length c = length ts).
  { intros c Hc. apply in_map_iff in Hc. destruct Hc as (i & <- & _). apply map_length. }
  destruct (build_rec_spec _ _ _ _ _ H1 H2 H3 H4 _ _ B) as (Li & S).
  unfold denote; cbn [first tables]. rewrite map_map.
  apply (map_combine_id _ ts ids d0 0); [lia|]. intros t Ht. cbn [fst snd].
  rewrite S, P by lia. destruct (nth t ts d0) as [c ops] eqn:E. cbn [fst snd].
  assert (Lo : length ops = L). { specialize (Hl (nth t ts d0) (nth_In _ _ Ht)). rewrite E in Hl. exact Hl. }
  f_equal. destruct ops as [|o ops]; [simpl in Lo; lia|]. reflexivity. Qed.

