From Coq Require Import List Arith Bool.
Import ListNotations.
From Yaqs Require Import Model.Params Proofs.ParamsP Model.Failures.

Lemma try_strong_num_traj o noisy p : num_traj (try_strong o noisy p) = num_traj p.
Proof. destruct o; reflexivity. Qed.
Lemma try_weak_shots o noisy p : shots (try_weak o noisy p) = shots p.
Proof. destruct o; reflexivity. Qed.
Lemma strong_tries_num_traj h : forall p, num_traj (strong_tries h p) = num_traj p.
Proof. unfold strong_tries. induction h as [|x h IH]; intros p; [reflexivity|]. cbn [fold_left]. rewrite IH. apply try_strong_num_traj. Qed.
Lemma weak_tries_shots h : forall p, shots (weak_tries h p) = shots p.
Proof. unfold weak_tries. induction h as [|x h IH]; intros p; [reflexivity|]. cbn [fold_left]. rewrite IH. apply try_weak_shots. Qed.
(* after ANY history of completed, refused and failed calls the next run executes what it would on a fresh object *)
Theorem tries_history_independent h noisy p q :
  run_strong noisy (strong_tries h p) = run_strong noisy p /\ run_weak noisy (weak_tries h q) = run_weak noisy q.
Proof. split; [apply run_strong_depends_on_num_traj, strong_tries_num_traj|apply run_weak_depends_on_shots, weak_tries_shots]. Qed.
