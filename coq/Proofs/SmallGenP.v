(* The one-line decision rules GENERATED from /repo's current source (Gen/SmallGen.v) are the hand-written models the
   C04 / C14 / C15 theorems and bit-exact correspondences are about.  A changed constant, comparison, default tolerance or
   rounding function in the source breaks these equalities. *)
From Coq Require Import ZArith List Bool PrimFloat.
Import ListNotations.
From Yaqs Require Import Base.Num Model.Verdict Model.Grid Model.NoiseAttrib Gen.SmallGen.

(* the allowance of the verdict in the source: the double 1e-9, non-negative *)
Definition verdict_eps : float := 0x1.12e0be826d695p-30%float.
Lemma verdict_eps_nonneg : (0 <=? verdict_eps)%float = true. Proof. vm_compute. reflexivity. Qed.

Theorem verdict_src_is_model abs_trace n fidelity : verdict_src abs_trace n fidelity = verdict FN abs_trace n fidelity verdict_eps.
Proof. reflexivity. Qed.

Theorem times_src_is_model elapsed_time dt : times_src elapsed_time dt = grid elapsed_time dt.
Proof. reflexivity. Qed.
Theorem times_src_length elapsed_time dt : Z.of_nat (length (times_src elapsed_time dt)) = Z.max 0 (grid_len elapsed_time dt).
Proof. unfold times_src. rewrite map_length, seq_length. fold (grid_steps elapsed_time dt). fold (grid_len elapsed_time dt).
  destruct (grid_len elapsed_time dt) as [|p|p]; cbn; try reflexivity. rewrite positive_nat_Z. reflexivity. Qed.

Theorem jump_announced_src_is_model jump_time time dt : jump_announced_src jump_time time dt = has_jump_at jump_time time dt.
Proof. reflexivity. Qed.
Theorem jump_applied_src_is_model jump_time time dt : jump_applied_src jump_time time dt = has_jump_at jump_time time dt.
Proof. reflexivity. Qed.
(* the test that announces a jump (has_scheduled_jump) and the test that applies it (apply_scheduled_jumps) are the same *)
Theorem announced_iff_applied jump_time time dt : jump_announced_src jump_time time dt = jump_applied_src jump_time time dt.
Proof. reflexivity. Qed.

(* the selection test of create_local_noise_model in the source is the model's is_local, and the list it builds is local_procs *)
Theorem local_src_is_model a b k : local_selected_src a b (sites_of k) = is_local a b k.
Proof. reflexivity. Qed.
Theorem local_src_list_is_model {A} (kind_of : A -> pkind) a b procs :
  filter (fun p => local_selected_src a b (sites_of (kind_of p))) procs = local_procs kind_of a b procs.
Proof. reflexivity. Qed.
