From Coq Require Import List Arith Bool Lia Permutation.
Import ListNotations.
From Yaqs Require Import Model.ChainFSM.

Section P.
Variable sym : Type.
Variables (I h : sym) (chans : list (sym * sym)).
Notation paths := (paths sym I h chans).
Notation pad := (pad sym I).

Lemma paths_end m : paths m (End) = [repeat I m].
Proof. induction m as [|m IH]; [reflexivity|]. cbn [ChainFSM.paths out flat_map fst snd]. rewrite IH. reflexivity. Qed.
Lemma paths_chan m k c : nth_error chans k = Some c -> paths (S m) (Chan k) = [snd c :: repeat I m].
Proof. intro H. cbn [ChainFSM.paths out]. rewrite H. cbn [flat_map fst snd]. rewrite paths_end. reflexivity. Qed.
Lemma paths_chan0 k : paths 0 (Chan k) = []. Proof. reflexivity. Qed.

(* words that start a coupling on the first of m+1 remaining sites *)
Definition starts (m : nat) : list (list sym) :=
  match m with O => [] | S m' => map (fun c => fst c :: snd c :: repeat I m') chans end.
Lemma chan_branch m : forall base (cs : list (sym * sym)), (forall j c, nth_error cs j = Some c -> nth_error chans (base + j) = Some c) ->
  flat_map (fun t : sym * st => map (cons (fst t)) (paths m (snd t)))
           (map (fun kc : nat * (sym * sym) => (fst (snd kc), Chan (fst kc))) (combine (seq base (length cs)) cs)) =
  match m with O => [] | S m' => map (fun c => fst c :: snd c :: repeat I m') cs end.
Proof. intros base cs. revert base. induction cs as [|c cs IH]; intros base H; [destruct m; reflexivity|].
  cbn [length seq combine map flat_map fst snd].
  rewrite (IH (S base)) by (intros j c' Hj; replace (S base + j) with (base + S j) by lia; apply H; exact Hj).
  destruct m as [|m']; [reflexivity|]. rewrite (paths_chan m' base c) by (rewrite <- (Nat.add_0_r base); apply H; reflexivity).
  reflexivity. Qed.

Lemma paths_start m : paths (S m) Start = map (cons I) (paths m Start) ++ (h :: repeat I m) :: starts m.
Proof. cbn [ChainFSM.paths out flat_map fst snd]. rewrite paths_end. cbn [map]. f_equal. cbn [app]. f_equal.
  rewrite (chan_branch m 0 chans) by (intros j c Hj; exact Hj). reflexivity. Qed.

Lemma pad_S i w j : pad (S i) w j = I :: pad i w j. Proof. reflexivity. Qed.
Lemma site_terms_S L : site_terms sym I h (S L) = (h :: repeat I L) :: map (cons I) (site_terms sym I h L).
Proof. unfold site_terms. cbn [seq map]. f_equal.
  - unfold ChainFSM.pad. replace (S L - 1 - 0) with L by lia. reflexivity.
  - rewrite <- seq_shift, !map_map. apply map_ext_in. intros i Hi. apply in_seq in Hi. rewrite pad_S.
    replace (S L - 1 - S i) with (L - 1 - i) by lia. reflexivity. Qed.
Lemma flat_map_shift {B} (F G : nat -> list B) (c : B -> B) l : (forall i, F (S i) = map c (G i)) ->
  flat_map F (map S l) = map c (flat_map G l).
Proof. intro H. induction l as [|x l IH]; [reflexivity|]. cbn [map flat_map]. rewrite map_app, H, IH. reflexivity. Qed.
Lemma bond_terms_S L : bond_terms sym I chans (S (S L)) =
  map (fun c => fst c :: snd c :: repeat I L) chans ++ map (cons I) (bond_terms sym I chans (S L)).
Proof. unfold bond_terms. replace (S (S L) - 1) with (S L) by lia. replace (S L - 1) with L by lia. cbn [seq flat_map]. f_equal.
  - apply map_ext. intro c. unfold ChainFSM.pad. replace (S (S L) - 2 - 0) with L by lia. reflexivity.
  - rewrite <- seq_shift. apply flat_map_shift. intro i. rewrite map_map. apply map_ext. intro c. rewrite pad_S.
    replace (S (S L) - 2 - S i) with (S L - 2 - i) by lia. reflexivity. Qed.
Lemma bond_terms_1 : bond_terms sym I chans 1 = []. Proof. reflexivity. Qed.
Lemma bond_terms_0 : bond_terms sym I chans 0 = []. Proof. reflexivity. Qed.

(* the automaton spells exactly the documented terms, for every chain length *)
Theorem expand_is_terms L : Permutation (expand sym I h chans L) (terms sym I h chans L).
Proof. unfold expand, terms. induction L as [|L IH]; [cbn; constructor|].
  rewrite paths_start, site_terms_S.
  destruct L as [|L'].
  - cbn [starts map app]. rewrite bond_terms_1, app_nil_r. cbn. constructor. constructor.
  - rewrite bond_terms_S. cbn [starts].
    (* map (cons I) (paths ..) ++ (h :: I^m) :: S   ~   (h :: I^m) :: map (cons I) sites ++ S ++ map (cons I) bonds *)
    apply Permutation_trans with ((h :: repeat I (S L')) :: map (cons I) (paths (S L') Start) ++ map (fun c => fst c :: snd c :: repeat I L') chans).
    + apply Permutation_sym. apply Permutation_middle.
    + cbn [app]. constructor.
      apply Permutation_trans with (map (cons I) (site_terms sym I h (S L') ++ bond_terms sym I chans (S L')) ++ map (fun c => fst c :: snd c :: repeat I L') chans).
      * apply Permutation_app_tail. apply Permutation_map. exact IH.
      * rewrite map_app, <- app_assoc. apply Permutation_app_head. apply Permutation_app_comm. Qed.
End P.
