From Coq Require Import List Arith Lia Bool.
Import ListNotations.
From Yaqs Require Import Model.Params.

Lemma strong_history_num_traj h : forall p, num_traj (strong_history h p) = num_traj p.
Proof. induction h as [|b h IH]; intro p; simpl; [reflexivity|]. unfold strong_history in *. simpl. rewrite IH. reflexivity. Qed.

(* whatever ran before on the same object, a run executes the number of trajectories requested at construction *)
Theorem strong_history_independent h noisy p :
  snd (run_strong noisy (strong_history h p)) = snd (run_strong noisy p).
Proof. unfold run_strong. simpl. rewrite strong_history_num_traj. reflexivity. Qed.

Lemma weak_history_shots h : forall p, shots (weak_history h p) = shots p.
Proof. induction h as [|b h IH]; intro p; simpl; [reflexivity|]. unfold weak_history in *. simpl. rewrite IH. reflexivity. Qed.

Theorem weak_history_independent h noisy p :
  snd (fst (run_weak noisy (weak_history h p))) = snd (fst (run_weak noisy p)) /\
  snd (run_weak noisy (weak_history h p)) = snd (run_weak noisy p).
Proof. unfold run_weak. simpl. rewrite weak_history_shots. split; reflexivity. Qed.

(* filling the first n slots of a fresh list *)
Lemma set_nth_opt_len l i v : length (set_nth_opt l i v) = length l.
Proof. unfold set_nth_opt. rewrite app_length. destruct (skipn i l) eqn:E.
  - simpl. rewrite firstn_length. assert (length (skipn i l) = 0) by (rewrite E; reflexivity). rewrite skipn_length in H. lia.
  - simpl. rewrite firstn_length. assert (length (skipn i l) = S (length l0)) by (rewrite E; reflexivity). rewrite skipn_length in H. lia. Qed.

Lemma fill_spec per : forall n s, n <= s ->
  fold_left (fun m i => set_nth_opt m i per) (seq 0 n) (repeat None s) = repeat (Some per) n ++ repeat None (s - n).
Proof. induction n as [|n IH]; intros s H.
  - simpl. rewrite Nat.sub_0_r. reflexivity.
  - rewrite seq_S, fold_left_app. rewrite IH by lia. simpl. unfold set_nth_opt.
    rewrite firstn_app, firstn_all2 by (rewrite repeat_length; lia). rewrite repeat_length, Nat.sub_diag. simpl. rewrite app_nil_r.
    rewrite skipn_app, skipn_all2 by (rewrite repeat_length; lia). rewrite repeat_length, Nat.sub_diag. simpl.
    replace (s - n) with (S (s - S n)) by lia. simpl.
    replace (repeat (Some per) n ++ Some per :: repeat None (s - S n)) with ((repeat (Some per) n ++ [Some per]) ++ repeat None (s - S n))
      by (rewrite <- app_assoc; reflexivity).
    rewrite <- (repeat_cons n (Some per)). reflexivity. Qed.

Lemma sum_repeat_some per n : sum_opts (repeat (Some per) n) = n * per.
Proof. induction n; simpl; [reflexivity|]. rewrite IHn. lia. Qed.
Lemma has_none_repeat_some per n : has_none (repeat (Some per) n) = false.
Proof. induction n; simpl; auto. Qed.

(* the counts returned always sum to the shots requested; noisy runs execute one trajectory per shot *)
Theorem weak_counts noisy p : 1 <= shots p ->
  snd (run_weak noisy p) = shots p /\ snd (fst (run_weak noisy p)) = (if noisy then shots p else 1).
Proof. intro H. unfold run_weak. cbn [fst snd]. split; [|reflexivity]. destruct noisy.
  - rewrite fill_spec by lia. rewrite Nat.sub_diag. simpl repeat. rewrite app_nil_r.
    unfold aggregate. rewrite has_none_repeat_some, sum_repeat_some. lia.
  - rewrite fill_spec by lia. unfold aggregate. simpl. destruct (shots p - 1); simpl; lia. Qed.

Theorem weak_counts_any_history h noisy p : 1 <= shots p -> snd (run_weak noisy (weak_history h p)) = shots p.
Proof. intro H. destruct (weak_history_independent h noisy p) as [_ E]. rewrite E. apply weak_counts. exact H. Qed.

(* layer sampling: whatever circuits ran before on the same object and whatever num_mid_measurements the constructor was
   given, a run allocates "labelled barriers of this circuit + 2" columns *)
Lemma layers_history_flag h : forall p, sample_layers (layers_history h p) = sample_layers p.
Proof. induction h as [|a h IH]; intro p; [reflexivity|]. unfold layers_history in *. cbn [fold_left]. rewrite IH.
  unfold run_layers. destruct (sample_layers p) eqn:E; cbn [fst sample_layers]; [reflexivity|exact E]. Qed.
Theorem layers_history_independent h labelled p :
  snd (run_layers labelled (layers_history h p)) = if sample_layers p then labelled + 2 else 1.
Proof. unfold run_layers. rewrite layers_history_flag. destruct (sample_layers p); reflexivity. Qed.

Lemma analog_history_num_traj h : forall p, num_traj (analog_history h p) = num_traj p.
Proof. induction h as [|[s b] h IH]; intro p; [reflexivity|]. unfold analog_history in *. cbn [fold_left]. rewrite IH. reflexivity. Qed.
(* a run after any history of runs — any back-ends, noisy or not — executes what a fresh object would *)
Theorem analog_history_independent h s noisy p :
  snd (run_analog s noisy (analog_history h p)) = snd (run_analog s noisy p).
Proof. unfold run_analog. cbn [snd]. rewrite analog_history_num_traj. reflexivity. Qed.

(* ---------- refused runs leave the object alone; histories with refusals are as harmless as histories without ---------- *)
Lemma attempt_weak_shots noisy gs p : shots (fst (attempt_weak noisy gs p)) = shots p.
Proof. unfold attempt_weak. destruct (noisy && gs)%bool; reflexivity. Qed.
Lemma weak_attempts_shots h : forall p, shots (weak_attempts h p) = shots p.
Proof. unfold weak_attempts. induction h as [|x h IH]; intros p; [reflexivity|]. cbn [fold_left]. rewrite IH. apply attempt_weak_shots. Qed.
Lemma attempt_strong_num_traj noisy gs p : num_traj (fst (attempt_strong noisy gs p)) = num_traj p.
Proof. unfold attempt_strong. destruct (noisy && gs)%bool; reflexivity. Qed.
Lemma strong_attempts_num_traj h : forall p, num_traj (strong_attempts h p) = num_traj p.
Proof. unfold strong_attempts. induction h as [|x h IH]; intros p; [reflexivity|]. cbn [fold_left]. rewrite IH. apply attempt_strong_num_traj. Qed.
Theorem refused_run_leaves_object p q : fst (attempt_weak true true p) = p /\ fst (attempt_strong true true q) = q.
Proof. split; reflexivity. Qed.
(* run_weak depends on the object only through shots, run_strong only through num_traj *)
Lemma run_weak_depends_on_shots noisy p q : shots p = shots q -> run_weak noisy p = run_weak noisy q.
Proof. unfold run_weak. intros ->. reflexivity. Qed.
Lemma run_strong_depends_on_num_traj noisy p q : num_traj p = num_traj q -> run_strong noisy p = run_strong noisy q.
Proof. unfold run_strong. intros ->. reflexivity. Qed.
Theorem attempts_history_independent h noisy p q :
  run_weak noisy (weak_attempts h p) = run_weak noisy p /\ run_strong noisy (strong_attempts h q) = run_strong noisy q.
Proof. split; [apply run_weak_depends_on_shots, weak_attempts_shots|apply run_strong_depends_on_num_traj, strong_attempts_num_traj]. Qed.
