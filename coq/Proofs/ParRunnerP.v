(* Proofs about Model/ParRunner.v (C13) *)
From Coq Require Import List Arith Lia Bool Permutation.
Import ListNotations.
From Yaqs Require Import Model.ParRunner.

Section P.
Variables (n W maxr : nat).

Definition Inv (s : st) : Prop :=
  next s <= n /\ length (fl s) <= W /\
  (next s < n -> length (fl s) = W \/ err s <> None) /\
  (err s = None -> Permutation (out s ++ fl s) (seq 0 (next s))).

Lemma remove_nth_perm {A} p (l : list A) i : nth_error l p = Some i -> Permutation l (i :: remove_nth p l).
Proof. revert l; induction p as [|p IH]; intros [|a l] H; simpl in *; try discriminate.
  - injection H as ->. reflexivity.
  - unfold remove_nth in *. simpl. rewrite (IH l H) at 1. apply perm_swap. Qed.

Lemma remove_nth_len {A} p (l : list A) i : nth_error l p = Some i -> S (length (remove_nth p l)) = length l.
Proof. intro H. apply remove_nth_perm in H. apply Permutation_length in H. simpl in H. lia. Qed.

Lemma fill_inv k s : err s = None -> next s <= n -> length (fl s) <= W ->
  Permutation (out s ++ fl s) (seq 0 (next s)) ->
  let s' := fill n W k s in
  err s' = None /\ next s' <= n /\ length (fl s') <= W /\ Permutation (out s' ++ fl s') (seq 0 (next s'))
  /\ (W - length (fl s) <= k -> next s' < n -> length (fl s') = W).
Proof. revert s; induction k as [|k IH]; intros s He Hn Hl Hp; simpl.
  - repeat split; auto. lia.
  - destruct (Nat.ltb_spec (next s) n) as [E1|E1]; destruct (Nat.ltb_spec (length (fl s)) W) as [E2|E2]; simpl;
    try (repeat split; auto; lia).
    set (s1 := {| next := S (next s); fl := fl s ++ [next s]; retr := retr s; out := out s; sub := sub s ++ [next s]; err := err s |}).
    assert (L1 : length (fl s1) = S (length (fl s))) by (simpl; rewrite app_length; simpl; lia).
    assert (P1 : Permutation (out s1 ++ fl s1) (seq 0 (next s1))).
    { unfold s1; cbn [next fl out]. rewrite app_assoc, seq_S. cbn [Nat.add]. apply Permutation_app_tail. exact Hp. }
    assert (G : err s1 = None) by (simpl; auto).
    assert (G2 : next s1 <= n) by (unfold s1; cbn [next]; lia).
    assert (G3 : length (fl s1) <= W) by lia.
    pose proof (IH s1 G G2 G3 P1) as H; cbv zeta in H. destruct H as (A&B&C&D&E).
    repeat split; auto. intros. apply E; auto. lia. Qed.

Lemma init_inv : Inv (init n W).
Proof. unfold init.
  assert (H := fill_inv W empty eq_refl (Nat.le_0_l n) (Nat.le_0_l W) (Permutation_refl _)).
  cbv zeta in H. destruct H as (A&B&C&D&E).
  unfold Inv. repeat split; auto. intro. left. apply E; simpl; lia. Qed.

Lemma step_inv s c : Inv s -> Inv (step n maxr s c).
Proof. intros (Hn&Hl&Hf&Hp). unfold step. destruct (err s) eqn:He.
  { unfold Inv. rewrite He. repeat split; auto; try congruence; try (intro; right; congruence). }
  destruct c as [p o]. destruct (nth_error (fl s) p) as [i|] eqn:Hi.
  2:{ unfold Inv. rewrite He. repeat split; auto. }
  pose proof (remove_nth_perm _ _ _ Hi) as P. pose proof (remove_nth_len _ _ _ Hi) as Ln. specialize (Hp eq_refl).
  assert (Hfull : next s < n -> length (fl s) = W). { intro E. destruct (Hf E) as [F|F]; [exact F|congruence]. }
  destruct o.
  - destruct (Nat.ltb_spec (next s) n) as [E|E]; unfold Inv; cbn [next fl out err retr].
    + repeat split.
      * lia.
      * rewrite app_length; simpl; lia.
      * intro. left. rewrite app_length; simpl. specialize (Hfull E). lia.
      * intros _. rewrite seq_S; cbn [Nat.add]. rewrite app_assoc. apply Permutation_app_tail. rewrite <- Hp.
        rewrite <- app_assoc. apply Permutation_app_head. symmetry. exact P.
    + repeat split; try lia.
      intros _. rewrite <- Hp. rewrite <- app_assoc. apply Permutation_app_head. symmetry. exact P.
  - destruct (Nat.ltb_spec (retr s i) maxr) as [E|E]; unfold Inv; cbn [next fl out err retr].
    + repeat split.
      * lia.
      * rewrite app_length; simpl; lia.
      * intro E'. left. rewrite app_length; simpl. specialize (Hfull E'). lia.
      * intros _. rewrite <- Hp. apply Permutation_app_head. symmetry. apply (Permutation_trans P). apply Permutation_cons_append.
    + repeat split; try lia; try congruence; try (intro; right; congruence).
  - unfold Inv; cbn [next fl out err retr]. repeat split; try lia; try congruence; try (intro; right; congruence). Qed.

Lemma steps_inv cs : forall s, Inv s -> Inv (fold_left (step n maxr) cs s).
Proof. induction cs as [|c cs IH]; simpl; auto. intros s H. apply IH, step_inv, H. Qed.

Lemma run_inv cs : Inv (run n W maxr cs).
Proof. apply steps_inv, init_inv. Qed.

(* --- every index delivered exactly once, in any completion order, under any retry pattern --- *)
Theorem exactly_once cs : 0 < W -> let s := run n W maxr cs in
  err s = None -> fl s = [] -> Permutation (out s) (seq 0 n).
Proof. intros Wpos s He Hf. assert (I : Inv s) by apply run_inv.
  destruct I as (Hn&Hl&Hfull&Hp). specialize (Hp He). rewrite Hf, app_nil_r in Hp.
  assert (next s = n).
  { destruct (Nat.eq_dec (next s) n); auto. destruct Hfull as [F|F]; [lia| |congruence]. rewrite Hf in F; simpl in F; lia. }
  congruence. Qed.

(* never yielded twice, never yielded while still in flight — also mid-run and on the failure path *)
Theorem no_duplicates cs : let s := run n W maxr cs in err s = None -> NoDup (out s ++ fl s).
Proof. intros s He. destruct (run_inv cs) as (_&_&_&Hp). specialize (Hp He).
  apply (Permutation_NoDup (Permutation_sym Hp)). apply seq_NoDup. Qed.

Theorem inflight_bounded cs : length (fl (run n W maxr cs)) <= W.
Proof. apply (run_inv cs). Qed.

(* window is kept full while jobs remain: the pool is never starved by the bookkeeping *)
Theorem window_refilled cs : let s := run n W maxr cs in err s = None -> next s < n -> length (fl s) = W.
Proof. intros s He Hlt. destruct (run_inv cs) as (_&_&Hf&_). destruct (Hf Hlt) as [F|F]; [exact F|contradiction]. Qed.

(* --- failures surface --- *)
Lemma step_frozen s c i : err s = Some i -> step n maxr s c = s.
Proof. intro H. unfold step. rewrite H. reflexivity. Qed.

Lemma steps_frozen cs : forall s i, err s = Some i -> fold_left (step n maxr) cs s = s.
Proof. induction cs as [|c cs IH]; intros s i H; simpl; auto. rewrite (step_frozen s c i H). eapply IH; eauto. Qed.

Theorem fatal_surfaces s p i : err s = None -> nth_error (fl s) p = Some i ->
  let s' := step n maxr s (p, Fatal) in err s' = Some i /\ out s' = out s /\ sub s' = sub s.
Proof. intros He Hi. unfold step. rewrite He, Hi. simpl. auto. Qed.

Theorem exhausted_retry_surfaces s p i : err s = None -> nth_error (fl s) p = Some i -> maxr <= retr s i ->
  let s' := step n maxr s (p, Retry) in err s' = Some i /\ out s' = out s /\ sub s' = sub s.
Proof. intros He Hi Hr. unfold step. rewrite He, Hi. destruct (Nat.ltb_spec (retr s i) maxr); [lia|]. simpl. auto. Qed.

Theorem retry_within_budget_resubmits s p i : err s = None -> nth_error (fl s) p = Some i -> retr s i < maxr ->
  let s' := step n maxr s (p, Retry) in err s' = None /\ out s' = out s /\ In i (fl s') /\ retr s' i = S (retr s i).
Proof. intros He Hi Hr. unfold step. rewrite He, Hi. destruct (Nat.ltb_spec (retr s i) maxr); [|lia]. simpl.
  repeat split; auto. - apply in_app_iff; right; left; reflexivity. - rewrite Nat.eqb_refl. reflexivity. Qed.

(* the failing index was never delivered *)
Theorem failed_index_not_yielded cs c : let s := run n W maxr cs in
  err s = None -> forall i, err (step n maxr s c) = Some i -> ~ In i (out (step n maxr s c)).
Proof. intros s He i H'. pose proof (no_duplicates cs He) as ND. fold s in ND.
  unfold step in *. rewrite He in *. destruct c as [p o]. destruct (nth_error (fl s) p) as [j|] eqn:Hj; [|congruence].
  assert (Hin : In j (fl s)) by (eapply nth_error_In; eauto).
  assert (Hnot : ~ In j (out s)).
  { intro C. apply in_split in C as (a&b&Ea). apply in_split in Hin as (c'&d&Ec). rewrite Ea, Ec in ND.
    rewrite <- app_assoc in ND. simpl in ND. apply NoDup_remove_2 in ND. apply ND. rewrite !in_app_iff. right. right. right. left. reflexivity. }
  destruct o.
  - destruct (next s <? n); simpl in H'; discriminate.
  - destruct (retr s j <? maxr); simpl in H'; [discriminate|]. injection H' as <-. simpl. exact Hnot.
  - simpl in H'. injection H' as <-. simpl. exact Hnot. Qed.

(* --- bounded number of attempts (progress): at most n*(maxr+1) submissions --- *)
Definition SInv (s : st) : Prop :=
  next s <= n /\ (forall i, retr s i <= maxr) /\
  (forall i, count_occ Nat.eq_dec (sub s) i = if i <? next s then S (retr s i) else 0).

Lemma count_occ_snoc l (x i : nat) : count_occ Nat.eq_dec (l ++ [x]) i = count_occ Nat.eq_dec l i + (if x =? i then 1 else 0).
Proof. rewrite count_occ_app. simpl. destruct (Nat.eq_dec x i), (Nat.eqb_spec x i); try lia. Qed.

Lemma fill_sinv k s : SInv s -> (forall i, next s <= i -> retr s i = 0) ->
  SInv (fill n W k s) /\ (forall i, next (fill n W k s) <= i -> retr (fill n W k s) i = 0).
Proof. revert s; induction k as [|k IH]; intros s (Hn&Hr&Hc) Hz; simpl; [repeat split; auto|].
  destruct (Nat.ltb_spec (next s) n) as [E1|E1]; destruct (Nat.ltb_spec (length (fl s)) W) as [E2|E2]; simpl;
    try (repeat split; auto; fail).
  apply IH.
  - unfold SInv; cbn [next retr sub]. repeat split; auto. intro i. rewrite count_occ_snoc, Hc.
    destruct (Nat.ltb_spec i (next s)), (Nat.ltb_spec i (S (next s))), (Nat.eqb_spec (next s) i); try lia.
    subst i. rewrite Hz by lia. lia.
  - cbn [next retr]. intros i Hi. apply Hz. lia. Qed.

Definition ZInv (s : st) : Prop := forall i, next s <= i -> retr s i = 0.

Lemma step_sinv s c : Inv s -> SInv s -> ZInv s -> SInv (step n maxr s c) /\ ZInv (step n maxr s c).
Proof. intros (_&_&_&Hp) (Hn&Hr&Hc) Hz. unfold step. destruct (err s) eqn:He; [repeat split; auto|].
  destruct c as [p o]. destruct (nth_error (fl s) p) as [i|] eqn:Hi; [|repeat split; auto].
  assert (Ilt : i < next s).
  { specialize (Hp eq_refl). assert (In i (out s ++ fl s)) by (apply in_app_iff; right; eapply nth_error_In; eauto).
    apply (Permutation_in _ Hp) in H. apply in_seq in H. lia. }
  destruct o.
  - destruct (Nat.ltb_spec (next s) n) as [E|E]; unfold SInv, ZInv; cbn [next retr sub]; repeat split; auto.
    + intro j. rewrite count_occ_snoc, Hc.
      destruct (Nat.ltb_spec j (next s)), (Nat.ltb_spec j (S (next s))), (Nat.eqb_spec (next s) j); try lia.
      subst j. rewrite Hz by lia. lia.
    + intros j Hj. apply Hz. lia.
  - destruct (Nat.ltb_spec (retr s i) maxr) as [E|E]; unfold SInv, ZInv; cbn [next retr sub]; repeat split; auto.
    + intro j. destruct (Nat.eqb_spec j i); [lia|apply Hr].
    + intro j. rewrite count_occ_snoc, Hc. rewrite (Nat.eqb_sym j i).
      destruct (Nat.eqb_spec i j); [subst j; destruct (Nat.ltb_spec i (next s)); lia|].
      destruct (j <? next s); lia.
    + intros j Hj. destruct (Nat.eqb_spec j i); [lia|apply Hz; exact Hj].
  - unfold SInv, ZInv; cbn [next retr sub]; repeat split; auto. Qed.

Lemma init_sinv : SInv (init n W) /\ ZInv (init n W).
Proof. unfold init. apply fill_sinv.
  - unfold SInv, empty; simpl. split; [lia|]. split; [intro; lia|]. intro i. reflexivity.
  - intros; reflexivity. Qed.

Lemma steps_sinv cs : forall s, Inv s -> SInv s -> ZInv s ->
  SInv (fold_left (step n maxr) cs s).
Proof. induction cs as [|c cs IH]; simpl; auto. intros s I S Z.
  destruct (step_sinv s c I S Z). apply IH; auto. apply step_inv; auto. Qed.

Lemma length_by_counts (l : list nat) m : (forall x, In x l -> x < m) ->
  length l = fold_right Nat.add 0 (map (count_occ Nat.eq_dec l) (seq 0 m)).
Proof. induction l as [|a l IH]; intro H.
  - simpl. induction (seq 0 m) as [|? ? IHs]; simpl; auto.
  - assert (Ha : a < m) by (apply H; left; reflexivity).
    simpl length. rewrite (IH (fun x Hx => H x (or_intror Hx))).
    assert (G : forall k b, fold_right Nat.add 0 (map (count_occ Nat.eq_dec (a :: l)) (seq b k)) =
                  fold_right Nat.add 0 (map (count_occ Nat.eq_dec l) (seq b k)) + (if (b <=? a) && (a <? b + k) then 1 else 0)).
    { induction k as [|k IHk]; intro b; simpl seq; simpl map; simpl fold_right.
      - destruct (Nat.leb_spec b a), (Nat.ltb_spec a (b + 0)); simpl; lia.
      - rewrite IHk. destruct (Nat.eq_dec a b).
        + subst b. destruct (Nat.leb_spec (S a) a), (Nat.leb_spec a a), (Nat.ltb_spec a (a + S k)), (Nat.ltb_spec a (S a + k)); simpl; lia.
        + destruct (Nat.leb_spec (S b) a), (Nat.leb_spec b a), (Nat.ltb_spec a (b + S k)), (Nat.ltb_spec a (S b + k)); simpl; lia. }
    rewrite G. destruct (Nat.leb_spec 0 a), (Nat.ltb_spec a (0 + m)); simpl; lia. Qed.

Lemma sum_bound (f : nat -> nat) b m k : (forall i, f i <= b) -> fold_right Nat.add 0 (map f (seq k m)) <= m * b.
Proof. intro H. revert k. induction m as [|m IH]; intro k; simpl; [lia|]. specialize (IH (S k)). specialize (H k). lia. Qed.

Theorem attempts_bounded cs : length (sub (run n W maxr cs)) <= n * S maxr.
Proof. destruct init_sinv as (S0&Z0). pose proof (steps_sinv cs _ init_inv S0 Z0) as (Hn&Hr&Hc).
  fold (run n W maxr cs) in *. set (s := run n W maxr cs) in *.
  rewrite (length_by_counts (sub s) n).
  - apply sum_bound. intro i. rewrite Hc. destruct (i <? next s); [specialize (Hr i); lia|lia].
  - intros x Hx. destruct (Nat.ltb_spec x (next s)) as [L|L]; [lia|].
    assert (C : count_occ Nat.eq_dec (sub s) x = 0). { rewrite Hc. destruct (Nat.ltb_spec x (next s)); [lia|reflexivity]. }
    apply (count_occ_In Nat.eq_dec) in Hx. lia. Qed.
End P.

(* --- stitching: rows end up equal to the serial result, whatever the delivery order --- *)
Lemma stitch_fold {A} (f : nat -> A) l : forall arr j,
  fold_left (fun a i => upd a i (f i)) l arr j = if existsb (Nat.eqb j) l then f j else arr j.
Proof. induction l as [|x l IH]; intros arr j; simpl; auto. rewrite IH. unfold upd.
  destruct (Nat.eqb_spec j x) as [->|Ne]; simpl.
  - destruct (existsb (Nat.eqb x) l); auto.
  - destruct (existsb (Nat.eqb j) l); auto. Qed.

Theorem stitching {A} (f : nat -> A) dflt n yielded : Permutation yielded (seq 0 n) ->
  forall i, i < n -> stitch f dflt yielded i = f i.
Proof. intros P i Hi. unfold stitch. rewrite stitch_fold.
  assert (In i yielded) by (apply (Permutation_in _ (Permutation_sym P)); apply in_seq; lia).
  assert (E : existsb (Nat.eqb i) yielded = true) by (apply existsb_exists; exists i; split; auto; apply Nat.eqb_refl).
  rewrite E. reflexivity. Qed.

Theorem stitching_untouched {A} (f : nat -> A) dflt n yielded : Permutation yielded (seq 0 n) ->
  forall i, n <= i -> stitch f dflt yielded i = dflt.
Proof. intros P i Hi. unfold stitch. rewrite stitch_fold.
  destruct (existsb (Nat.eqb i) yielded) eqn:E; auto. apply existsb_exists in E as (x&Hx&Ex). apply Nat.eqb_eq in Ex. subst x.
  apply (Permutation_in _ P) in Hx. apply in_seq in Hx. lia. Qed.
