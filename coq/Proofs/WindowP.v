From Coq Require Import Arith Lia.
From Yaqs Require Import Model.Window.
(* the window lies inside the chain, contains the sites of the gate, has at least two sites, and re-indexing the gate's sites into
   the cut-out chain keeps their distance and stays inside it *)
Theorem window_sound first last size L : first < last -> last < L ->
  let w := window first last size L in
  fst w <= first /\ last <= snd w /\ snd w < L /\ 2 <= window_len w /\
  in_window w last - in_window w first = last - first /\ in_window w last < window_len w.
Proof. intros H1 H2. unfold window, window_len, in_window. cbn [fst snd]. repeat split; lia. Qed.
(* with margin 1 a gate away from the ends gets one site more on each side *)
Theorem window_margin first last L : 1 <= first -> first < last -> last + 1 < L ->
  window first last 1 L = (first - 1, last + 1).
Proof. intros. unfold window. f_equal. lia. Qed.
