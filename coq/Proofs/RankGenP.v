(* The rank-selection definitions GENERATED from /repo's current source (Gen/RankGen.v) equal the hand-written model
   Model/RankSelect.v, for every spectrum, every parameter value and every number system: the C08/C09 theorems therefore hold of
   what the source says now.  When the source changes shape these equalities stop checking and the property checks report it. *)
From Coq Require Import List Arith Bool String Lia.
Import ListNotations.
From Yaqs Require Import Base.Num Model.RankSelect Gen.RankGen.

Section Gen.
Context (N : Num).

Lemma split_loop_eq mk s thr : forall l idx d k,
  snd (split_keep_loop1 N mk s thr l idx d k) = dw_loop N l idx (List.length s) mk d thr k.
Proof. induction l as [|x l IH]; intros idx d k; cbn [split_keep_loop1 dw_loop]; cbv zeta; [reflexivity|].
  destruct (ltb N thr _); [reflexivity|apply IH]. Qed.

Theorem split_keep_dw s dyn thr minb maxb :
  split_keep N s dyn "discarded_weight" thr minb maxb = keep_dw N s thr minb maxb dyn.
Proof. unfold split_keep, keep_dw. cbv zeta. cbn [String.eqb Ascii.eqb Bool.eqb].
  match goal with |- context [split_keep_loop1 ?a ?b ?c ?d ?e ?f ?g ?h] =>
    pose proof (split_loop_eq b c d e f g h) as E; destruct (split_keep_loop1 a b c d e f g h) as [dd kk] end.
  cbn [snd] in E. rewrite E. destruct dyn; reflexivity. Qed.

Theorem split_keep_rel s dyn thr minb maxb :
  split_keep N s dyn "relative" thr minb maxb = keep_rel N s thr minb maxb.
Proof. unfold split_keep, keep_rel, count_rel. cbv zeta. cbn [String.eqb Ascii.eqb Bool.eqb].
  destruct s as [|x s]; cbn [nth]; [destruct (eqb N (zero N) (zero N)); reflexivity|].
  destruct (eqb N x (zero N)); reflexivity. Qed.

Lemma tss_loop_eq mk s thr : forall l idx d,
  snd (tss_keep_loop1 N mk s thr l idx d (List.length s)) = tss_loop N l idx (List.length s) d thr mk.
Proof. induction l as [|x l IH]; intros idx d; cbn [tss_keep_loop1 tss_loop]; cbv zeta; [reflexivity|].
  destruct (leb N thr _); [reflexivity|apply IH]. Qed.

Theorem tss_keep_eq s thr mb minb : tss_keep N s thr mb minb = keep_tss N s thr minb mb.
Proof. unfold tss_keep, keep_tss. cbv zeta.
  match goal with |- context [tss_keep_loop1 ?a ?b ?c ?d ?e ?f ?g ?h] =>
    pose proof (tss_loop_eq b c d e f g) as E; destruct (tss_keep_loop1 a b c d e f g h) as [dd kk] end.
  cbn [snd] in E. rewrite E. destruct mb; reflexivity. Qed.

Lemma trs_loop_eq s thr : forall l idx d,
  snd (trs_keep_loop1 N s thr l idx d 1) = trs_loop N l idx (List.length s) d thr.
Proof. induction l as [|x l IH]; intros idx d; cbn [trs_keep_loop1 trs_loop]; cbv zeta; [reflexivity|].
  destruct (leb N thr _); [reflexivity|apply IH]. Qed.

Theorem trs_keep_eq s thr mb : trs_keep N s thr mb = keep_trs N s thr mb.
Proof. unfold trs_keep, keep_trs. cbv zeta.
  match goal with |- context [trs_keep_loop1 ?a ?b ?c ?d ?e ?f ?g] =>
    pose proof (trs_loop_eq b c d e f) as E; destruct (trs_keep_loop1 a b c d e f g) as [dd kk] end.
  cbn [snd] in E. rewrite E. destruct mb; reflexivity. Qed.
End Gen.

(* the property statements, directly about the definitions generated from the source *)
From Yaqs Require Import Proofs.RankSelectP.
Theorem source_split_bounded_dw (N : Num) s dyn thr minb maxb :
  split_keep N s dyn "discarded_weight" thr minb maxb <= Nat.max maxb (Nat.min (List.length s) minb).
Proof. rewrite split_keep_dw. apply keep_dw_cap. Qed.
Theorem source_split_bounded_rel (N : Num) s dyn thr minb maxb :
  split_keep N s dyn "relative" thr minb maxb <= Nat.max maxb minb.
Proof. rewrite split_keep_rel. apply keep_rel_cap. Qed.
Theorem source_tss_bounded (N : Num) s thr minb m : tss_keep N s thr (Some m) minb <= m.
Proof. rewrite tss_keep_eq. apply keep_tss_cap. Qed.
Theorem source_trs_bounded (N : Num) s thr m : trs_keep N s thr (Some m) <= m.
Proof. rewrite trs_keep_eq. unfold keep_trs. lia. Qed.
Theorem source_split_le_rank (N : Num) s dyn thr minb maxb mode : mode = "discarded_weight"%string \/ mode = "relative"%string ->
  split_keep N s dyn mode thr minb maxb <= List.length s.
Proof. intros [->| ->]; [rewrite split_keep_dw; apply keep_dw_le_len|rewrite split_keep_rel; apply keep_rel_le_len]. Qed.
