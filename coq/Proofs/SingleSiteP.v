From Coq Require Import List Arith Lia Permutation.
Import ListNotations.
From Yaqs Require Import Model.SingleSite.

Lemma ss_total_app f a b : ss_total f (a ++ b) = ss_total f a + ss_total f b.
Proof. unfold ss_total. induction a as [|x a IH]; cbn [app map fold_right]; [reflexivity|]. rewrite IH. lia. Qed.
Lemma ss_total_flat f (g : nat -> list sstep) l : ss_total f (flat_map g l) = fold_right Nat.add 0 (map (fun i => ss_total f (g i)) l).
Proof. induction l as [|x l IH]; [reflexivity|]. cbn [flat_map map fold_right]. rewrite ss_total_app, IH. reflexivity. Qed.
Lemma sum_indicator j a n : fold_right Nat.add 0 (map (fun i => if Nat.eqb i j then a else 0) (seq 0 n)) = if j <? n then a else 0.
Proof. induction n as [|n IH]; [reflexivity|]. rewrite seq_S, map_app, fold_right_app. cbn [map fold_right Nat.add].
  assert (E : forall l c, fold_right Nat.add c (map (fun i => if Nat.eqb i j then a else 0) l) = c + fold_right Nat.add 0 (map (fun i => if Nat.eqb i j then a else 0) l)).
  { induction l as [|x l IHl]; intro c; cbn [map fold_right]; [lia|]. rewrite IHl. lia. }
  rewrite E, IH. destruct (Nat.eqb_spec n j) as [H|H]; destruct (Nat.ltb_spec j n) as [H1|H1]; destruct (Nat.ltb_spec j (S n)) as [H2|H2]; lia. Qed.
Lemma sum_perm (f : nat -> nat) l l' : Permutation l l' -> fold_right Nat.add 0 (map f l) = fold_right Nat.add 0 (map f l').
Proof. induction 1; cbn [map fold_right]; lia. Qed.
Lemma sum_indicator_rev j a n : fold_right Nat.add 0 (map (fun i => if Nat.eqb i j then a else 0) (rev (seq 0 n))) = if j <? n then a else 0.
Proof. rewrite <- (sum_indicator j a n). apply sum_perm. apply Permutation_sym, Permutation_rev. Qed.

Lemma fwd_site L k j : ss_total (ss_site j) (ss_forward L k) = if j <? L - 1 then k else 0.
Proof. unfold ss_forward. rewrite ss_total_flat. rewrite <- (sum_indicator j k (L - 1)). f_equal. apply map_ext. intro i.
  unfold ss_total. cbn [map fold_right ss_site]. lia. Qed.
Lemma fwd_bond L k j : ss_total (ss_bond j) (ss_forward L k) = if j <? L - 1 then k else 0.
Proof. unfold ss_forward. rewrite ss_total_flat. rewrite <- (sum_indicator j k (L - 1)). f_equal. apply map_ext. intro i.
  unfold ss_total. cbn [map fold_right ss_bond]. lia. Qed.
Lemma bwd_site L j : ss_total (ss_site j) (ss_backward L) = if j <? L - 1 then 1 else 0.
Proof. unfold ss_backward. rewrite ss_total_flat. rewrite <- (sum_indicator_rev j 1 (L - 1)). f_equal. apply map_ext. intro i.
  unfold ss_total. cbn [map fold_right ss_site]. lia. Qed.
Lemma bwd_bond L j : ss_total (ss_bond j) (ss_backward L) = if j <? L - 1 then 1 else 0.
Proof. unfold ss_backward. rewrite ss_total_flat. rewrite <- (sum_indicator_rev j 1 (L - 1)). f_equal. apply map_ext. intro i.
  unfold ss_total. cbn [map fold_right ss_bond]. lia. Qed.

(* every site of the chain — the only site of a one-site chain included — moves forward by two half steps = one full dt,
   every bond backward by one full dt, for Hamiltonian and for circuit parameters *)
Theorem single_site_budget L j : 1 <= L ->
  ss_total (ss_site j) (ss_analog L) = (if j <? L then 2 else 0) /\ ss_total (ss_bond j) (ss_analog L) = (if j <? L - 1 then 2 else 0) /\
  ss_total (ss_site j) (ss_circuit L) = (if j <? L then 2 else 0) /\ ss_total (ss_bond j) (ss_circuit L) = (if j <? L - 1 then 2 else 0).
Proof. intro HL. unfold ss_analog, ss_circuit. rewrite !ss_total_app, !fwd_site, !fwd_bond, bwd_site, bwd_bond.
  unfold ss_total. cbn [map fold_right ss_site ss_bond].
  destruct (Nat.eqb_spec (L - 1) j) as [E|E]; destruct (Nat.ltb_spec j (L - 1)) as [H1|H1]; destruct (Nat.ltb_spec j L) as [H2|H2]; lia. Qed.
