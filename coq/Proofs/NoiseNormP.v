From Coq Require Import List Arith Bool Lia.
Import ListNotations.
From Yaqs Require Import Model.NoiseNorm.
(* the filing does not depend on the order in which the two sites were listed; the stored sites are ascending; exactly one of
   matrix / factors is carried by an accepted process *)
Theorem filing_order_irrelevant a b : file_sites [a; b] = file_sites [b; a].
Proof. unfold file_sites. rewrite (Nat.min_comm a b), (Nat.max_comm a b). reflexivity. Qed.
Theorem stored_sites_ascending sites : match stored_sites (file_sites sites) with [x; y] => x <= y | _ => True end.
Proof. destruct sites as [|a [|b [|c r]]]; cbn [file_sites stored_sites]; try exact I.
  destruct (Nat.eqb_spec (Nat.max a b) (S (Nat.min a b))) as [E|E]; cbn [stored_sites]; lia. Qed.
Theorem matrix_xor_factors sites : file_sites sites <> FReject -> xorb (carries_matrix (file_sites sites)) (carries_factors (file_sites sites)) = true.
Proof. destruct (file_sites sites); cbn; congruence. Qed.
Theorem adjacent_iff a b : (exists lo, file_sites [a; b] = FAdj lo) <-> (a = S b \/ b = S a).
Proof. unfold file_sites. split.
  - intros [lo H]. destruct (Nat.eqb_spec (Nat.max a b) (S (Nat.min a b))) as [E|E]; [lia|discriminate].
  - intro H. exists (Nat.min a b). destruct (Nat.eqb_spec (Nat.max a b) (S (Nat.min a b))) as [E|E]; [reflexivity|lia]. Qed.
