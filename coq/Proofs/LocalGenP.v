(* The selection test GENERATED from /repo's current source (Gen/LocalGen.v, create_local_noise_model) is the model's is_local, and the
   list it builds is local_procs (C03). *)
From Coq Require Import ZArith List Bool PrimFloat.
Import ListNotations.
From Yaqs Require Import Model.NoiseAttrib Gen.LocalGen.

Theorem local_src_is_model a b k : local_selected_src a b (sites_of k) = is_local a b k.
Proof. reflexivity. Qed.
Theorem local_src_list_is_model {A} (kind_of : A -> pkind) a b procs :
  filter (fun p => local_selected_src a b (sites_of (kind_of p))) procs = local_procs kind_of a b procs.
Proof. reflexivity. Qed.
