From Coq Require Import List Arith Lia Bool.
Import ListNotations.
From Yaqs Require Import Model.Gauge.

Definition wf (n : nat) (g : flags) := length (lf g) = n /\ length (rf g) = n.
Lemma setb_len l i v : length (setb l i v) = length l.
Proof. revert i. induction l as [|x l IH]; intros [|i]; simpl; auto. Qed.
Lemma setb_same l i v : i < length l -> nth i (setb l i v) false = v.
Proof. revert i. induction l as [|x l IH]; intros [|i] H; simpl in *; try lia; auto; apply IH; lia. Qed.
Lemma setb_other l i j v : i <> j -> nth j (setb l i v) false = nth j l false.
Proof. revert i j. induction l as [|x l IH]; intros [|i] [|j] H; simpl; auto; try lia; apply IH; lia. Qed.
Lemma shift_right_wf n c g : wf n g -> wf n (shift_right c g).
Proof. intros [A B]. unfold wf, shift_right; simpl. rewrite !setb_len. auto. Qed.
Lemma flip_wf n g : wf n g -> wf n (flip g).
Proof. intros [A B]. unfold wf, flip; simpl. rewrite !rev_length. auto. Qed.

Lemma sweep_S c g : sweep (S c) g = shift_right c (sweep c g).
Proof. unfold sweep. rewrite seq_S, fold_left_app. reflexivity. Qed.

(* after a sweep over sites 0..c-1 every one of them is known left-isometric *)
Lemma sweep_spec n c : forall g, wf n g -> c < n -> wf n (sweep c g) /\ forall i, i < c -> nth i (lf (sweep c g)) false = true.
Proof. induction c as [|c IH]; intros g W H.
  - split; [exact W|]. intros i Hi; lia.
  - rewrite sweep_S. destruct (IH g W ltac:(lia)) as [W' L]. split.
    + apply shift_right_wf. exact W'.
    + intros i Hi. destruct W' as [A B]. unfold shift_right; simpl. rewrite setb_other by lia.
      destruct (Nat.eq_dec i c) as [->|Ne].
      * apply setb_same. lia.
      * rewrite setb_other by lia. apply L. lia. Qed.
(* a sweep does not touch sites beyond c *)
Lemma sweep_keeps n c : forall g, wf n g -> forall i, c < i -> nth i (lf (sweep c g)) false = nth i (lf g) false /\ nth i (rf (sweep c g)) false = nth i (rf g) false.
Proof. induction c as [|c IH]; intros g W i Hi; [split; reflexivity|].
  rewrite sweep_S. destruct (IH g W i ltac:(lia)) as [A B].
  unfold shift_right; simpl. rewrite !setb_other by lia. split; assumption. Qed.

Lemma nth_rev_b (l : list bool) i : i < length l -> nth i (rev l) false = nth (length l - 1 - i) l false.
Proof. intro H. rewrite rev_nth by exact H. f_equal. lia. Qed.

(* set_canonical_form c: sites left of c known left-isometric, sites right of c known right-isometric, from ANY prior knowledge *)
Theorem set_canonical_form_spec n c g : wf n g -> c < n ->
  let g' := set_canonical_form c g in wf n g' /\
  (forall i, i < c -> nth i (lf g') false = true) /\ (forall i, c < i -> i < n -> nth i (rf g') false = true).
Proof. intros W Hc. unfold set_canonical_form. destruct W as [A B]. rewrite A.
  destruct (sweep_spec n c g (conj A B) Hc) as [W1 L1].
  pose proof (flip_wf n _ W1) as W2.
  assert (Hc2 : n - 1 - c < n) by lia.
  destruct (sweep_spec n (n - 1 - c) _ W2 Hc2) as [W3 L3].
  pose proof (flip_wf n _ W3) as W4. split; [exact W4|]. split.
  - intros i Hi. destruct W3 as [A3 B3]. cbn [flip lf]. rewrite nth_rev_b by lia. rewrite B3.
    destruct (sweep_keeps n (n - 1 - c) _ W2 (n - 1 - i) ltac:(lia)) as [_ K]. rewrite K.
    cbn [flip rf]. destruct W1 as [A1 B1]. rewrite nth_rev_b by lia. rewrite A1. replace (n - 1 - (n - 1 - i)) with i by lia. apply L1. exact Hi.
  - intros i Hi Hn. destruct W3 as [A3 B3]. cbn [flip rf]. rewrite nth_rev_b by lia. rewrite A3. apply L3. lia. Qed.

Lemma all_true_firstn l i : (forall j, j < i -> nth j l false = true) -> i <= length l -> all_true (firstn i l) = true.
Proof. revert i. induction l as [|x l IH]; intros [|i] H Hl; simpl in *; try reflexivity; try lia.
  rewrite (H 0) by lia. simpl. apply IH; [|lia]. intros j Hj. apply (H (S j)). lia. Qed.
Lemma all_true_skipn l i : (forall j, i <= j -> j < length l -> nth j l false = true) -> all_true (skipn i l) = true.
Proof. revert i. induction l as [|x l IH]; intros [|i] H; simpl in *; try reflexivity.
  - rewrite (H 0) by lia. simpl. apply (IH 0). intros j _ Hj. apply (H (S j)); lia.
  - apply IH. intros j Hj Hl. apply (H (S j)); lia. Qed.

(* the canonical-form query lists the requested centre *)
Theorem query_reports_centre n c g : wf n g -> c < n -> In c (centres (set_canonical_form c g)).
Proof. intros W Hc. destruct (set_canonical_form_spec n c g W Hc) as ([A B] & L & R).
  unfold centres. apply filter_In. split; [apply in_seq; lia|]. apply andb_true_intro. split.
  - apply all_true_firstn; [exact L|lia].
  - apply all_true_skipn. intros j Hj Hl. apply R; lia. Qed.
