From Coq Require Import Reals Lra Ring Field List.
From Coquelicot Require Import Coquelicot.
From Yaqs Require Import Base.CMat Model.Tomo.
Import ListNotations.
Local Open Scope C_scope.
Lemma cons_eq {A} (x y : A) l l' : x = y -> l = l' -> x :: l = y :: l'. Proof. intros; subst; reflexivity. Qed.
Ltac split_list := repeat match goal with |- (_ :: _) = (_ :: _) => apply cons_eq | |- [] = [] => reflexivity end.
Ltac centry := unfold half, c0, c1; apply Ceq; cbn -[Rmult Rplus Rminus Ropp Rinv Rdiv]; field.

(* informationally complete: every 2x2 matrix is a combination of the four probe states, with explicit coefficients *)
Theorem states_complete (a b c d : C) :
  comb (coef_zeros a b c d) (coef_ones a b c d) (coef_plus a b c d) (coef_yplus a b c d) = mat2 a b c d.
Proof. unfold comb, mat2, madd, scal, rho_zeros, rho_ones, rho_plus, rho_yplus, coef_zeros, coef_ones, coef_plus, coef_yplus.
  cbn [map combine fst snd]. split_list; destruct a, b, c, d; centry. Qed.

(* ... and the expansion is unique: the four probe states are linearly independent *)
Theorem states_independent (k0 k1 kp ky : C) : comb k0 k1 kp ky = mat2 c0 c0 c0 c0 -> k0 = c0 /\ k1 = c0 /\ kp = c0 /\ ky = c0.
Proof. unfold comb, mat2, madd, scal, rho_zeros, rho_ones, rho_plus, rho_yplus. cbn [map combine fst snd]. intro H.
  pose proof (f_equal (fun m : M => nth 0 (nth 0 m []) c0) H) as H00. pose proof (f_equal (fun m : M => nth 1 (nth 0 m []) c0) H) as H01.
  pose proof (f_equal (fun m : M => nth 0 (nth 1 m []) c0) H) as H10. pose proof (f_equal (fun m : M => nth 1 (nth 1 m []) c0) H) as H11.
  cbn [nth] in H00, H01, H10, H11. clear H.
  destruct k0 as [x0 y0], k1 as [x1 y1], kp as [xp yp], ky as [xy yy]. unfold half, c0, c1, Ci, Cplus, Cmult, Copp, RtoC in *. simpl in *.
  injection H00 as A1 A2. injection H01 as B1 B2. injection H10 as C1 C2. injection H11 as D1 D2.
  assert (xp = 0)%R by lra. assert (yp = 0)%R by lra. assert (xy = 0)%R by lra. assert (yy = 0)%R by lra. subst.
  assert (x0 = 0)%R by lra. assert (y0 = 0)%R by lra. assert (x1 = 0)%R by lra. assert (y1 = 0)%R by lra. subst. auto. Qed.
