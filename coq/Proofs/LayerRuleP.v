From Coq Require Import List Arith Bool String Ascii Lia.
Import ListNotations.
From Yaqs Require Import Model.DigitalLoop Model.LayerRule Gen.LayerGen.
Local Open Scope string_scope.

Lemma minq_one q : minq {| id := 0; kind := G1; qs := [q] |} = q.
Proof. unfold minq. simpl. apply Nat.min_id. Qed.
Lemma minq_qs i j : qs i = qs j -> minq i = minq j.
Proof. unfold minq. intros ->. reflexivity. Qed.
Lemma minq_two i a b : qs i = [a; b] -> minq i = Nat.min a b.
Proof. unfold minq. intros ->. simpl. lia. Qed.
Lemma minq_single i a : qs i = [a] -> minq i = a.
Proof. unfold minq. intros ->. simpl. lia. Qed.
Lemma even_mod n : Nat.even n = Nat.eqb (Nat.modulo n 2) 0.
Proof. destruct (Nat.even n) eqn:E.
  - apply Nat.even_spec in E. destruct E as [k ->]. rewrite Nat.mul_comm, Nat.mod_mul by lia. reflexivity.
  - assert (O : Nat.odd n = true) by (rewrite <- Nat.negb_even, E; reflexivity).
    apply Nat.odd_spec in O. destruct O as [k ->]. rewrite Nat.add_comm, Nat.mul_comm, Nat.mod_add by lia. reflexivity. Qed.

(* the classification read from the source is the one the hand-written loop model uses *)
Theorem layer_rule_src_is_model d i : represents d i ->
  classify_src d = model_class i
  /\ (kind i = G1 -> single_key_src d = minq i)
  /\ (kind i = G2 -> even_key_src d = minq i /\ odd_key_src d = minq i).
Proof. unfold represents, classify_src, model_class, is_kind, is_even, single_key_src, even_key_src, odd_key_src, sampling_label, is_gate_name.
  destruct (kind i) eqn:K; intros R.
  - destruct R as (G & N & Q). apply andb_true_iff in G as (G1' & G2'). apply negb_true_iff in G1', G2'.
    rewrite G1', G2', N. simpl. repeat split; try discriminate. intros _. symmetry. apply minq_single, Q.
  - destruct R as (G & N & Q). apply andb_true_iff in G as (G1' & G2'). apply negb_true_iff in G1', G2'.
    rewrite G1', G2', N, (minq_two _ _ _ Q), even_mod.
    generalize (Nat.eqb (Nat.modulo (Nat.min (d_q0 d) (d_q1 d)) 2) 0). intros e.
    destruct e; simpl; repeat split; try discriminate; reflexivity.
  - rewrite R. simpl. repeat split; discriminate.
  - destruct R as (N & S). rewrite N. simpl. rewrite S. repeat split; discriminate.
  - destruct R as (N & S). rewrite N. simpl. rewrite S. repeat split; discriminate. Qed.

(* gates on one or two qubits are never rejected; on three or more the source raises (documented NotImplementedError) *)
Theorem layer_rule_raises_only_wide d : classify_src d = CRaise <-> is_gate_name d = true /\ d_nq d <> 1 /\ d_nq d <> 2.
Proof. unfold classify_src, is_gate_name.
  generalize (Nat.eqb (Nat.modulo (Nat.min (d_q0 d) (d_q1 d)) 2) 0). intros e.
  generalize (is_some (d_label d) && String.eqb (upper (str_of (d_label d))) "SAMPLE_OBSERVABLES")%bool. intros sl.
  destruct (String.eqb (d_name d) "measure"), (String.eqb (d_name d) "barrier"), sl, e,
    (Nat.eqb_spec (d_nq d) 1) as [E1|E1], (Nat.eqb_spec (d_nq d) 2) as [E2|E2]; cbn [negb andb];
  split; try discriminate; try (intros (F & _); discriminate F); try (intros (_ & F1 & F2); contradiction); auto. Qed.

(* DigitalLoop.iter's groups are the classes *)
Theorem iter_groups_are_classes layer :
  filter (fun i => is_kind Meas i || is_kind Bar i) layer = filter (fun i => cls_eqb (model_class i) CDrop) layer
  /\ filter (is_kind G1) layer = filter (fun i => cls_eqb (model_class i) CSingle) layer
  /\ filter (fun i => is_kind G2 i && is_even i) layer = filter (fun i => cls_eqb (model_class i) CEven) layer
  /\ filter (fun i => is_kind G2 i && negb (is_even i)) layer = filter (fun i => cls_eqb (model_class i) COdd) layer
  /\ filter (is_kind SBar) layer = filter (fun i => cls_eqb (model_class i) CSample) layer.
Proof. repeat split; apply filter_ext; intros i; unfold model_class, is_kind; destruct (kind i); simpl; try reflexivity;
  destruct (is_even i); reflexivity. Qed.

(* the front-end counts a node as a sampling point (one result column) exactly when the loop samples at it *)
Theorem counted_iff_sampled d : counted_src d = cls_eqb (classify_src d) CSample.
Proof. unfold counted_src, classify_src.
  destruct (String.eqb_spec (d_name d) "measure") as [M|M].
  - rewrite M. reflexivity.
  - destruct (String.eqb (d_name d) "barrier").
    + destruct (d_label d) as [l|]; cbn [is_some str_of andb].
      * destruct (String.eqb (upper l) "SAMPLE_OBSERVABLES"); reflexivity.
      * reflexivity.
    + cbn [andb]. generalize (Nat.eqb (Nat.modulo (Nat.min (d_q0 d) (d_q1 d)) 2) 0). intros e.
      destruct (Nat.eqb (d_nq d) 1), (Nat.eqb (d_nq d) 2), e; reflexivity. Qed.
