(* C20 — runs that do not complete.  The engines of simulator.py rewrite num_traj (noise-free runs: 1) and shots (noisy weak runs: 1)
   on the caller's parameter object for the duration of a run.  A call can end without completing: refused by an assertion before
   anything happens, or failing inside the engines (an unsupported gate raises NotImplementedError, a worker error exhausts its
   retries, ...).  Either way the public entry point leaves the object with the caller's request.  Definitions only. *)
From Coq Require Import List Arith Bool.
Import ListNotations.
From Yaqs Require Import Model.Params.

Inductive outcome := Completes | Refused | Fails.
Definition try_strong (o : outcome) (noisy : bool) (p : sparams) : sparams :=
  match o with Completes => fst (run_strong noisy p) | Refused | Fails => p end.
Definition try_weak (o : outcome) (noisy : bool) (p : wparams) : wparams :=
  match o with Completes => fst (fst (run_weak noisy p)) | Refused | Fails => p end.
Definition strong_tries (h : list (outcome * bool)) (p : sparams) : sparams := fold_left (fun q ob => try_strong (fst ob) (snd ob) q) h p.
Definition weak_tries (h : list (outcome * bool)) (p : wparams) : wparams := fold_left (fun q ob => try_weak (fst ob) (snd ob) q) h p.
