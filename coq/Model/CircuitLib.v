(* C07 — gate-list skeleton of circuit_library.create_ising_circuit (one Trotter step): which qubit pairs receive an
   rzz(beta) and which qubits an rx(alpha), with alpha = -2 dt g, beta = -2 dt J.  Definitions only. *)
From Coq Require Import List Arith Bool.
Import ListNotations.
Definition ising_bonds (L : nat) (periodic : bool) : list (nat * nat) :=
  map (fun s => (2 * s, 2 * s + 1)) (seq 0 (L / 2)) ++
  map (fun s => (2 * s - 1, 2 * s)) (seq 1 (L / 2 - 1)) ++
  (if Nat.odd L && negb (L =? 1) then [(L - 2, L - 1)] else []) ++
  (if periodic && (1 <? L) then [(0, L - 1)] else []).
Definition ising_fields (L : nat) : list nat := seq 0 L.
(* the chain's nearest-neighbour bonds *)
Definition chain_bonds (L : nat) : list (nat * nat) := map (fun i => (i, i + 1)) (seq 0 (L - 1)).
(* create_heisenberg_circuit (one Trotter step): rz(-2 dt h) on every site, then the SAME bond pattern three times — rzz(-2 dt Jz),
   rxx(-2 dt Jx), ryy(-2 dt Jy) *)
Inductive hgate := HRz | HRzz | HRxx | HRyy.
Definition heis_step (L : nat) (periodic : bool) : list (hgate * (nat * nat)) :=
  map (fun q => (HRz, (q, q))) (seq 0 L) ++
  map (pair HRzz) (ising_bonds L periodic) ++ map (pair HRxx) (ising_bonds L periodic) ++ map (pair HRyy) (ising_bonds L periodic).
Definition bonds_of (g : hgate) (l : list (hgate * (nat * nat))) : list (nat * nat) :=
  map snd (filter (fun x => match fst x, g with HRz, HRz | HRzz, HRzz | HRxx, HRxx | HRyy, HRyy => true | _, _ => false end) l).
(* create_1d_fermi_hubbard_circuit (one sub-step; qubit j = spin-up site j, qubit L + j = spin-down site j):
     chemical potential (half angle), on-site interaction (half angle), hopping on even bonds then odd bonds (full angle),
     on-site interaction (half), chemical potential (half)  —  angle classes  AMu = mu*dt/(2n), AU = -u*dt/(2n), AHop = -dt*t/n *)
Inductive fhgate := FP (q : nat) | FCP (a b : nat) | FXX (a b : nat) | FYY (a b : nat).
Inductive fhangle := AMu | AU | AHop.
Definition fh_mu (L : nat) : list fhgate := flat_map (fun j => [FP j; FP (L + j)]) (seq 0 L).
Definition fh_u (L : nat) : list fhgate := map (fun j => FCP j (L + j)) (seq 0 L).
Definition fh_bond (L j : nat) : list fhgate := [FXX (j + 1) j; FYY (j + 1) j; FXX (L + j + 1) (L + j); FYY (L + j + 1) (L + j)].
Definition fh_hop (L : nat) : list fhgate :=
  flat_map (fun j => if Nat.even j then fh_bond L j else []) (seq 0 (L - 1)) ++
  flat_map (fun j => if Nat.even j then [] else fh_bond L j) (seq 0 (L - 1)).
Definition fh_step (L : nat) : list (fhangle * fhgate) :=
  map (pair AMu) (fh_mu L) ++ map (pair AU) (fh_u L) ++ map (pair AHop) (fh_hop L) ++ map (pair AU) (fh_u L) ++ map (pair AMu) (fh_mu L).
(* the spin-up XX hoppings as bonds (lower site, upper site) *)
Definition fh_up_xx (L : nat) : list (nat * nat) :=
  flat_map (fun g => match g with FXX a b => if a <? L then [(b, a)] else [] | _ => [] end) (fh_hop L).
