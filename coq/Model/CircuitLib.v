(* C07 — gate-list skeleton of circuit_library.create_ising_circuit (one Trotter step): which qubit pairs receive an
   rzz(beta) and which qubits an rx(alpha), with alpha = -2 dt g, beta = -2 dt J.  Definitions only. *)
From Coq Require Import List Arith Bool.
Import ListNotations.
Definition ising_bonds (L : nat) (periodic : bool) : list (nat * nat) :=
  map (fun s => (2 * s, 2 * s + 1)) (seq 0 (L / 2)) ++
  map (fun s => (2 * s - 1, 2 * s)) (seq 1 (L / 2 - 1)) ++
  (if Nat.odd L && negb (L =? 1) then [(L - 2, L - 1)] else []) ++
  (if periodic && (1 <? L) then [(0, L - 1)] else []).
Definition ising_fields (L : nat) : list nat := seq 0 L.
(* the chain's nearest-neighbour bonds *)
Definition chain_bonds (L : nat) : list (nat * nat) := map (fun i => (i, i + 1)) (seq 0 (L - 1)).
(* create_heisenberg_circuit (one Trotter step): rz(-2 dt h) on every site, then the SAME bond pattern three times — rzz(-2 dt Jz),
   rxx(-2 dt Jx), ryy(-2 dt Jy) *)
Inductive hgate := HRz | HRzz | HRxx | HRyy.
Definition heis_step (L : nat) (periodic : bool) : list (hgate * (nat * nat)) :=
  map (fun q => (HRz, (q, q))) (seq 0 L) ++
  map (pair HRzz) (ising_bonds L periodic) ++ map (pair HRxx) (ising_bonds L periodic) ++ map (pair HRyy) (ising_bonds L periodic).
Definition bonds_of (g : hgate) (l : list (hgate * (nat * nat))) : list (nat * nat) :=
  map snd (filter (fun x => match fst x, g with HRz, HRz | HRzz, HRzz | HRxx, HRxx | HRyy, HRyy => true | _, _ => false end) l).
