(* C19 — control skeleton of matrix_exponential.expm_krylov: which exit is taken and with which subspace dimension, as a
   function of the quantities the loop computes (beta_j = norm of the new direction, err_j = beta_j * |phi_last|).
   small j  = (beta_j < eps_cut);  conv j = (err_j < tol).   Definitions only. *)
From Coq Require Import List Arith Bool.
Import ListNotations.
Inductive kexit := Breakdown (k : nat) | Converged (k : nat) | Full (k : nat).
(* j runs over 0 .. m_max-1; [fuel] = remaining iterations *)
Fixpoint kloop (m_max : nat) (small conv : nat -> bool) (j fuel : nat) : kexit :=
  match fuel with
  | O => Full m_max
  | S f =>
      if (j <? m_max - 1) && small j then Breakdown (S j)
      else if (1 <=? j) && (j <? m_max - 1) && conv j then Converged (S j)
      else kloop m_max small conv (S j) f
  end.
Definition krylov_exit (m_max : nat) (small conv : nat -> bool) : kexit := kloop m_max small conv 0 m_max.
Definition exit_dim (e : kexit) : nat := match e with Breakdown k | Converged k | Full k => k end.
