(* C10 — gauge bookkeeping of the MPS class (networks.py): which site tensors are KNOWN to be left- / right-isometric after
   each operation, and what the canonical-form query answers.  Definitions only.
   shift_orthogonality_center_right(c): site c := Q (left-isometric), site c+1 := R . old (nothing known); at the last site R is
   dropped.  flip_network reverses the chain and swaps the two kinds of isometry. *)
From Coq Require Import List Arith Bool.
Import ListNotations.
Record flags := { lf : list bool; rf : list bool }.   (* known left-isometric / right-isometric, per site *)
Fixpoint setb (l : list bool) (i : nat) (v : bool) : list bool :=
  match l, i with [], _ => [] | _ :: r, O => v :: r | x :: r, S j => x :: setb r j v end.
Definition shift_right (c : nat) (g : flags) : flags :=
  {| lf := setb (setb (lf g) c true) (S c) false; rf := setb (setb (rf g) c false) (S c) false |}.
Definition flip (g : flags) : flags := {| lf := rev (rf g); rf := rev (lf g) |}.
Definition sweep (c : nat) (g : flags) : flags := fold_left (fun h s => shift_right s h) (seq 0 c) g.
Definition set_canonical_form (c : nat) (g : flags) : flags :=
  let n := length (lf g) in flip (sweep (n - 1 - c) (flip (sweep c g))).
Definition normalize_B (g : flags) : flags :=
  let n := length (lf g) in flip (shift_right (n - 1) (set_canonical_form (n - 1) (flip g))).
Definition all_true (l : list bool) := forallb (fun b => b) l.
(* check_canonical_form: every site i with everything to its left left-isometric and everything to its right right-isometric *)
Definition centres (g : flags) : list nat :=
  filter (fun i => all_true (firstn i (lf g)) && all_true (skipn (S i) (rf g))) (seq 0 (length (lf g))).
Definition unknown (n : nat) : flags := {| lf := repeat false n; rf := repeat false n |}.
Inductive gop := OpShiftR (c : nat) | OpShiftL (c : nat) | OpSet (c : nat) | OpNormalize | OpFlip.
Definition apply_gop (g : flags) (o : gop) : flags :=
  match o with
  | OpShiftR c => shift_right c g
  | OpShiftL c => flip (shift_right (length (lf g) - c - 1) (flip g))
  | OpSet c => set_canonical_form c g
  | OpNormalize => normalize_B g
  | OpFlip => flip g
  end.
