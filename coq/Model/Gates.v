(* C18 / C02 — the STANDARD matrices of the named gates, written from the textbook / OpenQASM definitions (not from
   the source), with qubit 0 of a two-qubit gate as the most significant index, the convention of gate_library.py. *)
From Coq Require Import Reals List.
From Coquelicot Require Import Coquelicot.
From Yaqs Require Import Base.CMat.
Import ListNotations.
Local Open Scope R_scope.
Local Open Scope C_scope.

Definition X2 : M := [[c0; c1]; [c1; c0]].
Definition Y2 : M := [[c0; - Ci]; [Ci; c0]].
Definition Z2 : M := [[c1; c0]; [c0; - c1]].
Definition P1m : M := [[c0; c0]; [c0; c1]].
Definition std_x : M := X2.
Definition std_y : M := Y2.
Definition std_z : M := Z2.
Definition std_id : M := I2.
Definition std_h : M := [[RtoC (/ sqrt 2); RtoC (/ sqrt 2)]; [RtoC (/ sqrt 2); RtoC (- / sqrt 2)]].
Definition std_sx : M := [[(c1 + Ci) / RtoC 2; (c1 - Ci) / RtoC 2]; [(c1 - Ci) / RtoC 2; (c1 + Ci) / RtoC 2]].
Definition std_rx (t : R) : M := [[RtoC (cos (t/2)); - Ci * RtoC (sin (t/2))]; [- Ci * RtoC (sin (t/2)); RtoC (cos (t/2))]].
Definition std_ry (t : R) : M := [[RtoC (cos (t/2)); RtoC (- sin (t/2))]; [RtoC (sin (t/2)); RtoC (cos (t/2))]].
Definition std_rz (t : R) : M := [[cis (- (t/2)); c0]; [c0; cis (t/2)]].
Definition std_p (t : R) : M := [[c1; c0]; [c0; cis t]].
Definition std_u (t p l : R) : M := [[RtoC (cos (t/2)); - cis l * RtoC (sin (t/2))]; [cis p * RtoC (sin (t/2)); cis (p + l) * RtoC (cos (t/2))]].
Definition std_u2 (p l : R) : M := [[RtoC (/ sqrt 2); - cis l / RtoC (sqrt 2)]; [cis p / RtoC (sqrt 2); cis (p + l) / RtoC (sqrt 2)]].
Definition std_cx : M := [[c1;c0;c0;c0];[c0;c1;c0;c0];[c0;c0;c0;c1];[c0;c0;c1;c0]].
Definition std_cz : M := [[c1;c0;c0;c0];[c0;c1;c0;c0];[c0;c0;c1;c0];[c0;c0;c0;-c1]].
Definition std_cp (t : R) : M := [[c1;c0;c0;c0];[c0;c1;c0;c0];[c0;c0;c1;c0];[c0;c0;c0;cis t]].
Definition std_swap : M := [[c1;c0;c0;c0];[c0;c0;c1;c0];[c0;c1;c0;c0];[c0;c0;c0;c1]].
Definition std_rxx (t : R) : M := let c := RtoC (cos (t/2)) in let s := - Ci * RtoC (sin (t/2)) in
  [[c;c0;c0;s];[c0;c;s;c0];[c0;s;c;c0];[s;c0;c0;c]].
Definition std_ryy (t : R) : M := let c := RtoC (cos (t/2)) in let s := Ci * RtoC (sin (t/2)) in
  [[c;c0;c0;s];[c0;c;-s;c0];[c0;-s;c;c0];[s;c0;c0;c]].
Definition std_rzz (t : R) : M := [[cis (-(t/2));c0;c0;c0];[c0;cis (t/2);c0;c0];[c0;c0;cis (t/2);c0];[c0;c0;c0;cis (-(t/2))]].

(* the four-index tensor of a two-qubit gate placed on sites (a, b): entry [i][j][k][l] of reshape(matrix,(2,2,2,2)) is
   row 2i+j, column 2k+l; for b < a the library transposes (1,0,3,2), i.e. swaps the roles of the two qubits *)
Definition swap_qubits (m : M) : M :=
  let e := fun r c => nth c (nth r m []) c0 in
  [[e 0 0; e 0 2; e 0 1; e 0 3]; [e 2 0; e 2 2; e 2 1; e 2 3]; [e 1 0; e 1 2; e 1 1; e 1 3]; [e 3 0; e 3 2; e 3 1; e 3 3]]%nat.
