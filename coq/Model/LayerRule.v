(* C16 — process_layer's classification of one front-layer node (digital/digital_tjm.py), the vocabulary of the translator
   harness/gen/translate_layer.py: what the source looks at (operation name, barrier label, number of qubits, the two qubit
   indices) and what it does with the node.  Definitions only. *)
From Coq Require Import List Arith Bool String Ascii.
Import ListNotations.
From Yaqs Require Import Model.DigitalLoop.
Local Open Scope string_scope.

Record descr := { d_name : string; d_label : option string; d_nq : nat; d_q0 : nat; d_q1 : nat }.
Inductive cls := CDrop | CSample | CSingle | CEven | COdd | CRaise.
Definition cls_eqb (a b : cls) : bool :=
  match a, b with CDrop,CDrop | CSample,CSample | CSingle,CSingle | CEven,CEven | COdd,COdd | CRaise,CRaise => true | _,_ => false end.

(* str.upper() on ASCII letters (labels outside ASCII are not modelled) *)
Definition upper_ascii (c : ascii) : ascii :=
  let n := nat_of_ascii c in if ((97 <=? n) && (n <=? 122))%nat then ascii_of_nat (n - 32)%nat else c.
Fixpoint upper (s : string) : string :=
  match s with EmptyString => EmptyString | String c r => String (upper_ascii c) (upper r) end.
(* str.strip() on ASCII whitespace (space, \t \n \v \f \r, and the separators 28..31) *)
Definition is_space (c : ascii) : bool :=
  let n := nat_of_ascii c in ((n =? 32) || ((9 <=? n) && (n <=? 13)) || ((28 <=? n) && (n <=? 31)))%nat.
Fixpoint lstrip (s : string) : string :=
  match s with EmptyString => EmptyString | String c r => if is_space c then lstrip r else s end.
Fixpoint rev_onto (s acc : string) : string := match s with EmptyString => acc | String c r => rev_onto r (String c acc) end.
Definition rev_string (s : string) : string := rev_onto s EmptyString.
Definition str_strip (s : string) : string := rev_string (lstrip (rev_string (lstrip s))).
(* str(label): Python prints None as "None" *)
Definition str_of (l : option string) : string := match l with Some s => s | None => "None" end.
Definition is_some {A} (o : option A) := match o with Some _ => true | None => false end.

(* the hand-written model's view (DigitalLoop.iter): where an instruction of each kind goes *)
Definition model_class (i : instr) : cls :=
  if is_kind Meas i || is_kind Bar i then CDrop
  else if is_kind G1 i then CSingle
  else if is_kind G2 i && is_even i then CEven
  else if is_kind G2 i && negb (is_even i) then COdd
  else CSample.

(* a node description represents a model instruction *)
Definition sampling_label (d : descr) : bool := is_some (d_label d) && String.eqb (upper (str_of (d_label d))) "SAMPLE_OBSERVABLES".
Definition is_gate_name (d : descr) : bool := negb (String.eqb (d_name d) "measure") && negb (String.eqb (d_name d) "barrier").
Definition represents (d : descr) (i : instr) : Prop :=
  match kind i with
  | Meas => d_name d = "measure"
  | Bar => d_name d = "barrier" /\ sampling_label d = false
  | SBar => d_name d = "barrier" /\ sampling_label d = true
  | G1 => is_gate_name d = true /\ d_nq d = 1%nat /\ qs i = [d_q0 d]
  | G2 => is_gate_name d = true /\ d_nq d = 2%nat /\ qs i = [d_q0 d; d_q1 d]
  end.

(* sample descriptions (used by the non-vacuity examples) *)
Definition ex_labelled_barrier := {| d_name := "barrier"; d_label := Some "Sample_Observables"; d_nq := 3; d_q0 := 0; d_q1 := 1 |}.
Definition ex_plain_barrier := {| d_name := "barrier"; d_label := None; d_nq := 2; d_q0 := 0; d_q1 := 1 |}.
Definition ex_cx_21 := {| d_name := "cx"; d_label := None; d_nq := 2; d_q0 := 2; d_q1 := 1 |}.
