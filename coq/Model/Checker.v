(* C04 — the zone-by-zone construction of the equivalence checker (digital/utils/mpo_utils.py, dag_utils.py).
   A circuit is the list of its gates in program order (DigitalLoop.instr; G1 one-qubit, G2 two-qubit, any distance).
     get_temporal_zone(dag, [n, n+1])   zone: scan the remaining gates; a gate inside the current cone is taken (and removed from
                                        the DAG), any other gate removes its qubits from the cone; stop when the cone is empty
     update_mpo(mpo, dag1, dag2, [n, n+1])   the zone of circuit 1 multiplies the MPO from the left, the zone of circuit 2,
                                        conjugated, from the right
     apply_layer                        update_mpo for every pair of the two sweeps
     apply_long_range_layer             the first gate of distance > 2 in the front layer of the chosen circuit is removed and
                                        applied through its gate MPO; for the pairs inside its range both zones are applied
     iterate                            until both circuits are empty: a layer if both front layers are short, else a long-range step
   The model records the sequence of applications (side, gate).  Definitions only. *)
From Coq Require Import List Arith Bool.
Import ListNotations.
From Yaqs Require Import Model.DigitalLoop.

Definition sub (a b : list nat) : bool := forallb (fun q => mem q b) a.
Definition minus (cone a : list nat) : list nat := filter (fun q => negb (mem q a)) cone.

(* (taken, remaining) *)
Fixpoint zone (cone : list nat) (c : list instr) : list instr * list instr :=
  match c with
  | [] => ([], [])
  | g :: r =>
      match cone with
      | [] => ([], c)
      | _ => if sub (qs g) cone then let '(t, rest) := zone cone r in (g :: t, rest)
             else let '(t, rest) := zone (minus cone (qs g)) r in (t, g :: rest)
      end
  end.

Inductive side := L | R.
Record cstate := { c1 : list instr; c2 : list instr; log : list (side * instr) }.
Definition update (n : nat) (s : cstate) : cstate :=
  let '(t1, r1) := zone [n; S n] (c1 s) in
  let '(t2, r2) := zone [n; S n] (c2 s) in
  {| c1 := r1; c2 := r2; log := log s ++ map (pair L) t1 ++ map (pair R) t2 |}.

(* |q0 - q_last| + 1 of a gate; the longest one in the front layer (check_longest_gate) *)
Definition dist (g : instr) : nat :=
  match qs g with [a; b] => (Nat.max a b - Nat.min a b) + 1 | _ => 1 end.
Definition longest (c : list instr) : nat := fold_right Nat.max 1 (map dist (front c)).
(* the first gate of distance > 2 in the front layer, in the order in which Qiskit lists the nodes of that layer.  That order is
   not program order; it is a parameter of the model: [prefs] lists gate ids by decreasing priority (the correspondence check
   reads it off the real run), gates not mentioned follow in program order.  Every theorem holds for every [prefs]. *)
Definition reorder (prefs : list nat) (l : list instr) : list instr :=
  flat_map (fun i => filter (fun g => Nat.eqb (id g) i) l) prefs ++ l.
Definition long_gate (prefs : list nat) (c : list instr) : option instr := find (fun g => 2 <? dist g) (reorder prefs (front c)).
Definition remove_id (g : instr) (c : list instr) : list instr := filter (fun i => negb (Nat.eqb (id i) (id g))) c.
(* pairs treated inside the range of a long-range gate starting at site lo with d sites *)
Definition lr_pairs (lo d : nat) : list nat :=
  map (fun k => lo + 2 * k) (seq 0 (d / 2)) ++ (if Nat.odd d then [lo + d - 2] else []).
Definition lr_step (prefs : list nat) (s : cstate) : cstate :=
  let conj := longest (c1 s) <? longest (c2 s) in
  match long_gate prefs (if conj then c2 s else c1 s) with
  | None => s     (* the implementation asserts here; unreachable: CheckerP.longest_witness *)
  | Some g =>
      let s1 := if conj then {| c1 := c1 s; c2 := remove_id g (c2 s); log := log s ++ [(R, g)] |}
                else {| c1 := remove_id g (c1 s); c2 := c2 s; log := log s ++ [(L, g)] |} in
      fold_left (fun st n => update n st) (lr_pairs (minq g) (dist g)) s1
  end.

Definition short_layers (s : cstate) : bool := (longest (c1 s) <=? 2) && (longest (c2 s) <=? 2).
Definition step (prefs sweep : list nat) (s : cstate) : cstate :=
  if short_layers s then fold_left (fun st n => update n st) sweep s else lr_step prefs s.
Fixpoint iterate_with (prefs : list nat) (fuel : nat) (sweep : list nat) (s : cstate) : option cstate :=
  match c1 s, c2 s with
  | [], [] => Some s
  | _, _ => match fuel with O => None | S f => iterate_with prefs f sweep (step prefs sweep s) end
  end.
Definition iterate := iterate_with [].
Definition init (a b : list instr) : cstate := {| c1 := a; c2 := b; log := [] |}.
(* select_starting_point: even pairs then odd pairs, or the other way round *)
Definition sweep_of (nq : nat) (odd_first : bool) : list nat :=
  let ev := filter Nat.even (seq 0 (nq - 1)) in let od := filter Nat.odd (seq 0 (nq - 1)) in
  if odd_first then od ++ ev else ev ++ od.
Definition side_log (sd : side) (l : list (side * instr)) : list instr :=
  map snd (filter (fun p => match fst p, sd with L, L | R, R => true | _, _ => false end) l).
