(* C02 — the window of sites handed to the two-site TDVP for one gate (digital_tjm.apply_window):
     window = [first - size, last + size] clipped to the chain [0, L-1];
   the orthogonality centre is moved from site 0 to the first site of the window before the tensors are cut out.  Definitions only. *)
From Coq Require Import Arith.
Definition window (first last size L : nat) : nat * nat := (first - size, Nat.min (last + size) (L - 1)).
Definition window_len (w : nat * nat) : nat := snd w - fst w + 1.
(* position of the gate's sites inside the cut-out chain *)
Definition in_window (w : nat * nat) (site : nat) : nat := site - fst w.
