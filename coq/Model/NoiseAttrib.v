(* C01 / C03 — which probability belongs to which process (stochastic_process.create_probability_distribution and
   stochastic_process), the per-kind weight rule, and the local noise model of digital_tjm.  Definitions only. *)
From Coq Require Import List Arith Bool.
Import ListNotations.
From Yaqs Require Import Base.Num.

Inductive pkind := One (s : nat) | Two (s t : nat).
Section W.
Context (N : Num).
Record proc := { pk : pkind; pauli : bool; gamma : T N; njump : T N (* ||L_k phi||^2 for this process *) }.
Definition first_site (p : proc) : nat := match pk p with One s => s | Two s _ => s end.
(* is the process visited by the site sweep of a chain of length L? *)
Definition visited (L : nat) (p : proc) : bool :=
  match pk p with
  | One s => s <? L
  | Two s t => (s <? L - 1) && (pauli p || Nat.eqb t (S s))
  end.
(* weight rule: dt * gamma * ||L phi||^2; a two-site Pauli string is unitary, the code uses the norm of the state itself *)
Definition weight (L : nat) (dt nstate : T N) (p : proc) : T N :=
  if visited L p then
    match pk p with
    | One _ => mul N (mul N dt (gamma p)) (njump p)
    | Two _ _ => if pauli p then mul N (mul N dt (gamma p)) nstate else mul N (mul N dt (gamma p)) (njump p)
    end
  else zero N.
(* position k of the returned list belongs to noise_model.processes[k] *)
Definition weights (L : nat) (dt nstate : T N) (procs : list proc) : list (T N) := map (weight L dt nstate) procs.
Definition total (ws : list (T N)) : T N := fold_right (add N) (zero N) ws.
Definition probabilities (L : nat) (dt nstate : T N) (procs : list proc) : list (T N) :=
  let ws := weights L dt nstate procs in map (fun w => div N w (total ws)) ws.
End W.

(* digital_tjm.create_local_noise_model(noise_model, a, b): processes whose site list is [a,b], [a] or [b] — order kept *)
Definition sites_of (k : pkind) : list nat := match k with One s => [s] | Two s t => [s; t] end.
Definition list_eqb (x y : list nat) : bool := if list_eq_dec Nat.eq_dec x y then true else false.
Definition is_local (a b : nat) (k : pkind) : bool :=
  list_eqb (sites_of k) [a; b] || list_eqb (sites_of k) [a] || list_eqb (sites_of k) [b].
Definition local_procs {A} (kind_of : A -> pkind) (a b : nat) (procs : list A) : list A :=
  filter (fun p => is_local a b (kind_of p)) procs.

(* dissipation.apply_dissipation: the right-to-left sweep damps with exp(-dt/2 gamma_k L_k^+ L_k) of process k
     at site i: every one-site process sitting on i, in list order; then every two-site process whose RIGHT site is i (i > 0)
   entries: (site at which the sweep treats it, position k of the process in noise_model.processes) *)
Definition damp_here (i : nat) (k : pkind) : bool :=
  match k with One s => Nat.eqb s i | Two _ t => Nat.eqb t i && negb (Nat.eqb i 0) end.
Definition two_site (k : pkind) : bool := match k with One _ => false | Two _ _ => true end.
Definition damp_at (kinds : list pkind) (i : nat) : list (nat * nat) :=
  let idx := combine (seq 0 (length kinds)) kinds in
  map (fun p => (i, fst p)) (filter (fun p => negb (two_site (snd p)) && damp_here i (snd p)) idx) ++
  map (fun p => (i, fst p)) (filter (fun p => two_site (snd p) && damp_here i (snd p)) idx).
Definition damp_schedule (L : nat) (kinds : list pkind) : list (nat * nat) := flat_map (damp_at kinds) (rev (seq 0 L)).
(* is the process reached by the sweep of a chain of length L?  (NoiseModel sorts the sites of a two-site process: s < t) *)
Definition damp_reached (L : nat) (k : pkind) : bool := match k with One s => s <? L | Two s t => (s <? t) && (t <? L) end.
