(* C20 — "the circuit, Hamiltonian and noise model passed in are left unchanged": aliasing model.
   Python objects live on a heap; the caller's objects are the ones present when the run starts.  simulator.run never works on
   the caller's noise model: NoiseModel.sample() builds a NEW model (new process dictionaries, deep-copied matrices) and only
   that one is handed on; states and circuits are deep-copied per trajectory.  Whatever the back-ends then write (strengths,
   pruned process lists, tensors), they write into objects the run allocated itself.  Definitions only. *)
From Coq Require Import List Arith ZArith Bool.
Import ListNotations.

Definition obj := list Z.                 (* an object = its fields (strengths scaled to integers, tensor entries, ...) *)
Definition heap := list obj.              (* object id = position; allocation appends *)

Inductive op :=
  | Copy (src : nat)                      (* sample() / copy.deepcopy: allocate a fresh object with the fields of src *)
  | Write (dst k : nat) (v : Z)           (* dst.field[k] = v *)
  | Prune (dst : nat).                    (* dst.fields = [f for f in dst.fields if f > 0]   (drop switched-off channels) *)

Fixpoint set_nth {A} (l : list A) (k : nat) (v : A) : list A :=
  match l, k with
  | [], _ => []
  | _ :: r, O => v :: r
  | x :: r, S k' => x :: set_nth r k' v
  end.
Definition update (h : heap) (d : nat) (f : obj -> obj) : heap :=
  match nth_error h d with Some o => set_nth h d (f o) | None => h end.
Definition step (h : heap) (o : op) : heap :=
  match o with
  | Copy src => h ++ [nth src h []]
  | Write d k v => update h d (fun o => set_nth o k v)
  | Prune d => update h d (filter (fun z => Z.ltb 0 z))
  end.
Definition exec (ops : list op) (h : heap) : heap := fold_left step ops h.

(* the discipline: every write of the run goes to an object allocated by the run (id >= number of caller objects) *)
Definition owned (n0 : nat) (o : op) : bool :=
  match o with Copy _ => true | Write d _ _ => n0 <=? d | Prune d => n0 <=? d end.

(* what simulator.run does with the caller's noise model (object id nm): sample it, then work on the sample *)
Definition run_on_sample (h : heap) (nm : nat) (internal : nat -> list op) : heap :=
  let fresh := length h in exec (internal fresh) (step h (Copy nm)).
