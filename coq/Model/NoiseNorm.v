(* C01 / C03 / C06 — how NoiseModel.__init__ files a listed process (noise_model.py):
     one site [s]                     -> kept, operator given as a matrix
     two sites [a; b] (either order)  -> sites sorted ascending; neighbours carry ONE 4x4 matrix (for crosstalk_ab: P_a on the lower site
                                         (x) P_b on the upper site), distant pairs carry the two one-site FACTORS (P_a, P_b) for (lower, upper)
   Definitions only. *)
From Coq Require Import List Arith Bool.
Import ListNotations.
Inductive filed := FOne (s : nat) | FAdj (lo : nat) | FLong (lo hi : nat) | FReject.
Definition file_sites (sites : list nat) : filed :=
  match sites with
  | [s] => FOne s
  | [a; b] => let lo := Nat.min a b in let hi := Nat.max a b in
              if Nat.eqb hi (S lo) then FAdj lo else FLong lo hi
  | _ => FReject
  end.
Definition stored_sites (f : filed) : list nat :=
  match f with FOne s => [s] | FAdj lo => [lo; S lo] | FLong lo hi => [lo; hi] | FReject => [] end.
Definition carries_matrix (f : filed) : bool := match f with FOne _ | FAdj _ => true | _ => false end.
Definition carries_factors (f : filed) : bool := match f with FLong _ _ => true | _ => false end.
