(* C17 — bookkeeping of tomography.run: jobs, sequences, trajectories, aggregation, placement in the process tensor.
     job j (0 <= j < nseq * ntraj)  ->  sequence index j / ntraj, trajectory j mod ntraj     (_tomography_sequence_worker)
     aggregated_outputs[i] = sum over the jobs of sequence i of weight * rho, divided by ntraj
     tensor[:, *worker_sequences[i]] = aggregated_outputs[i]     (worker_sequences is SHUFFLED before the run)
   Values are exact rationals (one matrix entry).  Definitions only. *)
From Coq Require Import List Arith QArith.
Import ListNotations.

Definition job_seq (ntraj j : nat) : nat := (j / ntraj)%nat.
Definition job_traj (ntraj j : nat) : nat := (j mod ntraj)%nat.
Definition qsum (l : list Q) : Q := fold_right Qplus 0 l.
(* what the loop over the results accumulates for sequence index i, whatever the order in which the jobs are delivered *)
Definition aggregated (nseq ntraj : nat) (val : nat -> nat -> Q) (i : nat) : Q :=
  qsum (map (fun j => val (job_seq ntraj j) (job_traj ntraj j)) (filter (fun j => Nat.eqb (job_seq ntraj j) i) (seq 0 (nseq * ntraj)))) / inject_Z (Z.of_nat ntraj).
(* position of a tuple in the (shuffled) list of sequences *)
Fixpoint index_of (sigma : list nat) (seqs : list (list nat)) : option nat :=
  match seqs with
  | [] => None
  | s :: r => if list_eq_dec Nat.eq_dec s sigma then Some 0%nat else option_map S (index_of sigma r)
  end.
(* the entry of the process tensor at tuple sigma, when the value of a run depends on the tuple and the trajectory *)
Definition tensor_at (seqs : list (list nat)) (ntraj : nat) (f : list nat -> nat -> Q) (sigma : list nat) : option Q :=
  match index_of sigma seqs with
  | Some i => Some (aggregated (length seqs) ntraj (fun i' t => f (nth i' seqs []) t) i)
  | None => None
  end.
Definition average (ntraj : nat) (g : nat -> Q) : Q := qsum (map g (seq 0 ntraj)) / inject_Z (Z.of_nat ntraj).
