(* C20 / C12 — what the front-ends of simulator.py read from and write to the shared parameter object.
   Definitions only.  A run is described by whether its noise model is effective ([noisy]). *)
From Coq Require Import List Arith Bool.
Import ListNotations.

(* ---- StrongSimParams / AnalogSimParams: num_traj ---- *)
Record sparams := { num_traj : nat; traj_rows : nat (* rows of Observable.trajectories allocated by the last run *) }.
(* _run_strong_sim / _run_analog: requested = num_traj; noise-free runs one trajectory; the request is restored *)
Definition run_strong (noisy : bool) (p : sparams) : sparams * nat (* trajectories executed *) :=
  let requested := num_traj p in
  let n := if noisy then requested else 1 in
  ({| num_traj := requested; traj_rows := n |}, n).

(* _run_analog with its three back-ends on ONE AnalogSimParams object: the Lindblad back-end is deterministic and runs a single
   "trajectory" whatever the noise; the request is restored after every run, whichever back-end served it *)
Inductive solver := TJM | MCWF | Lindblad.
Definition run_analog (s : solver) (noisy : bool) (p : sparams) : sparams * nat :=
  let requested := num_traj p in
  let n := match s with Lindblad => 1 | _ => if noisy then requested else 1 end in
  ({| num_traj := requested; traj_rows := n |}, n).
Definition analog_history (h : list (solver * bool)) (p : sparams) : sparams :=
  fold_left (fun q sb => fst (run_analog (fst sb) (snd sb) q)) h p.

(* ---- StrongSimParams with sample_layers: num_mid_measurements (constructor argument, rewritten by every run) ---- *)
Record lparams := { sample_layers : bool; num_mid : nat }.
(* _run_strong_sim: with sample_layers the labelled barriers of THIS circuit are counted and stored; the result arrays get
   num_mid + 2 columns (initial, one per labelled barrier, final), without sample_layers one column *)
Definition run_layers (labelled : nat) (p : lparams) : lparams * nat (* result columns allocated *) :=
  if sample_layers p then ({| sample_layers := true; num_mid := labelled |}, labelled + 2) else (p, 1).
Definition layers_history (h : list nat) (p : lparams) : lparams := fold_left (fun q labelled => fst (run_layers labelled q)) h p.

(* ---- WeakSimParams: shots, measurements (each slot: None or the total count stored in that dict) ---- *)
Record wparams := { shots : nat; meas : list (option nat) }.
Definition set_nth_opt (l : list (option nat)) (i : nat) (v : nat) : list (option nat) :=
  firstn i l ++ match skipn i l with [] => [] | _ :: r => Some v :: r end.
Definition sum_opts (l : list (option nat)) : nat := fold_right (fun o acc => match o with Some v => v + acc | None => acc end) 0 l.
Definition has_none (l : list (option nat)) : bool := existsb (fun o => match o with None => true | _ => false end) l.
(* aggregate_measurements: if a None is present the first slot holds all shots, otherwise the slots are summed *)
Definition aggregate (l : list (option nat)) : nat :=
  if has_none l then match l with Some v :: _ => v | _ => 0 end else sum_opts l.
(* _run_weak_sim: slots re-initialised per run; noisy: shots trajectories of one shot each; noise-free: one trajectory *)
Definition run_weak (noisy : bool) (p : wparams) : wparams * nat (* trajectories executed *) * nat (* counts returned *) :=
  let fresh := repeat None (shots p) in
  let n := if noisy then shots p else 1 in
  let per := if noisy then 1 else shots p in
  let filled := fold_left (fun m i => set_nth_opt m i per) (seq 0 n) fresh in
  ({| shots := shots p; meas := filled |}, n, aggregate filled).

Definition strong_history (h : list bool) (p : sparams) : sparams := fold_left (fun q noisy => fst (run_strong noisy q)) h p.
Definition weak_history (h : list bool) (p : wparams) : wparams := fold_left (fun q noisy => fst (fst (run_weak noisy q))) h p.

(* ---- refused runs: a noisy circuit run that asks for the final state (get_state) is rejected by an assertion.  A rejected call is
   not a run: it must leave the parameter object as it was, so that the corrected call behaves like a call on a fresh object ---- *)
Definition attempt_weak (noisy get_state : bool) (p : wparams) : wparams * option (nat * nat) :=
  if noisy && get_state then (p, None)
  else let r := run_weak noisy p in (fst (fst r), Some (snd (fst r), snd r)).
Definition attempt_strong (noisy get_state : bool) (p : sparams) : sparams * option nat :=
  if noisy && get_state then (p, None) else let r := run_strong noisy p in (fst r, Some (snd r)).
Definition weak_attempts (h : list (bool * bool)) (p : wparams) : wparams :=
  fold_left (fun q ng => fst (attempt_weak (fst ng) (snd ng) q)) h p.
Definition strong_attempts (h : list (bool * bool)) (p : sparams) : sparams :=
  fold_left (fun q ng => fst (attempt_strong (fst ng) (snd ng) q)) h p.
