(* C07 — MPO.coupled_transmon (after its repair): the alternating qubit / resonator automaton, as transition tables over named local
   operators, and the documented Hamiltonian as a list of words.  Symbols:
     0 I_q   1 I_r   2 h_q = w_q n + a/2 n(n-1)   3 h_r = w_r n   4 g (b + b^+)   5 (a + a^+)
   Bond states left of a qubit (= right of a resonator): 0 finished, 1 resonator half of a coupling placed, 2 finished (h_r just
   placed), 3 nothing yet.  Bond states right of a qubit: 0 finished, 1 the next resonator places h_r, 2 qubit half placed, 3 nothing yet.
   Definitions only. *)
From Coq Require Import List Arith Bool.
Import ListNotations.

Definition tab := list (list (option nat)).      (* rows = left state, columns = right state *)
Definition N_ : option nat := None.
Definition q_first : tab := [[Some 2; Some 0; Some 4; Some 0]].
Definition q_inner : tab := [[Some 0; N_; N_; N_]; [Some 4; N_; N_; N_]; [Some 0; N_; N_; N_]; [Some 2; Some 0; Some 4; Some 0]].
Definition q_last : tab := [[Some 0]; [Some 4]; [Some 0]; [Some 2]].
Definition r_inner : tab := [[Some 1; N_; N_; N_]; [N_; N_; Some 3; N_]; [Some 5; N_; N_; N_]; [N_; Some 5; N_; Some 1]].
Definition r_last : tab := [[Some 1]; [Some 3]; [Some 5]; [N_]].
Definition q_single : tab := [[Some 2]].
Definition site_tab (L i : nat) : tab :=
  if Nat.even i then (if Nat.eqb L 1 then q_single else if Nat.eqb i 0 then q_first else if Nat.eqb (S i) L then q_last else q_inner)
  else (if Nat.eqb (S i) L then r_last else r_inner).
Definition chain (L : nat) : list tab := map (site_tab L) (seq 0 L).

Fixpoint paths (ts : list tab) (r : nat) : list (list nat) :=
  match ts with
  | [] => [[]]
  | t :: rest =>
      let row := nth r t [] in
      flat_map (fun c => match nth c row None with Some x => map (cons x) (paths rest c) | None => [] end) (seq 0 (length row))
  end.
Definition expand (L : nat) : list (list nat) := paths (chain L) 0.

(* the documented Hamiltonian: sum_q h_q + sum_r h_r + g sum_bonds (b + b^+)(a + a^+) *)
Definition ident (i : nat) : nat := if Nat.even i then 0 else 1.
Definition onsite (i : nat) : nat := if Nat.even i then 2 else 3.
Definition coupl (i : nat) : nat := if Nat.even i then 4 else 5.
Definition word (L : nat) (f : nat -> option nat) : list nat := map (fun i => match f i with Some x => x | None => ident i end) (seq 0 L).
Definition terms (L : nat) : list (list nat) :=
  map (fun i => word L (fun j => if Nat.eqb j i then Some (onsite i) else None)) (seq 0 L) ++
  map (fun i => word L (fun j => if Nat.eqb j i then Some (coupl i) else if Nat.eqb j (S i) then Some (coupl (S i)) else None)) (seq 0 (L - 1)).

(* multiset equality of word lists *)
Definition weqb (a b : list nat) : bool := if list_eq_dec Nat.eq_dec a b then true else false.
Definition count (w : list nat) (l : list (list nat)) : nat := length (filter (weqb w) l).
Definition same_terms (a b : list (list nat)) : bool := forallb (fun w => Nat.eqb (count w a) (count w b)) (a ++ b).
