(* C05 — the local step list of bug.bug (one call = one time step dt of the analog solver in BUG mode; first order).
     BUpd site op lenv renv   update_site of [site] forward in time by the full dt with operator tensor [op], the left block built
                              from the sites below [lenv] (0: the boundary identity) and the right block built from the already
                              updated sites from [renv] upwards (L: the boundary identity)
     BTrunc                   the closing MPS.truncate(threshold, max_bond_dim)
   Sites are visited from the last one down to the first; definitions only. *)
From Coq Require Import List Arith ZArith.
Import ListNotations.

Inductive bstep := BUpd (site op lenv renv : nat) | BTrunc.
Definition bug_steps (L : nat) : list bstep := map (fun i => BUpd i i i (S i)) (rev (seq 0 L)) ++ [BTrunc].
(* time spent on site j, in units of dt *)
Definition bsite_time (j : nat) (s : bstep) : Z :=
  match s with BUpd i _ _ _ => if Nat.eqb i j then 1%Z else 0%Z | BTrunc => 0%Z end.
Definition btotal (j : nat) (l : list bstep) : Z := fold_right Z.add 0%Z (map (bsite_time j) l).
Definition bsites (l : list bstep) : list nat := flat_map (fun s => match s with BUpd i _ _ _ => [i] | BTrunc => [] end) l.
