(* C17 — the prepare/measure basis of the process-tensor tomography: |0><0|, |1><1|, |+><+|, |y+><y+| as 2x2 complex matrices
   (rows as lists), and the coefficients that express an arbitrary 2x2 matrix in them.  Definitions only. *)
From Coq Require Import Reals List.
From Coquelicot Require Import Coquelicot.
From Yaqs Require Import Base.CMat.
Import ListNotations.
Local Open Scope C_scope.
Definition half : C := RtoC (/ 2).
Definition rho_zeros : M := [[c1; c0]; [c0; c0]].
Definition rho_ones : M := [[c0; c0]; [c0; c1]].
Definition rho_plus : M := [[half; half]; [half; half]].
Definition rho_yplus : M := [[half; - Ci * half]; [Ci * half; half]].
Definition mat2 (a b c d : C) : M := [[a; b]; [c; d]].
Definition comb (k0 k1 kp ky : C) : M :=
  madd (madd (scal k0 rho_zeros) (scal k1 rho_ones)) (madd (scal kp rho_plus) (scal ky rho_yplus)).
(* expansion coefficients of [[a,b],[c,d]] *)
Definition coef_plus (a b c d : C) : C := b + c.
Definition coef_yplus (a b c d : C) : C := Ci * (b - c).
Definition coef_zeros (a b c d : C) : C := a - half * (coef_plus a b c d + coef_yplus a b c d).
Definition coef_ones (a b c d : C) : C := d - half * (coef_plus a b c d + coef_yplus a b c d).
