(* C20 — "result storage re-initialised per run": vocabulary of the translator harness/gen/translate_init.py (Observable.initialize).
   Definitions only. *)
From Coq Require Import List Arith Bool.
Import ListNotations.
Inductive pclass := KAnalog | KWeak | KStrong | KOther.
Definition kind_eqb (a b : pclass) : bool :=
  match a, b with KAnalog,KAnalog | KWeak,KWeak | KStrong,KStrong | KOther,KOther => true | _,_ => false end.
(* the hand-written view: one row per trajectory (shot), the columns of the front-end models *)
Definition init_shape (k : pclass) (flag : bool) (num_traj ntimes shots mid : nat) : option (nat * nat * nat) :=
  match k with
  | KAnalog => Some (num_traj, (if flag then ntimes else 1), ntimes)
  | KWeak => Some (shots, 1, 1)
  | KStrong => Some (num_traj, (if flag then mid + 2 else 1), (if flag then mid + 2 else 1))
  | KOther => None
  end.
