(* C08/C09 — how many singular values are kept.  Executable models of
     tdvp.split_mps_tensor          (discarded_weight and relative modes, dynamic flag)
     decompositions.two_site_svd    (threshold with >=, hard minimum two, optional cap)
     decompositions.truncated_right_svd
   as functions of an ARBITRARY spectrum (non-increasing in the implementation; the cap theorems need no order).
   Definitions only. *)
From Coq Require Import List Arith Bool.
Import ListNotations.
From Yaqs Require Import Base.Num.

Section Sel.
Context (N : Num).
Notation "x +' y" := (add N x y) (at level 50).
Notation "x *' y" := (mul N x y) (at level 40).

(* for idx, s in enumerate(reversed(s_vec)): next = discard + s*s; if next > thr: keep = max(len-idx, min_keep); break *)
Fixpoint dw_loop (rev_s : list (T N)) (idx len min_keep : nat) (discard thr : T N) (keep0 : nat) : nat :=
  match rev_s with
  | [] => keep0
  | s :: r => let nd := discard +' (s *' s) in
      if ltb N thr nd then Nat.max (len - idx) min_keep
      else dw_loop r (S idx) len min_keep nd thr keep0
  end.

(* split_mps_tensor, trunc_mode = "discarded_weight" *)
Definition keep_dw (s : list (T N)) (thr : T N) (minb maxb : nat) (dynamic : bool) : nat :=
  let len := length s in
  let keep0 := if dynamic then len else Nat.min len maxb in
  let min_keep := Nat.min len minb in
  let k := dw_loop (rev s) 0 len min_keep (zero N) thr keep0 in
  Nat.max (Nat.min k maxb) min_keep.

(* the uncapped choice of the loop (used to state the discarded-weight rule) *)
Definition keep_dw_uncapped (s : list (T N)) (thr : T N) (minb : nat) : nat :=
  dw_loop (rev s) 0 (length s) (Nat.min (length s) minb) (zero N) thr (length s).

(* split_mps_tensor, trunc_mode = "relative": keep = #{ s_i / s_0 >= thr } clamped *)
Definition count_rel (s : list (T N)) (thr : T N) : nat :=
  match s with
  | [] => 0
  | smax :: _ => if eqb N smax (zero N) then 0
                 else length (filter (fun x => leb N thr (div N x smax)) s)
  end.
Definition keep_rel (s : list (T N)) (thr : T N) (minb maxb : nat) : nat :=
  Nat.min (Nat.max (Nat.min (count_rel s thr) maxb) minb) (length s).

(* two_site_svd: min_keep = min(len, min_bond_dim); discard += s**2; if discard >= thr: keep = max(len-idx, min_keep); break *)
Fixpoint tss_loop (rev_s : list (T N)) (idx len : nat) (discard thr : T N) (mk : nat) : nat :=
  match rev_s with
  | [] => len
  | s :: r => let nd := discard +' (s *' s) in
      if leb N thr nd then Nat.max (len - idx) mk else tss_loop r (S idx) len nd thr mk
  end.
Definition keep_tss (s : list (T N)) (thr : T N) (minb : nat) (maxb : option nat) : nat :=
  let k := tss_loop (rev s) 0 (length s) (zero N) thr (Nat.min (length s) minb) in
  match maxb with Some m => Nat.min k m | None => k end.

(* truncated_right_svd: cut_index = 1 unless the cumulative weight reaches thr *)
Fixpoint trs_loop (rev_s : list (T N)) (idx len : nat) (acc thr : T N) : nat :=
  match rev_s with
  | [] => 1
  | s :: r => let na := acc +' (s *' s) in
      if leb N thr na then len - idx else trs_loop r (S idx) len na thr
  end.
Definition keep_trs (s : list (T N)) (thr : T N) (maxb : option nat) : nat :=
  let k := trs_loop (rev s) 0 (length s) (zero N) thr in
  match maxb with Some m => Nat.min k m | None => k end.

(* weight of the discarded tail: sum of squares of s[keep:] accumulated smallest first, as the code does *)
Definition tail_weight (s : list (T N)) (keep : nat) : T N :=
  fold_left (fun acc x => acc +' (x *' x)) (rev (skipn keep s)) (zero N).
End Sel.

(* bond-dimension dynamics (C08): the adversary chooses spectra; what matters is the rank each operation returns *)
Inductive bond_op :=
| SplitAt (i : nat) (kept : nat)      (* two-site update/gate/jump at bond i: new dimension = kept rank *)
| ShrinkAt (i : nat) (newdim : nat).  (* QR/SVD centre move, one-site update: dimension can only stay or shrink *)
Fixpoint set_nth (l : list nat) (i v : nat) : list nat :=
  match l, i with [], _ => [] | _ :: r, O => v :: r | x :: r, S j => x :: set_nth r j v end.
Definition bond_step (dims : list nat) (o : bond_op) : list nat :=
  match o with
  | SplitAt i k => set_nth dims i k
  | ShrinkAt i d => set_nth dims i (Nat.min d (nth i dims 0))
  end.

(* MPS.truncate(threshold, cap): which bonds are re-split, in which order.  (flipped?, i): two_site_svd on tensors
   (i, i+1) of the current (possibly flipped) chain; c = orthogonality centre, L = number of sites *)
Definition truncate_calls (L c : nat) : list (bool * nat) :=
  if L =? 1 then [] else map (fun i => (false, i)) (seq 0 c) ++ map (fun i => (true, i)) (seq 0 (L - 1 - c)).
Definition bond_of (L : nat) (call : bool * nat) : nat := if fst call then L - 2 - snd call else snd call.
