(* C07 — the term lists MPO.hamiltonian / MPO.ising / MPO.heisenberg hand to from_pauli_sum (networks.py):
     bonds = range(L) if periodic else range(L-1);   for (c,a,b) in two_body: for i in bonds: (c, "a{i} b{(i+1)%L}")
     for (c,a) in one_body: for i in range(L): (c, "a{i}")
   A spec is (coefficient, [(site, operator); ...]) in the order written.  Definitions only. *)
From Coq Require Import ZArith QArith List Bool Arith.
Import ListNotations.
From Yaqs Require Import Model.PauliFSM.

Notation spec := (Q * list (nat * pauli))%type.
Definition bonds (L : nat) (periodic : bool) : list nat := seq 0 (if periodic then L else L - 1).
Definition two_terms (L : nat) (periodic : bool) (tb : Q * pauli * pauli) : list spec :=
  map (fun i => (fst (fst tb), [(i, snd (fst tb)); ((i + 1) mod L, snd tb)])) (bonds L periodic).
Definition one_terms (L : nat) (ob : Q * pauli) : list spec := map (fun i => (fst ob, [(i, snd ob)])) (seq 0 L).
Definition ham_terms (L : nat) (two : list (Q * pauli * pauli)) (one : list (Q * pauli)) (periodic : bool) : list spec :=
  flat_map (two_terms L periodic) two ++ flat_map (one_terms L) one.
Definition ising_terms (L : nat) (J g : Q) (periodic : bool) : list spec :=
  ham_terms L [(- J, PZ, PZ)] [(- g, PX)] periodic.
Definition heisenberg_terms (L : nat) (Jx Jy Jz h : Q) (periodic : bool) : list spec :=
  ham_terms L [(- Jx, PX, PX); (- Jy, PY, PY); (- Jz, PZ, PZ)] (if Qeq_bool h 0 then [] else [(- h, PZ)]) periodic.

(* the full-length label list of a spec, as from_pauli_sum reads it.  A spec naming one site twice (only the periodic single-site
   chain produces one) is rejected by the real parser with a ValueError; here the later mention overrides *)
Fixpoint lookup (i : nat) (s : list (nat * pauli)) (d : pauli) : pauli :=
  match s with [] => d | (j, p) :: r => lookup i r (if Nat.eqb i j then p else d) end.
Definition labels (L : nat) (s : list (nat * pauli)) : list pauli := map (fun i => lookup i s PI) (seq 0 L).
Definition expand (L : nat) (t : spec) : Q * list pauli := (fst t, labels L (snd t)).
(* the unordered pair of sites a two-body spec couples *)
Definition sites_of (t : spec) : list nat := map fst (snd t).
