(* C11 — which observable object receives which value, and where the orthogonality centre is when a local formula is
   used (simulation_parameters.sorted_observables, MPS.evaluate_observables, the stitching loops of simulator.py).
   Definitions only. *)
From Coq Require Import List Arith Bool.
Import ListNotations.

Inductive okind := Local1 | Local2 | Bond | Diag.
(* Local1: one-site operator at [site]; Local2: operator on (site, site+1); Bond: entropy / Schmidt spectrum of the bond
   (site, site+1); Diag: pvm, runtime_cost, max_bond, total_bond (no site, not sorted) *)
Record obs := { oid : nat; kind : okind; site : nat }.
Definition is_diag (o : obs) : bool := match kind o with Diag => true | _ => false end.

(* sorted(sortable, key = first site) is stable: equal keys keep their listing order *)
Fixpoint insert_stable (o : obs) (l : list obs) : list obs :=
  match l with [] => [o] | x :: r => if site o <=? site x then o :: l else x :: insert_stable o r end.
Definition sort_stable (l : list obs) : list obs := fold_right insert_stable [] l.
Definition sorted_observables (l : list obs) : list obs :=
  sort_stable (filter (fun o => negb (is_diag o)) l) ++ filter is_diag l.

(* evaluate_observables: the copy starts with its centre at site 0 (B form) and is moved right on demand.
   A read = (observable id, kind, site of the observable, centre of the state the value is read from) *)
Fixpoint reads_from (last : nat) (l : list obs) : list (nat * okind * nat * nat) :=
  match l with
  | [] => []
  | o :: r =>
      if is_diag o then (oid o, kind o, site o, last) :: reads_from last r
      else let c := Nat.max last (site o) in (oid o, kind o, site o, c) :: reads_from c r
  end.
Definition reads (l : list obs) := reads_from 0 (sorted_observables l).

(* result rows and stitching: row r belongs to sorted_observables[r]; the front-end writes row r into the
   trajectories of that same object, so object [oid] ends up with the value computed for it *)
Definition rows (value : obs -> nat) (l : list obs) : list nat := map value (sorted_observables l).
Definition stitched (value : obs -> nat) (l : list obs) : list (nat * nat) := combine (map oid (sorted_observables l)) (rows value l).

(* gauge preconditions of the local formulas *)
Definition read_ok (r : nat * okind * nat * nat) : bool :=
  let '(_, k, s, c) := r in
  match k with Local1 => Nat.eqb c s | Local2 => Nat.eqb c s | Bond => Nat.eqb c s || Nat.eqb c (S s) | Diag => true end.
