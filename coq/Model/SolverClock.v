(* C15 — which state every reported entry of the dense back-ends is evaluated on.
   mcwf.mcwf: n = len(times) grid points; the loop  for t in 1 .. n-1  propagates the state by dt once per pass and writes entry t
   when sampling is on or t is the last point; with sampling off only the last column is returned.
   lindblad.lindblad: the integrator evaluates at t_eval = times, with sampling off only the last column is returned.
   An entry is (column in the returned array, number of dt-steps / index of the grid time it is evaluated at).  Definitions only. *)
From Coq Require Import List Arith Bool.
Import ListNotations.

Definition mcwf_written (sampling : bool) (n : nat) : list (nat * nat) :=
  (if sampling then [(0, 0)] else []) ++
  flat_map (fun t => if sampling || Nat.eqb t (n - 1) then [(t, t)] else []) (seq 1 (n - 1)).
Definition last_column (n : nat) (l : list (nat * nat)) : list (nat * nat) :=
  map (fun p => (0, snd p)) (filter (fun p => Nat.eqb (fst p) (n - 1)) l).
Definition mcwf_cols (sampling : bool) (n : nat) : list (nat * nat) :=
  if sampling then mcwf_written true n else last_column n (mcwf_written false n).
Definition lindblad_cols (sampling : bool) (n : nat) : list (nat * nat) :=
  let all := map (fun t => (t, t)) (seq 0 n) in if sampling then all else last_column n all.
