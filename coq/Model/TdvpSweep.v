(* C05 — the local step list of tdvp.local_dynamic_tdvp (one call = one time step dt of the analog solver).
   [ones] : per site, does the sweep take the one-site branch there (bond dimension at the cap)?  h = dt/2.
     TSite i true   one-site update of site i forward in time by h        TSite i false  backward by h
     TBond i        zero-site (bond) update of bond (i,i+1) backward by h
     TPair i        two-site update of sites (i,i+1) forward by h
   The right-to-left half sweep is the mirror image of the left-to-right one.  Definitions only. *)
From Coq Require Import List Arith Bool ZArith.
Import ListNotations.

Inductive tstep := TSite (i : nat) (fwd : bool) | TBond (i : nat) | TPair (i : nat).

(* left-to-right half sweep starting at site i over the remaining decisions; [lock] = lock_final_site *)
Fixpoint fw (i : nat) (ones : list bool) (lock : bool) : list tstep :=
  match ones with
  | [] => []
  | o :: rest =>
      match rest with
      | [] => if o || lock then [TSite i true] else []                                   (* i = L-1 *)
      | _ :: rest' =>
          if o || lock then
            TSite i true :: TBond i :: fw (S i) rest (match rest' with [] => true | _ => lock end)   (* lock set at i = L-2 *)
          else match rest' with
               | [] => TPair i :: fw (S i) rest false                                    (* i = L-2: no backward site step *)
               | _ => TPair i :: TSite (S i) false :: fw (S i) rest false
               end
      end
  end.
Definition mirror (L : nat) (s : tstep) : tstep :=
  match s with
  | TSite i f => TSite (L - 1 - i) f
  | TBond i => TBond (L - 2 - i)
  | TPair i => TPair (L - 2 - i)
  end.
(* one full TDVP step: forward decisions [ones_f] in site order, backward decisions [ones_b] in site order *)
Definition sweep (ones_f ones_b : list bool) : list tstep :=
  let L := length ones_f in fw 0 ones_f false ++ map (mirror L) (fw 0 (rev ones_b) false).
(* which operator tensors of the Hamiltonian handed to this call a step works with *)
Definition step_ops (s : tstep) : list nat :=
  match s with TSite i _ => [i] | TBond _ => [] | TPair i => [i; S i] end.
Definition decisions (cap : nat) (bond_right : list nat) : list bool := map (fun d => cap <=? d) bond_right.

(* time accounting of the projector-splitting decomposition, in units of h: a two-site step on (i,i+1) covers the
   one-site terms of i and i+1 forward and the bond term of (i,i+1) backward *)
Definition site_time (j : nat) (s : tstep) : Z :=
  match s with
  | TSite i f => if Nat.eqb i j then (if f then 1 else -1)%Z else 0%Z
  | TBond _ => 0%Z
  | TPair i => if Nat.eqb i j || Nat.eqb (S i) j then 1%Z else 0%Z
  end.
Definition bond_time (j : nat) (s : tstep) : Z :=
  match s with
  | TSite _ _ => 0%Z
  | TBond i => if Nat.eqb i j then (-1)%Z else 0%Z
  | TPair i => if Nat.eqb i j then (-1)%Z else 0%Z
  end.
Definition total_site (j : nat) (l : list tstep) : Z := fold_right Z.add 0%Z (map (site_time j) l).
Definition total_bond (j : nat) (l : list tstep) : Z := fold_right Z.add 0%Z (map (bond_time j) l).
