(* C05 — the local step list of tdvp.single_site_tdvp (the route of a one-site chain through local_dynamic_tdvp, and the one-site
   integrator in general).  Durations are counted in half steps h = dt/2.
     SSite i k   one-site update of site i forward in time by k half steps
     SBond i k   zero-site (bond) update of bond (i,i+1) backward in time by k half steps
   Hamiltonian parameters: left-to-right half sweep (k = 1), ONE full step on the last site, right-to-left half sweep (k = 1).
   Circuit parameters (dt is set to 2, then 1): one left-to-right sweep of full steps (k = 2) and the full step on the last site.
   Definitions only. *)
From Coq Require Import List Arith ZArith.
Import ListNotations.

Inductive sstep := SSite (i k : nat) | SBond (i k : nat).
Definition ss_forward (L k : nat) : list sstep := flat_map (fun i => [SSite i k; SBond i k]) (seq 0 (L - 1)).
Definition ss_backward (L : nat) : list sstep := flat_map (fun i => [SBond i 1; SSite i 1]) (rev (seq 0 (L - 1))).
Definition ss_analog (L : nat) : list sstep := ss_forward L 1 ++ [SSite (L - 1) 2] ++ ss_backward L.
Definition ss_circuit (L : nat) : list sstep := ss_forward L 2 ++ [SSite (L - 1) 2].
Definition ss_site (j : nat) (s : sstep) : nat := match s with SSite i k => if Nat.eqb i j then k else 0 | SBond _ _ => 0 end.
Definition ss_bond (j : nat) (s : sstep) : nat := match s with SBond i k => if Nat.eqb i j then k else 0 | SSite _ _ => 0 end.
Definition ss_total (f : sstep -> nat) (l : list sstep) : nat := fold_right Nat.add 0 (map f l).
