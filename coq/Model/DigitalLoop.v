(* C16 / C02 / C03 — the scheduling loop of digital_tjm (digital/digital_tjm.py).
   The DAG is abstracted as the list of remaining instructions in program order; the front layer consists of the
   instructions none of whose qubits is used by an earlier remaining instruction (Qiskit's DAGCircuit.front_layer).
   Definitions only. *)
From Coq Require Import List Arith Bool.
Import ListNotations.

Inductive ikind := G1 | G2 | Meas | Bar | SBar.   (* SBar: barrier labelled SAMPLE_OBSERVABLES (any case) *)
Record instr := { id : nat; kind : ikind; qs : list nat }.

Definition mem (q : nat) (l : list nat) := existsb (Nat.eqb q) l.
Definition disjoint (a b : list nat) := forallb (fun q => negb (mem q b)) a.
Fixpoint front_aux (rem : list instr) (busy : list nat) : list instr :=
  match rem with
  | [] => []
  | i :: r => (if disjoint (qs i) busy then [i] else []) ++ front_aux r (qs i ++ busy)
  end.
Definition front (rem : list instr) := front_aux rem [].

Definition is_kind (k : ikind) (i : instr) :=
  match kind i, k with G1,G1 | G2,G2 | Meas,Meas | Bar,Bar | SBar,SBar => true | _,_ => false end.
Definition in_ids (l : list instr) (i : instr) := existsb (fun j => Nat.eqb (id j) (id i)) l.
Definition remove_all (xs rem : list instr) := filter (fun i => negb (in_ids xs i)) rem.

(* sort key: the lower qubit index (process_layer sorts each group to minimise centre movement) *)
Definition minq (i : instr) : nat := fold_right Nat.min (hd 0 (qs i)) (qs i).
Fixpoint insert_by (i : instr) (l : list instr) : list instr :=
  match l with [] => [i] | x :: r => if minq i <? minq x then i :: l else x :: insert_by i r end.
Definition sort_by (l : list instr) : list instr := fold_right insert_by [] l.
Definition is_even (i : instr) := Nat.even (minq i).

Inductive event := EGate (i : nat) | ESample.   (* gate with instruction id i applied | observables evaluated *)

(* one iteration of `while dag.op_nodes()`; [sampling] = StrongSimParams with sample_layers *)
Definition iter (sampling : bool) (rem : list instr) : list instr * list event * list instr :=
  let layer := front rem in
  let dropped := filter (fun i => is_kind Meas i || is_kind Bar i) layer in
  let singles := sort_by (filter (is_kind G1) layer) in
  let evens := sort_by (filter (fun i => is_kind G2 i && is_even i) layer) in
  let odds := sort_by (filter (fun i => is_kind G2 i && negb (is_even i)) layer) in
  let sb := filter (is_kind SBar) layer in
  let exec := singles ++ evens ++ odds in
  (exec,
   map (fun i => EGate (id i)) exec ++ (if sampling then map (fun _ => ESample) sb else []),
   remove_all (dropped ++ exec ++ sb) rem).

Fixpoint run (sampling : bool) (fuel : nat) (rem : list instr) : option (list instr * list event) :=
  match rem with
  | [] => Some ([], [])
  | _ => match fuel with
         | O => None
         | S f => let '(ex, ev, rem') := iter sampling rem in
                  match run sampling f rem' with
                  | Some (ex', ev') => Some (ex ++ ex', ev ++ ev')
                  | None => None
                  end
         end
  end.

(* digital_tjm: initial column when sampling, the loop, the final column *)
Definition trajectory (sampling : bool) (c : list instr) : option (list event) :=
  match run sampling (length c) c with
  | Some (_, ev) => Some ((if sampling then [ESample] else []) ++ ev ++ [ESample])
  | None => None
  end.
(* number of result columns allocated by _run_strong_sim: num_mid_measurements + 2 *)
Definition columns_allocated (sampling : bool) (c : list instr) : nat :=
  if sampling then length (filter (is_kind SBar) c) + 2 else 1.
Definition count_samples (ev : list event) : nat := length (filter (fun e => match e with ESample => true | _ => false end) ev).

Definition gate (i : instr) := is_kind G1 i || is_kind G2 i.
Definition shares (a b : instr) := negb (disjoint (qs a) (qs b)).
Definition strip (c : list instr) : list instr := filter gate c.
Definition mk (n : nat) (k : ikind) (q : list nat) := {| id := n; kind := k; qs := q |}.

(* ---- gauge bookkeeping of the loop (C02): apply_window moves the orthogonality centre from site 0 to the start of the
   window, i.e. it presupposes a right-canonical state (centre at 0); after every two-qubit gate the loop restores that form
   (normalize(form="B") without noise, the lottery's final sweep with noise) ---- *)
Inductive gstep := GOne | GTwo | GRestore | GRead.   (* GRead: evaluate_observables / measure_shots, both sweep from site 0 *)
Definition gauge_word (ex : list instr) : list gstep :=
  flat_map (fun i => if is_kind G2 i then [GTwo; GRestore] else [GOne]) ex.
(* state: is the centre known to be at site 0?  output: was the precondition of each step met? *)
Fixpoint gauge_run (at0 : bool) (w : list gstep) : list bool :=
  match w with
  | [] => []
  | GOne :: r => true :: gauge_run at0 r           (* a one-site contraction needs no gauge and keeps the centre *)
  | GTwo :: r => at0 :: gauge_run false r          (* needs the centre at 0; leaves it inside the window *)
  | GRestore :: r => true :: gauge_run true r
  | GRead :: r => at0 :: gauge_run at0 r          (* reads a copy: needs the centre at 0, leaves the state alone *)
  end.

(* ---- the whole noise-free trajectory as a gauge word, read events included (C16: weak mode measures BEFORE the final
   normalisation that strong mode performs when `canonical_form_lost` is set) ---- *)
Definition is_nil {A} (l : list A) := match l with [] => true | _ => false end.
Definition iter_g (sampling : bool) (rem : list instr) : list gstep * bool * list instr :=
  let layer := front rem in
  let dropped := filter (fun i => is_kind Meas i || is_kind Bar i) layer in
  let singles := sort_by (filter (is_kind G1) layer) in
  let evens := sort_by (filter (fun i => is_kind G2 i && is_even i) layer) in
  let odds := sort_by (filter (fun i => is_kind G2 i && negb (is_even i)) layer) in
  let sb := filter (is_kind SBar) layer in
  let exec := singles ++ evens ++ odds in
  (gauge_word exec ++ (if sampling then map (fun _ => GRead) sb else []),
   (* canonical_form_lost: removing a one-qubit gate left the DAG without operations *)
   negb (is_nil singles) && is_nil (remove_all (dropped ++ singles) rem),
   remove_all (dropped ++ exec ++ sb) rem).
Fixpoint run_g (sampling : bool) (fuel : nat) (rem : list instr) : option (list gstep * bool) :=
  match rem with
  | [] => Some ([], false)
  | _ => match fuel with
         | O => None
         | S f => let '(w, fl, rem') := iter_g sampling rem in
                  match run_g sampling f rem' with
                  | Some (w', fl') => Some (w ++ w', fl || fl')
                  | None => None
                  end
         end
  end.
Inductive mode := StrongPlain | StrongSampling | Weak.
Definition samples (m : mode) := match m with StrongSampling => true | _ => false end.
Definition traj_word (m : mode) (c : list instr) : option (list gstep) :=
  match run_g (samples m) (length c) c with
  | Some (w, lost) => Some ((if samples m then [GRead] else []) ++ w ++
                            match m with Weak => [GRead] | _ => (if lost then [GRestore] else []) ++ [GRead] end)
  | None => None
  end.
Definition no_read (g : gstep) := match g with GRead => false | _ => true end.
