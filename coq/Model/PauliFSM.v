(* C07 — symbolic model of MPO.from_pauli_sum (networks.py): the suffix-state finite-state-machine construction.
   A term is (coefficient, one Pauli label per site).  Bond i (1 <= i < L) carries one state per distinct pair
   (operator at site i, state at bond i+1) among the terms, numbered in order of first appearance; the first site
   accumulates coeff * op into the column of the term's state at bond 1.  Definitions only. *)
From Coq Require Import ZArith QArith List Bool Arith.
Import ListNotations.

Inductive pauli := PI | PX | PY | PZ.
Definition peqb (a b : pauli) : bool := match a, b with PI,PI | PX,PX | PY,PY | PZ,PZ => true | _,_ => false end.
Notation term := (Q * list pauli)%type.
Notation sig := (pauli * nat)%type.     (* (operator at this site, state id at the next bond) *)
Definition sig_eqb (a b : sig) := peqb (fst a) (fst b) && Nat.eqb (snd a) (snd b).
Fixpoint find_sig (s : sig) (m : list sig) (k : nat) : option nat :=
  match m with [] => None | x :: r => if sig_eqb s x then Some k else find_sig s r (S k) end.
(* one right-to-left step over all terms: returns the table of this bond and each term's state id at it *)
Fixpoint assign (sigs : list sig) (m : list sig) : list sig * list nat :=
  match sigs with
  | [] => (m, [])
  | s :: r =>
      match find_sig s m 0%nat with
      | Some k => let '(m', ids) := assign r m in (m', k :: ids)
      | None => let '(m', ids) := assign r (m ++ [s]) in (m', length m :: ids)
      end
  end.
Record fsm := { first : list (Q * pauli * nat); tables : list (list sig) }.
Fixpoint build_rec (cols : list (list pauli)) (ids : list nat) (acc : list (list sig)) : list nat * list (list sig) :=
  match cols with
  | [] => (ids, acc)
  | col :: r => let '(m, ids') := assign (combine col ids) [] in build_rec r ids' (m :: acc)
  end.
Definition column (ts : list term) (i : nat) : list pauli := map (fun t => nth i (snd t) PI) ts.
Definition build (L : nat) (ts : list term) : fsm :=
  let cols := map (column ts) (rev (seq 1 (L - 1))) in
  let '(ids, tabs) := build_rec cols (map (fun _ => 0%nat) ts) [] in
  {| first := map (fun p => (fst (fst p), nth 0 (snd (fst p)) PI, snd p)) (combine ts ids); tables := tabs |}.
(* path semantics: the Pauli string spelled from state [id] through the tables *)
Fixpoint suffix (tabs : list (list sig)) (id : nat) : list pauli :=
  match tabs with [] => [] | t :: r => let s := nth id t (PI, 0%nat) in fst s :: suffix r (snd s) end.
Definition denote (f : fsm) : list term := map (fun e => let '(c, op, id) := e in (c, op :: suffix (tables f) id)) (first f).
Definition bond_dims (f : fsm) : list nat := map (@length sig) (tables f).
