(* C04 — the verdict of MPO.check_if_identity:  equivalent  iff  |trace| / 2^n >= fidelity - 1e-9.
   Definitions only; generic over the number system (exact rationals for the theorems, binary64 for the bit-exact tie). *)
From Coq Require Import List Arith Bool.
From Yaqs Require Import Base.Num.
Section V.
Context (N : Num).
Fixpoint pow2 (n : nat) : T N := match n with O => one N | S k => mul N (add N (one N) (one N)) (pow2 k) end.
Definition verdict (abs_trace : T N) (n : nat) (fidelity eps : T N) : bool :=
  leb N (sub N fidelity eps) (div N abs_trace (pow2 n)).
End V.
