(* C06 — index conventions between the MPS world and the dense solvers (binary local dimension).
   kron_idx : site 0 is the most significant digit  (operators embedded by _embed_generic / MPO.to_matrix)
   vec_idx  : site 0 is the least significant digit (MPS.to_vec: the network is flipped before contraction)
   The dense solvers (lindblad, mcwf) take to_vec() and re-order it with reshape([2]*L).transpose(reversed).reshape(-1).
   Definitions only. *)
From Coq Require Import List Arith Bool.
Import ListNotations.

Definition kron_idx (sigma : list nat) : nat := fold_left (fun acc b => 2 * acc + b) sigma 0.
Definition vec_idx (sigma : list nat) : nat := kron_idx (rev sigma).
Fixpoint to_digits (L i : nat) : list nat :=
  match L with O => [] | S L' => (i / 2 ^ L') :: to_digits L' (i mod 2 ^ L') end.
(* position, after the re-ordering done by the dense solvers, of the amplitude that to_vec() stores at position i *)
Definition reorder (L i : nat) : nat := kron_idx (rev (to_digits L i)).
(* index at which the dense solvers hold the amplitude of basis string sigma (sigma_i = digit of site i) *)
Definition solver_state_idx (sigma : list nat) : nat := reorder (length sigma) (vec_idx sigma).
(* diagonal entry of Z embedded on site i, at dense index k of a chain of length L: +1 for digit 0, -1 for digit 1 *)
Definition z_sign (L i k : nat) : bool := Nat.eqb (nth i (to_digits L k) 0) 1.
(* a two-site operator embedded on (s, s+1) as  eye(2^s) (x) op (x) eye(2^(L-2-s))  (_embed_generic, adjacent branch): the
   row/column of the 4x4 operator that acts at dense index k is 2*digit_s + digit_(s+1) *)
Definition pair_digit (L s k : nat) : nat := 2 * nth s (to_digits L k) 0 + nth (S s) (to_digits L k) 0.
(* the same, computed the way the code builds it: k = (a * 4 + p) * 2^(L-2-s) + b with a < 2^s, p < 4, b < 2^(L-2-s) *)
Definition pair_digit_kron (L s k : nat) : nat := (k / 2 ^ (L - 2 - s)) mod 4.
