(* C07 — the hand-written nearest-neighbour automata (MPO.bose_hubbard and the like): bond states Start / channel k / End; every site
   tensor is the same transition table
       Start -> Start : I      Start -> End : h      Start -> Chan k : x_k      Chan k -> End : y_k      End -> End : I
   the first tensor is the row Start, the last tensor the column End.  A path through the chain spells one term of the operator
   (a word of local operators, one per site); the operator is the sum of the words of all accepted paths.  Definitions only. *)
From Coq Require Import List Arith Bool.
Import ListNotations.

Section FSM.
Variable sym : Type.
Variables (I h : sym) (chans : list (sym * sym)).     (* channel k: (x_k placed on the left site, y_k placed on the right site) *)
Inductive st := Start | Chan (k : nat) | End.
Definition out (s : st) : list (sym * st) :=
  match s with
  | Start => (I, Start) :: (h, End) :: map (fun kc => (fst (snd kc), Chan (fst kc))) (combine (seq 0 (length chans)) chans)
  | Chan k => match nth_error chans k with Some c => [(snd c, End)] | None => [] end
  | End => [(I, End)]
  end.
Definition accepting (s : st) : bool := match s with End => true | _ => false end.
(* words of all paths of m further sites starting in state s and ending in End *)
Fixpoint paths (m : nat) (s : st) : list (list sym) :=
  match m with
  | O => if accepting s then [[]] else []
  | S m' => flat_map (fun t => map (cons (fst t)) (paths m' (snd t))) (out s)
  end.
Definition expand (L : nat) : list (list sym) := paths L Start.

(* the documented operator: h on every site, x_k y_k on every bond *)
Definition pad (i : nat) (w : list sym) (j : nat) : list sym := repeat I i ++ w ++ repeat I j.
Definition site_terms (L : nat) : list (list sym) := map (fun i => pad i [h] (L - 1 - i)) (seq 0 L).
Definition bond_terms (L : nat) : list (list sym) :=
  flat_map (fun i => map (fun c => pad i [fst c; snd c] (L - 2 - i)) chans) (seq 0 (L - 1)).
Definition terms (L : nat) : list (list sym) := site_terms L ++ bond_terms L.
End FSM.
