(* C15 / C14 — the time grid of AnalogSimParams and the time matching of scheduled jumps.
   Binary64 model (PrimFloat) evaluated bit-exactly against NumPy/Python in the correspondence check:
     n      = round(elapsed_time / dt)            (Python round: to nearest, ties to even)
     times  = dt * arange(n + 1)                  (t_j = fl(j * dt))
     match  = isclose(jump_time, t, atol = dt*1e-3, rtol = 0)   i.e.  |jump_time - t| <= fl(dt*1e-3)
   Definitions only. *)
From Coq Require Import ZArith List Bool PrimFloat FloatOps SpecFloat Uint63 QArith.
Import ListNotations.
From Yaqs Require Import Base.Num.

(* Python's round(x) for a finite binary64 x, as an integer *)
Definition roundZ (f : float) : Z :=
  match Prim2SF f with
  | S754_finite sg m e =>
      let mag :=
        if (0 <=? e)%Z then (Z.pos m * 2 ^ e)%Z
        else let d := (2 ^ (- e))%Z in
             let q := (Z.pos m / d)%Z in
             let r := (Z.pos m mod d)%Z in
             if (2 * r <? d)%Z then q
             else if (d <? 2 * r)%Z then (q + 1)%Z
             else if Z.even q then q else (q + 1)%Z in
      if sg then (- mag)%Z else mag
  | _ => 0%Z
  end.

Definition of_Z (z : Z) : float := if (z <? 0)%Z then (- of_uint63 (Uint63.of_Z (- z)))%float else of_uint63 (Uint63.of_Z z).

Definition grid_steps (T dt : float) : Z := roundZ (T / dt)%float.
Definition grid_len (T dt : float) : Z := (grid_steps T dt + 1)%Z.
Definition grid_time (dt : float) (j : Z) : float := (dt * of_Z j)%float.
Definition grid (T dt : float) : list float :=
  map (fun j => grid_time dt (Z.of_nat j)) (seq 0 (Z.to_nat (grid_len T dt))).

(* |a - b| <= atol + rtol*|b| over any number system *)
Section Close.
Context (N : Num).
Definition nabs (x : T N) : T N := if ltb N x (zero N) then sub N (zero N) x else x.
Definition isclose (a b atol rtol : T N) : bool := leb N (nabs (sub N a b)) (add N atol (mul N rtol (nabs b))).
End Close.

Definition milli : float := 0x1.0624dd2f1a9fcp-10%float.   (* the double 1e-3 *)
Definition has_jump_at (jump_time t dt : float) : bool := isclose FN jump_time t (dt * milli)%float 0%float.
(* which grid indices match a jump scheduled at jump_time *)
Definition matching (jump_time T dt : float) : list nat :=
  filter (fun j => has_jump_at jump_time (grid_time dt (Z.of_nat j)) dt) (seq 0 (Z.to_nat (grid_len T dt))).
