(* C14 / C15 / C01 — symbolic words of the analog trajectory pipelines (analog/analog_tjm.py).
   A trajectory is the sequence of kernel calls applied to the state object:
     U   local_dynamic_tdvp (one unitary step dt)      Dh  apply_dissipation(dt/2)     D1  apply_dissipation(dt)
     J   stochastic_process (random jump lottery)       Sj k  apply_scheduled_jumps at grid index k
   [sched j] = has_scheduled_jump(noise_model, times[j], dt).  A column is the word applied to the state whose
   observables are written into result column j.  Definitions only. *)
From Coq Require Import List Arith Bool.
Import ListNotations.

Inductive sym := U | Dh | D1 | J | Sj (k : nat).
Definition sym_eqb (a b : sym) : bool :=
  match a, b with U,U | Dh,Dh | D1,D1 | J,J => true | Sj i, Sj j => Nat.eqb i j | _,_ => false end.

Section P.
Variable sched : nat -> bool.
Definition jump_or (j : nat) : sym := if sched j then Sj j else J.

(* ---- order 1 (analog_tjm_1): state after loop index j; dissipation/jumps only if a noise model is present ---- *)
Fixpoint w1 (noise : bool) (j : nat) : list sym :=
  match j with O => [] | S j' => w1 noise j' ++ (U :: if noise then [D1; jump_or j] else []) end.

(* ---- order 2 (analog_tjm_2) ---- *)
Definition phi0 : list sym := [Dh; jump_or 0].           (* initialize: F0 *)
(* phi after step_through at loop index j >= 2 (phi 1 = phi 0 = F0): U, D(dt), jump test at times[j-1] *)
Fixpoint phi (j : nat) : list sym :=
  match j with O => phi0 | S O => phi0 | S j' => phi j' ++ [U; D1; jump_or j'] end.
(* sample(phi, j): deep copy, U, D(dt/2), jump test at times[j], evaluate *)
Definition sample2 (j : nat) : list sym := phi j ++ [U; Dh; jump_or j].
End P.

(* result columns in evaluation order: (column index, word of the evaluated state).  n = len(times) *)
Definition cols1 (sched : nat -> bool) (noise sampling : bool) (n : nat) : list (nat * list sym) :=
  if sampling then map (fun j => (j, w1 sched noise j)) (seq 0 n)
  else match n with O | S O => [] | _ => [(0, w1 sched noise (n - 1))] end.
Definition cols2 (sched : nat -> bool) (sampling : bool) (n : nat) : list (nat * list sym) :=
  if sampling then (if 1 <=? n then [(0, [])] else []) ++ map (fun j => (j, sample2 sched j)) (seq 1 (n - 1))
  else match n with O | S O => [] | _ => [(0, sample2 sched (n - 1))] end.

Definition count_sym (a : sym) (w : list sym) : nat := length (filter (sym_eqb a) w).
Definition count_S (k : nat) (w : list sym) := count_sym (Sj k) w.
(* number of unitary steps applied before the first occurrence of the scheduled jump k *)
Fixpoint u_before (k : nat) (w : list sym) : option nat :=
  match w with
  | [] => None
  | x :: r => if sym_eqb x (Sj k) then Some 0
              else match u_before k r with Some m => Some (if sym_eqb x U then S m else m) | None => None end
  end.
Definition from_list (l : list nat) (j : nat) : bool := existsb (Nat.eqb j) l.

(* inside apply_scheduled_jumps at grid index k: the positions (in the user's list) of the jumps that are applied,
   in the order in which they are applied.  [matches p] = the time of the p-th listed jump matches the current time *)
Fixpoint applied_at (matches : list bool) (pos : nat) : list nat :=
  match matches with [] => [] | m :: r => (if m then [pos] else []) ++ applied_at r (S pos) end.
