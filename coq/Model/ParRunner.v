(* C13 — executable model of simulator.run_backend_parallel (src/mqt/yaqs/simulator.py).
   One [step] completes ONE in-flight future (chosen by an adversary: position p in the
   insertion-ordered dict of futures, and what its .result() does).  A batch returned by
   wait(FIRST_COMPLETED) is a sequence of such steps, so a theorem over all step sequences
   covers every batch and every iteration order of the `done` set.
   Definitions only — proofs live in Proofs/ParRunnerP.v. *)
From Coq Require Import List Arith Bool.
Import ListNotations.

Inductive outcome := Ok | Retry | Fatal.
(* Ok: result() returns; Retry: result() raises one of retry_exceptions; Fatal: any other exception *)

Record st := {
  next : nat;            (* next_job_idx *)
  fl   : list nat;       (* indices in flight, in dict insertion order *)
  retr : nat -> nat;     (* retries[i] *)
  out  : list nat;       (* indices yielded so far, in order *)
  sub  : list nat;       (* log of every ex.submit(worker_fn, idx) *)
  err  : option nat      (* Some i: the exception of index i propagated to the caller *)
}.

Definition submit (i : nat) (s : st) : st :=
  {| next := next s; fl := fl s ++ [i]; retr := retr s; out := out s; sub := sub s ++ [i]; err := err s |}.

(* initial batch: while next_job_idx < n_jobs and len(futures) < max_inflight *)
Fixpoint fill (n W k : nat) (s : st) : st :=
  match k with
  | O => s
  | S k' =>
      if (next s <? n) && (length (fl s) <? W) then
        fill n W k' {| next := S (next s); fl := fl s ++ [next s]; retr := retr s;
                       out := out s; sub := sub s ++ [next s]; err := err s |}
      else s
  end.

Definition empty : st :=
  {| next := 0; fl := []; retr := fun _ => 0; out := []; sub := []; err := None |}.

Definition init (n W : nat) : st := fill n W W empty.

Definition remove_nth {A} (p : nat) (l : list A) := firstn p l ++ skipn (S p) l.

Definition step (n maxr : nat) (s : st) (c : nat * outcome) : st :=
  match err s with
  | Some _ => s
  | None =>
    let (p, o) := c in
    match nth_error (fl s) p with
    | None => s
    | Some i =>
      let fl' := remove_nth p (fl s) in
      match o with
      | Ok =>
          if next s <? n
          then {| next := S (next s); fl := fl' ++ [next s]; retr := retr s;
                  out := out s ++ [i]; sub := sub s ++ [next s]; err := None |}
          else {| next := next s; fl := fl'; retr := retr s;
                  out := out s ++ [i]; sub := sub s; err := None |}
      | Retry =>
          if retr s i <? maxr
          then {| next := next s; fl := fl' ++ [i];
                  retr := fun j => if j =? i then S (retr s i) else retr s j;
                  out := out s; sub := sub s ++ [i]; err := None |}
          else {| next := next s; fl := fl'; retr := retr s; out := out s; sub := sub s; err := Some i |}
      | Fatal => {| next := next s; fl := fl'; retr := retr s; out := out s; sub := sub s; err := Some i |}
      end
    end
  end.

Definition run (n W maxr : nat) (cs : list (nat * outcome)) : st := fold_left (step n maxr) cs (init n W).

(* the consumer in _run_strong_sim/_run_weak_sim/_run_analog: rows[i] = result for every yielded (i, result);
   the result delivered with index i is worker_fn(i) *)
Definition upd {A} (arr : nat -> A) (i : nat) (v : A) : nat -> A := fun j => if j =? i then v else arr j.
Definition stitch {A} (f : nat -> A) (dflt : A) (yielded : list nat) : nat -> A :=
  fold_left (fun arr i => upd arr i (f i)) yielded (fun _ => dflt).

(* observation used by the correspondence check *)
Definition observe (s : st) : list nat * list nat * list nat * option nat := (out s, fl s, sub s, err s).
