(* C12 — bookkeeping of measure_single_shot / weak simulation: the integer key of an outcome string.
   (The probabilistic content — the conditional weights of the site-by-site chain — is LinAlg/TT.v.)  Definitions only. *)
From Coq Require Import List Arith ZArith.
Import ListNotations.
(* sum(c << i for i, c in enumerate(bitstring)) *)
Fixpoint encode (bits : list nat) : nat := match bits with [] => 0 | c :: r => c + 2 * encode r end.
(* the same key as a binary integer: Python integers are unbounded, registers of 64 and more sites are evaluated with this one *)
Fixpoint encodeZ (bits : list nat) : Z := match bits with [] => 0%Z | c :: r => (Z.of_nat c + 2 * encodeZ r)%Z end.
