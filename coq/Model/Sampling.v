(* C12 — bookkeeping of measure_single_shot / weak simulation: the integer key of an outcome string.
   (The probabilistic content — the conditional weights of the site-by-site chain — is LinAlg/TT.v.)  Definitions only. *)
From Coq Require Import List Arith.
Import ListNotations.
(* sum(c << i for i, c in enumerate(bitstring)) *)
Fixpoint encode (bits : list nat) : nat := match bits with [] => 0 | c :: r => c + 2 * encode r end.
