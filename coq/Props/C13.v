(* C13 — each trajectory runs exactly once under any completion order or transient fault.
   Property theorems only: each is closed by [exact <lemma>] and followed by Print Assumptions. *)
From Coq Require Import List Arith Permutation.
Import ListNotations.
From Yaqs Require Import Model.ParRunner Proofs.ParRunnerP.

(* n jobs, window W = 2*max_workers, retry budget maxr, ANY script cs of (which in-flight future completes, how) *)
Theorem C13_exactly_once : forall n W maxr cs, 0 < W ->
  let s := run n W maxr cs in err s = None -> fl s = [] -> Permutation (out s) (seq 0 n).
Proof. exact exactly_once. Qed.
Print Assumptions C13_exactly_once.

Theorem C13_no_duplicates_midrun : forall n W maxr cs,
  let s := run n W maxr cs in err s = None -> NoDup (out s ++ fl s).
Proof. exact no_duplicates. Qed.
Print Assumptions C13_no_duplicates_midrun.

Theorem C13_inflight_bounded : forall n W maxr cs, length (fl (run n W maxr cs)) <= W.
Proof. exact inflight_bounded. Qed.
Print Assumptions C13_inflight_bounded.

Theorem C13_window_refilled : forall n W maxr cs,
  let s := run n W maxr cs in err s = None -> next s < n -> length (fl s) = W.
Proof. exact window_refilled. Qed.
Print Assumptions C13_window_refilled.

Theorem C13_fatal_surfaces : forall n maxr s p i, err s = None -> nth_error (fl s) p = Some i ->
  let s' := step n maxr s (p, Fatal) in err s' = Some i /\ out s' = out s /\ sub s' = sub s.
Proof. exact fatal_surfaces. Qed.
Print Assumptions C13_fatal_surfaces.

Theorem C13_exhausted_retry_surfaces : forall n maxr s p i, err s = None -> nth_error (fl s) p = Some i ->
  maxr <= retr s i -> let s' := step n maxr s (p, Retry) in err s' = Some i /\ out s' = out s /\ sub s' = sub s.
Proof. exact exhausted_retry_surfaces. Qed.
Print Assumptions C13_exhausted_retry_surfaces.

Theorem C13_retry_within_budget_resubmits : forall n maxr s p i, err s = None -> nth_error (fl s) p = Some i ->
  retr s i < maxr -> let s' := step n maxr s (p, Retry) in
  err s' = None /\ out s' = out s /\ In i (fl s') /\ retr s' i = S (retr s i).
Proof. exact retry_within_budget_resubmits. Qed.
Print Assumptions C13_retry_within_budget_resubmits.

Theorem C13_failed_index_not_yielded : forall n W maxr cs c, let s := run n W maxr cs in
  err s = None -> forall i, err (step n maxr s c) = Some i -> ~ In i (out (step n maxr s c)).
Proof. exact failed_index_not_yielded. Qed.
Print Assumptions C13_failed_index_not_yielded.

Theorem C13_error_is_final : forall n maxr cs s i, err s = Some i -> fold_left (step n maxr) cs s = s.
Proof. exact steps_frozen. Qed.
Print Assumptions C13_error_is_final.

Theorem C13_attempts_bounded : forall n W maxr cs, length (sub (run n W maxr cs)) <= n * S maxr.
Proof. exact attempts_bounded. Qed.
Print Assumptions C13_attempts_bounded.

Theorem C13_stitching : forall (A : Type) (f : nat -> A) dflt n yielded, Permutation yielded (seq 0 n) ->
  forall i, i < n -> stitch f dflt yielded i = f i.
Proof. exact @stitching. Qed.
Print Assumptions C13_stitching.

Theorem C13_stitching_untouched : forall (A : Type) (f : nat -> A) dflt n yielded, Permutation yielded (seq 0 n) ->
  forall i, n <= i -> stitch f dflt yielded i = dflt.
Proof. exact @stitching_untouched. Qed.
Print Assumptions C13_stitching_untouched.

(* non-vacuity: a concrete run with an out-of-order completion and a retry meets the hypotheses *)
Example C13_hypotheses_satisfiable :
  let s := run 3 2 1 [(1, Ok); (0, Retry); (1, Ok); (0, Ok)] in
  err s = None /\ fl s = [] /\ out s = [1; 0; 2] /\ sub s = [0; 1; 2; 0].
Proof. vm_compute. repeat split. Qed.
