(* C07 — model library: MPO builders equal their definition; Trotter circuits match them.
   Mechanised: the finite-state machine of from_pauli_sum denotes exactly its term list (every length, every list of terms,
   repeated / identity / zero-coefficient terms included); one Ising Trotter step couples every bond of the chain exactly once.
   PARTIAL — tied numerically / not mechanised: the dense interpretation (to_matrix of the tensors = sum of Kronecker
   products), compression by SVD sweeps, from_matrix, the hand-written boson/transmon automata, the other circuit builders and
   the Lie-Trotter convergence itself. *)
From Coq Require Import List Arith QArith Permutation.
Import ListNotations.
From Yaqs Require Import Model.ChainFSM Proofs.ChainFSMP.
From Yaqs Require Model.Transmon Proofs.TransmonP.
From Yaqs Require Import Model.PauliFSM Proofs.PauliFSMP Model.CircuitLib Proofs.CircuitLibP Model.HamTerms Proofs.HamTermsP.
From Yaqs Require LinAlg.Strang.

Theorem C07_fsm_denotes_terms : forall L ts, (1 <= L)%nat -> (forall t, In t ts -> length (snd t) = L) -> denote (build L ts) = ts.
Proof. exact fsm_denotes_terms. Qed.
Print Assumptions C07_fsm_denotes_terms.

Theorem C07_ising_step_covers_chain : forall L, Permutation (ising_bonds L false) (chain_bonds L).
Proof. exact ising_bonds_cover_chain. Qed.
Print Assumptions C07_ising_step_covers_chain.
Theorem C07_ising_step_periodic : forall L, (1 < L)%nat -> ising_bonds L true = ising_bonds L false ++ [(0, L - 1)%nat].
Proof. exact ising_bonds_periodic. Qed.
Print Assumptions C07_ising_step_periodic.
Theorem C07_heisenberg_step_covers_chain : forall L g, g <> HRz -> Permutation (bonds_of g (heis_step L false)) (chain_bonds L).
Proof. exact heis_couplings_cover_chain. Qed.
Print Assumptions C07_heisenberg_step_covers_chain.
Theorem C07_fermi_hubbard_hopping_covers_chain : forall L, Permutation (fh_up_xx L) (chain_bonds L).
Proof. exact fh_hopping_covers_chain. Qed.
Print Assumptions C07_fermi_hubbard_hopping_covers_chain.
Theorem C07_fermi_hubbard_step_symmetric : forall L, map fst (rev (fh_step L)) = map fst (fh_step L).
Proof. exact fh_step_symmetric. Qed.
Print Assumptions C07_fermi_hubbard_step_symmetric.

(* MPO.hamiltonian / ising / heisenberg: the term list handed to from_pauli_sum (tied to the real builders by capturing that
   argument) couples every nearest-neighbour bond exactly once per two-body entry — plus the wrap-around bond when periodic —
   and every site once per one-body entry, each with the coefficient of its entry; the automaton built from it denotes it *)
Theorem C07_hamiltonian_bonds_open : forall L tb, map sites_of (two_terms L false tb) = map (fun i => [i; i + 1]%nat) (seq 0 (L - 1)).
Proof. exact two_terms_open. Qed.
Print Assumptions C07_hamiltonian_bonds_open.
Theorem C07_hamiltonian_bonds_periodic : forall L tb, (1 <= L)%nat ->
  map sites_of (two_terms L true tb) = map (fun i => [i; i + 1]%nat) (seq 0 (L - 1)) ++ [[L - 1; 0]%nat].
Proof. exact two_terms_periodic. Qed.
Print Assumptions C07_hamiltonian_bonds_periodic.
Theorem C07_hamiltonian_fields : forall L ob, map sites_of (one_terms L ob) = map (fun i => [i]) (seq 0 L).
Proof. exact one_terms_sites. Qed.
Print Assumptions C07_hamiltonian_fields.
Theorem C07_hamiltonian_coefficients : forall L per tb ob t,
  (In t (two_terms L per tb) -> fst t = fst (fst tb)) /\ (In t (one_terms L ob) -> fst t = fst ob).
Proof. intros L per tb ob t. split; [apply two_terms_coeff|apply one_terms_coeff]. Qed.
Print Assumptions C07_hamiltonian_coefficients.
Theorem C07_hamiltonian_term_count : forall L two one per,
  length (ham_terms L two one per) = (length two * (if per then L else L - 1) + length one * L)%nat.
Proof. exact ham_terms_count. Qed.
Print Assumptions C07_hamiltonian_term_count.
Theorem C07_hamiltonian_fsm_denotes : forall L two one per, (1 <= L)%nat ->
  denote (build L (map (expand L) (ham_terms L two one per))) = map (expand L) (ham_terms L two one per).
Proof. exact ham_fsm_denotes. Qed.
Print Assumptions C07_hamiltonian_fsm_denotes.

(* hand-written nearest-neighbour automata (MPO.bose_hubbard; its tensors are decoded into this transition table by the correspondence
   check): for every chain length and any list of coupling channels the accepted paths spell exactly the documented terms — the on-site
   term on every site and x_k y_k on every bond, identities elsewhere *)
Theorem C07_chain_automaton_denotes_terms : forall (sym : Type) (I h : sym) (chans : list (sym * sym)) L,
  Permutation (ChainFSM.expand sym I h chans L) (ChainFSM.terms sym I h chans L).
Proof. exact expand_is_terms. Qed.
Print Assumptions C07_chain_automaton_denotes_terms.

(* MPO.coupled_transmon (alternating qubit/resonator automaton, tensors decoded against Transmon.chain by the correspondence check):
   BOUNDED statement — for every chain length from 1 to 12 the accepted paths spell exactly the documented terms (on-site terms of
   qubits and resonators, g (b+b^+)(a+a^+) on every bond), as multisets; decided by evaluation, the bound is part of the statement *)
Theorem C07_transmon_denotes_terms_upto_12 : forall L, (1 <= L)%nat -> (L <= 12)%nat ->
  Transmon.same_terms (Transmon.expand L) (Transmon.terms L) = true.
Proof. exact TransmonP.transmon_denotes_terms_upto_12. Qed.
Print Assumptions C07_transmon_denotes_terms_upto_12.

Example C07_example :
  let ts := [(1#2, [PZ;PZ;PI;PI]); (1#2, [PI;PZ;PZ;PI]); (1#2, [PI;PI;PZ;PZ]); (3#1, [PX;PI;PI;PI]); (3#1, [PI;PX;PI;PI]);
             (3#1, [PI;PI;PX;PI]); (3#1, [PI;PI;PI;PX]); (5#1, [PZ;PZ;PI;PI])]%Q in
  denote (build 4 ts) = ts /\ bond_dims (build 4 ts) = [7; 5; 3]%nat.
Proof. vm_compute. split; reflexivity. Qed.

(* a plain product of two exponentials is first-order accurate; its doubled second-order defect is the commutator *)
Theorem C07_sequential_splitting_is_first_order :
  forall (R : Type) (ring0 ring1 : R) (add mul sub : R -> R -> R) (opp : R -> R) (req : R -> R -> Prop)
         (Rops : @Ncring.Ring_ops R ring0 ring1 add mul sub opp req), @Ncring.Ring R ring0 ring1 add mul sub opp req Rops ->
  forall A B : R,
  req (Strang.t0 (Strang.tmul (Strang.texp A) (Strang.texp B))) (Strang.t0 (Strang.texp (add A B))) /\
  req (Strang.t1 (Strang.tmul (Strang.texp A) (Strang.texp B))) (Strang.t1 (Strang.texp (add A B))) /\
  req (sub (Strang.t2 (Strang.tmul (Strang.texp A) (Strang.texp B))) (Strang.t2 (Strang.texp (add A B)))) (sub (mul A B) (mul B A)).
Proof. exact @Strang.lie. Qed.
Print Assumptions C07_sequential_splitting_is_first_order.

(* a half step, a full step, a half step is exact through second order in the step (LinAlg/Strang.v: series truncated after dt^2 over
   any ring, the last entry of a triple being twice the second-order coefficient; texp X = (1, X, X*X)) *)
Theorem C07_symmetric_splitting_is_second_order :
  forall (R : Type) (ring0 ring1 : R) (add mul sub : R -> R -> R) (opp : R -> R) (req : R -> R -> Prop)
         (Rops : @Ncring.Ring_ops R ring0 ring1 add mul sub opp req), @Ncring.Ring R ring0 ring1 add mul sub opp req Rops ->
  forall C B : R, Strang.teq (Strang.tmul (Strang.tmul (Strang.texp C) (Strang.texp B)) (Strang.texp C)) (Strang.texp (add (add C C) B)).
Proof. exact @Strang.strang. Qed.
Print Assumptions C07_symmetric_splitting_is_second_order.
