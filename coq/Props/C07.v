(* C07 — model library: MPO builders equal their definition; Trotter circuits match them.
   Mechanised: the finite-state machine of from_pauli_sum denotes exactly its term list (every length, every list of terms,
   repeated / identity / zero-coefficient terms included); one Ising Trotter step couples every bond of the chain exactly once.
   PARTIAL — tied numerically / not mechanised: the dense interpretation (to_matrix of the tensors = sum of Kronecker
   products), compression by SVD sweeps, from_matrix, the hand-written boson/transmon automata, the other circuit builders and
   the Lie-Trotter convergence itself. *)
From Coq Require Import List Arith QArith Permutation.
Import ListNotations.
From Yaqs Require Import Model.PauliFSM Proofs.PauliFSMP Model.CircuitLib Proofs.CircuitLibP.

Theorem C07_fsm_denotes_terms : forall L ts, (1 <= L)%nat -> (forall t, In t ts -> length (snd t) = L) -> denote (build L ts) = ts.
Proof. exact fsm_denotes_terms. Qed.
Print Assumptions C07_fsm_denotes_terms.

Theorem C07_ising_step_covers_chain : forall L, Permutation (ising_bonds L false) (chain_bonds L).
Proof. exact ising_bonds_cover_chain. Qed.
Print Assumptions C07_ising_step_covers_chain.
Theorem C07_ising_step_periodic : forall L, (1 < L)%nat -> ising_bonds L true = ising_bonds L false ++ [(0, L - 1)%nat].
Proof. exact ising_bonds_periodic. Qed.
Print Assumptions C07_ising_step_periodic.

Example C07_example :
  let ts := [(1#2, [PZ;PZ;PI;PI]); (1#2, [PI;PZ;PZ;PI]); (1#2, [PI;PI;PZ;PZ]); (3#1, [PX;PI;PI;PI]); (3#1, [PI;PX;PI;PI]);
             (3#1, [PI;PI;PX;PI]); (3#1, [PI;PI;PI;PX]); (5#1, [PZ;PZ;PI;PI])]%Q in
  denote (build 4 ts) = ts /\ bond_dims (build 4 ts) = [7; 5; 3]%nat.
Proof. vm_compute. split; reflexivity. Qed.
