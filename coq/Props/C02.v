(* C02 — noise-free circuit simulation equals the exact unitary semantics of the circuit.
   Scheduling half: whatever the layering does, the executed gate sequence is a dependency-preserving linearisation of the
   circuit and all such linearisations denote the same operator.  Gate half: Props/C18.v (matrix = standard gate, generator
   exponentiates to it).  Trajectory half: a noise-free run executes one trajectory whatever was requested. *)
From Coq Require Import List Arith Permutation.
Import ListNotations.
From Coq Require Import Ring.
From Yaqs Require Import LinAlg.TT.
From Yaqs Require Import Model.DigitalLoop Proofs.DigitalLoopP Model.Params Proofs.ParamsP.
From Yaqs Require Import Model.Window Proofs.WindowP.

Theorem C02_schedule_is_permutation : forall sampling fuel c ex ev, NoDup (map id c) ->
  run sampling fuel c = Some (ex, ev) -> Permutation ex (filter gate c).
Proof. exact executed_perm. Qed.
Print Assumptions C02_schedule_is_permutation.

Theorem C02_schedule_preserves_dependencies : forall sampling fuel c ex ev, NoDup (map id c) ->
  run sampling fuel c = Some (ex, ev) ->
  forall a b, gate a = true -> gate b = true -> before c a b -> shares a b = true -> before ex a b.
Proof. exact order_preserved. Qed.
Print Assumptions C02_schedule_preserves_dependencies.

(* any two linearisations that keep the order of gates sharing a qubit have the same product, in every monoid semantics
   in which gates on disjoint qubits commute (in particular: unitaries on the state space) *)
Theorem C02_linearisations_agree : forall (M : Type) (op : M -> M -> M) (e : M),
  (forall a b c, op a (op b c) = op (op a b) c) -> (forall a, op e a = a) -> (forall a, op a e = a) ->
  forall (sem : instr -> M), (forall a b, shares a b = false -> op (sem a) (sem b) = op (sem b) (sem a)) ->
  forall l1 l2, NoDup l1 -> Permutation l1 l2 ->
  (forall a b, shares a b = true -> before l1 a b -> before l2 a b) -> prod M op e sem l1 = prod M op e sem l2.
Proof. exact linearisations_agree. Qed.
Print Assumptions C02_linearisations_agree.

Theorem C02_loop_terminates : forall sampling c, trajectory sampling c <> None.
Proof. exact trajectory_terminates. Qed.
Print Assumptions C02_loop_terminates.

(* the result does not depend on how many trajectories were requested: a noise-free run executes exactly one *)
Theorem C02_one_trajectory : forall p, snd (run_strong false p) = 1.
Proof. intro p. reflexivity. Qed.
Print Assumptions C02_one_trajectory.

(* gauge discipline: the loop restores the right-canonical form after every two-qubit gate, so every windowed gate
   application starts from the form it presupposes *)
Theorem C02_gauge_discipline : forall ex, forallb (fun b => b) (gauge_run true (gauge_word ex)) = true.
Proof. exact gauge_discipline. Qed.
Print Assumptions C02_gauge_discipline.

(* one-qubit gates (apply_single_qubit_gate contracts the gate matrix with the site tensor): over any commutative ring, for any chain, contracting a local operator u with the tensor of one
   site changes the represented vector exactly as u acts on that tensor factor — every amplitude, any length and bond dimensions *)
Theorem C02_local_operator_acts_exactly : forall (K : Type) (k0 k1 : K) (kadd kmul ksub : K -> K -> K) (kopp : K -> K),
  ring_theory k0 k1 kadd kmul ksub kopp (@eq K) ->
  forall pre s post u spre p spost, length spre = length pre ->
  amp K k0 k1 kadd kmul (pre ++ rotate K k0 kadd kmul u s :: post) (spre ++ p :: spost) =
  bsum K k0 kadd (d K s) (fun q => kmul (u p q) (amp K k0 k1 kadd kmul (pre ++ s :: post) (spre ++ q :: spost))).
Proof. exact local_operator_acts_on_amplitudes. Qed.
Print Assumptions C02_local_operator_acts_exactly.

(* the window cut out for a two-qubit gate: inside the chain, contains the gate, at least two sites, distances kept *)
Theorem C02_window_contains_gate : forall first last size L, first < last -> last < L ->
  let w := window first last size L in
  fst w <= first /\ last <= snd w /\ snd w < L /\ 2 <= window_len w /\
  in_window w last - in_window w first = last - first /\ in_window w last < window_len w.
Proof. exact window_sound. Qed.
Print Assumptions C02_window_contains_gate.
