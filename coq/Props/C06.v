(* C06 — all analog solvers describe the same system and index sites the same way. *)
From Coq Require Import List Arith.
Import ListNotations.
From Yaqs Require Import Model.SiteOrder Proofs.SiteOrderP.

Theorem C06_conventions_agree : forall sigma, binary sigma -> solver_state_idx sigma = kron_idx sigma.
Proof. exact conventions_agree. Qed.
Print Assumptions C06_conventions_agree.
Theorem C06_observable_reads_its_site : forall sigma i, binary sigma -> i < length sigma ->
  z_sign (length sigma) i (solver_state_idx sigma) = Nat.eqb (nth i sigma 0) 1.
Proof. exact z_reads_site. Qed.
Print Assumptions C06_observable_reads_its_site.
Theorem C06_digits_roundtrip : forall l, binary l -> to_digits (length l) (kron_idx l) = l.
Proof. exact to_digits_kron. Qed.
Print Assumptions C06_digits_roundtrip.
(* two-site observables and two-site noise operators of the dense solvers (embedded by _embed_generic on an adjacent pair) act on
   the digits of exactly their two sites, in that order *)
Theorem C06_pair_operator_reads_its_sites : forall sigma s, binary sigma -> S s < length sigma ->
  pair_digit (length sigma) s (solver_state_idx sigma) = 2 * nth s sigma 0 + nth (S s) sigma 0.
Proof. exact pair_reads_its_sites. Qed.
Print Assumptions C06_pair_operator_reads_its_sites.
Example C06_example : solver_state_idx [1; 0; 0] = 4 /\ vec_idx [1; 0; 0] = 1 /\ z_sign 3 0 4 = true /\ z_sign 3 2 4 = false.
Proof. vm_compute. repeat split. Qed.
