(* C20 — a run depends only on its own arguments. *)
From Coq Require Import List Arith.
Import ListNotations.
From Yaqs Require Import Model.Params Proofs.ParamsP Model.ObjStore Proofs.ObjStoreP Model.DigitalLoop Model.InitRule Gen.InitGen Proofs.InitGenP Model.Failures Proofs.FailuresP.

(* strong / analog front-ends: whatever sequence of noisy and noise-free runs was made before on the same parameter
   object, a run executes as many trajectories as a fresh object would *)
Theorem C20_history_independent_strong : forall h noisy p,
  snd (run_strong noisy (strong_history h p)) = snd (run_strong noisy p).
Proof. exact strong_history_independent. Qed.
Print Assumptions C20_history_independent_strong.
Theorem C20_num_traj_preserved : forall h p, num_traj (strong_history h p) = num_traj p.
Proof. exact strong_history_num_traj. Qed.
Print Assumptions C20_num_traj_preserved.

(* weak front-end: trajectories executed and counts returned do not depend on the history either; shots is restored *)
Theorem C20_history_independent_analog_backends : forall h s noisy p,
  snd (run_analog s noisy (analog_history h p)) = snd (run_analog s noisy p) /\ num_traj (analog_history h p) = num_traj p.
Proof. intros h s noisy p. split; [apply analog_history_independent|apply analog_history_num_traj]. Qed.
Print Assumptions C20_history_independent_analog_backends.

Theorem C20_history_independent_weak : forall h noisy p,
  snd (fst (run_weak noisy (weak_history h p))) = snd (fst (run_weak noisy p)) /\
  snd (run_weak noisy (weak_history h p)) = snd (run_weak noisy p).
Proof. exact weak_history_independent. Qed.
Print Assumptions C20_history_independent_weak.
Theorem C20_shots_restored : forall h p, shots (weak_history h p) = shots p.
Proof. exact weak_history_shots. Qed.
Print Assumptions C20_shots_restored.

(* the number of result columns of a layer-sampling run depends on the circuit of THIS run only: not on the circuits the same
   parameter object was used for before, nor on the num_mid_measurements it was constructed with *)
Theorem C20_columns_history_independent : forall h labelled p,
  snd (run_layers labelled (layers_history h p)) = if sample_layers p then labelled + 2 else 1.
Proof. exact layers_history_independent. Qed.
Print Assumptions C20_columns_history_independent.

(* the objects passed in are left unchanged: simulator.run samples the noise model into a fresh object (and deep-copies states and
   circuits per trajectory); whatever sequence of writes and prunings the back-ends then perform on objects allocated by the run,
   every object that existed when the run started keeps all its fields *)
Theorem C20_inputs_unchanged : forall ops n0 h, n0 <= length h -> forallb (owned n0) ops = true ->
  forall i, i < n0 -> nth_error (exec ops h) i = nth_error h i.
Proof. exact caller_objects_unchanged. Qed.
Print Assumptions C20_inputs_unchanged.
Theorem C20_sampled_noise_model_unchanged : forall h nm internal,
  forallb (owned (length h)) (internal (length h)) = true ->
  forall i, i < length h -> nth_error (run_on_sample h nm internal) i = nth_error h i.
Proof. exact sampled_run_leaves_model. Qed.
Print Assumptions C20_sampled_noise_model_unchanged.

(* a call that the front-end refuses (a noisy circuit run that asks for the final state) is not a run: it leaves the parameter object as
   it was, and after any history of runs AND refused calls the next run behaves as on a fresh object *)
Theorem C20_refused_run_leaves_object : forall p q, fst (attempt_weak true true p) = p /\ fst (attempt_strong true true q) = q.
Proof. exact refused_run_leaves_object. Qed.
Print Assumptions C20_refused_run_leaves_object.
Theorem C20_history_with_refusals_independent : forall h noisy p q,
  run_weak noisy (weak_attempts h p) = run_weak noisy p /\ run_strong noisy (strong_attempts h q) = run_strong noisy q.
Proof. exact attempts_history_independent. Qed.
Print Assumptions C20_history_with_refusals_independent.

(* a run can also FAIL inside the engines (an unsupported gate, a worker error beyond its retries): after any history of completed,
   refused and failed calls through the public entry point the object carries the caller's request and the next run executes what it
   would on a fresh object *)
Theorem C20_history_with_failures_independent : forall h noisy p q,
  run_strong noisy (strong_tries h p) = run_strong noisy p /\ run_weak noisy (weak_tries h q) = run_weak noisy q.
Proof. exact tries_history_independent. Qed.
Print Assumptions C20_history_with_failures_independent.

(* result storage is re-initialised per run, as the SOURCE states it now (Gen/InitGen.v is regenerated from Observable.initialize on every
   run): the shape of Observable.trajectories and the length of Observable.results are a function of the parameter object of THIS run
   alone — one row per requested trajectory or shot, the columns the front-end models count — never of what an earlier run left behind *)
Theorem C20_source_allocation_is_model : forall k flag num_traj ntimes shots mid,
  init_shape_src k flag num_traj ntimes shots mid = init_shape k flag num_traj ntimes shots mid.
Proof. exact init_shape_src_is_model. Qed.
Print Assumptions C20_source_allocation_is_model.
Theorem C20_source_strong_allocation_matches_front_end : forall sampling n ntimes shots (c : list instr),
  init_shape_src KStrong sampling n ntimes shots (length (filter (is_kind SBar) c))
  = Some (n, columns_allocated sampling c, columns_allocated sampling c).
Proof. exact strong_allocation_matches_front_end. Qed.
Print Assumptions C20_source_strong_allocation_matches_front_end.
Theorem C20_source_strong_allocation_matches_layers : forall labelled p n ntimes shots,
  init_shape_src KStrong (sample_layers p) n ntimes shots labelled = Some (n, snd (run_layers labelled p), snd (run_layers labelled p)).
Proof. exact strong_allocation_matches_layers. Qed.
Print Assumptions C20_source_strong_allocation_matches_layers.
Theorem C20_source_weak_and_analog_allocation : forall flag n ntimes shots mid,
  init_shape_src KWeak flag n ntimes shots mid = Some (shots, 1, 1)
  /\ init_shape_src KAnalog flag n ntimes shots mid = Some (n, (if flag then ntimes else 1), ntimes).
Proof. intros. split; [apply weak_allocation|apply analog_allocation]. Qed.
Print Assumptions C20_source_weak_and_analog_allocation.

Example C20_example : snd (run_strong true (strong_history [false; true; false] {| num_traj := 7; traj_rows := 0 |})) = 7
  /\ snd (run_weak false (weak_history [true] {| shots := 5; meas := repeat None 5 |})) = 5.
Proof. vm_compute. split; reflexivity. Qed.
