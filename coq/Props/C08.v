(* C08 — the bond dimension never exceeds the user's cap. *)
From Coq Require Import String.
From Coq Require Import List Arith QArith Permutation.
Import ListNotations.
From Yaqs Require Import Base.Num Model.RankSelect Proofs.RankSelectP Gen.RankGen Proofs.RankGenP.
Local Open Scope nat_scope.

(* every rank the two-site split can return, for ANY spectrum, threshold, number system (exact or binary64),
   both truncation modes and both values of the dynamic flag *)
Theorem C08_split_bounded_dw : forall (N : Num) s thr minb maxb dyn,
  keep_dw N s thr minb maxb dyn <= Nat.max maxb (Nat.min (length s) minb).
Proof. exact keep_dw_cap. Qed.
Print Assumptions C08_split_bounded_dw.

Theorem C08_split_bounded_relative : forall (N : Num) s thr minb maxb, keep_rel N s thr minb maxb <= Nat.max maxb minb.
Proof. exact keep_rel_cap. Qed.
Print Assumptions C08_split_bounded_relative.

Theorem C08_two_site_svd_bounded : forall (N : Num) s thr minb m, keep_tss N s thr minb (Some m) <= m.
Proof. exact keep_tss_cap. Qed.
Print Assumptions C08_two_site_svd_bounded.

(* the uncapped SVD-based centre shift (apply_dissipation, normalisation after a jump): a merged matrix of rank <= chi
   (singular values beyond the chi-th vanish) that carries at least the threshold weight is re-split with at most
   max(chi, min_bond_dim) values: the shift never enlarges a bond beyond the bound of the property *)
Theorem C08_svd_shift_bounded : forall s thr minb chi, (0 < thr)%Q -> Forall (fun x => x == 0)%Q (skipn chi s) ->
  (thr <= tail_weight QN s 0)%Q -> keep_tss QN s thr minb None <= Nat.max chi (Nat.min (length s) minb).
Proof. exact tss_rank_bound. Qed.
Print Assumptions C08_svd_shift_bounded.

(* ---- tie to the source by translation: Gen/RankGen.v is regenerated from /repo on every run; the generated definitions are
   proved equal to the model, and the bound is restated directly about them ---- *)
Theorem C08_source_split_is_model_dw : forall (N : Num) s dyn thr minb maxb,
  split_keep N s dyn "discarded_weight"%string thr minb maxb = keep_dw N s thr minb maxb dyn.
Proof. exact split_keep_dw. Qed.
Print Assumptions C08_source_split_is_model_dw.
Theorem C08_source_split_is_model_relative : forall (N : Num) s dyn thr minb maxb,
  split_keep N s dyn "relative"%string thr minb maxb = keep_rel N s thr minb maxb.
Proof. exact split_keep_rel. Qed.
Print Assumptions C08_source_split_is_model_relative.
Theorem C08_source_two_site_svd_is_model : forall (N : Num) s thr mb minb, tss_keep N s thr mb minb = keep_tss N s thr minb mb.
Proof. exact tss_keep_eq. Qed.
Print Assumptions C08_source_two_site_svd_is_model.
Theorem C08_source_truncated_right_svd_is_model : forall (N : Num) s thr mb, trs_keep N s thr mb = keep_trs N s thr mb.
Proof. exact trs_keep_eq. Qed.
Print Assumptions C08_source_truncated_right_svd_is_model.
Theorem C08_source_split_bounded_dw : forall (N : Num) s dyn thr minb maxb,
  split_keep N s dyn "discarded_weight"%string thr minb maxb <= Nat.max maxb (Nat.min (List.length s) minb).
Proof. exact source_split_bounded_dw. Qed.
Print Assumptions C08_source_split_bounded_dw.
Theorem C08_source_split_bounded_relative : forall (N : Num) s dyn thr minb maxb,
  split_keep N s dyn "relative"%string thr minb maxb <= Nat.max maxb minb.
Proof. exact source_split_bounded_rel. Qed.
Print Assumptions C08_source_split_bounded_relative.
Theorem C08_source_two_site_svd_bounded : forall (N : Num) s thr minb m, tss_keep N s thr (Some m) minb <= m.
Proof. exact source_tss_bounded. Qed.
Print Assumptions C08_source_two_site_svd_bounded.
Theorem C08_source_truncated_right_svd_bounded : forall (N : Num) s thr m, trs_keep N s thr (Some m) <= m.
Proof. exact source_trs_bounded. Qed.
Print Assumptions C08_source_truncated_right_svd_bounded.

(* invariant over every sequence of operations with adversarially chosen spectra: each bond stays below
   max(cap, min_bond_dim, its initial value) *)
Theorem C08_invariant : forall B dims0 ops dims, Forall (op_ok B) ops -> bounded B dims0 dims ->
  bounded B dims0 (fold_left bond_step ops dims).
Proof. exact bond_invariant. Qed.
Print Assumptions C08_invariant.

Theorem C08_initial_state_bounded : forall B dims, bounded B dims dims.
Proof. exact bounded_refl. Qed.
Print Assumptions C08_initial_state_bounded.

Theorem C08_every_dw_split_admissible : forall N i s thr minb maxb dyn,
  op_ok (Nat.max maxb minb) (SplitAt i (keep_dw N s thr minb maxb dyn)).
Proof. exact split_dw_ok. Qed.
Print Assumptions C08_every_dw_split_admissible.

Theorem C08_every_relative_split_admissible : forall N i s thr minb maxb,
  op_ok (Nat.max maxb minb) (SplitAt i (keep_rel N s thr minb maxb)).
Proof. exact split_rel_ok. Qed.
Print Assumptions C08_every_relative_split_admissible.

(* MPS.truncate (the only place the BUG integrator enforces the cap) re-splits every bond exactly once, whatever the
   position of the orthogonality centre; each re-split respects the cap by C08_two_site_svd_bounded *)
Theorem C08_truncate_covers_all_bonds : forall L c, c < L -> Permutation (map (bond_of L) (truncate_calls L c)) (seq 0 (L - 1)).
Proof. exact truncate_covers_all_bonds. Qed.
Print Assumptions C08_truncate_covers_all_bonds.

(* non-vacuity: a cap that is not a power of the local dimension, a spectrum that wants more than the cap *)
Example C08_cap3_example : keep_dw QN [1; 9#10; 8#10; 7#10]%Q (1#1000000)%Q 1 3 true = 3
  /\ bounded 3 [1;2;1] (fold_left bond_step [SplitAt 1 (keep_dw QN [1; 9#10; 8#10; 7#10]%Q (1#1000000)%Q 1 3 true); ShrinkAt 0 5] [1;2;1]).
Proof. split; [vm_compute; reflexivity|]. vm_compute. repeat constructor. Qed.
(* a product-state bond (rank 1) with min_bond_dim = 1 stays at 1; with the default min_bond_dim = 2 it is padded to 2 *)
Example C08_svd_shift_example : keep_tss QN [1; 0]%Q (1#1000000000000)%Q 1 None = 1 /\ keep_tss QN [1; 0]%Q (1#1000000000000)%Q 2 None = 2.
Proof. vm_compute. split; reflexivity. Qed.
