(* C09 — truncation discards at most the threshold weight; rank rules of the split. *)
From Coq Require Import String.
From Coq Require Import List Arith QArith.
Import ListNotations.
From Coq Require Import Ring.
From Yaqs Require Import LinAlg.TT.
From Yaqs Require Import Base.Num Model.RankSelect Proofs.RankSelectP Gen.RankGen Proofs.RankGenP.

(* discarded-weight mode, exact arithmetic: what is cut weighs at most the threshold, unless the cap forced it *)
Theorem C09_dw_rule : forall s thr minb maxb dyn, (0 <= thr)%Q -> let keep := keep_dw QN s thr minb maxb dyn in
  (tail_weight QN s keep <= thr)%Q \/
  ((maxb < keep_dw_uncapped QN s thr minb)%nat /\ keep = Nat.max maxb (Nat.min (length s) minb)).
Proof. exact dw_rule. Qed.
Print Assumptions C09_dw_rule.

Theorem C09_dw_uncapped_weight : forall s thr minb, (0 <= thr)%Q ->
  (tail_weight QN s (keep_dw_uncapped QN s thr minb) <= thr)%Q.
Proof. exact dw_uncapped_weight. Qed.
Print Assumptions C09_dw_uncapped_weight.

(* ... and no more is kept than needed: cutting one more value would exceed the threshold *)
Theorem C09_dw_maximal : forall s thr minb, let k := keep_dw_uncapped QN s thr minb in
  (Nat.min (length s) minb < k)%nat -> (k < length s)%nat \/ (consumed (rev s) 0 thr < length s)%nat ->
  (1 <= k)%nat /\ (thr < tail_weight QN s (k - 1))%Q.
Proof. exact dw_uncapped_maximal. Qed.
Print Assumptions C09_dw_maximal.

Theorem C09_dw_clamped : forall (N : Num) s thr minb maxb dyn,
  keep_dw N s thr minb maxb dyn = Nat.max (Nat.min (keep_dw_uncapped N s thr minb) maxb) (Nat.min (length s) minb).
Proof. exact keep_dw_is_clamped_uncapped. Qed.
Print Assumptions C09_dw_clamped.

(* the returned rank always exists: never more than the number of singular values (any number system) *)
Theorem C09_keep_le_rank_dw : forall (N : Num) s thr minb maxb dyn, (keep_dw N s thr minb maxb dyn <= length s)%nat.
Proof. exact keep_dw_le_len. Qed.
Print Assumptions C09_keep_le_rank_dw.
Theorem C09_keep_le_rank_relative : forall (N : Num) s thr minb maxb, (keep_rel N s thr minb maxb <= length s)%nat.
Proof. exact keep_rel_le_len. Qed.
Print Assumptions C09_keep_le_rank_relative.

(* relative mode: exactly the values at or above threshold * largest are counted, then clamped by min/max bond *)
Theorem C09_relative_count : forall smax r thr, (0 < smax)%Q ->
  count_rel QN (smax :: r) thr = length (filter (fun x => Qle_bool (thr * smax) x) (smax :: r)).
Proof. exact count_rel_spec. Qed.
Print Assumptions C09_relative_count.
Theorem C09_relative_rule : forall (N : Num) s thr minb maxb,
  keep_rel N s thr minb maxb = Nat.min (Nat.max (Nat.min (count_rel N s thr) maxb) minb) (length s).
Proof. exact keep_rel_clamp. Qed.
Print Assumptions C09_relative_rule.

(* two_site_svd (canonicalisation, MPS.truncate): strictly less than the threshold is cut, at least two kept *)
Theorem C09_two_site_svd_weight : forall s thr minb, (0 < thr)%Q -> (tail_weight QN s (keep_tss QN s thr minb None) < thr)%Q.
Proof. exact tss_weight. Qed.
Print Assumptions C09_two_site_svd_weight.
Theorem C09_two_site_svd_min : forall (N : Num) s thr minb, (Nat.min (length s) minb <= keep_tss N s thr minb None)%nat.
Proof. exact keep_tss_min. Qed.
Print Assumptions C09_two_site_svd_min.
Theorem C09_two_site_svd_le_rank : forall (N : Num) s thr minb mb, (keep_tss N s thr minb mb <= length s)%nat.
Proof. exact keep_tss_le_len. Qed.
Print Assumptions C09_two_site_svd_le_rank.

(* ---- tie to the source by translation (Gen/RankGen.v regenerated from /repo on every run): the rule theorems above are about
   the model; these equalities carry them to what the source says now, and the rank bound is restated on the generated code ---- *)
Theorem C09_source_split_is_model_dw : forall (N : Num) s dyn thr minb maxb,
  split_keep N s dyn "discarded_weight"%string thr minb maxb = keep_dw N s thr minb maxb dyn.
Proof. exact split_keep_dw. Qed.
Print Assumptions C09_source_split_is_model_dw.
Theorem C09_source_split_is_model_relative : forall (N : Num) s dyn thr minb maxb,
  split_keep N s dyn "relative"%string thr minb maxb = keep_rel N s thr minb maxb.
Proof. exact split_keep_rel. Qed.
Print Assumptions C09_source_split_is_model_relative.
Theorem C09_source_two_site_svd_is_model : forall (N : Num) s thr mb minb, tss_keep N s thr mb minb = keep_tss N s thr minb mb.
Proof. exact tss_keep_eq. Qed.
Print Assumptions C09_source_two_site_svd_is_model.
Theorem C09_source_keep_le_rank : forall (N : Num) s dyn thr minb maxb mode, mode = "discarded_weight"%string \/ mode = "relative"%string ->
  (split_keep N s dyn mode thr minb maxb <= List.length s)%nat.
Proof. exact source_split_le_rank. Qed.
Print Assumptions C09_source_keep_le_rank.
Theorem C09_source_dw_rule : forall s thr minb maxb dyn, (0 <= thr)%Q -> let keep := split_keep QN s dyn "discarded_weight"%string thr minb maxb in
  (tail_weight QN s keep <= thr)%Q \/
  ((maxb < keep_dw_uncapped QN s thr minb)%nat /\ keep = Nat.max maxb (Nat.min (List.length s) minb)).
Proof. intros s thr minb maxb dyn H. cbv zeta. rewrite split_keep_dw. exact (dw_rule s thr minb maxb dyn H). Qed.
Print Assumptions C09_source_dw_rule.

(* what "discarded weight" means for the state: over any commutative ring with an involution, if theta = U diag(s) V with orthonormal
   columns of U and orthonormal rows of V (what the SVD returns), then keeping the first [keep] singular values changes theta by
   EXACTLY the weight of the discarded ones: |theta - theta_keep|_F^2 = sum_{k >= keep} s_k conj(s_k).  Any matrix size, any rank. *)
Theorem C09_truncation_error_is_discarded_weight : forall (K : Type) (k0 k1 : K) (kadd kmul ksub : K -> K -> K) (kopp cj : K -> K),
  ring_theory k0 k1 kadd kmul ksub kopp (@eq K) -> (forall a b, cj (kadd a b) = kadd (cj a) (cj b)) ->
  (forall a b, cj (kmul a b) = kmul (cj a) (cj b)) -> cj k0 = k0 -> cj k1 = k1 ->
  forall m n rank keep U s V,
  (forall k k', (k < rank)%nat -> (k' < rank)%nat -> bsum K k0 kadd m (fun a => kmul (U a k) (cj (U a k'))) = if Nat.eqb k k' then k1 else k0) ->
  (forall k k', (k < rank)%nat -> (k' < rank)%nat -> bsum K k0 kadd n (fun b => kmul (V k b) (cj (V k' b))) = if Nat.eqb k k' then k1 else k0) ->
  frob2 K k0 kadd kmul cj m n (svd_tail K k0 k1 kadd kmul m n rank keep U s V) =
  bsum K k0 kadd rank (fun k => kmul (tail_ind K k0 k1 keep k) (kmul (s k) (cj (s k)))).
Proof. exact truncation_error_is_discarded_weight. Qed.
Print Assumptions C09_truncation_error_is_discarded_weight.

Example C09_example : keep_dw QN [1; 1#2; 1#10; 1#100]%Q (2#100)%Q 1 8 false = 2%nat
  /\ (tail_weight QN [1; 1#2; 1#10; 1#100]%Q 2 <= 2#100)%Q /\ (2#100 < tail_weight QN [1; 1#2; 1#10; 1#100]%Q 1)%Q.
Proof. vm_compute. repeat split; discriminate. Qed.

(* the three ways of distributing the singular values give the same product, entry by entry, at every kept rank (LinAlg/TT.v) *)
Theorem C09_distributions_give_the_same_product : forall (K : Type) (k0 k1 : K) (kadd kmul ksub : K -> K -> K) (kopp : K -> K),
  ring_theory k0 k1 kadd kmul ksub kopp (@eq K) ->
  forall keep (U : nat -> nat -> K) (s r : nat -> K) (V : nat -> nat -> K), (forall k, s k = kmul (r k) (r k)) -> forall a b,
  bsum K k0 kadd keep (fun k => kmul (kmul (U a k) (s k)) (V k b)) = bsum K k0 kadd keep (fun k => kmul (U a k) (kmul (s k) (V k b))) /\
  bsum K k0 kadd keep (fun k => kmul (kmul (U a k) (s k)) (V k b)) = bsum K k0 kadd keep (fun k => kmul (kmul (U a k) (r k)) (kmul (r k) (V k b))).
Proof. exact svd_distributions. Qed.
Print Assumptions C09_distributions_give_the_same_product.
