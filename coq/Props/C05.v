(* C05 — noise-free analog evolution: unitary, energy conserving, convergent.
   Mechanised: the local step list of one dynamic TDVP time step is consistent with the projector-splitting decomposition for
   EVERY chain length and EVERY pattern of one-site / two-site branches the bond cap can induce: in each half sweep every site
   receives net time +dt/2 and every bond net time -dt/2; and without noise the order-1 and order-2 pipelines apply the same
   number of unitary steps per column.  PARTIAL — not mechanised: that each local Krylov step is the unitary it stands for (C19),
   that truncation perturbs by at most the threshold (C09), that a symmetric splitting is second-order accurate and BUG first
   order (searched numerically against exp(-iHt)).
   The BUG integrator's step list (bug.bug) is in the model too: every site is evolved forward by one full dt exactly once, from the
   last site down to the first, with the operator tensor of its own site, the left block of the sites below it and the right block
   of the already updated sites above it, and one truncation closes the step. *)
From Coq Require Import List Arith ZArith.
Import ListNotations.
From Yaqs Require Import Model.TdvpSweep Proofs.TdvpSweepP Model.JumpPipeline Proofs.JumpPipelineP Model.BugSweep Proofs.BugSweepP Model.SingleSite Proofs.SingleSiteP.
From Yaqs Require LinAlg.Strang.
From Yaqs Require Import Proofs.PalP.

Theorem C05_time_budget : forall ones, 2 <= length ones -> sane ones ->
  (forall j, j < length ones -> total_site j (fw 0 ones false) = 1%Z) /\
  (forall j, j < length ones - 1 -> total_bond j (fw 0 ones false) = (-1)%Z).
Proof. exact half_sweep_time_budget. Qed.
Print Assumptions C05_time_budget.

(* the time a step spends on site j is spent with operator tensor j of the Hamiltonian given to THIS call (the correspondence
   check compares step_ops with the tensors the real sweep hands to its kernels, also for an MPO object rebuilt in place) *)
Theorem C05_time_spent_with_own_operator : forall j s, site_time j s <> 0%Z <-> In j (step_ops s).
Proof. exact site_time_iff_own_operator. Qed.
Print Assumptions C05_time_spent_with_own_operator.

Theorem C05_orders_apply_same_unitaries : forall sched noise j, 1 <= j ->
  count_sym U (w1 sched noise j) = count_sym U (sample2 sched j).
Proof. intros sched noise j Hj. rewrite (w1_U sched noise j). rewrite (order2_time sched j Hj). reflexivity. Qed.
Print Assumptions C05_orders_apply_same_unitaries.

Theorem C05_bug_time_budget : forall L j, btotal j (bug_steps L) = if j <? L then 1%Z else 0%Z.
Proof. exact bug_time_budget. Qed.
Print Assumptions C05_bug_time_budget.
Theorem C05_bug_own_blocks : forall L s, In s (bug_steps L) ->
  match s with BUpd i o l r => i < L /\ o = i /\ l = i /\ r = S i | BTrunc => True end.
Proof. exact bug_own_blocks. Qed.
Print Assumptions C05_bug_own_blocks.
Theorem C05_bug_right_block_is_updated : forall L pre i o l r post, bug_steps L = pre ++ BUpd i o l r :: post ->
  forall j, i < j -> j < L -> In j (bsites pre).
Proof. exact bug_right_block_is_updated. Qed.
Print Assumptions C05_bug_right_block_is_updated.
Theorem C05_bug_truncates_last : forall L, exists pre, bug_steps L = pre ++ [BTrunc] /\ ~ In BTrunc pre.
Proof. exact bug_truncates_last. Qed.
Print Assumptions C05_bug_truncates_last.
(* the one-site integrator (the route of a one-site chain): every site forward by one full dt, every bond backward by one full dt *)
Theorem C05_single_site_budget : forall L j, 1 <= L ->
  ss_total (ss_site j) (ss_analog L) = (if j <? L then 2 else 0) /\ ss_total (ss_bond j) (ss_analog L) = (if j <? L - 1 then 2 else 0) /\
  ss_total (ss_site j) (ss_circuit L) = (if j <? L then 2 else 0) /\ ss_total (ss_bond j) (ss_circuit L) = (if j <? L - 1 then 2 else 0).
Proof. exact single_site_budget. Qed.
Print Assumptions C05_single_site_budget.
Example C05_single_site_example : ss_analog 1 = [SSite 0 2] /\ ss_analog 2 = [SSite 0 1; SBond 0 1; SSite 1 2; SBond 0 1; SSite 0 1].
Proof. vm_compute. split; reflexivity. Qed.

Example C05_bug_example : bug_steps 3 = [BUpd 2 2 2 3; BUpd 1 1 1 2; BUpd 0 0 0 1; BTrunc].
Proof. vm_compute. reflexivity. Qed.

Example C05_example : fw 0 [false; true; false; false] false = [TPair 0; TSite 1 false; TSite 1 true; TBond 1; TPair 2]
  /\ sweep [false;false;false] [false;false;false] = [TPair 0; TSite 1 false; TPair 1; TPair 1; TSite 1 false; TPair 0].
Proof. vm_compute. split; reflexivity. Qed.

(* a sweep over any list of (non-commuting) local generators followed by its mirror image is the exponential of the doubled sum through
   second order: the structure of a time step whose decisions are uniform (all one-site or all two-site updates) *)
Theorem C05_mirrored_sweep_is_second_order :
  forall (R : Type) (ring0 ring1 : R) (add mul sub : R -> R -> R) (opp : R -> R) (req : R -> R -> Prop)
         (Rops : @Ncring.Ring_ops R ring0 ring1 add mul sub opp req), @Ncring.Ring R ring0 ring1 add mul sub opp req Rops ->
  forall l : list R, Strang.teq (Strang.tmul (Strang.tprod l) (Strang.tprod (rev l))) (Strang.texp (Strang.dsum l)).
Proof. exact @Strang.palindrome. Qed.
Print Assumptions C05_mirrored_sweep_is_second_order.

(* a half step, a full step, a half step is exact through second order in the step (LinAlg/Strang.v: series truncated after dt^2 over
   any ring, the last entry of a triple being twice the second-order coefficient; texp X = (1, X, X*X)) *)
Theorem C05_symmetric_splitting_is_second_order :
  forall (R : Type) (ring0 ring1 : R) (add mul sub : R -> R -> R) (opp : R -> R) (req : R -> R -> Prop)
         (Rops : @Ncring.Ring_ops R ring0 ring1 add mul sub opp req), @Ncring.Ring R ring0 ring1 add mul sub opp req Rops ->
  forall C B : R, Strang.teq (Strang.tmul (Strang.tmul (Strang.texp C) (Strang.texp B)) (Strang.texp C)) (Strang.texp (add (add C C) B)).
Proof. exact @Strang.strang. Qed.
Print Assumptions C05_symmetric_splitting_is_second_order.

(* with uniform decisions the step list of one time step IS such a mirrored sweep: it reads the same backwards *)
Theorem C05_uniform_sweep_is_palindrome : forall n,
  (let o := repeat true (S n) in rev (sweep o o) = sweep o o) /\ (let o := repeat false (S (S n)) in rev (sweep o o) = sweep o o).
Proof. intro n. split; [apply sweep_one_site_palindrome|apply sweep_two_site_palindrome]. Qed.
Print Assumptions C05_uniform_sweep_is_palindrome.
