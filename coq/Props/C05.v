(* C05 — noise-free analog evolution: unitary, energy conserving, convergent.
   Mechanised: the local step list of one dynamic TDVP time step is consistent with the projector-splitting decomposition for
   EVERY chain length and EVERY pattern of one-site / two-site branches the bond cap can induce: in each half sweep every site
   receives net time +dt/2 and every bond net time -dt/2; and without noise the order-1 and order-2 pipelines apply the same
   number of unitary steps per column.  PARTIAL — not mechanised: that each local Krylov step is the unitary it stands for (C19),
   that truncation perturbs by at most the threshold (C09), that a symmetric splitting is second-order accurate and BUG first
   order (searched numerically against exp(-iHt)). *)
From Coq Require Import List Arith ZArith.
Import ListNotations.
From Yaqs Require Import Model.TdvpSweep Proofs.TdvpSweepP Model.JumpPipeline Proofs.JumpPipelineP.

Theorem C05_time_budget : forall ones, 2 <= length ones -> sane ones ->
  (forall j, j < length ones -> total_site j (fw 0 ones false) = 1%Z) /\
  (forall j, j < length ones - 1 -> total_bond j (fw 0 ones false) = (-1)%Z).
Proof. exact half_sweep_time_budget. Qed.
Print Assumptions C05_time_budget.

(* the time a step spends on site j is spent with operator tensor j of the Hamiltonian given to THIS call (the correspondence
   check compares step_ops with the tensors the real sweep hands to its kernels, also for an MPO object rebuilt in place) *)
Theorem C05_time_spent_with_own_operator : forall j s, site_time j s <> 0%Z <-> In j (step_ops s).
Proof. exact site_time_iff_own_operator. Qed.
Print Assumptions C05_time_spent_with_own_operator.

Theorem C05_orders_apply_same_unitaries : forall sched noise j, 1 <= j ->
  count_sym U (w1 sched noise j) = count_sym U (sample2 sched j).
Proof. intros sched noise j Hj. rewrite (w1_U sched noise j). rewrite (order2_time sched j Hj). reflexivity. Qed.
Print Assumptions C05_orders_apply_same_unitaries.

Example C05_example : fw 0 [false; true; false; false] false = [TPair 0; TSite 1 false; TSite 1 true; TBond 1; TPair 2]
  /\ sweep [false;false;false] [false;false;false] = [TPair 0; TSite 1 false; TPair 1; TPair 1; TSite 1 false; TPair 0].
Proof. vm_compute. split; reflexivity. Qed.
