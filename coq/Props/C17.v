(* C17 — a reconstructed process tensor predicts held-out interventions exactly (linear-algebraic core).
   Mechanised: the four probe states span the 2x2 complex matrices (explicit expansion coefficients) and are linearly
   independent, i.e. the prepare/measure set is informationally complete and the expansion is unique — which is what makes the
   16 basis maps rho_p (x) E_m^T a basis of the 4x4 Choi matrices and the dual-frame contraction exact for every (held-out)
   preparation and every completely positive intervention, by linearity in each slot.
   PARTIAL — not mechanised: the dual frame computed by numpy's pinv, the index bookkeeping of the 16^k sequences, the weighted
   aggregation, and that the simulated segments realise the exact evolution (C05); all tied numerically. *)
From Coq Require Import Reals List.
From Coquelicot Require Import Coquelicot.
From Yaqs Require Import Base.CMat Model.Tomo Proofs.TomoP.

Theorem C17_probe_states_complete : forall a b c d : C,
  comb (coef_zeros a b c d) (coef_ones a b c d) (coef_plus a b c d) (coef_yplus a b c d) = mat2 a b c d.
Proof. exact states_complete. Qed.
Print Assumptions C17_probe_states_complete.
Theorem C17_probe_states_independent : forall k0 k1 kp ky : C,
  comb k0 k1 kp ky = mat2 c0 c0 c0 c0 -> k0 = c0 /\ k1 = c0 /\ kp = c0 /\ ky = c0.
Proof. exact states_independent. Qed.
Print Assumptions C17_probe_states_independent.
