(* C17 — a reconstructed process tensor predicts held-out interventions exactly (linear-algebraic core).
   Mechanised: the four probe states span the 2x2 complex matrices (explicit expansion coefficients) and are linearly
   independent, i.e. the prepare/measure set is informationally complete and the expansion is unique — which is what makes the
   16 basis maps rho_p (x) E_m^T a basis of the 4x4 Choi matrices and the dual-frame contraction exact for every (held-out)
   preparation and every completely positive intervention, by linearity in each slot.
   Also mechanised: the bookkeeping of tomography.run — job index -> (sequence, trajectory), aggregation per sequence, placement in the
   tensor through the SHUFFLED sequence list: every tensor entry is the average over the trajectories of its own tuple, each run counted
   once, whatever the shuffle.
   Also mechanised (LinAlg/Multilinear.v): for a process that is expanded by the probe family in every slot, the dual-frame contraction
   of the measured tensor equals the true outcome for every sequence of held-out operations, of any length.
   PARTIAL — not mechanised: the dual frame computed by numpy's pinv, and that the simulated segments realise the exact evolution
   (C05); tied numerically. *)
From Coq Require Import Reals List.
From Coquelicot Require Import Coquelicot.
From Yaqs Require Import Base.CMat Model.Tomo Proofs.TomoP Model.TomoAgg Proofs.TomoAggP.
From Coq Require Import QArith Permutation.
From Yaqs Require LinAlg.Multilinear.

Theorem C17_probe_states_complete : forall a b c d : C,
  comb (coef_zeros a b c d) (coef_ones a b c d) (coef_plus a b c d) (coef_yplus a b c d) = mat2 a b c d.
Proof. exact states_complete. Qed.
Print Assumptions C17_probe_states_complete.
Theorem C17_probe_states_independent : forall k0 k1 kp ky : C,
  comb k0 k1 kp ky = mat2 c0 c0 c0 c0 -> k0 = c0 /\ k1 = c0 /\ kp = c0 /\ ky = c0.
Proof. exact states_independent. Qed.
Print Assumptions C17_probe_states_independent.

Theorem C17_every_sequence_gets_its_own_average : forall nseq ntraj val i, (0 < ntraj)%nat -> (i < nseq)%nat ->
  aggregated nseq ntraj val i = average ntraj (val i).
Proof. exact aggregated_is_average. Qed.
Print Assumptions C17_every_sequence_gets_its_own_average.
Theorem C17_tensor_entry_is_own_average : forall seqs ntraj f sigma, (0 < ntraj)%nat -> In sigma seqs ->
  tensor_at seqs ntraj f sigma = Some (average ntraj (f sigma)).
Proof. exact tensor_entry_is_own_average. Qed.
Print Assumptions C17_tensor_entry_is_own_average.
Theorem C17_shuffle_irrelevant : forall seqs seqs' ntraj f sigma, (0 < ntraj)%nat -> Permutation seqs seqs' -> In sigma seqs ->
  tensor_at seqs ntraj f sigma = tensor_at seqs' ntraj f sigma.
Proof. exact shuffle_irrelevant. Qed.
Print Assumptions C17_shuffle_irrelevant.

(* prediction = contraction: T is the true process (outcome of a sequence of operations), b the probe family, c its coefficient
   functionals; "expanding" = linearity of T in each slot + completeness of the probes.  Then the contraction of the tensor of probe
   outcomes with the coefficients of ANY operations xs — not only the probes — is T xs. *)
Theorem C17_held_out_prediction_is_contraction :
  forall (K V W : Type) (wzero : W) (wadd : W -> W -> W) (scale : K -> W -> W) (n : nat) (b : nat -> V) (c : nat -> V -> K) (T : list V -> W),
  (forall pre x post, T (pre ++ x :: post) = Multilinear.wsum W wzero wadd n (fun j => scale (c j x) (T (pre ++ b j :: post)))) ->
  forall xs, T xs = Multilinear.contract K V W wzero wadd scale n b c T nil xs.
Proof. exact Multilinear.held_out_prediction. Qed.
Print Assumptions C17_held_out_prediction_is_contraction.
