(* C14 — a scheduled jump acts exactly once, at its scheduled time. *)
From Coq Require Import List Arith ZArith QArith.
Import ListNotations.
From Coq Require Import Ring.
From Yaqs Require Import LinAlg.TT.
From Yaqs Require Import Base.Num Model.JumpPipeline Model.Grid Proofs.JumpPipelineP Proofs.GridQ Gen.JumpTimeGen Proofs.JumpTimeGenP.
Local Open Scope nat_scope.

(* for ANY schedule (several jumps, any grid indices), any column j: the jump scheduled at grid index k >= 1
   occurs exactly once in the word of column j if k <= j and not at all otherwise *)
Theorem C14_order1_once : forall sched k j, 1 <= k ->
  count_S k (w1 sched true j) = if sched k && (k <=? j) then 1 else 0.
Proof. exact order1_once. Qed.
Print Assumptions C14_order1_once.

Theorem C14_order2_once : forall sched k j, 1 <= j ->
  count_S k (sample2 sched j) = if sched k && (k <=? j) then 1 else 0.
Proof. exact order2_once. Qed.
Print Assumptions C14_order2_once.

(* ... and it is placed after exactly k unitary steps, i.e. at time t_k *)
Theorem C14_order1_position : forall sched k j, 1 <= k -> k <= j -> sched k = true -> u_before k (w1 sched true j) = Some k.
Proof. exact order1_position. Qed.
Print Assumptions C14_order1_position.
Theorem C14_order2_position : forall sched k j, 1 <= j -> k <= j -> sched k = true -> u_before k (sample2 sched j) = Some k.
Proof. exact order2_position. Qed.
Print Assumptions C14_order2_position.

(* columns before the scheduled time are those of the run without the jump: the word of column j depends on the
   schedule only through grid indices <= j *)
Theorem C14_order1_unchanged_before : forall s1 s2 noise j, (forall i, i <= j -> s1 i = s2 i) -> w1 s1 noise j = w1 s2 noise j.
Proof. exact w1_ext. Qed.
Print Assumptions C14_order1_unchanged_before.
Theorem C14_order2_unchanged_before : forall s1 s2 j, (forall i, i <= j -> s1 i = s2 i) -> sample2 s1 j = sample2 s2 j.
Proof. exact sample2_ext. Qed.
Print Assumptions C14_order2_unchanged_before.

(* time matching in exact arithmetic: a jump scheduled at k*dt matches grid point j*dt iff j = k (any grid length) *)
Theorem C14_time_match : forall (dt : Q) (k j : Z), (0 < dt)%Q ->
  isclose QN (inject_Z k * dt)%Q (inject_Z j * dt)%Q (dt * (1 # 1000))%Q 0%Q = true <-> j = k.
Proof. exact time_match_exact. Qed.
Print Assumptions C14_time_match.

(* inside one scheduled time: exactly the listed jumps whose time matches are applied, each once, in listed order *)
Theorem C14_applied_exactly_the_matching : forall ms p, In p (applied_at ms 0) <-> nth_error ms p = Some true.
Proof. exact applied_at_complete. Qed.
Print Assumptions C14_applied_exactly_the_matching.
Theorem C14_applied_in_listed_order : forall ms pos, Sorted.StronglySorted lt (applied_at ms pos).
Proof. exact applied_at_sorted. Qed.
Print Assumptions C14_applied_in_listed_order.

(* a one-site scheduled jump (the operator is contracted with the site tensor): over any commutative ring, for any chain, contracting a local operator u with the tensor of one
   site changes the represented vector exactly as u acts on that tensor factor — every amplitude, any length and bond dimensions *)
Theorem C14_local_operator_acts_exactly : forall (K : Type) (k0 k1 : K) (kadd kmul ksub : K -> K -> K) (kopp : K -> K),
  ring_theory k0 k1 kadd kmul ksub kopp (@eq K) ->
  forall pre s post u spre p spost, length spre = length pre ->
  amp K k0 k1 kadd kmul (pre ++ rotate K k0 kadd kmul u s :: post) (spre ++ p :: spost) =
  bsum K k0 kadd (d K s) (fun q => kmul (u p q) (amp K k0 k1 kadd kmul (pre ++ s :: post) (spre ++ q :: spost))).
Proof. exact local_operator_acts_on_amplitudes. Qed.
Print Assumptions C14_local_operator_acts_exactly.

Example C14_example : let s := from_list [2; 4] in
  sample2 s 4 = [Dh; J; U; D1; J; U; D1; Sj 2; U; D1; J; U; Dh; Sj 4] /\ count_S 2 (sample2 s 1) = 0 /\ u_before 4 (sample2 s 4) = Some 4.
Proof. vm_compute. repeat split. Qed.

(* tie to the source by translation (Gen/JumpTimeGen.v regenerated on every run): the time-matching tests of has_scheduled_jump and of
   apply_scheduled_jumps are the model's has_jump_at (absolute tolerance dt*1e-3, NO relative tolerance), and they are the
   same test: a jump that is announced is the jump that is applied *)
Theorem C14_source_announce_test_is_model : forall jump_time time dt, jump_announced_src jump_time time dt = has_jump_at jump_time time dt.
Proof. exact jump_announced_src_is_model. Qed.
Print Assumptions C14_source_announce_test_is_model.
Theorem C14_source_apply_test_is_model : forall jump_time time dt, jump_applied_src jump_time time dt = has_jump_at jump_time time dt.
Proof. exact jump_applied_src_is_model. Qed.
Print Assumptions C14_source_apply_test_is_model.
Theorem C14_source_announced_iff_applied : forall jump_time time dt, jump_announced_src jump_time time dt = jump_applied_src jump_time time dt.
Proof. exact announced_iff_applied. Qed.
Print Assumptions C14_source_announced_iff_applied.
