(* C01 — open-system trajectories average to the Lindblad master equation.
   Mechanised: (a) attribution and weight rule of the jump lottery; it is a probability distribution; the listing order of
   the processes is irrelevant; the averaged branch operator carries each process with its own rate (the jump norm
   cancels); (b) the step composition of the order-1 and order-2 pipelines (Strang shape, dissipation budget, one jump
   lottery per dissipation step); (c) one step averaged over its branches is the Lindblad generator to first order in the step,
   in every ring with an anti-involution.  PARTIAL — not mechanised: the analytic step from "first-order consistent, symmetric
   composition" to "global error O(dt^2) at fixed step count", and the exponentials themselves (C19). *)
From Coq Require Import List Arith Reals Permutation.
Import ListNotations.
From Yaqs Require LinAlg.Unravel.
From Yaqs Require Import Base.Num Model.NoiseAttrib Proofs.NoiseAttribP Model.JumpPipeline Proofs.JumpPipelineP.
From Yaqs Require Import Proofs.DissipationP.
From Yaqs Require LinAlg.Strang.
From Yaqs Require Import Model.NoiseNorm Proofs.NoiseNormP.

Theorem C01_weight_belongs_to_its_process : forall (N : Num) L dt ns (l : list (proc N)) k p,
  nth_error l k = Some p -> nth_error (weights N L dt ns l) k = Some (weight N L dt ns p).
Proof. exact weight_of_position. Qed.
Print Assumptions C01_weight_belongs_to_its_process.

Theorem C01_listing_order_irrelevant : forall (N : Num) L dt ns (l l' : list (proc N)), Permutation l l' ->
  Permutation (combine l (weights N L dt ns l)) (combine l' (weights N L dt ns l')).
Proof. exact weights_permutation. Qed.
Print Assumptions C01_listing_order_irrelevant.

Theorem C01_lottery_is_distribution : forall L dt ns (l : list (proc RN)),
  total RN (weights RN L dt ns l) <> 0%R -> total RN (probabilities RN L dt ns l) = 1%R.
Proof. exact probabilities_sum_to_one. Qed.
Print Assumptions C01_lottery_is_distribution.
Theorem C01_lottery_nonnegative : forall L dt ns (l : list (proc RN)), (0 <= dt)%R -> (0 <= ns)%R -> Forall proc_nonneg l ->
  (0 < total RN (weights RN L dt ns l))%R -> Forall (fun q : R => (0 <= q)%R) (probabilities RN L dt ns l).
Proof. exact probabilities_nonneg. Qed.
Print Assumptions C01_lottery_nonnegative.

Theorem C01_branch_carries_own_rate : forall dt g nj n0 W : R, nj <> 0%R -> W <> 0%R ->
  ((1 - n0) * ((dt * g * nj) / W) / nj = ((1 - n0) / W) * (dt * g))%R.
Proof. exact branch_coefficient. Qed.
Print Assumptions C01_branch_carries_own_rate.
Theorem C01_first_order_rate : forall dt g nj W : R, nj <> 0%R -> W <> 0%R -> (W * ((dt * g * nj) / W) / nj = dt * g)%R.
Proof. exact branch_coefficient_first_order. Qed.
Print Assumptions C01_first_order_rate.

(* step composition: order 2 is D(dt/2) J (U D(dt) J)^(j-1) U D(dt/2) J, order 1 is (U D(dt) J)^j; j unitary steps and a
   total dissipation time of j*dt in both *)
Theorem C01_order2_word : forall j, 1 <= j -> sample2 nosched j = [Dh; J] ++ rep [U; D1; J] (j - 1) ++ [U; Dh; J].
Proof. exact order2_shape. Qed.
Print Assumptions C01_order2_word.
Theorem C01_order1_word : forall j, w1 nosched true j = rep [U; D1; J] j.
Proof. exact order1_shape. Qed.
Print Assumptions C01_order1_word.
Theorem C01_order2_dissipation_budget : forall sched j, 1 <= j ->
  count_sym Dh (sample2 sched j) = 2 /\ count_sym D1 (sample2 sched j) = j - 1.
Proof. exact order2_dissipation_budget. Qed.
Print Assumptions C01_order2_dissipation_budget.

(* the dissipation sweep (apply_dissipation): every process the sweep reaches is damped exactly once, at its own site (a two-site
   process at its right site); the correspondence check identifies the operator contracted in with the exponential built from that
   process's OWN strength and compares the order with damp_schedule *)
Theorem C01_every_process_damped_once : forall L kinds k kd, nth_error kinds k = Some kd -> damp_reached L kd = true ->
  cnt k (map snd (damp_schedule L kinds)) = 1%nat.
Proof. exact damped_exactly_once. Qed.
Print Assumptions C01_every_process_damped_once.
Theorem C01_damped_at_own_site : forall L kinds i k, In (i, k) (damp_schedule L kinds) ->
  exists kd, nth_error kinds k = Some kd /\ damp_here i kd = true.
Proof. exact damped_at_own_site. Qed.
Print Assumptions C01_damped_at_own_site.

(* one step of the unravelling, averaged over its branches, is the Lindblad generator to first order in the step — in every ring
   with an anti-involution (LinAlg/Unravel.v): V = (1 + dt*A)(1 + dt*H) with A anti-self-adjoint (-i * Hamiltonian) and
   H + H = - sum_k L_k^dag L_k; no-jump branch V rho V^dag (unnormalised) plus the jump branches dt * L_k rho L_k^dag equals
   rho + dt * ([A, rho] + sum_k (L_k rho L_k^dag - 1/2 {L_k^dag L_k, rho})), for every list of jump operators (stated doubled) *)
Theorem C01_unravelling_step_is_lindblad_to_first_order :
  forall (R : Type) (ring0 ring1 : R) (add mul sub : R -> R -> R) (opp : R -> R) (req : R -> R -> Prop)
         (Rops : @Ncring.Ring_ops R ring0 ring1 add mul sub opp req), @Ncring.Ring R ring0 ring1 add mul sub opp req Rops ->
  forall dag : R -> R, (forall a b, req (dag (add a b)) (add (dag a) (dag b))) -> req (dag ring1) ring1 ->
  forall (ls : list R) (A H rho : R), req (dag A) (opp A) -> req (dag H) H -> req (add H H) (opp (Unravel.gram dag ls)) ->
  req (fst (Unravel.average dag ls A H rho)) rho /\
  req (add (snd (Unravel.average dag ls A H rho)) (snd (Unravel.average dag ls A H rho)))
      (add (add (sub (mul A rho) (mul rho A)) (sub (mul A rho) (mul rho A)))
           (Unravel.sumL ls (fun l => sub (add (mul (mul l rho) (dag l)) (mul (mul l rho) (dag l)))
                                          (add (mul (mul (dag l) l) rho) (mul rho (mul (dag l) l)))))).
Proof. exact @Unravel.unravelling_first_order. Qed.
Print Assumptions C01_unravelling_step_is_lindblad_to_first_order.

(* a half step, a full step, a half step is exact through second order in the step (LinAlg/Strang.v: series truncated after dt^2 over
   any ring, the last entry of a triple being twice the second-order coefficient; texp X = (1, X, X*X)) *)
Theorem C01_symmetric_splitting_is_second_order :
  forall (R : Type) (ring0 ring1 : R) (add mul sub : R -> R -> R) (opp : R -> R) (req : R -> R -> Prop)
         (Rops : @Ncring.Ring_ops R ring0 ring1 add mul sub opp req), @Ncring.Ring R ring0 ring1 add mul sub opp req Rops ->
  forall C B : R, Strang.teq (Strang.tmul (Strang.tmul (Strang.texp C) (Strang.texp B)) (Strang.texp C)) (Strang.texp (add (add C C) B)).
Proof. exact @Strang.strang. Qed.
Print Assumptions C01_symmetric_splitting_is_second_order.

(* how a listed process is filed by the noise model: independent of the order of its two sites, stored ascending, neighbours with one
   matrix and distant pairs with two factors *)
Theorem C01_process_filing : forall a b, file_sites (a :: b :: nil) = file_sites (b :: a :: nil) /\
  (match stored_sites (file_sites (a :: b :: nil)) with x :: y :: nil => x <= y | _ => True end) /\
  ((exists lo, file_sites (a :: b :: nil) = FAdj lo) <-> (a = S b \/ b = S a)).
Proof. intros a b. split; [apply filing_order_irrelevant|]. split; [apply (stored_sites_ascending (a :: b :: nil))|apply adjacent_iff]. Qed.
Print Assumptions C01_process_filing.
