(* C12 — sampling follows the Born rule; weak simulation returns exactly the shots asked.
   The site-by-site sampler assigns to an outcome p at a site the weight ||step v s p||^2; for a right-canonical remainder of
   the chain (the form the simulator maintains) these weights add up to the weight of what has been fixed so far, and that
   weight is the total Born weight of ALL completions of the partial outcome — for every length, bond dimension and physical
   dimension, over any commutative ring with an involution; measuring in a rotated local basis (X/Y) rotates the site tensor by a
   matrix with orthonormal columns, which keeps it right-isometric, so the same holds there.  PARTIAL: that Generator.choice draws
   according to the vector it is given and never an entry of probability zero, and the in-place measure() are tied
   numerically (all branches forced), not mechanised. *)
From Coq Require Import List Arith ZArith Ring.
Import ListNotations.
From Yaqs Require Import LinAlg.TT Model.Sampling Proofs.SamplingP Model.Params Proofs.ParamsP.

Theorem C12_outcome_weights_sum : forall (K : Type) (k0 k1 : K) (kadd kmul ksub : K -> K -> K) (kopp : K -> K) (cj : K -> K),
  ring_theory k0 k1 kadd kmul ksub kopp (@eq K) -> (forall a b, cj (kadd a b) = kadd (cj a) (cj b)) ->
  (forall a b, cj (kmul a b) = kmul (cj a) (cj b)) -> cj k0 = k0 ->
  forall v s, right_iso K k0 k1 kadd kmul cj s ->
  bsum K k0 kadd (d K s) (fun p => nrm2 K k0 kadd kmul cj (chiR K s) (step K k0 kadd kmul v s p)) = nrm2 K k0 kadd kmul cj (chiL K s) v.
Proof. exact outcome_weights_sum. Qed.
Print Assumptions C12_outcome_weights_sum.

Theorem C12_prefix_weight_is_born_weight : forall (K : Type) (k0 k1 : K) (kadd kmul ksub : K -> K -> K) (kopp : K -> K) (cj : K -> K),
  ring_theory k0 k1 kadd kmul ksub kopp (@eq K) -> (forall a b, cj (kadd a b) = kadd (cj a) (cj b)) ->
  (forall a b, cj (kmul a b) = kmul (cj a) (cj b)) -> cj k0 = k0 ->
  forall chi_end ss v, chained K ss -> ends_with K chi_end ss -> Forall (right_iso K k0 k1 kadd kmul cj) ss ->
  total K k0 kadd kmul cj chi_end ss v = nrm2 K k0 kadd kmul cj (first_chi K chi_end ss) v.
Proof. exact completions_weight. Qed.
Print Assumptions C12_prefix_weight_is_born_weight.

Theorem C12_rotated_basis_weights_sum : forall (K : Type) (k0 k1 : K) (kadd kmul ksub : K -> K -> K) (kopp : K -> K) (cj : K -> K),
  ring_theory k0 k1 kadd kmul ksub kopp (@eq K) -> (forall a b, cj (kadd a b) = kadd (cj a) (cj b)) ->
  (forall a b, cj (kmul a b) = kmul (cj a) (cj b)) -> cj k0 = k0 ->
  forall u s v, (forall q q', q < d K s -> q' < d K s -> bsum K k0 kadd (d K s) (fun p => kmul (u p q) (cj (u p q'))) = if Nat.eqb q q' then k1 else k0) ->
  right_iso K k0 k1 kadd kmul cj s ->
  bsum K k0 kadd (d K s) (fun p => nrm2 K k0 kadd kmul cj (chiR K s) (step K k0 kadd kmul v (rotate K k0 kadd kmul u s) p)) = nrm2 K k0 kadd kmul cj (chiL K s) v.
Proof. exact rotated_outcome_weights_sum. Qed.
Print Assumptions C12_rotated_basis_weights_sum.

(* keys: bit i of the integer is the outcome of qubit i; distinct outcome strings get distinct keys *)
Theorem C12_bit_encoding : forall l, binary l -> forall i, i < length l -> (encode l / 2 ^ i) mod 2 = nth i l 0.
Proof. exact encode_bit. Qed.
Print Assumptions C12_bit_encoding.
Theorem C12_keys_of_wide_registers : forall l, encodeZ l = Z.of_nat (encode l).
Proof. exact encodeZ_encode. Qed.
Print Assumptions C12_keys_of_wide_registers.

Theorem C12_keys_injective : forall l l', binary l -> binary l' -> length l = length l' -> encode l = encode l' -> l = l'.
Proof. exact encode_injective. Qed.
Print Assumptions C12_keys_injective.

(* counts: whatever ran before on the parameter object, the counts returned sum to the shots requested *)
Theorem C12_counts_sum : forall h noisy p, 1 <= shots p -> snd (run_weak noisy (weak_history h p)) = shots p.
Proof. exact weak_counts_any_history. Qed.
Print Assumptions C12_counts_sum.
