(* C04 — the equivalence checker decides equivalence correctly in both directions (decision rule).
   PARTIAL: that the MPO handed to the verdict is U1.U2^dagger (zone-by-zone construction with SVD re-splitting and
   long-range gate MPOs) is tied numerically (dense product for arbitrary pairs) and not mechanised. *)
From Coq Require Import Reals.
From Coquelicot Require Import Coquelicot.
From Yaqs Require Import Base.Num Model.Verdict Proofs.NoiseAttribP Proofs.VerdictP.

Theorem C04_verdict_sound : forall t n f e, (t / 2 ^ n < f - e)%R -> verdict RN t n f e = false.
Proof. exact verdict_sound. Qed.
Print Assumptions C04_verdict_sound.
Theorem C04_verdict_complete : forall t n f e, (0 <= e)%R -> (f <= t / 2 ^ n)%R -> verdict RN t n f e = true.
Proof. exact verdict_complete. Qed.
Print Assumptions C04_verdict_complete.
Theorem C04_equal_unitaries_are_equivalent : forall n f e, (0 <= e)%R -> (f <= 1)%R -> verdict RN (2 ^ n) n f e = true.
Proof. exact verdict_equal_unitaries. Qed.
Print Assumptions C04_equal_unitaries_are_equivalent.
Theorem C04_verdict_symmetric : forall (z : C) n f e, verdict RN (Cmod (Cconj z)) n f e = verdict RN (Cmod z) n f e.
Proof. exact verdict_symmetric. Qed.
Print Assumptions C04_verdict_symmetric.
