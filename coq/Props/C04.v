(* C04 — the equivalence checker decides equivalence correctly in both directions (decision rule).
   PARTIAL: that the MPO handed to the verdict is U1.U2^dagger (zone-by-zone construction with SVD re-splitting and
   long-range gate MPOs) is tied numerically (dense product for arbitrary pairs) and not mechanised. *)
From Coq Require Import Reals PrimFloat.
From Coquelicot Require Import Coquelicot.
From Yaqs Require Import Base.Num Model.Verdict Proofs.NoiseAttribP Proofs.VerdictP Gen.SmallGen Proofs.SmallGenP.

Theorem C04_verdict_sound : forall t n f e, (t / 2 ^ n < f - e)%R -> verdict RN t n f e = false.
Proof. exact verdict_sound. Qed.
Print Assumptions C04_verdict_sound.
Theorem C04_verdict_complete : forall t n f e, (0 <= e)%R -> (f <= t / 2 ^ n)%R -> verdict RN t n f e = true.
Proof. exact verdict_complete. Qed.
Print Assumptions C04_verdict_complete.
Theorem C04_equal_unitaries_are_equivalent : forall n f e, (0 <= e)%R -> (f <= 1)%R -> verdict RN (2 ^ n) n f e = true.
Proof. exact verdict_equal_unitaries. Qed.
Print Assumptions C04_equal_unitaries_are_equivalent.
Theorem C04_verdict_symmetric : forall (z : C) n f e, verdict RN (Cmod (Cconj z)) n f e = verdict RN (Cmod z) n f e.
Proof. exact verdict_symmetric. Qed.
Print Assumptions C04_verdict_symmetric.

(* tie to the source by translation: Gen/SmallGen.verdict_src is regenerated from MPO.check_if_identity on every run; it is the
   binary64 instance of the model with the allowance written in the source (the double 1e-9, which is non-negative as
   verdict_complete requires) *)
Theorem C04_source_verdict_is_model : forall abs_trace n fidelity,
  verdict_src abs_trace n fidelity = verdict FN abs_trace n fidelity verdict_eps.
Proof. exact verdict_src_is_model. Qed.
Print Assumptions C04_source_verdict_is_model.
Theorem C04_source_allowance_nonnegative : PrimFloat.leb 0%float verdict_eps = true.
Proof. exact verdict_eps_nonneg. Qed.
Print Assumptions C04_source_allowance_nonnegative.
