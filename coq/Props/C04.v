(* C04 — the equivalence checker decides equivalence correctly in both directions.
   Mechanised: the decision rule, and the zone-by-zone construction as a schedule: for every pair of circuits (one- and two-qubit
   gates at any distance) and either sweep order the loop ends, applies every gate of circuit 1 exactly once from the left and
   every gate of circuit 2 exactly once, conjugated, from the right, in orders that preserve all dependencies, so the value held is
   U1.U2^dagger in every semantics where gates on disjoint qubits commute.
   One application is mechanised too, over any commutative ring with an involution: on a chain whose site carries the physical index
   (output digits, input digits) — the merged tensor theta of update_mpo — contracting a gate with the output digits replaces every
   entry of the represented operator by the entry of G.O, contracting the conjugated gate with the input digits by the entry of
   O.G^dagger, and the chain with the merged tensor has the entries of the chain with the two original tensors.
   The product of two operators held as tensor trains (the long-range gate's MPO times the checker's MPO) is mechanised as well: entry by
   entry it is the matrix product.
   PARTIAL: that numpy's einsum/SVD compute these contractions and an exact re-splitting (no truncation above the threshold) is tied
   numerically (dense product for arbitrary pairs). *)
From Coq Require Import Reals PrimFloat.
From Coquelicot Require Import Coquelicot.
From Coq Require Import List.
From Yaqs Require Import Base.Num Model.Verdict Proofs.NoiseAttribP Proofs.VerdictP Gen.VerdictGen Proofs.VerdictGenP.
From Yaqs Require Import Model.DigitalLoop Proofs.DigitalLoopP Model.Checker Proofs.CheckerP.
From Yaqs Require LinAlg.TT.

Theorem C04_verdict_sound : forall t n f e, (t / 2 ^ n < f - e)%R -> verdict RN t n f e = false.
Proof. exact verdict_sound. Qed.
Print Assumptions C04_verdict_sound.
Theorem C04_verdict_complete : forall t n f e, (0 <= e)%R -> (f <= t / 2 ^ n)%R -> verdict RN t n f e = true.
Proof. exact verdict_complete. Qed.
Print Assumptions C04_verdict_complete.
Theorem C04_equal_unitaries_are_equivalent : forall n f e, (0 <= e)%R -> (f <= 1)%R -> verdict RN (2 ^ n) n f e = true.
Proof. exact verdict_equal_unitaries. Qed.
Print Assumptions C04_equal_unitaries_are_equivalent.
Theorem C04_verdict_symmetric : forall (z : C) n f e, verdict RN (Cmod (Cconj z)) n f e = verdict RN (Cmod z) n f e.
Proof. exact verdict_symmetric. Qed.
Print Assumptions C04_verdict_symmetric.

(* tie to the source by translation: Gen/VerdictGen.verdict_src is regenerated from MPO.check_if_identity on every run; it is the
   binary64 instance of the model with the allowance written in the source (the double 1e-9, which is non-negative as
   verdict_complete requires) *)
Theorem C04_source_verdict_is_model : forall abs_trace n fidelity,
  verdict_src abs_trace n fidelity = verdict FN abs_trace n fidelity verdict_eps.
Proof. exact verdict_src_is_model. Qed.
Print Assumptions C04_source_verdict_is_model.
Theorem C04_source_allowance_nonnegative : PrimFloat.leb 0%float verdict_eps = true.
Proof. exact verdict_eps_nonneg. Qed.
Print Assumptions C04_source_allowance_nonnegative.

(* ---- the construction of the MPO (mpo_utils.iterate) ---- *)
(* [prefs] = the order in which Qiskit lists the nodes of a DAG layer (decides which of several long-range gates of one front layer is
   treated first); every statement holds for every such order *)
Theorem C04_checker_terminates : forall prefs nq odd_first a b, (2 <= nq)%nat -> (forall g, In g a \/ In g b -> gate_ok nq g) ->
  iterate_with prefs (length a + length b) (sweep_of nq odd_first) (init a b) <> None.
Proof. exact checker_terminates. Qed.
Print Assumptions C04_checker_terminates.

Theorem C04_checker_applies_each_gate_once_in_order : forall prefs sweep fuel s s', wf s -> iterate_with prefs fuel sweep s = Some s' ->
  c1 s' = nil /\ c2 s' = nil /\ rearr (virt L s) (side_log L (log s')) /\ rearr (virt R s) (side_log R (log s')).
Proof. exact iterate_rearr. Qed.
Print Assumptions C04_checker_applies_each_gate_once_in_order.

Theorem C04_checker_builds_product : forall (M : Type) (op : M -> M -> M) (e : M) (star : M -> M),
  (forall a b c, op a (op b c) = op (op a b) c) -> (forall a, op e a = a) -> (forall a, op a e = a) ->
  (forall a b, star (op a b) = op (star b) (star a)) -> star e = e ->
  forall sem : instr -> M, (forall a b, shares a b = false -> op (sem a) (sem b) = op (sem b) (sem a)) ->
  forall prefs fuel sweep a b s, NoDup (map id a) -> NoDup (map id b) -> iterate_with prefs fuel sweep (init a b) = Some s ->
  value M op e star sem (log s) = op (U M op e sem a) (star (U M op e sem b)).
Proof. exact checker_builds_product. Qed.
Print Assumptions C04_checker_builds_product.

Theorem C04_long_range_pairs_cover_gate : forall lo d k, (2 <= d)%nat -> (k < d)%nat ->
  exists n, In n (lr_pairs lo d) /\ ((lo + k = n)%nat \/ (lo + k = S n)%nat).
Proof. exact lr_pairs_cover. Qed.
Print Assumptions C04_long_range_pairs_cover_gate.

(* entries of the operator after one application (LinAlg/TT.v): p = o * D + i is the physical index of the merged site *)
Theorem C04_left_application_is_operator_product : forall (K : Type) (k0 k1 : K) (kadd kmul ksub : K -> K -> K) (kopp : K -> K),
  ring_theory k0 k1 kadd kmul ksub kopp (@eq K) ->
  forall pre s post (G : nat -> nat -> K) D spre p spost, (0 < D)%nat -> TT.d K s = (D * D)%nat -> length spre = length pre ->
  TT.amp K k0 k1 kadd kmul (pre ++ TT.rotate K k0 kadd kmul (TT.lact K k0 k1 kmul G D) s :: post) (spre ++ p :: spost)
  = TT.bsum K k0 kadd D (fun o' => kmul (G (p / D)%nat o') (TT.amp K k0 k1 kadd kmul (pre ++ s :: post) (spre ++ (o' * D + p mod D)%nat :: spost))).
Proof. exact TT.mpo_left_application. Qed.
Print Assumptions C04_left_application_is_operator_product.

Theorem C04_right_application_is_product_with_adjoint : forall (K : Type) (k0 k1 : K) (kadd kmul ksub : K -> K -> K) (kopp : K -> K) (cj : K -> K),
  ring_theory k0 k1 kadd kmul ksub kopp (@eq K) ->
  forall pre s post (G : nat -> nat -> K) D spre p spost, (0 < D)%nat -> TT.d K s = (D * D)%nat -> (p < D * D)%nat -> length spre = length pre ->
  TT.amp K k0 k1 kadd kmul (pre ++ TT.rotate K k0 kadd kmul (TT.ract K k0 k1 kmul cj G D) s :: post) (spre ++ p :: spost)
  = TT.bsum K k0 kadd D (fun i' => kmul (cj (G (p mod D)%nat i')) (TT.amp K k0 k1 kadd kmul (pre ++ s :: post) (spre ++ ((p / D) * D + i')%nat :: spost))).
Proof. exact TT.mpo_right_application. Qed.
Print Assumptions C04_right_application_is_product_with_adjoint.

Theorem C04_merged_tensor_keeps_entries : forall (K : Type) (k0 k1 : K) (kadd kmul ksub : K -> K -> K) (kopp : K -> K),
  ring_theory k0 k1 kadd kmul ksub kopp (@eq K) ->
  forall pre s1 s2 post dd spre q spost, TT.chiR K s1 = TT.chiL K s2 -> length spre = length pre ->
  TT.amp K k0 k1 kadd kmul (pre ++ TT.merge_mpo K k0 kadd kmul dd s1 s2 :: post) (spre ++ q :: spost)
  = TT.amp K k0 k1 kadd kmul (pre ++ s1 :: s2 :: post)
      (spre ++ ((q / (dd * dd) / dd) * dd + (q mod (dd * dd)) / dd)%nat :: ((q / (dd * dd) mod dd) * dd + (q mod (dd * dd)) mod dd)%nat :: spost).
Proof. exact TT.merged_mpo_amplitudes. Qed.
Print Assumptions C04_merged_tensor_keeps_entries.

(* the product of two operators held as tensor trains (a long-range gate's MPO times the MPO of the checker): physical legs contracted site
   by site, bonds paired — every entry of the product chain is the sum over the intermediate digit string of the products of the entries *)
Theorem C04_mpo_product_is_operator_product : forall (K : Type) (k0 k1 : K) (kadd kmul ksub : K -> K -> K) (kopp : K -> K),
  ring_theory k0 k1 kadd kmul ksub kopp (@eq K) ->
  forall (dd : nat) (gs ms : list (TT.site K)) (sigma : list nat), length ms = length gs -> length sigma = length gs ->
  TT.chained_from K 1%nat ms -> TT.last_chi K 1%nat ms = 1%nat ->
  TT.amp K k0 k1 kadd kmul (TT.mul_chain K k0 kadd kmul dd gs ms) sigma
  = TT.ksum K k0 kadd dd sigma (fun ks => kmul (TT.amp K k0 k1 kadd kmul gs (TT.mid_out dd sigma ks)) (TT.amp K k0 k1 kadd kmul ms (TT.mid_in dd sigma ks))).
Proof. exact TT.mpo_product_is_operator_product. Qed.
Print Assumptions C04_mpo_product_is_operator_product.

Local Open Scope nat_scope.
Example C04_checker_example :
  let a := (mk 0 G2 (0::3::nil)) :: (mk 1 G1 (1::nil)) :: (mk 2 G2 (1::2::nil)) :: nil in
  let b := (mk 10 G2 (2::1::nil)) :: (mk 11 G1 (0::nil)) :: nil in
  match iterate 5 (sweep_of 4 false) (init a b) with
  | Some s => map (fun p => (match fst p with L => 0 | R => 1 end, id (snd p))) (log s) = (0,0)::(0,1)::(1,11)::(0,2)::(1,10)::nil
  | None => False end.
Proof. vm_compute. reflexivity. Qed.
