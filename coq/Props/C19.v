(* C19 — the Krylov exponentials are accurate and norm-preserving on every code path.
   Mechanised: (a) the control skeleton of expm_krylov — every path returns with a subspace dimension in 1..m_max, a breakdown
   exit is taken at the first negligible direction, and without breakdown or convergence the full subspace is used;
   (b) norm preservation of the result formula V_k (U (phases . U^T e_1)) ||v||: a matrix with orthonormal rows/columns
   preserves the squared norm and unit-modulus phases preserve it, over any commutative ring with an involution.
   PARTIAL — not mechanised: that the Lanczos recurrence in floating point produces orthonormal V_k, LAPACK's tridiagonal
   eigen-decomposition, and the accuracy bound (Hochbruck-Lubich) 'whenever spectral width times |dt| is moderate'. *)
From Coq Require Import List Arith Ring.
From Yaqs Require Import Model.Krylov Proofs.KrylovP LinAlg.TT.
From Yaqs Require LinAlg.Intertwine.

Theorem C19_exit_well_defined : forall m small conv, 1 <= m -> 1 <= exit_dim (krylov_exit m small conv) <= m.
Proof. exact exit_well_defined. Qed.
Print Assumptions C19_exit_well_defined.
Theorem C19_breakdown_is_first_small : forall m small conv k, krylov_exit m small conv = Breakdown k ->
  small (k - 1) = true /\ forall i, i < k - 1 -> small i = false.
Proof. exact breakdown_is_first_small. Qed.
Print Assumptions C19_breakdown_is_first_small.
Theorem C19_no_exit_uses_full : forall m small conv, (forall i, i < m - 1 -> small i = false /\ conv i = false) ->
  krylov_exit m small conv = Full m.
Proof. exact no_exit_uses_full. Qed.
Print Assumptions C19_no_exit_uses_full.

Theorem C19_isometry_preserves_norm : forall (K : Type) (k0 k1 : K) (kadd kmul ksub : K -> K -> K) (kopp : K -> K) (cj : K -> K),
  ring_theory k0 k1 kadd kmul ksub kopp (@eq K) -> (forall a b, cj (kadd a b) = kadd (cj a) (cj b)) ->
  (forall a b, cj (kmul a b) = kmul (cj a) (cj b)) -> cj k0 = k0 ->
  forall (n m : nat) (Vt : nat -> nat -> K) (y : nat -> K),
  (forall l l', l < n -> l' < n -> bsum K k0 kadd m (fun r => kmul (Vt l r) (cj (Vt l' r))) = if Nat.eqb l l' then k1 else k0) ->
  nrm2 K k0 kadd kmul cj m (fun r => bsum K k0 kadd n (fun l => kmul (y l) (Vt l r))) = nrm2 K k0 kadd kmul cj n y.
Proof. exact isometry_preserves_norm. Qed.
Print Assumptions C19_isometry_preserves_norm.
Theorem C19_phases_preserve_norm : forall (K : Type) (k0 k1 : K) (kadd kmul ksub : K -> K -> K) (kopp : K -> K) (cj : K -> K),
  ring_theory k0 k1 kadd kmul ksub kopp (@eq K) -> (forall a b, cj (kmul a b) = kmul (cj a) (cj b)) ->
  forall (n : nat) (e c : nat -> K), (forall l, l < n -> kmul (e l) (cj (e l)) = k1) ->
  nrm2 K k0 kadd kmul cj n (fun l => kmul (e l) (c l)) = nrm2 K k0 kadd kmul cj n c.
Proof. exact phases_preserve_norm. Qed.
Print Assumptions C19_phases_preserve_norm.

(* the breakdown exit is exact: when the Krylov space is invariant (a * V = V * t, no residual), every polynomial of the operator
   acts on the space as the same polynomial of the small matrix — in any ring (LinAlg/Intertwine.v); coefficients are pairs
   (c * I_big, c * I_small), which are intertwined themselves *)
Theorem C19_polynomial_exact_on_invariant_subspace :
  forall (R : Type) (ring0 ring1 : R) (add mul sub : R -> R -> R) (opp : R -> R) (req : R -> R -> Prop)
         (Rops : @Ncring.Ring_ops R ring0 ring1 add mul sub opp req), @Ncring.Ring R ring0 ring1 add mul sub opp req Rops ->
  forall (V a t : R) (cs : list (R * R)),
  Intertwine.inter V a t -> List.Forall (fun p => Intertwine.inter V (fst p) (snd p)) cs ->
  forall d, Intertwine.inter V (Intertwine.peval (List.map fst cs) a d) (Intertwine.peval (List.map snd cs) t d).
Proof. exact @Intertwine.polynomial_exact_on_invariant_subspace. Qed.
Print Assumptions C19_polynomial_exact_on_invariant_subspace.
