(* C11 — expectation values and diagnostics equal dense definitions, correctly attributed. *)
From Coq Require Import List Arith Permutation.
Import ListNotations.
From Yaqs Require Import Model.ObsAttrib Proofs.ObsAttribP.

(* every observable object of the user's list is evaluated exactly once, whatever the listing order and mixture *)
Theorem C11_every_observable_once : forall l, Permutation (sorted_observables l) l.
Proof. exact sorted_is_permutation. Qed.
Print Assumptions C11_every_observable_once.

(* each object receives the value computed for it (rows are stitched back by object, not by listing position) *)
Theorem C11_each_gets_its_own : forall value l i v, In (i, v) (stitched value l) -> exists o, In o l /\ oid o = i /\ v = value o.
Proof. exact each_gets_its_own. Qed.
Print Assumptions C11_each_gets_its_own.
Theorem C11_every_object_is_served : forall value l o, In o l -> In (oid o, value o) (stitched value l).
Proof. exact every_object_is_served. Qed.
Print Assumptions C11_every_object_is_served.

(* gauge discipline: every local expectation value is read with the orthogonality centre on the observable's first
   site, every bond quantity (entropy, Schmidt spectrum) with the centre on one of the two sites of the bond *)
Theorem C11_centre_discipline : forall l, forallb read_ok (reads l) = true.
Proof. exact centre_discipline. Qed.
Print Assumptions C11_centre_discipline.

Example C11_example : let l := [ {| oid := 0; kind := Local1; site := 3 |}; {| oid := 1; kind := Diag; site := 0 |};
                                 {| oid := 2; kind := Bond; site := 1 |}; {| oid := 3; kind := Local2; site := 1 |} ] in
  map oid (sorted_observables l) = [2; 3; 0; 1] /\ map (fun r => snd r) (reads l) = [1; 1; 3; 3].
Proof. vm_compute. split; reflexivity. Qed.
