(* C11 — expectation values and diagnostics equal dense definitions, correctly attributed. *)
From Coq Require Import List Arith Permutation.
Import ListNotations.
From Coq Require Import Ring.
From Yaqs Require Import LinAlg.TT.
From Yaqs Require Import Model.ObsAttrib Proofs.ObsAttribP.

(* every observable object of the user's list is evaluated exactly once, whatever the listing order and mixture *)
Theorem C11_every_observable_once : forall l, Permutation (sorted_observables l) l.
Proof. exact sorted_is_permutation. Qed.
Print Assumptions C11_every_observable_once.

(* each object receives the value computed for it (rows are stitched back by object, not by listing position) *)
Theorem C11_each_gets_its_own : forall value l i v, In (i, v) (stitched value l) -> exists o, In o l /\ oid o = i /\ v = value o.
Proof. exact each_gets_its_own. Qed.
Print Assumptions C11_each_gets_its_own.
Theorem C11_every_object_is_served : forall value l o, In o l -> In (oid o, value o) (stitched value l).
Proof. exact every_object_is_served. Qed.
Print Assumptions C11_every_object_is_served.

(* gauge discipline: every local expectation value is read with the orthogonality centre on the observable's first
   site, every bond quantity (entropy, Schmidt spectrum) with the centre on one of the two sites of the bond *)
Theorem C11_centre_discipline : forall l, forallb read_ok (reads l) = true.
Proof. exact centre_discipline. Qed.
Print Assumptions C11_centre_discipline.

(* WHY the centre discipline gives the right number: over any commutative ring with an involution, for a chain that is left-isometric
   before site s and right-isometric after it (the mixed-canonical form the reads above establish), the expectation value summed over
   ALL basis strings, sum conj(amp) O amp, equals the contraction of the centre tensor alone.  Any length, any bond and physical
   dimensions.  A two-site operator is the same statement for the merged tensor (step_merge). *)
Section Expect.
Variable K : Type.
Variables (k0 k1 : K) (kadd kmul ksub : K -> K -> K) (kopp : K -> K) (cj : K -> K).
Hypothesis Kring : ring_theory k0 k1 kadd kmul ksub kopp (@eq K).
Hypothesis cj_add : forall a b, cj (kadd a b) = kadd (cj a) (cj b).
Hypothesis cj_mul : forall a b, cj (kmul a b) = kmul (cj a) (cj b).
Hypothesis cj_0 : cj k0 = k0.
Hypothesis cj_1 : cj k1 = k1.
Theorem C11_centred_expectation_is_dense : forall pre s post O,
  lchain K 1 pre (chiL K s) -> lchain K (chiR K s) post 1 -> Forall (left_iso K k0 k1 kadd kmul cj) pre -> Forall (right_iso K k0 k1 kadd kmul cj) post ->
  dense_expect K k0 k1 kadd kmul cj pre s post O = local_expect K k0 kadd kmul cj s O.
Proof. exact (centred_expectation K k0 k1 kadd kmul ksub kopp cj Kring cj_add cj_mul cj_0 cj_1). Qed.
Theorem C11_dense_expectation_sums_all_strings : forall pre s post O,
  dense_expect K k0 k1 kadd kmul cj pre s post O =
  sum_over K k0 kadd pre (fun tau => bsum K k0 kadd (d K s) (fun p => bsum K k0 kadd (d K s) (fun p' => sum_over K k0 kadd post (fun rho =>
    kmul (O p p') (kmul (run K k0 kadd kmul (step K k0 kadd kmul (run K k0 kadd kmul (e0 K k0 k1) pre tau) s p') post rho 0)
                        (cj (run K k0 kadd kmul (step K k0 kadd kmul (run K k0 kadd kmul (e0 K k0 k1) pre tau) s p) post rho 0))))))).
Proof. exact (dense_expect_is_sum_over_strings K k0 k1 kadd kmul ksub kopp cj Kring). Qed.
Theorem C11_merged_tensor_composes_steps : forall v s1 s2 q r, chiR K s1 = chiL K s2 ->
  step K k0 kadd kmul v (merge K k0 kadd kmul s1 s2) q r = step K k0 kadd kmul (step K k0 kadd kmul v s1 (q / d K s2)) s2 (q mod d K s2) r.
Proof. exact (step_merge K k0 k1 kadd kmul ksub kopp Kring). Qed.
End Expect.
Print Assumptions C11_centred_expectation_is_dense.
Print Assumptions C11_dense_expectation_sums_all_strings.
Print Assumptions C11_merged_tensor_composes_steps.

Example C11_example : let l := [ {| oid := 0; kind := Local1; site := 3 |}; {| oid := 1; kind := Diag; site := 0 |};
                                 {| oid := 2; kind := Bond; site := 1 |}; {| oid := 3; kind := Local2; site := 1 |} ] in
  map oid (sorted_observables l) = [2; 3; 0; 1] /\ map (fun r => snd r) (reads l) = [1; 1; 3; 3].
Proof. vm_compute. split; reflexivity. Qed.
