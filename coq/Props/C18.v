(* C18 — a gate's matrix, tensor, generator and MPO forms all describe the standard gate.
   All statements are about Gen/GatesGen.v, which is regenerated from gate_library.py on every run. *)
From Coq Require Import Reals List.
From Coquelicot Require Import Coquelicot.
From Coq Require Import Ring.
From Yaqs Require Import LinAlg.TT.
From Yaqs Require Import Base.CMat Model.Gates Gen.GatesGen Proofs.GatesP.
Import ListNotations.

(* every gate class has the unitary of the standard gate of that name, for all real parameters *)
Theorem C18_matrices_standard : forall theta phi lam : R,
  gen_x_matrix theta phi lam = std_x /\ gen_y_matrix theta phi lam = std_y /\ gen_z_matrix theta phi lam = std_z /\
  gen_h_matrix theta phi lam = std_h /\ gen_id_matrix theta phi lam = std_id /\ gen_sx_matrix theta phi lam = std_sx /\
  gen_rx_matrix theta phi lam = std_rx theta /\ gen_ry_matrix theta phi lam = std_ry theta /\
  gen_rz_matrix theta phi lam = std_rz theta /\ gen_p_matrix theta phi lam = std_p theta /\
  gen_u_matrix theta phi lam = std_u theta phi lam /\ gen_u2_matrix theta phi lam = std_u2 phi lam /\
  gen_cx_matrix theta phi lam = std_cx /\ gen_cz_matrix theta phi lam = std_cz /\ gen_cp_matrix theta phi lam = std_cp theta /\
  gen_swap_matrix theta phi lam = std_swap /\ gen_rxx_matrix theta phi lam = std_rxx theta /\
  gen_ryy_matrix theta phi lam = std_ryy theta /\ gen_rzz_matrix theta phi lam = std_rzz theta.
Proof. intros. exact (conj (m_x _ _ _) (conj (m_y _ _ _) (conj (m_z _ _ _) (conj (m_h _ _ _) (conj (m_id _ _ _) (conj (m_sx _ _ _) (conj (m_rx _ _ _) (conj (m_ry _ _ _) (conj (m_rz _ _ _) (conj (m_p _ _ _) (conj (m_u _ _ _) (conj (m_u2 _ _ _) (conj (m_cx _ _ _) (conj (m_cz _ _ _) (conj (m_cp _ _ _) (conj (m_swap _ _ _) (conj (m_rxx _ _ _) (conj (m_ryy _ _ _) (m_rzz _ _ _))))))))))))))))))). Qed.
Print Assumptions C18_matrices_standard.

(* the generator pair (A, B) stored on each two-qubit gate exponentiates to the gate matrix: A (x) B = c.P with P^2 = 1 and
   cos c - i sin c P = matrix (rotations), or A (x) B = c.G with G^2 = mu G and 1 + ((e^{-i c mu} - 1)/mu) G = matrix
   (controlled gates), for every real angle *)
Theorem C18_generator_rxx : forall t p l, invol_generator (gen_rxx_genA t p l) (gen_rxx_genB t p l) (gen_rxx_matrix t p l).
Proof. exact g_rxx. Qed.
Print Assumptions C18_generator_rxx.
Theorem C18_generator_ryy : forall t p l, invol_generator (gen_ryy_genA t p l) (gen_ryy_genB t p l) (gen_ryy_matrix t p l).
Proof. exact g_ryy. Qed.
Print Assumptions C18_generator_ryy.
Theorem C18_generator_rzz : forall t p l, invol_generator (gen_rzz_genA t p l) (gen_rzz_genB t p l) (gen_rzz_matrix t p l).
Proof. exact g_rzz. Qed.
Print Assumptions C18_generator_rzz.
Theorem C18_generator_cx : forall t p l, proj_generator (gen_cx_genA t p l) (gen_cx_genB t p l) (gen_cx_matrix t p l).
Proof. exact g_cx. Qed.
Print Assumptions C18_generator_cx.
Theorem C18_generator_cz : forall t p l, proj_generator (gen_cz_genA t p l) (gen_cz_genB t p l) (gen_cz_matrix t p l).
Proof. exact g_cz. Qed.
Print Assumptions C18_generator_cz.
Theorem C18_generator_cp : forall t p l, proj_generator (gen_cp_genA t p l) (gen_cp_genB t p l) (gen_cp_matrix t p l).
Proof. exact g_cp. Qed.
Print Assumptions C18_generator_cp.

(* PARTIAL: the closed forms are shown to be one-parameter groups through the identity; that such a group with
   derivative -iG at 0 is the matrix exponential is the cited uniqueness theorem, not mechanised *)
Theorem C18_closed_form_is_group : forall a b : R,
  mmul (expi_invol a XX) (expi_invol b XX) = expi_invol (a + b) XX /\
  mmul (expi_invol a YY) (expi_invol b YY) = expi_invol (a + b) YY /\
  mmul (expi_invol a ZZ) (expi_invol b ZZ) = expi_invol (a + b) ZZ /\
  expi_invol 0 XX = I4 /\ expi_invol 0 YY = I4 /\ expi_invol 0 ZZ = I4.
Proof. intros. exact (conj (invol_group_XX a b) (conj (invol_group_YY a b) (conj (invol_group_ZZ a b) (conj invol_zero_XX (conj invol_zero_YY invol_zero_ZZ))))). Qed.
Print Assumptions C18_closed_form_is_group.

(* MPO form (extend_gate): over any commutative ring, the chain [T1, identity pass-through tensors, T2] is the two-site operator T1.T2
   on the outer sites and the identity on every site in between, for any number of padded sites and any bond dimension; sites given in
   descending order use the flipped chain, which represents the same operator read backwards (C10_flip_preserves_amplitudes).  The
   correspondence check verifies that the real mpo_tensors have exactly this shape. *)
Theorem C18_padded_gate_mpo : forall (K : Type) (k0 k1 : K) (kadd kmul ksub : K -> K -> K) (kopp : K -> K),
  ring_theory k0 k1 kadd kmul ksub kopp (@eq K) ->
  forall t1 t2 chi dd mids p1 p2, chiL K t1 = 1%nat -> chiR K t1 = chi -> chiL K t2 = chi -> chiR K t2 = 1%nat ->
  amp K k0 k1 kadd kmul (t1 :: repeat (id_site K k0 k1 chi dd) (length mids) ++ [t2]) (p1 :: mids ++ [p2]) =
  kmul (if forallb (diag dd) mids then k1 else k0) (bsum K k0 kadd chi (fun m => kmul (A K t1 p1 0%nat m) (A K t2 p2 m 0%nat))).
Proof. exact padded_gate_mpo. Qed.
Print Assumptions C18_padded_gate_mpo.
