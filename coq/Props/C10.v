(* C10 — canonicalisation and gauge moves never change the represented state.
   Amplitude statements hold over ANY commutative ring with an involution (in particular the complex numbers), for MPS of any
   length, any bond dimensions and any (mixed) physical dimensions, and for ANY factorisation Q.R of the site tensor (QR or SVD).
   flip_network (sites reversed, bonds exchanged) represents the same amplitudes read backwards; padding a bond with zeros changes none.
   PARTIAL: that LAPACK's QR/SVD return such a factorisation (and, in SVD mode, cut at most 1e-12 of weight) is an oracle. *)
From Coq Require Import List Arith Ring.
Import ListNotations.
From Yaqs Require Import LinAlg.TT Model.Gauge Proofs.GaugeP.

Theorem C10_shift_right_preserves : forall (K : Type) (k0 k1 : K) (kadd kmul ksub : K -> K -> K) (kopp : K -> K),
  ring_theory k0 k1 kadd kmul ksub kopp (@eq K) ->
  forall pre s1 s2 post q R m, factors K k0 kadd kmul s1 q R m -> chiR K s1 = chiL K s2 ->
  forall sigma, length sigma = length (pre ++ s1 :: s2 :: post) ->
  amp K k0 k1 kadd kmul (pre ++ q :: absorb K k0 kadd kmul R m s2 :: post) sigma = amp K k0 k1 kadd kmul (pre ++ s1 :: s2 :: post) sigma.
Proof. exact gauge_move_preserves. Qed.
Print Assumptions C10_shift_right_preserves.

Theorem C10_shift_left_preserves : forall (K : Type) (k0 k1 : K) (kadd kmul ksub : K -> K -> K) (kopp : K -> K),
  ring_theory k0 k1 kadd kmul ksub kopp (@eq K) ->
  forall pre s1 s2 post q R m, factors_l K k0 kadd kmul s2 q R m -> chiR K s1 = chiL K s2 ->
  forall sigma, length sigma = length (pre ++ s1 :: s2 :: post) ->
  amp K k0 k1 kadd kmul (pre ++ absorb_r K k0 kadd kmul R m s1 :: q :: post) sigma = amp K k0 k1 kadd kmul (pre ++ s1 :: s2 :: post) sigma.
Proof. exact gauge_move_left_preserves. Qed.
Print Assumptions C10_shift_left_preserves.

Theorem C10_flip_preserves_amplitudes : forall (K : Type) (k0 k1 : K) (kadd kmul ksub : K -> K -> K) (kopp : K -> K),
  ring_theory k0 k1 kadd kmul ksub kopp (@eq K) ->
  forall ss sigma, lchain K 1 ss 1 -> length sigma = length ss ->
  amp K k0 k1 kadd kmul (TT.flip K ss) (rev sigma) = amp K k0 k1 kadd kmul ss sigma.
Proof. exact flip_preserves_amplitudes. Qed.
Print Assumptions C10_flip_preserves_amplitudes.

Theorem C10_zero_padding_preserves : forall (K : Type) (k0 k1 : K) (kadd kmul ksub : K -> K -> K) (kopp : K -> K),
  ring_theory k0 k1 kadd kmul ksub kopp (@eq K) ->
  forall v s1 s2 extra p1 p2 r, chiR K s1 = chiL K s2 ->
  step K k0 kadd kmul (step K k0 kadd kmul v (pad_right K k0 extra s1) p1) (pad_left K k0 extra s2) p2 r =
  step K k0 kadd kmul (step K k0 kadd kmul v s1 p1) s2 p2 r.
Proof. exact pad_bond_preserves. Qed.
Print Assumptions C10_zero_padding_preserves.

(* normalisation only rescales: multiplying one site tensor by c multiplies every amplitude by c *)
Theorem C10_normalize_only_rescales : forall (K : Type) (k0 k1 : K) (kadd kmul ksub : K -> K -> K) (kopp : K -> K),
  ring_theory k0 k1 kadd kmul ksub kopp (@eq K) ->
  forall pre s post c sigma, length sigma = length (pre ++ s :: post) ->
  amp K k0 k1 kadd kmul (pre ++ scale_site K kmul c s :: post) sigma = kmul c (amp K k0 k1 kadd kmul (pre ++ s :: post) sigma).
Proof. exact scale_preserves_direction. Qed.
Print Assumptions C10_normalize_only_rescales.

(* the form that was requested holds afterwards, whatever was known before, and the query reports it *)
Theorem C10_canonical_form_reached : forall n c g, wf n g -> c < n ->
  let g' := set_canonical_form c g in wf n g' /\
  (forall i, i < c -> nth i (lf g') false = true) /\ (forall i, c < i -> i < n -> nth i (rf g') false = true).
Proof. exact set_canonical_form_spec. Qed.
Print Assumptions C10_canonical_form_reached.
Theorem C10_query_reports_centre : forall n c g, wf n g -> c < n -> In c (centres (set_canonical_form c g)).
Proof. exact query_reports_centre. Qed.
Print Assumptions C10_query_reports_centre.
