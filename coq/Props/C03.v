(* C03 — noisy circuit trajectories: ideal gates plus local Lindblad noise after every two-qubit gate.
   Mechanised: which processes form the local noise model of a gate on (a,b); the lottery facts of C01 on that local list;
   the schedule facts of C02.  PARTIAL — not mechanised: the O(strength^2) remainder and the exactness of the gate
   application (see C02). *)
From Coq Require Import List Arith Reals Permutation.
Import ListNotations.
From Yaqs Require LinAlg.Unravel.
From Yaqs Require Import Base.Num Model.NoiseAttrib Proofs.NoiseAttribP Model.DigitalLoop Proofs.DigitalLoopP.
From Yaqs Require Import Proofs.DissipationP.
From Yaqs Require Import Gen.LocalGen Proofs.LocalGenP.

Theorem C03_local_selection : forall (A : Type) (kind_of : A -> pkind) a b procs p,
  In p (local_procs kind_of a b procs) <->
  In p procs /\ (sites_of (kind_of p) = [a; b] \/ sites_of (kind_of p) = [a] \/ sites_of (kind_of p) = [b]).
Proof. exact @local_selection. Qed.
Print Assumptions C03_local_selection.

Theorem C03_weight_belongs_to_its_process : forall (N : Num) L dt ns (l : list (proc N)) k p,
  nth_error l k = Some p -> nth_error (weights N L dt ns l) k = Some (weight N L dt ns p).
Proof. exact weight_of_position. Qed.
Print Assumptions C03_weight_belongs_to_its_process.
Theorem C03_lottery_is_distribution : forall L dt ns (l : list (proc RN)),
  total RN (weights RN L dt ns l) <> 0%R -> total RN (probabilities RN L dt ns l) = 1%R.
Proof. exact probabilities_sum_to_one. Qed.
Print Assumptions C03_lottery_is_distribution.
Theorem C03_branch_carries_own_rate : forall dt g nj n0 W : R, nj <> 0%R -> W <> 0%R ->
  ((1 - n0) * ((dt * g * nj) / W) / nj = ((1 - n0) / W) * (dt * g))%R.
Proof. exact branch_coefficient. Qed.
Print Assumptions C03_branch_carries_own_rate.
Theorem C03_every_gate_once : forall sampling fuel c ex ev, NoDup (map id c) ->
  run sampling fuel c = Some (ex, ev) -> Permutation ex (filter gate c).
Proof. exact executed_perm. Qed.
Print Assumptions C03_every_gate_once.

(* the dissipation sweep (apply_dissipation): every process the sweep reaches is damped exactly once, at its own site (a two-site
   process at its right site); the correspondence check identifies the operator contracted in with the exponential built from that
   process's OWN strength and compares the order with damp_schedule *)
Theorem C03_every_process_damped_once : forall L kinds k kd, nth_error kinds k = Some kd -> damp_reached L kd = true ->
  cnt k (map snd (damp_schedule L kinds)) = 1%nat.
Proof. exact damped_exactly_once. Qed.
Print Assumptions C03_every_process_damped_once.
Theorem C03_damped_at_own_site : forall L kinds i k, In (i, k) (damp_schedule L kinds) ->
  exists kd, nth_error kinds k = Some kd /\ damp_here i kd = true.
Proof. exact damped_at_own_site. Qed.
Print Assumptions C03_damped_at_own_site.

(* one step of the unravelling, averaged over its branches, is the Lindblad generator to first order in the step — in every ring
   with an anti-involution (LinAlg/Unravel.v): V = (1 + dt*A)(1 + dt*H) with A anti-self-adjoint (-i * Hamiltonian) and
   H + H = - sum_k L_k^dag L_k; no-jump branch V rho V^dag (unnormalised) plus the jump branches dt * L_k rho L_k^dag equals
   rho + dt * ([A, rho] + sum_k (L_k rho L_k^dag - 1/2 {L_k^dag L_k, rho})), for every list of jump operators (stated doubled) *)
Theorem C03_unravelling_step_is_lindblad_to_first_order :
  forall (R : Type) (ring0 ring1 : R) (add mul sub : R -> R -> R) (opp : R -> R) (req : R -> R -> Prop)
         (Rops : @Ncring.Ring_ops R ring0 ring1 add mul sub opp req), @Ncring.Ring R ring0 ring1 add mul sub opp req Rops ->
  forall dag : R -> R, (forall a b, req (dag (add a b)) (add (dag a) (dag b))) -> req (dag ring1) ring1 ->
  forall (ls : list R) (A H rho : R), req (dag A) (opp A) -> req (dag H) H -> req (add H H) (opp (Unravel.gram dag ls)) ->
  req (fst (Unravel.average dag ls A H rho)) rho /\
  req (add (snd (Unravel.average dag ls A H rho)) (snd (Unravel.average dag ls A H rho)))
      (add (add (sub (mul A rho) (mul rho A)) (sub (mul A rho) (mul rho A)))
           (Unravel.sumL ls (fun l => sub (add (mul (mul l rho) (dag l)) (mul (mul l rho) (dag l)))
                                          (add (mul (mul (dag l) l) rho) (mul rho (mul (dag l) l)))))).
Proof. exact @Unravel.unravelling_first_order. Qed.
Print Assumptions C03_unravelling_step_is_lindblad_to_first_order.

(* tie to the source by translation (Gen/LocalGen.v regenerated on every run): the list comprehension of create_local_noise_model
   selects exactly the model's local processes, in list order *)
Theorem C03_source_local_selection_is_model : forall (A : Type) (kind_of : A -> pkind) a b procs,
  filter (fun p => local_selected_src a b (sites_of (kind_of p))) procs = local_procs kind_of a b procs.
Proof. exact @local_src_list_is_model. Qed.
Print Assumptions C03_source_local_selection_is_model.
