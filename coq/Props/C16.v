(* C16 — barriers/measurements are transparent; labelled barriers sample where they stand. *)
From Coq Require Import List Arith Permutation.
Import ListNotations.
From Yaqs Require Import Model.DigitalLoop Proofs.DigitalLoopP Model.Params Proofs.ParamsP Model.LayerRule Gen.LayerGen Proofs.LayerRuleP.

(* the scheduling loop ends for every circuit, in strong mode with sampling on or off and in weak mode
   (sampling = false), with at most one iteration per instruction *)
Theorem C16_terminates : forall sampling c, trajectory sampling c <> None.
Proof. exact trajectory_terminates. Qed.
Print Assumptions C16_terminates.
Theorem C16_loop_fuel : forall sampling fuel rem, length rem <= fuel -> run sampling fuel rem <> None.
Proof. exact loop_terminates. Qed.
Print Assumptions C16_loop_fuel.

(* every gate is executed exactly once, whatever barriers/measurements surround it *)
Theorem C16_gates_executed_once : forall sampling fuel rem ex ev, NoDup (map id rem) ->
  run sampling fuel rem = Some (ex, ev) -> Permutation ex (filter gate rem).
Proof. exact executed_perm. Qed.
Print Assumptions C16_gates_executed_once.

(* transparency: with and without barriers/measurements (and with sampling on or off) the executed gate sequences
   have the same product in EVERY monoid semantics in which gates on disjoint qubits commute *)
Theorem C16_transparent : forall (M : Type) (op : M -> M -> M) (e : M),
  (forall a b c, op a (op b c) = op (op a b) c) -> (forall a, op e a = a) -> (forall a, op a e = a) ->
  forall (sem : instr -> M), (forall a b, shares a b = false -> op (sem a) (sem b) = op (sem b) (sem a)) ->
  forall sampling1 sampling2 c ex1 ev1 ex2 ev2, NoDup (map id c) ->
  run sampling1 (length c) c = Some (ex1, ev1) -> run sampling2 (length (strip c)) (strip c) = Some (ex2, ev2) ->
  prod M op e sem ex1 = prod M op e sem ex2.
Proof. exact transparent. Qed.
Print Assumptions C16_transparent.

(* the events are the executed gates in order, plus one sample per labelled barrier; the number of evaluated columns
   (initial + barriers + final) is exactly what the front-end allocated *)
Theorem C16_events_are_executed_gates : forall sampling fuel rem ex ev,
  run sampling fuel rem = Some (ex, ev) -> gates_of ev = map id ex.
Proof. exact events_gates. Qed.
Print Assumptions C16_events_are_executed_gates.
Theorem C16_columns : forall sampling c ev, NoDup (map id c) -> trajectory sampling c = Some ev ->
  count_samples ev = columns_allocated sampling c.
Proof. exact columns_match. Qed.
Print Assumptions C16_columns.

(* the number of result columns of a layer-sampling run depends on the circuit of THIS run only: not on the circuits the same
   parameter object was used for before, nor on the num_mid_measurements it was constructed with *)
Theorem C16_columns_history_independent : forall h labelled p,
  snd (run_layers labelled (layers_history h p)) = if sample_layers p then labelled + 2 else 1.
Proof. exact layers_history_independent. Qed.
Print Assumptions C16_columns_history_independent.

(* gauge discipline of the whole noise-free trajectory, in strong mode with or without layer sampling and in weak mode: every
   two-qubit gate and every READ — the observables at the start, at each labelled barrier and at the end, measure_shots in weak
   mode, all of which sweep from site 0 — finds the orthogonality centre at site 0 (barriers and measurements do not matter);
   the word ends for every circuit, and without its reads it is the gauge word of the gates that `run` executes *)
Theorem C16_reads_in_canonical_form : forall m c w, traj_word m c = Some w -> forallb (fun b => b) (gauge_run true w) = true.
Proof. exact trajectory_gauge. Qed.
Print Assumptions C16_reads_in_canonical_form.
Theorem C16_gauge_word_total : forall m c, traj_word m c <> None.
Proof. exact traj_word_terminates. Qed.
Print Assumptions C16_gauge_word_total.
Theorem C16_gauge_word_refines_loop : forall sampling fuel rem ex ev, run sampling fuel rem = Some (ex, ev) ->
  exists w lost, run_g sampling fuel rem = Some (w, lost) /\ filter no_read w = gauge_word ex.
Proof. exact run_g_refines_run. Qed.
Print Assumptions C16_gauge_word_refines_loop.

(* front-layer filtering as the SOURCE states it now (Gen/LayerGen.v is regenerated from process_layer on every run): for every node
   description that represents a model instruction, the source files the node where DigitalLoop.iter files the instruction —
   measurements and unlabelled barriers dropped, labelled barriers (label compared case-insensitively) kept as sampling points,
   one-qubit gates, even and odd two-qubit gates, each group sorted by the same key — and raises only for gates on three or more qubits *)
Theorem C16_source_layer_rule_is_model : forall d i, represents d i ->
  classify_src d = model_class i
  /\ (kind i = G1 -> single_key_src d = minq i)
  /\ (kind i = G2 -> even_key_src d = minq i /\ odd_key_src d = minq i).
Proof. exact layer_rule_src_is_model. Qed.
Print Assumptions C16_source_layer_rule_is_model.
Theorem C16_source_rejects_only_wide_gates : forall d,
  classify_src d = CRaise <-> is_gate_name d = true /\ d_nq d <> 1 /\ d_nq d <> 2.
Proof. exact layer_rule_raises_only_wide. Qed.
Print Assumptions C16_source_rejects_only_wide_gates.
Theorem C16_loop_groups_are_classes : forall layer,
  filter (fun i => is_kind Meas i || is_kind Bar i)%bool layer = filter (fun i => cls_eqb (model_class i) CDrop) layer
  /\ filter (is_kind G1) layer = filter (fun i => cls_eqb (model_class i) CSingle) layer
  /\ filter (fun i => is_kind G2 i && is_even i)%bool layer = filter (fun i => cls_eqb (model_class i) CEven) layer
  /\ filter (fun i => is_kind G2 i && negb (is_even i))%bool layer = filter (fun i => cls_eqb (model_class i) COdd) layer
  /\ filter (is_kind SBar) layer = filter (fun i => cls_eqb (model_class i) CSample) layer.
Proof. exact iter_groups_are_classes. Qed.
Print Assumptions C16_loop_groups_are_classes.
(* the count that sizes the result arrays (simulator._run_strong_sim, regenerated from the source) and the loop agree on what a sampling
   barrier is: a node gets a result column exactly when the loop samples at it *)
Theorem C16_source_count_is_sampling : forall d, counted_src d = cls_eqb (classify_src d) CSample.
Proof. exact counted_iff_sampled. Qed.
Print Assumptions C16_source_count_is_sampling.
Example C16_layer_rule_example :
  classify_src ex_labelled_barrier = CSample /\ classify_src ex_plain_barrier = CDrop /\ classify_src ex_cx_21 = COdd
  /\ represents ex_cx_21 (mk 7 G2 [2;1]).
Proof. vm_compute. repeat split; reflexivity. Qed.

Example C16_gauge_example :
  traj_word Weak [mk 0 G1 [0]; mk 1 G2 [1;2]; mk 2 Bar [0;1;2]] = Some [GOne; GTwo; GRestore; GRead]
  /\ traj_word StrongPlain [mk 1 G2 [0;1]; mk 0 G1 [0]] = Some [GTwo; GRestore; GOne; GRestore; GRead]
  /\ traj_word StrongSampling [mk 2 SBar [0;1]; mk 3 G1 [0]] = Some [GRead; GRead; GOne; GRestore; GRead].
Proof. vm_compute. repeat split; reflexivity. Qed.

Example C16_example :
  trajectory true [mk 0 G1 [0]; mk 1 G2 [0;1]; mk 2 SBar [0;1;2]; mk 3 G2 [2;1]; mk 4 Meas [0]; mk 5 G1 [2]; mk 6 G1 [0]]
  = Some [ESample; EGate 0; EGate 1; ESample; EGate 3; EGate 6; EGate 5; ESample]
  /\ trajectory false [mk 2 SBar [0;1;2]; mk 3 G2 [1;2]] = Some [EGate 3; ESample].
Proof. vm_compute. split; reflexivity. Qed.
