(* C16 — barriers/measurements are transparent; labelled barriers sample where they stand. *)
From Coq Require Import List Arith Permutation.
Import ListNotations.
From Yaqs Require Import Model.DigitalLoop Proofs.DigitalLoopP Model.Params Proofs.ParamsP.

(* the scheduling loop ends for every circuit, in strong mode with sampling on or off and in weak mode
   (sampling = false), with at most one iteration per instruction *)
Theorem C16_terminates : forall sampling c, trajectory sampling c <> None.
Proof. exact trajectory_terminates. Qed.
Print Assumptions C16_terminates.
Theorem C16_loop_fuel : forall sampling fuel rem, length rem <= fuel -> run sampling fuel rem <> None.
Proof. exact loop_terminates. Qed.
Print Assumptions C16_loop_fuel.

(* every gate is executed exactly once, whatever barriers/measurements surround it *)
Theorem C16_gates_executed_once : forall sampling fuel rem ex ev, NoDup (map id rem) ->
  run sampling fuel rem = Some (ex, ev) -> Permutation ex (filter gate rem).
Proof. exact executed_perm. Qed.
Print Assumptions C16_gates_executed_once.

(* transparency: with and without barriers/measurements (and with sampling on or off) the executed gate sequences
   have the same product in EVERY monoid semantics in which gates on disjoint qubits commute *)
Theorem C16_transparent : forall (M : Type) (op : M -> M -> M) (e : M),
  (forall a b c, op a (op b c) = op (op a b) c) -> (forall a, op e a = a) -> (forall a, op a e = a) ->
  forall (sem : instr -> M), (forall a b, shares a b = false -> op (sem a) (sem b) = op (sem b) (sem a)) ->
  forall sampling1 sampling2 c ex1 ev1 ex2 ev2, NoDup (map id c) ->
  run sampling1 (length c) c = Some (ex1, ev1) -> run sampling2 (length (strip c)) (strip c) = Some (ex2, ev2) ->
  prod M op e sem ex1 = prod M op e sem ex2.
Proof. exact transparent. Qed.
Print Assumptions C16_transparent.

(* the events are the executed gates in order, plus one sample per labelled barrier; the number of evaluated columns
   (initial + barriers + final) is exactly what the front-end allocated *)
Theorem C16_events_are_executed_gates : forall sampling fuel rem ex ev,
  run sampling fuel rem = Some (ex, ev) -> gates_of ev = map id ex.
Proof. exact events_gates. Qed.
Print Assumptions C16_events_are_executed_gates.
Theorem C16_columns : forall sampling c ev, NoDup (map id c) -> trajectory sampling c = Some ev ->
  count_samples ev = columns_allocated sampling c.
Proof. exact columns_match. Qed.
Print Assumptions C16_columns.

(* the number of result columns of a layer-sampling run depends on the circuit of THIS run only: not on the circuits the same
   parameter object was used for before, nor on the num_mid_measurements it was constructed with *)
Theorem C16_columns_history_independent : forall h labelled p,
  snd (run_layers labelled (layers_history h p)) = if sample_layers p then labelled + 2 else 1.
Proof. exact layers_history_independent. Qed.
Print Assumptions C16_columns_history_independent.

Example C16_example :
  trajectory true [mk 0 G1 [0]; mk 1 G2 [0;1]; mk 2 SBar [0;1;2]; mk 3 G2 [2;1]; mk 4 Meas [0]; mk 5 G1 [2]; mk 6 G1 [0]]
  = Some [ESample; EGate 0; EGate 1; ESample; EGate 3; EGate 6; EGate 5; ESample]
  /\ trajectory false [mk 2 SBar [0;1;2]; mk 3 G2 [1;2]] = Some [EGate 3; ESample].
Proof. vm_compute. split; reflexivity. Qed.
