(* C15 — results are reported on the time grid the user asked for. *)
From Coq Require Import List Arith ZArith Reals PrimFloat.
Import ListNotations.
From Flocq Require Import Core.
From Yaqs Require Import Model.JumpPipeline Model.Grid Proofs.JumpPipelineP Proofs.GridP Gen.TimesGen Proofs.TimesGenP.
From Yaqs Require Import Model.SolverClock Proofs.SolverClockP.

(* number of steps computed by the grid construction, in binary64 round-to-nearest-even semantics (Flocq):
   round(fl(fl(k*dt)/dt)) = k, so the grid has k+1 points, for 1 <= k <= 2^40 and no underflow.
   PARTIAL: stated over Flocq's real-number model of binary64; the identification of NumPy's/PrimFloat's operations
   with that model is checked by the bit-exact correspondence sweep, not proved here. *)
Theorem C15_len_partial : forall (k : Z) (dt : R), (1 <= k <= 2 ^ 40)%Z -> (0 < dt)%R ->
  (bpow radix2 (-1074 + 53 - 1) <= IZR k * dt)%R ->
  (bpow radix2 (-1074 + 53 - 1) <= rnd (IZR k * dt) / dt)%R ->
  ZnearestE (rnd (rnd (IZR k * dt) / dt)) = k.
Proof. exact grid_steps_exact. Qed.
Print Assumptions C15_len_partial.

(* one result column per grid point, in order, when intermediate sampling is on *)
Theorem C15_columns_order1 : forall sched noise n, map fst (cols1 sched noise true n) = seq 0 n.
Proof. exact cols1_sampling. Qed.
Print Assumptions C15_columns_order1.
Theorem C15_columns_order2 : forall sched n, map fst (cols2 sched true n) = seq 0 n.
Proof. exact cols2_sampling. Qed.
Print Assumptions C15_columns_order2.

(* entry j is the state after exactly j unitary steps of length dt *)
Theorem C15_entry_is_time_order1 : forall sched noise n j w, In (j, w) (cols1 sched noise true n) -> count_sym U w = j.
Proof. exact cols1_entry. Qed.
Print Assumptions C15_entry_is_time_order1.
Theorem C15_entry_is_time_order2 : forall sched n j w, In (j, w) (cols2 sched true n) -> count_sym U w = j.
Proof. exact cols2_entry. Qed.
Print Assumptions C15_entry_is_time_order2.

(* sampling off: exactly one column, holding the state at the total time (n-1 steps), for every grid with >= 2 points *)
Theorem C15_final_only_order1 : forall sched noise n, 2 <= n -> cols1 sched noise false n = [(0, w1 sched noise (n - 1))].
Proof. exact cols1_final. Qed.
Print Assumptions C15_final_only_order1.
Theorem C15_final_only_order2 : forall sched n, 2 <= n -> cols2 sched false n = [(0, sample2 sched (n - 1))].
Proof. exact cols2_final. Qed.
Print Assumptions C15_final_only_order2.
Theorem C15_final_time_order2 : forall sched j, 1 <= j -> count_sym U (sample2 sched j) = j.
Proof. exact order2_time. Qed.
Print Assumptions C15_final_time_order2.

(* the dense back-ends (MCWF loop, Lindblad integrator): entry c is evaluated on the state at grid point c, i.e. after c steps of dt;
   with sampling off the single entry is evaluated at the last grid point.  n = number of grid points (k+1). *)
Theorem C15_dense_backends_entries : forall sampling n, 2 <= n ->
  mcwf_cols sampling n = lindblad_cols sampling n /\
  lindblad_cols sampling n = if sampling then map (fun t => (t, t)) (seq 0 n) else [(0, n - 1)].
Proof. exact dense_backends_entries. Qed.
Print Assumptions C15_dense_backends_entries.

Example C15_example : grid_len 0x1.999999999999ap-3%float 0x1.999999999999ap-4%float = 3%Z /\ cols2 (fun _ => false) false 2 = [(0, [Dh; J; U; Dh; J])].
Proof. vm_compute. split; reflexivity. Qed.

(* tie to the source by translation (Gen/TimesGen.v regenerated on every run): the expression assigned to AnalogSimParams.times is
   the model's grid: round(T/dt)+1 points, point j = fl(dt*j) *)
Theorem C15_source_times_is_model : forall elapsed_time dt, times_src elapsed_time dt = grid elapsed_time dt.
Proof. exact times_src_is_model. Qed.
Print Assumptions C15_source_times_is_model.
Theorem C15_source_times_length : forall elapsed_time dt,
  Z.of_nat (length (times_src elapsed_time dt)) = Z.max 0 (grid_len elapsed_time dt).
Proof. exact times_src_length. Qed.
Print Assumptions C15_source_times_length.
