#!/usr/bin/env python3
"""Regenerates /verif/MANIFEST.json from the table below (one entry per claimed property)."""
import json
from pathlib import Path

VERIF = Path(__file__).resolve().parent.parent
ALL = [f"C{n:02d}" for n in range(1, 21)]

COMMON_NOTE = ("Trusted: Coq 8.16.1 kernel and vm_compute (no native_compute); the axioms Print Assumptions lists for this "
               "property's theorems (copied into evidence.coverage.trusted_base on every run); the hand-written Gallina model "
               "is tied to /repo by the correspondence check, which is differential testing and bounds the assurance. ")

# pid -> (technique, level text, level note, design ref)
CLAIMS = {
    "C13": (
        "Coq proof (invariant by induction over all completion/fault scripts) + exact model/implementation correspondence on enumerated scripts",
        "Machine-checked proof, for every job count, window, retry budget and every script of completions/faults, that the "
        "bounded-window runner delivers each index exactly once (Permutation of 0..n-1), never holds more than 2*max_workers "
        "futures, keeps the window full, surfaces fatal/exhausted failures without yielding the failed index, performs at most "
        "n*(max_retries+1) submissions, and that stitching by index reproduces the serial rows. The Gallina state machine is "
        "compared exactly (yield order, submit log, in-flight set, error) with the real run_backend_parallel driven by a "
        "deterministic executor on exhaustive short scripts and random long ones; the front-ends are run with tagged results. Extended: scripts with faults on several indices and on index 0; runner exceptions recorded as outcomes. Public entry simulator.run under exhausted retry budgets.",
        COMMON_NOTE + "Not modelled: process start-up, pickling, real time-outs, tqdm. Assumes a wait() batch behaves like its "
        "futures completing one at a time.",
        "DESIGN.md §3 C13"),
    "C08": (
        "Coq proof (cap theorems for every spectrum in every number system + invariant by induction over operation sequences) + bit-exact kept-rank correspondence by spectrum injection",
        "Machine-checked proof that the rank returned by the two-site split (both truncation modes, both values of the dynamic "
        "flag, any spectrum, exact or binary64 arithmetic) is at most max(max_bond_dim, min(min_bond_dim, rank)), that "
        "two_site_svd respects its cap, and that over every sequence of split / centre-move operations with adversarial spectra "
        "each bond stays below max(cap, min_bond_dim, its initial value). The model's binary64 instance is compared bit-exactly "
        "with the real split_mps_tensor / two_site_svd on injected spectra (ties, rank-deficient, zero, thresholds at exact "
        "cumulative weights); whole simulator runs with caps 1..6 (digital, analog, noisy) are searched for a bond above the bound. Extended: the rank-selection code is regenerated from the source by a translator and proved equal to the model (obligations); svd_shift_bounded for the uncapped SVD centre shift; whole runs record the real bonds at every sampling point, incl. cap 1, non-uniform initial bonds, noisy threshold-0 runs. BUG whole runs in relative mode.",
        COMMON_NOTE + "Modelled, not verified: LAPACK validity; that QR/one-site updates never enlarge a bond (checked by the whole-run search only).",
        "DESIGN.md §3 C08"),
    "C09": (
        "Coq proof over exact rationals (loop invariant: discarded weight <= threshold, maximality, relative count, clamping) + bit-exact kept-rank correspondence + dense-SVD search",
        "Machine-checked proof, for every spectrum, threshold, min/max bond and flag: the discarded-weight loop cuts at most the "
        "threshold (exact rationals) and no less than it could, the value used is that choice clamped into [min_keep, cap] so the "
        "weight exceeds the threshold only if the cap forced it, the kept rank never exceeds the number of singular values, relative "
        "mode counts exactly the values >= threshold*largest and clamps, two_site_svd cuts strictly less than its threshold and keeps "
        "at least two. PARTIAL: the reconstruction identity |theta-AB|^2 = discarded weight, the isometry of the advertised factor and "
        "the agreement of the three distributions are checked numerically against a dense SVD on generated tensors (search), not yet "
        "mechanised; binary64 accumulation is compared bit-exactly with the model but the inequality is proved over Q. Extended: the reconstruction identity is now mechanised over any commutative ring with involution (truncation_error_is_discarded_weight); source tie by translation as in C08; wide-range spectra. Exact ties at the relative cut (dyadic spectra, both LAPACK drivers bit-exact). Blocks of tiny or large norm with thresholds scaled along, nearly real blocks; un-squared reconstruction error against the norm of the discarded values.",
        COMMON_NOTE + "Modelled, not verified: LAPACK returns a valid SVD with non-increasing non-negative values.",
        "DESIGN.md §3 C09"),
    "C14": (
        "Coq proof (induction over grid length and column index of the symbolic pipeline words, arbitrary schedules) + exact word correspondence with the real pipelines under recording stubs + bit-exact time-matching correspondence",
        "Machine-checked proof that, for both integrator orders, every schedule (several jumps, equal or different grid indices), "
        "every grid length and every column j, the scheduled jump at grid index k occurs exactly once in the sequence of kernel "
        "calls behind column j when k <= j and never otherwise, that it is placed after exactly k unitary steps, that columns "
        "before k do not depend on the schedule, and (exact arithmetic) that a jump at k*dt matches grid point j*dt iff j = k for "
        "grids of any length. The words are compared exactly with the real analog_tjm_1/2 run with recording stubs (real "
        "has_scheduled_jump); the binary64 time-matching model is compared bit-exactly with has_scheduled_jump up to 10^6 steps. "
        "PARTIAL: the numerical action of the operator (application, two-site merge/split, renormalisation) is covered by the "
        "dense 'apply once at t_k' search only. Extended: the time-matching tests of has_scheduled_jump/apply_scheduled_jumps are regenerated from the source and proved equal to the model and to each other; local-operator theorem for the action of a one-site jump. Scheduled jumps with the user's own matrix under own and library names. Several trajectories on one sampled noise model (scheduled jumps next to a stochastic channel of negligible rate), serial and through worker processes, each against the dense reference. Schedules riding on a noise model whose stochastic channels are all switched off.",
        COMMON_NOTE + "Assumes the state is determined by the word of kernel calls.",
        "DESIGN.md §3 C14"),
    "C15": (
        "Coq proof (column/time bookkeeping by induction; grid length over Flocq's binary64 semantics) + bit-exact grid correspondence (PrimFloat vs NumPy) + word correspondence + all-solver search",
        "Machine-checked proof that the pipelines write exactly one column per grid point in order, that column j is the state "
        "after j steps, that with sampling off the single column is the state at the total time for every grid with >= 2 points, "
        "and (PARTIAL: over Flocq's real-number model of binary64, 1 <= k <= 2^40, no underflow) that round(fl(fl(k*dt)/dt)) = k "
        "so the grid has k+1 points. The PrimFloat grid model is compared bit for bit (length, first, second, last element) with "
        "AnalogSimParams.times on a (k, dt) sweep; all four solvers are searched for wrong result lengths / values at the total time. Extended: the expression assigned to AnalogSimParams.times is regenerated from the source and proved equal to the grid model; sweep over time units 1e-12..1e3; observable-reuse histories. Dense back-ends: SolverClock model + clock traces (which grid point each entry is evaluated at, step lengths, t_eval); long horizons on 6-8 qubits. Columns with deterministic events pinned to grid times (first, inner, last; both orders) against the apply-once reference.",
        COMMON_NOTE + "Axioms: the standard-library real-number axioms and classic (through Flocq) for C15_len_partial only. "
        "The bridge PrimFloat ops = Flocq rounding is not proved (sweep).",
        "DESIGN.md §3 C15"),
    "C16": (
        "Coq proof (termination by a strictly decreasing measure, permutation/linearisation theorems, trace-monoid commutation lemma) + exact event-sequence correspondence with the real digital_tjm loop under stubs and a wall-clock guard",
        "Machine-checked proof, for every instruction list and every mode (strong with/without layer sampling, weak): the loop "
        "terminates within one iteration per instruction; every gate is executed exactly once; gates sharing a qubit keep their "
        "program order; any two such linearisations (in particular the circuit with and without barriers/measurements, sampling "
        "on or off) have equal products in every monoid semantics where gates on disjoint qubits commute; the events are the gates "
        "in execution order plus one sample per labelled barrier, and initial+barriers+final equals the allocated column count. "
        "The model's event sequence is compared exactly with the real loop (through _run_strong_sim/_run_weak_sim, stubs for the "
        "gate kernels) on random circuits; real-numerics search compares results with/without barriers and each sampled column "
        "with Qiskit's Statevector of the prefix. PARTIAL: Qiskit's DAG API is modelled as an instruction list with the "
        "front-layer rule; labelled barriers are taken full-width. Extended: layer-sampling history model (run_layers) with theorem and history trace; partial and trailing labelled barriers. Weak-mode numerics: the sampling distribution of the state handed to measure_shots (every outcome string forced once) vs the exact amplitudes, for circuits ending in a two-qubit gate away from the left edge, with and without barriers. Gauge word of the whole noise-free trajectory (traj_word) with theorem that every gate and every read (observables, measure_shots) finds the centre at site 0 in all three modes, tied to the recorded normalize/evaluate/measure calls of the real loop. Front-layer filtering regenerated from the source of process_layer on every run (translate_layer.py -> Gen/LayerGen.v) and proved equal to the classification inside the loop model; validated node by node against the real process_layer.",
        COMMON_NOTE + "Translator harness/gen/translate_layer.py (str.upper() modelled on ASCII letters). Modelled, not verified: DAGCircuit.front_layer/remove_op_node.",
        "DESIGN.md §3 C16"),
    "C20": (
        "Coq proof (induction over run histories of the parameter-object model) + exact history correspondence with the real front-ends under counting stubs + real-run search (input immutability, per-trajectory generators)",
        "Machine-checked proof that for every history of noisy/noise-free runs on one shared StrongSimParams/AnalogSimParams/"
        "WeakSimParams object the next run executes the trajectories and returns the counts a fresh object would, that num_traj and "
        "shots are preserved, and that weak counts sum to the requested shots. The model is compared exactly (executed back-end "
        "calls, parameter values afterwards, allocated rows / returned counts) with the real _run_strong_sim/_run_analog/"
        "_run_weak_sim on enumerated and random histories, serial and parallel (deterministic executor). The search runs real "
        "simulations: reused vs fresh noise-free results, deep equality of circuit/Hamiltonian/noise model before and after, one "
        "OS-seeded Generator per trajectory with distinct states. PARTIAL: statistical independence of separately OS-seeded "
        "generators (also across forked workers) is a property of NumPy/the OS and is not modelled. Extended: layer-sampling histories (columns depend on the circuit of the run only). Real pools of four workers: no trajectory repeats another of the same or previous run; generator-per-trajectory is a correspondence, not a demand. One AnalogSimParams object served by TJM, MCWF and Lindblad in any order (run_analog model + trace). State-ray check with an asymmetric initial state. Noise models with switched-off channels next to live ones and with drawn strengths, the Lindblad solver, scheduled jumps and long-range factors in the before/after snapshot. Aliasing model (ObjStore): theorem that writes addressed to objects the run allocated leave every caller object unchanged; tie: NoiseModel.sample() shares nothing with its source, operation sequences on the real sample vs run_on_sample, run() hands a sample to every front-end. Scheduled jumps next to a channel of negligible rate: every trajectory of a run is the same evolution whatever its index or worker. Allocation of result storage regenerated from the source of Observable.initialize on every run (translate_init.py -> Gen/InitGen.v) and proved equal to the model (one row per requested trajectory or shot, the front-end's column count, nothing inherited from an earlier run); validated against the real method on fresh and used observables. Refused calls (noisy circuit run with get_state) in the Params model with theorem that histories with refusals are as harmless as histories without; refused-then-corrected histories on the real front-ends. Different user-defined operators under the same name, strength and step in consecutive runs. Runs that fail inside the engines (Failures model: Completes / Refused / Fails; theorem that any such history leaves the next run as on a fresh object), tied through the public entry point with a trajectory routine that raises.",
        COMMON_NOTE + "Translator harness/gen/translate_init.py (Observable.initialize -> Gen/InitGen.v), validated against the real method on every run.",
        "DESIGN.md §3 C20"),
    "C18": (
        "Coq proof over Coquelicot's complex numbers about a model REGENERATED from gate_library.py by a fail-closed ast translator on every run + translator validation against the live objects + search against Qiskit standard matrices / scipy expm",
        "Machine-checked proof, for every real angle, that each gate class's matrix expression (as written in the source today) is the "
        "standard matrix of that name (19 gates) and that the generator pair stored on cx, cz, cp, rxx, ryy, rzz has the structure "
        "(scalar times involution, or scalar times G with G^2 = mu G) whose closed-form exponential equals the gate matrix; the closed "
        "forms are proved to be one-parameter groups through the identity. Angle expressions are normalised by field_simplify so that "
        "algebraically equal rewrites of the source keep the proofs valid. PARTIAL: closed form = analytic matrix exponential is cited "
        "(group law proved); tensor orientation (set_sites transposes), extend_gate/split_tensor (SVD split, identity padding, reversal) "
        "are checked numerically for both orientations and separations 1..4 by the search, not mechanised. Extended: padded_gate_mpo theorem (identity pass-through padding; flipped chain for descending sites) and structural tie of the real mpo_tensors; fine Trotter angles. Histories on one gate object (re-sited in both orientations). Every form read at each earlier placement of a re-sited gate object.",
        COMMON_NOTE + "Axioms: the three standard-library real-number axioms (sig_forall_dec, sig_not_dec, functional_extensionality_dep). "
        "The translator is trusted to render the supported expression grammar; it fails closed on anything else.",
        "DESIGN.md §3 C18"),
    "C02": (
        "Coq proof (scheduling: permutation + dependency preservation + trace-monoid commutation lemma; gate tables via C18; one trajectory for noise-free runs) + exact schedule correspondence + state-vector search against Qiskit",
        "Machine-checked proof that the layered schedule of digital_tjm executes every gate of any circuit exactly once, keeps the program "
        "order of gates sharing a qubit, terminates, and that all such linearisations have the same product in every monoid semantics "
        "where disjoint gates commute; that a noise-free run executes exactly one trajectory; together with C18 (each gate's matrix is "
        "the standard one and its generator exponentiates to it, all angles). PARTIAL: that the windowed two-site TDVP sweep applies "
        "exp(-i A(x)B) exactly (projector-splitting exactness for a rank-one generator inside the window) and the Krylov accuracy are "
        "not mechanised; they are covered by the search, which compares simulator.run(get_state=True) with Qiskit's Operator on random "
        "circuits over the full gate set, both orientations, all built-in initial states: amplitudes up to global phase and all one- and "
        "adjacent two-site Pauli expectation values. Extended: theorem that contracting a one-site operator with a site tensor acts exactly on every amplitude (any ring, any chain); operator-identity tie per executed two-qubit gate (exp(-i generator) handed to the windowed TDVP = that gate's unitary incl. qubit order); repetition families, deep 8/9-qubit circuits, shuffled observable listings. Products of two different Paulis among the observables. Parameter objects that served a noisy multi-trajectory run before the noise-free run. Initial-state objects that served an earlier run.",
        COMMON_NOTE + "Axioms: closed under the global context for the scheduling theorems; the real-number axioms for the C18 part.",
        "DESIGN.md §3 C02"),
    "C11": (
        "Coq proof (stable site-sort is a permutation; object-wise attribution; centre discipline by induction over the sorted list) + exact read-log correspondence (centre measured on the real tensors) + dense-vector search",
        "Machine-checked proof, for every list of observables (any order, any mixture with diagnostics): every observable object is "
        "evaluated exactly once and receives the value computed for it; every local expectation value is read from a state whose "
        "orthogonality centre is on the observable's first site, every entropy / Schmidt spectrum with the centre on its bond. The "
        "model's read log is compared exactly with the real evaluate_observables (wrappers record which object is read and where the "
        "centre of the state being read is, from the isometry of the real tensors). PARTIAL: that a centred local contraction equals "
        "the dense expectation value (isometry of the environments) is not mechanised here; the search compares every observable kind "
        "of the library on random entangled normalised states, plus norm, overlap and bitstring probability, and shuffled lists "
        "through simulator.run, with the dense vector. Extended: centred_expectation_is_dense (left-isometric prefix, right-isometric suffix => sum over all basis strings = centre contraction; any ring, length, dimensions), merged two-site tensors; MPS.expect tied to that contraction on the real tensors; front-end attribution trace (serial/parallel); entangling two-site observables. User-defined operators sharing the gate name 'custom' on the same site(s). A second evaluation of the same state object (values unchanged, represented vector unchanged).",
        COMMON_NOTE,
        "DESIGN.md §3 C11"),
    "C01": (
        "Coq proof (lottery attribution/permutation covariance, distribution facts and rate identity over R; pipeline-word shape by induction) + probability-vector correspondence against dense jump norms + whole-outcome-tree search against the dense Lindblad solution",
        "Machine-checked proof that the k-th probability belongs to the k-th listed process for every list and chain length, that "
        "permuting the list permutes the weights with it, that the probabilities are non-negative and sum to one, that in the "
        "averaged post-lottery state each process enters with its own rate (the jump norm cancels; to first order exactly dt*gamma_k), "
        "and that the order-2 / order-1 pipelines have the Strang / Lie shape with a total dissipation time of j*dt. The binary64 "
        "instance of the lottery model is compared (1e-9) with the real create_probability_distribution on random entangled "
        "sub-normalised states and random process lists of every kind, and the process actually applied for a forced index is "
        "checked on the dense vector. The search enumerates the WHOLE outcome tree of one-step trajectories (TJM order 1, order 2, "
        "MCWF) with the probabilities the code itself uses and compares the average with the dense Lindblad solution at dt and dt/2 "
        "(local error must fall ~4x) and under reversal of the process list. PARTIAL: 'first-order consistent + symmetric "
        "composition => global O(dt^2) at fixed step count' and the exponentials themselves are not mechanised. Extended: the dissipation sweep is modelled (every process damped exactly once at its own site; theorem + operator-identity trace of apply_dissipation against each process's own exponential), preprocess_mcwf is tied operator by operator, lists contain zero-strength entries and repeated kinds with distinct strengths. One unravelling step averaged over its branches = Lindblad generator to first order, for every list of jump operators, in every ring with an anti-involution (LinAlg/Unravel.v). Symmetric splitting exact through second order (LinAlg/Strang.v). Filing of listed processes by NoiseModel (NoiseNorm.v) modelled and tied.",
        COMMON_NOTE + "Axioms: standard-library real-number axioms for the theorems over R.",
        "DESIGN.md §3 C01"),
    "C03": (
        "Coq proof (local-process selection, lottery facts on the local list, schedule facts) + exact per-gate noise-event correspondence + outcome-tree search for noisy circuits",
        "Machine-checked proof of which processes form the local noise model of a gate on (a,b) (exactly those on [a,b], [a], [b], in "
        "list order), of the lottery facts of C01 on that list and of the schedule facts of C02. The real digital_tjm loop is traced: "
        "one-qubit gates are followed by no noise call, every two-qubit gate by dissipation and lottery with dt = 1 over exactly the "
        "processes the model selects, in order (random circuits x random lists with duplicates and unsorted sites). The search "
        "enumerates the whole outcome tree of circuits with <= 2 two-qubit gates and compares the average with 'exact gate, then "
        "unit-time Lindblad channel of the local processes' at strengths g and g/2 (error must fall ~4x). PARTIAL: the O(g^2) remainder "
        "and the exactness of gate application (C02) are not mechanised. Extended: dissipation sweep model/theorems and trace at unit step as in C01. First-order unravelling theorem as in C01. Selection rule of create_local_noise_model translated from the source. Noise trace and outcome-tree average through the public entry point (the bit-reversed circuit copy simulator.run hands to a trajectory).",
        COMMON_NOTE + "Axioms: standard-library real-number axioms for the theorems over R.",
        "DESIGN.md §3 C03"),
    "C06": (
        "Coq proof (mixed-radix index arithmetic: digit round trip, solver state index = operator embedding index, for every chain length) + exact per-basis-string correspondence for all four solver settings + dense master-equation search",
        "Machine-checked proof, for binary chains of any length, that the position at which the dense solvers hold the amplitude of a "
        "basis string (to_vec followed by their re-ordering) equals the position at which operators are embedded, and that Z embedded "
        "on site i reads digit i of the string. Exact tie: for every basis string of length 2..4 the to_vec index, MCWF's start-vector "
        "index and the signs of <Z_i> reported by TJM order 1/2, MCWF and Lindblad (t=0 and after evolution under a site-diagonal "
        "Hamiltonian) vs the model. Search: the solvers on asymmetric initial states (basis strings, Neel, wall) with random "
        "Hamiltonians and one-site noise against the dense master equation / unitary evolution. PARTIAL: RK45 meeting its "
        "tolerance and the time-stepping error of TJM/MCWF are not mechanised (tolerances 2e-4 / 5e-3). Extended: two-site operator embedding (pair_digit) with theorem and tie through the four embedding front-ends; complex initial states, Y observables, two-site observables and processes in the search. Liouvillian tie (generator integrated by the Lindblad back-end vs dense master equation, switched-off entries); mixed two-site observables. Initial-state object histories. Initial states with real-dtype site tensors through every back-end.",
        COMMON_NOTE,
        "DESIGN.md §3 C06"),
    "C04": (
        "Coq proof of the decision rule over R (sound, complete, equal unitaries accepted, symmetric under swapping) + bit-exact binary64 verdict correspondence on captured and constructed doubles + dense U1.U2^dagger correspondence + pair search",
        "Machine-checked proof that the verdict is false whenever the normalised overlap is below fidelity minus the noise allowance, "
        "true whenever it is at or above the fidelity (in particular for equal unitaries, for every n and every fidelity <= 1), and "
        "invariant under swapping the circuits (|conj z| = |z|). The binary64 instance is compared bit for bit with the real "
        "check_if_identity on the |trace| it actually used (captured) incl. near-miss values at +-1e-9 of the fidelity. The MPO built "
        "by mpo_utils.iterate is compared densely with U1.U2^dagger (Qiskit) for arbitrary pairs with long-range gates, swaps, cz, cp. "
        "Search: equivalence_checker.run on re-synthesised (equivalent) pairs and near-miss pairs, both argument orders, several SVD "
        "thresholds. PARTIAL: the zone-by-zone MPO construction (temporal zones, SVD re-splitting, long-range gate MPOs) is tied "
        "numerically, not mechanised. Extended: the zone-by-zone construction is now mechanised as a schedule (Checker.v): termination, each gate of circuit 1 applied once from the left and each gate of circuit 2 once conjugated from the right in dependency-preserving orders, hence value = U1.U2^dagger in every monoid with an anti-involution; the real application log is compared with the model; the verdict expression is regenerated from the source and proved equal to the model. One left/right application on the merged MPO tensor is now a theorem (entries of G.O and O.G^dagger over any commutative ring with involution). MPO x MPO product theorem; near-product and blocked long-range pairs.",
        COMMON_NOTE + "Axioms: standard-library real-number axioms.",
        "DESIGN.md §3 C04"),
    "C07": (
        "Coq proof (the FSM of from_pauli_sum denotes its term list, for every length and term list; Ising Trotter step covers every bond once) + exact FSM decode correspondence + dense searches of all builders and Trotter circuits",
        "Machine-checked proof that the suffix-state finite-state machine built by from_pauli_sum spells out exactly the list of terms it "
        "was built from (any length, any terms incl. repeated, identity and zero-coefficient ones), and that one Ising Trotter step couples "
        "every nearest-neighbour bond exactly once (plus the wrap-around bond when periodic) for every chain length. Exact ties: the real "
        "tensors of from_pauli_sum(n_sweeps=0) decoded back into an FSM vs the model; the gate list and angles of create_ising_circuit vs "
        "the model. PARTIAL (searched, not mechanised): dense interpretation of the tensors, dense = sparse, SVD compression within "
        "tolerance, from_matrix round trip, boson/transmon automata, the other circuit builders (Heisenberg, 2-D snake order, "
        "Fermi-Hubbard ladders) and Lie-Trotter convergence — every builder is compared with the dense sum of its documented terms and "
        "every circuit with exp(-iHT) at 4/8/16 steps. Extended: HamTerms (term lists of hamiltonian/ising/heisenberg; bonds, fields, coefficients, count; captured-argument tie), ChainFSM (all-lengths theorem for the Start/channel/End automaton; bose_hubbard tensors decoded against it), Transmon (exact decoding; bounded theorem for lengths 1..12), every compression schedule in the oracle. Sequential splitting first-order with commutator defect, symmetric splitting second-order (Strang.v). Heisenberg and Fermi-Hubbard Trotter steps modelled (heis_step, fh_step) with gate-list/angle ties. from_matrix on structured matrices (weak terms, small scales, explicit cutoff) against the documented discard bound.",
        COMMON_NOTE,
        "DESIGN.md §3 C07"),
    "C10": (
        "Coq proof (amplitude semantics over an abstract commutative ring: right and left gauge moves and rescaling preserve every amplitude, any length/bond/physical dimensions, any factorisation; flag model: requested canonical form is reached and reported) + flag/centre correspondence on the real tensors + vector-preservation check over random operation sequences",
        "Machine-checked proof, over any commutative ring with an involution, that replacing a site tensor by Q and letting its right "
        "(resp. left) neighbour absorb R, for ANY factorisation tensor = Q.R with any inner dimension, leaves EVERY amplitude of an MPS "
        "of any length, bond and (mixed) physical dimensions unchanged, and that scaling a site scales every amplitude (normalisation "
        "only rescales); and, in the flag model of the MPS class, that set_canonical_form(c) yields left-isometric sites left of c and "
        "right-isometric sites right of c from any prior knowledge and that the canonical-form query lists c. Ties: the isometry the "
        "model derives after random sequences of shift/set/normalize/flip (QR and SVD) must be measured on the real tensors and its "
        "centres reported by the real check_canonical_form; the independently contracted vector must be unchanged by every operation. "
        "PARTIAL: LAPACK returning a valid factorisation (SVD mode: within 1e-12), flip_network and zero padding are tied numerically. Extended: flip_network and zero padding are now theorems (flip_preserves_amplitudes, zero_padding_preserves); operation sequences on MPS with aliased tensors and rescaled gauges. Broken networks are outcomes of the operation sequence, not harness crashes. SVD moves on rescaled and small-norm states (found a genuine defect, fixed in /repo 1c6febf); canonical-form query as an oracle; non-trailing rank deficiency. Padding of chains outside the qubit staircase (sites of dimension three, over-wide bonds, arbitrary gauge); refused requests must leave the state untouched.",
        COMMON_NOTE,
        "DESIGN.md §3 C10"),
    "C12": (
        "Coq proof (for a right-isometric site the outcome weights sum to the incoming weight; the weight of a partial outcome is the total Born weight of all completions, any chain; integer keys: bit i = site i, injective; counts sum to shots for every history) + all-branches forced-sampler correspondence + in-place measurement and weak-run search",
        "Machine-checked proof, over any commutative ring with an involution and for chains of any length and dimensions, that the "
        "weights the site-by-site sampler assigns at a right-isometric site add up to the weight of the partial outcome fixed so far and "
        "that this weight equals the total Born weight of all completions (so the chain of conditional probabilities is the Born "
        "distribution of a normalised right-canonical state); that bit i of the returned integer is the outcome of site i and distinct "
        "strings get distinct keys; that weak counts sum to the requested shots after any history of runs. Tie: every one of the 2^L "
        "branches of measure_single_shot is forced (scripted choice) for random entangled states in the Z, X and Y bases and the product "
        "of the vectors handed to choice is compared with the dense Born probability; keys vs the model. Search: in-place measure() "
        "(probability and projected state, both outcomes) and weak simulations (counts, key range, no zero-probability outcome). "
        "PARTIAL: basis rotation and numpy's choice are modelled, not verified. Extended: rotated-basis theorem (a local basis rotation keeps the site right-isometric); borderline noise strengths and run histories in the weak-run oracle. Registers of 64 and more sites (encodeZ, wide forced strings, 66-qubit weak run). The public one-shot entry point measure_shots(1, basis) with forced outcomes in all three bases; pool shots on X/Y eigenstates. State objects sampled in every basis and changed since.",
        COMMON_NOTE,
        "DESIGN.md §3 C12"),
    "C05": (
        "Coq proof (time budget of the dynamic TDVP half sweep by induction over the chain, for every one-/two-site pattern; equal unitary-step counts of the two pipeline orders) + exact step-list correspondence with the real sweep under identity stubs + dense exp(-iHt) search",
        "Machine-checked proof that for every chain length and every pattern of one-site / two-site branches the bond cap can induce "
        "(including the lock_final_site cases) each half sweep of local_dynamic_tdvp gives every site net time +dt/2 and every bond "
        "net time -dt/2 in the projector-splitting accounting, and that without noise both pipeline orders apply the same number of "
        "unitary steps per column. The model's step list (kind, site, direction) is compared exactly with the real sweep run with "
        "recording identity kernels on random bond patterns and caps. PARTIAL: exactness of the local Krylov steps (C19), truncation "
        "error (C09), second order of the symmetric splitting / first order of BUG are not mechanised; the search checks norm and "
        "energy drift and the error against the dense exp(-iHt) at dt and dt/2 (ratio test above the noise floor) and the agreement "
        "of the two integrator orders. Extended: step_ops (which operator tensors a step works with) with theorem and operator-identity trace incl. an MPO object rebuilt in place; wide 8-site chains (matrix-free local steps). BUG step list (bug.bug) modelled and traced: every site forward by one dt once, own operator tensor and environment blocks, truncation last. One-site integrator model (SingleSite.v); mirrored sweeps second-order (Strang.v). Eight-level Bose-Hubbard chain with nothing cut (local blocks of 4096 entries: compiled Krylov path) vs exp(-iHT). The shortest runs (one and two steps, both orders, with and without intermediate sampling, both modes) vs exp(-iHT). Stiff local steps (large coupling x time step, unconstrained bonds) vs exp(-iHT).",
        COMMON_NOTE,
        "DESIGN.md §3 C05"),
    "C19": (
        "Coq proof (control skeleton of expm_krylov: exits well defined, breakdown at the first negligible direction, full subspace otherwise; isometries and unit phases preserve the norm over any ring with involution) + operator-call-count correspondence + scipy-expm search over all code paths",
        "Machine-checked proof that every path through the Lanczos loop returns with a subspace dimension between 1 and m_max, that a "
        "breakdown exit happens at the first iteration whose new direction is negligible, that without breakdown and convergence the "
        "full subspace is used; and that the two projections and the phase multiplication of the result formula V_k U e^{-i dt Lambda} "
        "U^T e_1 ||v|| preserve the norm whenever V_k has orthonormal columns and U is orthogonal. Tie: the number of operator "
        "applications of the real expm_krylov on invariant-subspace starts and on runs that can neither break down nor converge vs "
        "the dimension the skeleton predicts. PARTIAL (searched): floating-point Lanczos orthogonality, LAPACK, and the accuracy "
        "bound — expm_krylov / expm_arnoldi are compared with scipy.linalg.expm for Hermitian / non-Hermitian operators, deficient "
        "starts, +-dt, sizes around the dense (128) and compiled (4096) switches; norm preservation on every path. Extended: defective generators, negative steps, dense-vs-matrix-free comparison. Nearly invariant Krylov spaces (weak blocks, near-eigenvector starts, small units) in the accuracy oracle. Local TDVP updates vs the exponential of the local operator down to one-entry tensors. Breakdown exit exact for every polynomial (LinAlg/Intertwine.v). Evaluations in flight at the same time: re-entrant (interaction-picture) operators and interleaved evaluations of the same size.",
        COMMON_NOTE,
        "DESIGN.md §3 C19"),
    "C17": (
        "Coq proof over Coquelicot's C (the four probe states span the 2x2 matrices with explicit coefficients and are linearly independent) + live-frame correspondence + held-out tomography search against dense evolution",
        "Machine-checked proof that |0><0|, |1><1|, |+><+|, |y+><y+| span the 2x2 complex matrices (explicit expansion of an arbitrary "
        "matrix) and are linearly independent, i.e. the prepare/measure set is informationally complete and expansions are unique — "
        "the fact that makes the 16 basis maps a basis of the Choi matrices and the dual-frame contraction exact, by linearity in each "
        "slot, for preparations and interventions that were never probed. Ties: live probe states vs the model constants, the model's "
        "coefficients on random matrices with the live states, the live dual frame reproducing random 4x4 matrices, Choi index order. "
        "PARTIAL (searched): pinv, sequence bookkeeping, weighted aggregation and the simulated segments — tomography.run + "
        "predict_final_state on held-out preparations and CPTP maps vs the partial trace of the dense evolution (L=2,3, one and two "
        "segments, TJM and MCWF). Extended: aggregation/bookkeeping model (TomoAgg) with theorems and scripted-runner tie; several predictions per tensor; multi-segment MCWF. Read-only queries between predictions from one returned object. Prediction = dual-frame contraction for every held-out sequence (LinAlg/Multilinear.v). First-order driver and weakly driven chains (branch weights of the forced projections below 1e-8), three segments. Dense back-end on six-site chains with strongly coupled, long segments.",
        COMMON_NOTE + "Axioms: standard-library real-number axioms.",
        "DESIGN.md §3 C17"),
}

NOT_YET = "check not built yet in this round (planned in DESIGN.md §3); no claim is made"


def main():
    checks = []
    for pid in ALL:
        if pid not in CLAIMS:
            continue
        tech, text, note, ref = CLAIMS[pid]
        checks.append({
            "property_id": pid,
            "quick_cmd": f"/venv/bin/python harness/vcheck.py {pid} --tier quick",
            "thorough_cmd": f"/venv/bin/python harness/vcheck.py {pid} --tier thorough",
            "evidence_file": f"/verif/evidence/{pid}.json",
            "replay_cmd_template": f"/venv/bin/python harness/vcheck.py {pid} --replay {{path}}",
            "engine": "coq-model+correspondence",
            "level_claimed": {"category": "proof", "text": text, "design_ref": ref},
            "level_note": note,
            "technique": tech,
        })
    man = {
        "version": 1,
        "setup_cmd": "./harness/setup.sh",
        "hooks": {
            "guard": "MQT_YAQS_VERIF",
            "enable": "none needed: the harness replaces module-level names (kernels, executor, RNG) inside its own interpreter; "
                      "no instrumentation is committed to /repo",
            "baseline_off_cmd": "cd /repo && /venv/bin/python -m pytest -ra -q -p no:cacheprovider --timeout=900 --continue-on-collection-errors",
            "source_commits": [],
            "add_only": True,
        },
        "engines": [{
            "name": "coq-model+correspondence", "path": "/verif/harness/vcheck.py",
            "serves_properties": [c["property_id"] for c in checks],
            "kind_free_text": "Coq 8.16 development under /verif/coq (Model/ executable Gallina, Proofs/ lemmas, Props/ property "
                              "theorems with Print Assumptions); Python harness evaluates the model with vm_compute via generated "
                              "cases files and compares with the implementation; dense NumPy oracles search for failing inputs",
        }],
        "checks": checks,
        "notes": "See DESIGN.md. Fix commits and open findings: known_findings.txt. Seeded breaking changes: seeded/.",
        "not_applicable": [{"property_id": p, "reason": NOT_YET} for p in ALL if p not in CLAIMS],
    }
    (VERIF / "MANIFEST.json").write_text(json.dumps(man, indent=1) + "\n")
    print(f"MANIFEST.json: {len(checks)} checks, {len(man['not_applicable'])} not claimed")


if __name__ == "__main__":
    main()
