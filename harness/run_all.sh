#!/bin/sh
# Run every claimed check once (quick tier by default) and summarise.  usage: run_all.sh [quick|thorough]
T=${1:-quick}
cd /verif
for id in $(python3 -c "import json;print(' '.join(c['property_id'] for c in json.load(open('MANIFEST.json'))['checks']))"); do
  s=$(date +%s)
  /venv/bin/python harness/vcheck.py $id --tier $T > /tmp/runall_$id.log 2>&1
  rc=$?
  e=$(( $(date +%s) - s ))
  echo "$id rc=$rc ${e}s $(grep -c '^VIOLATION' /tmp/runall_$id.log) violations; $(tail -1 /tmp/runall_$id.log | cut -c1-150)"
done
