#!/bin/sh
# usage: seedtest.sh <seed dir under /verif/seeded> <property id> [tier]
# applies the seeded change to /repo, runs the check, and ALWAYS restores /repo afterwards.
set -u
S=/verif/seeded/$1; P=$2; T=${3:-quick}
cd /repo || exit 2
git diff --quiet || { echo "/repo has uncommitted changes"; exit 2; }
git apply "$S/patch.diff" || { echo "patch does not apply"; exit 2; }
cd /verif && /venv/bin/python harness/vcheck.py "$P" --tier "$T" > "/tmp/seedtest_$1_$P.log" 2>&1
rc=$?
git -C /repo checkout -- . 
grep -E "VIOLATION|KNOWN|^\[" "/tmp/seedtest_$1_$P.log" | tail -12
echo "exit=$rc"
