#!/bin/sh
# usage: verify_seed.sh <seed name>   — confirms in a scratch worktree (outside /repo and /verif) that the seeded change
# applies to /repo's HEAD, that the demonstration fails with it and passes without it, and that the unedited test suite passes.
S=/verif/seeded/$1
W=/tmp/vseed_$1
git -C /repo worktree remove --force $W >/dev/null 2>&1
git -C /repo worktree add -q --detach $W HEAD || exit 2
cp /repo/src/mqt/yaqs/_version.py $W/src/mqt/yaqs/_version.py
cd $W
PYTHONPATH=$W/src timeout 600 /venv/bin/python $S/demo.py > /tmp/vseed_$1.clean.log 2>&1; c0=$?
git apply $S/patch.diff || { echo "patch does not apply"; git -C /repo worktree remove --force $W; exit 2; }
PYTHONPATH=$W/src timeout 600 /venv/bin/python $S/demo.py > /tmp/vseed_$1.patched.log 2>&1; c1=$?
PYTHONPATH=$W/src timeout 1500 /venv/bin/python -m pytest -q -p no:cacheprovider -n 6 --timeout=900 > /tmp/vseed_$1.tests.log 2>&1
t=$(tail -1 /tmp/vseed_$1.tests.log)
cd /; git -C /repo worktree remove --force $W
echo "$1: demo_clean_exit=$c0 demo_patched_exit=$c1 tests: $t"
