"""Shared machinery of the /verif checks: Coq build + evaluation, evidence, findings, replays.

Everything here runs offline.  The Coq side is the deciding technique (theorems in coq/Props/Cxx.v);
this module (1) rebuilds the proofs, (2) evaluates the executable Gallina model on harness-generated
cases so a driver can compare it with the implementation in /repo, (3) writes evidence / replay files.
"""
from __future__ import annotations

import fcntl
import json
import os
import re
import signal
import subprocess
import sys
import time
from fractions import Fraction
from pathlib import Path

VERIF = Path(__file__).resolve().parent.parent
COQ = VERIF / "coq"
WORK = VERIF / ".work"
REPO = Path("/repo")
EVID = VERIF / "evidence"
REPLAYS = VERIF / "replays"
FINDINGS = VERIF / "known_findings.txt"
NPROC = min(16, os.cpu_count() or 4)

FORBIDDEN = re.compile(
    r"\b(Admitted|admit|Axiom|Axioms|Parameter|Parameters|Conjecture|Conjectures|Admit Obligations|"
    r"Unset Guard Checking|Unset Positivity Checking|Unset Universe Checking|bypass_check|type-in-type|"
    r"impredicative-set|native_compute)\b"
)
OUTSIDE_SECTION = re.compile(r"^\s*(Variable|Variables|Hypothesis|Hypotheses|Context)\b")


# --------------------------------------------------------------------------------------
# Coq project handling
# --------------------------------------------------------------------------------------
def v_files() -> list[str]:
    out = []
    for sub in ("Base", "LinAlg", "Model", "Gen", "Proofs", "Props", "History"):
        d = COQ / sub
        if d.is_dir():
            out += sorted(str(p.relative_to(COQ)) for p in d.glob("*.v"))
    return out


def strip_comments(src: str) -> str:
    out, depth, i = [], 0, 0
    while i < len(src):
        if src.startswith("(*", i):
            depth += 1
            i += 2
        elif src.startswith("*)", i) and depth:
            depth -= 1
            i += 2
        else:
            if not depth:
                out.append(src[i])
            elif src[i] == "\n":
                out.append("\n")
            i += 1
    return "".join(out)


def forbidden_scan() -> list[str]:
    """No Admitted/admit/Axiom/Parameter/..., no Variable/Hypothesis outside a Section, no switched-off checks."""
    bad = []
    for rel in v_files():
        text = strip_comments((COQ / rel).read_text())
        depth = 0
        for ln, line in enumerate(text.splitlines(), 1):
            if re.match(r"^\s*(Section|Module)\s+\w+", line) and ":=" not in line:
                depth += 1
            if re.match(r"^\s*End\s+\w+\s*\.", line):
                depth = max(0, depth - 1)
            m = FORBIDDEN.search(line)
            if m:
                bad.append(f"{rel}:{ln}: forbidden `{m.group(1)}`")
            if depth == 0 and OUTSIDE_SECTION.match(line):
                bad.append(f"{rel}:{ln}: Variable/Hypothesis outside a Section")
    return bad


class BuildLock:
    def __enter__(self):
        WORK.mkdir(exist_ok=True)
        self.f = open(WORK / "build.lock", "w")
        fcntl.flock(self.f, fcntl.LOCK_EX)
        return self

    def __exit__(self, *a):
        fcntl.flock(self.f, fcntl.LOCK_UN)
        self.f.close()


def write_coqproject() -> None:
    body = "-Q . Yaqs\n-arg -w -arg -all\n" + "\n".join(v_files()) + "\n"
    p = COQ / "_CoqProject"
    if not p.exists() or p.read_text() != body:
        p.write_text(body)
        (COQ / "Makefile").unlink(missing_ok=True)
    if not (COQ / "Makefile").exists():
        subprocess.run(["coq_makefile", "-f", "_CoqProject", "-o", "Makefile"], cwd=COQ, check=True,
                       stdout=subprocess.DEVNULL, stderr=subprocess.DEVNULL)


def make(targets: list[str], timeout: int = 1500) -> tuple[bool, str]:
    """Full .vo build of the targets (never -vos). Returns (ok, log)."""
    with BuildLock():
        write_coqproject()
        try:
            r = subprocess.run(["timeout", str(timeout), "make", f"-j{NPROC}", *targets], cwd=COQ,
                               capture_output=True, text=True)
        except Exception as e:  # pragma: no cover
            return False, repr(e)
        return r.returncode == 0, (r.stdout + r.stderr)[-6000:]


def props_check(pid: str) -> dict:
    """Rebuild coq/Props/<pid>.vo with its dependencies and re-run coqc on the property file to collect
    the theorem list and the Print Assumptions output."""
    t0 = time.time()
    rel = f"Props/{pid}.v"
    src = (COQ / rel).read_text()
    theorems = re.findall(r"^(?:Theorem|Example|Lemma)\s+(\w+)", strip_comments(src), flags=re.M)
    res = {"file": rel, "theorems": theorems, "obligations": len(theorems), "discharged": 0,
           "assumptions": {}, "failed": None, "log": "", "checker_cmd":
           f"cd /verif/coq && make -j{NPROC} Props/{pid}.vo && coqc -Q . Yaqs Props/{pid}.v   (coq_makefile full .vo build)"}
    bad = forbidden_scan()
    if bad:
        res["failed"] = "forbidden construct: " + "; ".join(bad[:5])
        return res
    ok, log = make([f"Props/{pid}.vo"])
    res["log"] = log
    if not ok:
        m = re.search(r'File "\./([^"]+)", line (\d+)', log)
        where = f"{m.group(1)}:{m.group(2)}" if m else "?"
        name = None
        if m:
            try:
                lines = strip_comments((COQ / m.group(1)).read_text()).splitlines()[: int(m.group(2))]
                for line in reversed(lines):
                    mm = re.match(r"^\s*(?:Theorem|Lemma|Example|Corollary|Definition|Fixpoint)\s+(\w+)", line)
                    if mm:
                        name = mm.group(1)
                        break
            except Exception:
                pass
        err = re.search(r"Error:(.*)", log, flags=re.S)
        res["failed"] = f"proof obligation no longer checks: {name or '?'} at coq/{where}: " + (
            " ".join(err.group(1).split())[:300] if err else "build failed")
        return res
    with BuildLock():
        r = subprocess.run(["timeout", "600", "coqc", "-Q", ".", "Yaqs", "-w", "-all", rel], cwd=COQ,
                           capture_output=True, text=True)
    if r.returncode != 0:
        res["failed"] = "coqc Props failed: " + (r.stdout + r.stderr)[-400:]
        return res
    # split Print Assumptions blocks: they follow each theorem in order
    blocks = re.split(r"(?=^Closed under the global context|^Axioms:)", r.stdout, flags=re.M)
    blocks = [b.strip() for b in blocks if b.strip()]
    pa_names = re.findall(r"Print Assumptions\s+(\w+)", strip_comments(src))
    for nm, b in zip(pa_names, blocks):
        if b.startswith("Closed"):
            res["assumptions"][nm] = []
        else:
            res["assumptions"][nm] = sorted(set(re.findall(r"^([A-Za-z_][\w.']*)\s*:", b, flags=re.M)) - {"Axioms"})
    res["discharged"] = len(theorems)
    res["wall_s"] = round(time.time() - t0, 2)
    return res


# --------------------------------------------------------------------------------------
# Evaluating the model inside Coq
# --------------------------------------------------------------------------------------
_TOK = re.compile(
    r"\s*(?:(\"(?:[^\"]|\"\")*\")|(-?\d+\.\d*(?:[eE][-+]?\d+)?|-?\d+[eE][-+]?\d+|-?0x[0-9a-fA-F.]+p[-+]?\d+|-?\d+)|"
    r"([A-Za-z_][\w.']*)|(\[|\]|\(|\)|;|,|#|%[\w]+|\|))"
)


class App(tuple):
    """Constructor application parsed from Coq output: App((name, arg1, ...))."""

    def __repr__(self):
        return "App" + tuple.__repr__(self)


def _tokens(s: str):
    pos, out = 0, []
    s = s.strip()
    while pos < len(s):
        m = _TOK.match(s, pos)
        if not m:
            raise ValueError(f"cannot tokenise Coq output at: {s[pos:pos+40]!r}")
        pos = m.end()
        if m.group(1) is not None:
            out.append(("str", m.group(1)[1:-1].replace('""', '"')))
        elif m.group(2) is not None:
            t = m.group(2)
            if re.fullmatch(r"-?\d+", t):
                out.append(("num", int(t)))
            elif "x" in t:
                out.append(("num", float.fromhex(t)))
            else:
                out.append(("num", float(t)))
        elif m.group(3) is not None:
            out.append(("id", m.group(3)))
        else:
            t = m.group(4)
            if t.startswith("%"):
                continue
            out.append(("p", t))
    return out


def parse_coq(s: str):
    toks = _tokens(s)
    pos = 0

    def peek():
        return toks[pos] if pos < len(toks) else (None, None)

    def atom():
        nonlocal pos
        k, v = peek()
        if k == "num" or k == "str":
            pos += 1
            return v
        if k == "id":
            pos += 1
            if v == "true":
                return True
            if v == "false":
                return False
            if v == "None":
                return None
            if v == "infinity":
                return float("inf")
            if v == "neg_infinity":
                return float("-inf")
            if v == "nan":
                return float("nan")
            return App((v,))
        if (k, v) == ("p", "("):
            pos += 1
            items = [term()]
            while peek() == ("p", ","):
                pos += 1
                items.append(term())
            assert peek() == ("p", ")"), f"expected ) at {toks[pos:pos+5]}"
            pos += 1
            return items[0] if len(items) == 1 else tuple(items)
        if (k, v) == ("p", "["):
            pos += 1
            items = []
            if peek() != ("p", "]"):
                items.append(term())
                while peek() == ("p", ";"):
                    pos += 1
                    items.append(term())
            assert peek() == ("p", "]"), f"expected ] at {toks[pos:pos+5]}"
            pos += 1
            return items
        raise ValueError(f"unexpected token {k,v} at {pos}")

    def is_atom_start():
        k, v = peek()
        return k in ("num", "str", "id") or (k == "p" and v in ("(", "["))

    def app():
        head = atom()
        if isinstance(head, App) and len(head) == 1:
            args = []
            while is_atom_start():
                args.append(atom())
            if args:
                return App((head[0], *args))
        return head

    def term():
        nonlocal pos
        a = app()
        if peek() == ("p", "#"):
            pos += 1
            b = app()
            return Fraction(a, b)
        return a

    r = term()
    if pos != len(toks):
        raise ValueError(f"trailing tokens in Coq output: {toks[pos:pos+6]}")
    return r


import itertools as _it
import threading as _th
_case_counter = _it.count(1)
_case_lock = _th.Lock()


def coq_eval(header: str, exprs: list[str], tag: str = "cases", timeout: int = 900, keep: bool = False) -> list:
    """Write a cases file with one `Eval vm_compute in <expr>.` per expression, run coqc, parse the values."""
    with _case_lock:
        k = next(_case_counter)
    WORK.mkdir(exist_ok=True)
    name = f"{tag}_{os.getpid()}_{k}"
    path = WORK / f"{name}.v"
    body = ["Set Printing Width 1000000.", "Set Printing Depth 1000000.", header]
    body += [f"Eval vm_compute in ({e})." for e in exprs]
    path.write_text("\n".join(body) + "\n")
    try:
        r = subprocess.run(["timeout", str(timeout), "coqc", "-Q", str(COQ), "Yaqs", "-w", "-all", str(path)],
                           cwd=WORK, capture_output=True, text=True)
        if r.returncode != 0:
            raise CoqEvalError((r.stdout + r.stderr)[-1500:])
        vals, cur = [], None
        for line in r.stdout.splitlines():
            if line.startswith("     = "):
                cur = [line[7:]]
            elif line.startswith("     : ") and cur is not None:
                vals.append(parse_coq(" ".join(cur)))
                cur = None
            elif cur is not None:
                cur.append(line)
        if len(vals) != len(exprs):
            raise CoqEvalError(f"expected {len(exprs)} values, parsed {len(vals)}: {r.stdout[-800:]}")
        return vals
    finally:
        if not keep:
            for ext in (".v", ".vo", ".vok", ".vos", ".glob"):
                (WORK / f"{name}{ext}").unlink(missing_ok=True)
            (WORK / f".{name}.aux").unlink(missing_ok=True)


def coq_eval_sharded(header: str, exprs: list[str], tag: str, shard: int = 300) -> list:
    """Evaluate many expressions; shards run in parallel processes."""
    if len(exprs) <= shard:
        return coq_eval(header, exprs, tag)
    from concurrent.futures import ThreadPoolExecutor

    chunks = [exprs[i:i + shard] for i in range(0, len(exprs), shard)]
    with ThreadPoolExecutor(max_workers=NPROC) as ex:
        parts = list(ex.map(lambda c: coq_eval(header, c, tag), chunks))
    return [v for p in parts for v in p]


class CoqEvalError(RuntimeError):
    pass


# Gallina literal helpers -----------------------------------------------------------------
def g_list(items) -> str:
    return "[" + "; ".join(items) + "]"


def g_nat(n: int) -> str:
    assert 0 <= n < 5000, "no large nat literals"
    return f"{n}%nat"


def g_z(n: int) -> str:
    return f"({n})%Z"


def g_bool(b) -> str:
    return "true" if b else "false"


def g_float(x: float) -> str:
    x = float(x)
    if x != x:
        return "nan%float"
    if x in (float("inf"), float("-inf")):
        return ("infinity" if x > 0 else "neg_infinity") + "%float"
    h = x.hex()
    return f"({h})%float"


def g_q(fr) -> str:
    fr = Fraction(fr)
    return f"(({fr.numerator}) # {fr.denominator})%Q"


# --------------------------------------------------------------------------------------
# Wall-clock guard that the simulator's `contextlib.suppress(Exception)` cannot swallow
# --------------------------------------------------------------------------------------
class HardTimeout(BaseException):
    pass


class time_limit:
    def __init__(self, seconds: float):
        self.seconds = seconds

    def _handler(self, signum, frame):
        raise HardTimeout(f"exceeded {self.seconds}s")

    def __enter__(self):
        self.old = signal.signal(signal.SIGALRM, self._handler)
        signal.setitimer(signal.ITIMER_REAL, self.seconds)
        return self

    def __exit__(self, *a):
        signal.setitimer(signal.ITIMER_REAL, 0)
        signal.signal(signal.SIGALRM, self.old)
        return False


# --------------------------------------------------------------------------------------
# Findings
# --------------------------------------------------------------------------------------
def load_findings() -> list[dict]:
    out = []
    if not FINDINGS.exists():
        return out
    for line in FINDINGS.read_text().splitlines():
        line = line.strip()
        if not line or line.startswith("#"):
            continue
        m = re.match(r"^open:\s+property=(\w+)\s+key=(\S+)\s+(.*)$", line)
        if m:
            out.append({"status": "open", "property": m.group(1), "key": m.group(2), "what": m.group(3)})
            continue
        m = re.match(r"^fixed:\s+property=(\w+)\s+(\S+)\s+(.*)$", line)
        if m:
            out.append({"status": "fixed", "property": m.group(1), "commit": m.group(2), "what": m.group(3)})
    return out


def jsonable(x):
    import numpy as np

    if isinstance(x, (str, int, bool)) or x is None:
        return x
    if isinstance(x, float):
        return x if x == x and abs(x) != float("inf") else repr(x)
    if isinstance(x, complex):
        return [x.real, x.imag]
    if isinstance(x, Fraction):
        return f"{x.numerator}/{x.denominator}"
    if isinstance(x, App):
        return {"ctor": x[0], "args": [jsonable(a) for a in x[1:]]}
    if isinstance(x, dict):
        return {str(k): jsonable(v) for k, v in x.items()}
    if isinstance(x, (list, tuple, set)):
        return [jsonable(v) for v in x]
    if isinstance(x, np.ndarray):
        return jsonable(x.tolist())
    if isinstance(x, np.generic):
        return jsonable(x.item())
    return repr(x)
