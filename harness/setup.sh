#!/bin/sh
# MANIFEST.setup_cmd: offline build of the whole Coq development (full .vo build, never -vos).
set -e
cd /verif
/venv/bin/python - <<'PY'
import sys
sys.path.insert(0, "/verif/harness")
import common
bad = common.forbidden_scan()
if bad:
    print("\n".join(bad)); sys.exit(2)
# regenerate translator outputs so that the full build sees them
import importlib, os
os.environ.setdefault("PYTHONHASHSEED", "0")
sys.path.insert(0, "/repo/src")
for pid in sorted(p.stem for p in (common.VERIF / "harness" / "drivers").glob("C*.py")):
    m = importlib.import_module(f"drivers.{pid}")
    if hasattr(m, "regenerate"):
        try:
            m.regenerate(None)
        except Exception as e:
            print(f"translator for {pid} failed closed: {e!r}")
common.write_coqproject()
# -k: a generated file the translators could not produce (or a proof about it that no longer checks) on a CHANGED tree must not keep
# the rest of the development from being built; every check rebuilds and judges its own obligations (Props/<id>.vo) afterwards
ok, log = common.make(["-k", "all"], timeout=3000)
print(log[-3000:])
if not ok:
    print("setup: some files did not build (see above); the checks report the obligations concerned")
sys.exit(0)
PY
