#!/bin/sh
# Robustness sweep: every check (quick tier) under several PRNG seeds on the unchanged tree; any rc != 0 is an alarm to investigate.
# usage: seed_sweep.sh <seed> [<seed> ...]      logs: /tmp/sweep_<seed>_<id>.log
cd /verif
for seed in "$@"; do
  for id in $(python3 -c "import json;print(' '.join(c['property_id'] for c in json.load(open('MANIFEST.json'))['checks']))"); do
    VERIF_SEED=$seed /venv/bin/python harness/vcheck.py $id --tier ${SWEEP_TIER:-quick} > /tmp/sweep_${seed}_$id.log 2>&1
    rc=$?
    [ $rc -ne 0 ] && { echo "seed=$seed $id rc=$rc $(grep '^VIOLATION' /tmp/sweep_${seed}_$id.log | head -2 | tr '\n' ' ')"; mkdir -p /tmp/sweep_replays; cp replays/${id}_*.json /tmp/sweep_replays/ 2>/dev/null; for f in replays/${id}_*.json; do [ -f "$f" ] && cp "$f" /tmp/sweep_replays/s${seed}_$(basename $f); done; }
  done
  echo "seed=$seed done"
done
