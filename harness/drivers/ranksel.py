"""Shared by C08/C09: spectrum injection into the real split routines and the Coq float-instance model calls."""
from __future__ import annotations

import types

import numpy as np

import common
from common import g_bool, g_float, g_list, g_nat

HEADER = ("From Coq Require Import List PrimFloat. Import ListNotations.\n"
          "From Yaqs Require Import Base.Num Model.RankSelect.")


def params(thr, minb, maxb, mode):
    return types.SimpleNamespace(threshold=thr, min_bond_dim=minb, max_bond_dim=maxb, trunc_mode=mode)


def inject(module, s_inj):
    """Replace module.robust_svd by a wrapper that returns valid U, Vh and the injected spectrum."""
    real = module.robust_svd
    seen = {}

    def stub(mat, full_matrices=False, **kw):
        u, s, vh = np.linalg.svd(mat, full_matrices=False)
        k = len(s)
        assert len(s_inj) == k, (len(s_inj), k)
        seen["k"] = k
        return u, np.array(s_inj, dtype=float), vh

    module.robust_svd = stub
    return real, seen


def impl_split_keep(s_inj, d, D0, D2, thr, minb, maxb, mode, dyn, dist="right"):
    import mqt.yaqs.core.methods.tdvp as T

    rng = np.random.default_rng(len(s_inj) * 7 + D0)
    theta = rng.normal(size=(d * d, D0, D2)) + 1j * rng.normal(size=(d * d, D0, D2))
    real, _ = inject(T, s_inj)
    try:
        a, b = T.split_mps_tensor(theta, dist, params(thr, minb, maxb, mode), [d, d], dynamic=dyn)
        return int(a.shape[2])
    except Exception as e:  # noqa: BLE001
        return f"EXC:{type(e).__name__}"
    finally:
        T.robust_svd = real


def impl_tss_keep(s_inj, d, L, R, thr, maxb, minb=2):
    import mqt.yaqs.core.methods.decompositions as D

    rng = np.random.default_rng(len(s_inj) * 11 + L)
    a = rng.normal(size=(d, L, 3)) + 0j
    b = rng.normal(size=(d, 3, R)) + 0j
    real, _ = inject(D, s_inj)
    try:
        an, bn = D.two_site_svd(a, b, thr, maxb, minb)
        return int(an.shape[2])
    except Exception as e:  # noqa: BLE001
        return f"EXC:{type(e).__name__}"
    finally:
        D.robust_svd = real


def g_spec(s):
    return g_list([g_float(x) for x in s])


def model_dw(s, thr, minb, maxb, dyn):
    return f"keep_dw FN {g_spec(s)} {g_float(thr)} {g_nat(minb)} {g_nat(maxb)} {g_bool(dyn)}"


def model_rel(s, thr, minb, maxb):
    return f"keep_rel FN {g_spec(s)} {g_float(thr)} {g_nat(minb)} {g_nat(maxb)}"


def model_tss(s, thr, maxb, minb=2):
    mb = "None" if maxb is None else f"(Some {g_nat(maxb)})"
    return f"keep_tss FN {g_spec(s)} {g_float(thr)} {g_nat(minb)} {mb}"


def spectrum(rng, k, kind):
    if kind == "decay":
        s = np.sort(np.exp(-rng.uniform(0.2, 3.0) * np.arange(k)) * rng.uniform(0.5, 1.5, size=k))[::-1]
    elif kind == "ties":
        vals = rng.choice([1.0, 0.5, 0.25, 0.125], size=k)
        s = np.sort(vals)[::-1]
    elif kind == "rankdef":
        r = int(rng.integers(1, k + 1))
        s = np.sort(rng.uniform(0.1, 1.0, size=k))[::-1]
        s[r:] = 0.0
    elif kind == "zero":
        s = np.zeros(k)
    elif kind == "smalltail":
        t = float(2.0 ** -int(rng.integers(2, 20)))
        s = np.array([1.0] + [np.sqrt(rng.choice([0.3, 0.6, 0.9]) * t)] * (k - 1))
    elif kind == "widerange":
        # a few dominant values (norm up to 1e4) and a tail many orders of magnitude below: s**2 of the tail is below one ulp
        # of the total weight, so any rule that subtracts from the total instead of accumulating from the small end loses it
        big = int(rng.integers(1, max(2, k // 2 + 1)))
        scale = float(10.0 ** rng.integers(0, 5))
        head = np.sort(rng.uniform(0.5, 1.0, size=big))[::-1] * scale
        tail = np.sort(10.0 ** rng.uniform(-10, -4, size=k - big))[::-1]
        s = np.concatenate([head, tail])
    elif kind == "dyadic":
        s = np.sort(rng.integers(0, 65, size=k) / 64.0)[::-1]
    else:
        s = np.sort(rng.uniform(0, 1, size=k))[::-1]
    return [float(x) for x in s]


KINDS = ("decay", "ties", "rankdef", "zero", "dyadic", "uniform", "smalltail", "widerange")


def tie_threshold(s, j):
    """threshold exactly equal to the weight of the j smallest values, accumulated as the code does"""
    acc = 0.0
    for x in list(reversed(s))[:j]:
        acc = acc + x * x
    return float(acc)


def gen_split_cases(ctx, n):
    rng = ctx.rng
    cases = []
    for i in range(n):
        d = int(rng.choice([2, 2, 3]))
        D0 = int(rng.integers(1, 5))
        D2 = int(rng.integers(1, 5))
        k = min(d * D0, d * D2)
        kind = KINDS[i % len(KINDS)]
        s = spectrum(rng, k, kind)
        mode = "discarded_weight" if rng.random() < 0.6 else "relative"
        u = rng.random()
        if mode == "discarded_weight":
            if u < 0.35:
                thr = tie_threshold(s, int(rng.integers(0, k + 1)))
            elif u < 0.5:
                thr = 0.0
            else:
                thr = float(10 ** rng.uniform(-12, 0.3))
        else:
            if u < 0.3 and s[0] > 0:
                thr = float(s[int(rng.integers(0, k))] / s[0])
            else:
                thr = float(10 ** rng.uniform(-6, 0.1))
        minb = int(rng.choice([1, 1, 2, 2, 3, 5, 9]))
        maxb = int(rng.choice([1, 2, 3, 4, 5, 6, 8, 64]))
        dyn = bool(rng.random() < 0.5)
        cases.append(dict(s=s, d=d, D0=D0, D2=D2, thr=thr, minb=minb, maxb=maxb, mode=mode, dyn=dyn, kind=kind))
    return cases


def run_split_correspondence(ctx, cases, corr_name="split_mps_tensor-vs-RankSelect"):
    exprs, impl = [], []
    for c in cases:
        impl.append(impl_split_keep(c["s"], c["d"], c["D0"], c["D2"], c["thr"], c["minb"], c["maxb"], c["mode"], c["dyn"]))
        exprs.append(model_dw(c["s"], c["thr"], c["minb"], c["maxb"], c["dyn"]) if c["mode"] == "discarded_weight"
                     else model_rel(c["s"], c["thr"], c["minb"], c["maxb"]))
    vals = common.coq_eval_sharded(HEADER, exprs, tag="ranksel")
    out = []
    for c, i, m in zip(cases, impl, vals):
        k = len(c["s"])
        cut = isinstance(i, int) and i < k
        ctx.case(nontrivial_key=(tuple(c["s"]), c["thr"], c["minb"], c["maxb"], c["mode"], c["dyn"]) if (cut or not isinstance(i, int)) else None,
                 validated=True, sample={**c, "kept_impl": i, "kept_model": m} if cut else None)
        ctx.count("mode_" + c["mode"])
        ctx.count("spectrum_" + c["kind"])
        if i != m:
            ctx.mismatch(corr_name, c, i, m)
        out.append((c, i, m))
    return out
