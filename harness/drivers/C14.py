"""C14 — a scheduled jump acts exactly once, at its scheduled time.

Tie: the real analog_tjm_1 / analog_tjm_2 run with recording stubs for their kernels (has_scheduled_jump is the REAL
function); the word reported for every result column is compared exactly with Model/JumpPipeline.v fed with the
grid indices that the binary64 model of the time matching (Model/Grid.v) selects.  Search: simulator.run against a
dense 'evolve, apply once, renormalise, evolve' oracle, both orders, one- and two-site operators.
"""
from __future__ import annotations

import numpy as np

import common
from gen import translate_small
from common import g_bool, g_float, g_list, g_nat
from drivers import dense, tracing

RULE = ("(order, steps k<=14, dt from decimal and binary steps, 0-3 scheduled jumps incl. equal times and jump times given "
        "as fl(k*dt) or as the decimal literal, sampling flag); non-trivial = at least one jump at grid index >= 1; "
        "distinct by full tuple")
TRUSTED = ["correspondence harness: recording stubs for local_dynamic_tdvp/bug/apply_dissipation/stochastic_process/"
           "apply_scheduled_jumps and MPS.evaluate_observables (harness-side, no source change)",
           "modelled, not verified: the numerical action of the jump operator and renormalisation (checked by the dense search)"]
ASSUMES = ["the state after a word of kernel calls is determined by the word (kernels are deterministic functions of state "
           "and arguments, the lottery J aside)"]

HEADER = ("From Coq Require Import List ZArith PrimFloat. Import ListNotations.\n"
          "From Yaqs Require Import Model.JumpPipeline Model.Grid.\n"
          "Definition sched_of (jts : list float) (T dt : float) := from_list (flat_map (fun jt => matching jt T dt) jts).")

DTS = [0.1, 0.05, 0.01, 0.2, 0.25, 0.125, 0.3, 0.07, 1.0, 0.001]


def model_expr(order, T, dt, jts, sampling, noise):
    sch = f"(sched_of {g_list([g_float(t) for t in jts])} {g_float(T)} {g_float(dt)})"
    n = f"(Z.to_nat (grid_len {g_float(T)} {g_float(dt)}))"
    if order == 1:
        return f"cols1 {sch} {g_bool(noise)} {g_bool(sampling)} {n}"
    return f"cols2 {sch} {g_bool(sampling)} {n}"


def gen_cases(ctx, n):
    cases = []
    for i in range(n):
        order = 1 + i % 2
        dt = float(ctx.rng.choice(DTS))
        k = int(ctx.rng.integers(1, 15))
        T = float(k * dt)
        nj = int(ctx.rng.choice([0, 1, 1, 1, 2, 3]))
        idx = [int(ctx.rng.integers(0 if ctx.rng.random() < 0.1 else 1, k + 1)) for _ in range(nj)]
        if nj >= 2 and ctx.rng.random() < 0.3:
            idx[1] = idx[0]
        jts = [float(j * dt) if ctx.rng.random() < 0.5 else float(round(j * dt, 10)) for j in idx]
        sampling = bool(ctx.rng.random() < 0.75)
        noise = True if order == 2 else bool(ctx.rng.random() < 0.9)
        cases.append(dict(order=order, T=T, dt=dt, k=k, idx=idx, jts=jts if noise else [], sampling=sampling, noise=noise))
    return cases


def regenerate(ctx):
    """coq/Gen/JumpTimeGen.v from the current source of the scheduled-jump tests (fail closed)"""
    translate_small.regenerate(("jump",))


def correspond(ctx):
    ctx.rules.append(RULE)
    corpus = [dict(order=2, T=0.4, dt=0.1, k=4, idx=[2], jts=[0.2], sampling=True, noise=True),
              dict(order=2, T=0.1, dt=0.1, k=1, idx=[1], jts=[0.1], sampling=False, noise=True),
              dict(order=1, T=0.4, dt=0.1, k=4, idx=[2, 2], jts=[0.2, 0.2], sampling=True, noise=True)]
    cases = corpus + gen_cases(ctx, ctx.scale(160, 3000))
    impl, exprs = [], []
    for c in cases:
        rows, n, shape, ncalls = tracing.analog_columns(c["order"], c["T"], c["dt"], c["jts"], c["sampling"], c["noise"])
        impl.append((rows, n, ncalls))
        exprs.append(model_expr(c["order"], c["T"], c["dt"], c["jts"], c["sampling"], c["noise"]))
    vals = common.coq_eval_sharded(HEADER, exprs, tag="c14")
    for c, (rows, n, ncalls), v in zip(cases, impl, vals):
        model_rows = [(col, tracing.word_to_py(w)) for (col, w) in v]
        nontriv = any(j >= 1 for j in c["idx"]) and c["noise"]
        ctx.case(nontrivial_key=(c["order"], c["T"], c["dt"], tuple(c["jts"]), c["sampling"]) if nontriv else None,
                 validated=True, sample={"case": c, "columns_impl": rows[-2:]} if nontriv and len(rows) > 2 else None)
        ctx.count(f"order{c['order']}_{'sampling' if c['sampling'] else 'final'}")
        ctx.count(f"jumps_{len(c['jts'])}")
        if ncalls == 0 and c["k"] >= 1:
            ctx.mismatch("analog_tjm-words (stubs never called)", c, rows, model_rows, key="stubs")
        elif rows != model_rows:
            ctx.mismatch("analog_tjm-words-vs-JumpPipeline", c, rows, model_rows)
    order_correspondence(ctx)
    # time matching alone, bit-exact, on long grids (where a relative tolerance would start to matter)
    from mqt.yaqs.core.data_structures.noise_model import NoiseModel
    from mqt.yaqs.core.methods.scheduled_jumps import has_scheduled_jump

    tcases, texprs, timpl = [], [], []
    for i in range(ctx.scale(300, 5000)):
        dt = float(ctx.rng.choice(DTS))
        k = int(ctx.rng.choice([1, 2, 7, 100, 1000, 99_899, 99_950, 150_000, 1_000_000]) + ctx.rng.integers(0, 3))
        j = k + int(ctx.rng.choice([-2, -1, 0, 0, 1, 2]))
        if j < 0:
            continue
        jt = float(k * dt) if ctx.rng.random() < 0.5 else float(round(k * dt, 9))
        t = float(dt * j)
        nm = NoiseModel([], scheduled_jumps=[{"time": jt, "sites": [0], "name": "x"}])
        timpl.append(bool(has_scheduled_jump(nm, t, dt)))
        texprs.append(f"has_jump_at {g_float(jt)} {g_float(t)} {g_float(dt)}")
        tcases.append(dict(dt=dt, k=k, j=j, jump_time=jt, t=t))
    tv = common.coq_eval_sharded("From Coq Require Import PrimFloat.\nFrom Yaqs Require Import Model.Grid.", texprs, tag="c14t")
    for c, i, m in zip(tcases, timpl, tv):
        ctx.case(nontrivial_key=("tm", c["dt"], c["k"], c["j"]) if c["k"] > 50_000 or c["j"] == c["k"] else None, validated=True)
        ctx.count("time_match_long" if c["k"] > 50_000 else "time_match_short")
        if i != m:
            ctx.mismatch("has_scheduled_jump-vs-Grid.has_jump_at", c, i, m)
        if i != (c["j"] == c["k"]):
            ctx.violation("time-match", f"has_scheduled_jump(time={c['t']!r}) is {i} for a jump scheduled at grid index {c['k']} "
                          f"(dt={c['dt']}, queried grid index {c['j']})", {"oracle": "time_match", **c})


def applied_order_impl(L, dt, time, jumps):
    """Which listed jumps does the REAL apply_scheduled_jumps apply at `time`, and in which order?  The operator
    matrices are tagged by identity; opt_einsum.contract is wrapped in scheduled_jumps' namespace to log them."""
    import types

    import mqt.yaqs.core.methods.scheduled_jumps as SJ
    from mqt.yaqs.core.data_structures.networks import MPS
    from mqt.yaqs.core.data_structures.noise_model import NoiseModel
    from mqt.yaqs.core.data_structures.simulation_parameters import AnalogSimParams, Observable

    nm = NoiseModel([], scheduled_jumps=[{"time": t, "sites": sites, "name": "user", "matrix": np.eye(2 ** len(sites), dtype=complex)}
                                         for (t, sites) in jumps])
    mats = [j["matrix"] for j in nm.scheduled_jumps]
    order = []
    real_oe = SJ.oe

    def contract(expr, a, b, *rest, **kw):
        for k, m in enumerate(mats):
            if a is m:
                order.append(k)
        return real_oe.contract(expr, a, b, *rest, **kw)

    SJ.oe = types.SimpleNamespace(contract=contract)
    try:
        p = AnalogSimParams([Observable("z", 0)], elapsed_time=10 * dt, dt=dt, show_progress=False)
        SJ.apply_scheduled_jumps(MPS(L, state="x+"), nm, time, p)
    finally:
        SJ.oe = real_oe
    return order


def order_correspondence(ctx):
    cases, exprs, impl = [], [], []
    for i in range(ctx.scale(120, 2000)):
        L = int(ctx.rng.integers(2, 5))
        dt = float(ctx.rng.choice(DTS[:8]))
        k = int(ctx.rng.integers(1, 8))
        nj = int(ctx.rng.integers(1, 5))
        jumps = []
        for _ in range(nj):
            kk = k if ctx.rng.random() < 0.7 else int(ctx.rng.integers(1, 8))
            if ctx.rng.random() < 0.5:
                sites = [int(ctx.rng.integers(0, L))]
            else:
                a = int(ctx.rng.integers(0, L - 1))
                sites = [a, a + 1]
            jumps.append((float(kk * dt), sites))
        t = float(dt * k)
        impl.append(applied_order_impl(L, dt, t, jumps))
        ms = g_list([f"has_jump_at {g_float(jt)} {g_float(t)} {g_float(dt)}" for (jt, _) in jumps])
        exprs.append(f"applied_at {ms} 0%nat")
        cases.append(dict(L=L, dt=dt, k=k, jumps=jumps))
    vals = common.coq_eval_sharded(HEADER, exprs, tag="c14o")
    for c, i, m in zip(cases, impl, vals):
        sizes = [len(s) for _, s in c["jumps"]]
        ctx.case(nontrivial_key=("order", c["dt"], c["k"], tuple((t, tuple(s)) for t, s in c["jumps"])) if len(i) >= 2 and len(set(sizes)) > 1 else None,
                 validated=True)
        ctx.count("apply_order")
        if i != m:
            ctx.mismatch("apply_scheduled_jumps application order vs JumpPipeline.applied_at", c, i, m)


# ---- the property, directly -----------------------------------------------------------------------------------
def run_real(order, L, dt, k_total, jumps, state_name, warm=None, traj=None, parallel=False, zero_procs=False):
    from mqt.yaqs import simulator
    from mqt.yaqs.core.data_structures.networks import MPO, MPS
    from mqt.yaqs.core.data_structures.noise_model import NoiseModel
    from mqt.yaqs.core.data_structures.simulation_parameters import AnalogSimParams, Observable

    obs = [Observable("z", i) for i in range(L)] + [Observable("x", 0)]
    p = AnalogSimParams(obs, elapsed_time=k_total * dt, dt=dt, order=order, sample_timesteps=True, show_progress=False,
                        threshold=1e-14, max_bond_dim=64)
    if warm is not None:
        # history: the same parameter object served an earlier run with ANOTHER schedule (possibly none)
        simulator.run(MPS(L, state=state_name), MPO.ising(L, 1.0, 0.7), p, NoiseModel([], scheduled_jumps=[jump_dict(j, dt) for j in warm]), parallel=False)
    if traj:
        # several trajectories of one run: a stochastic channel of negligible rate (1e-12: never fires, damps by 1e-13) makes the run count as
        # noisy, so the front-end executes `traj` trajectories on ONE sampled noise model — each of them owes the scheduled jumps
        import os

        p.num_traj = int(traj)
        nm = NoiseModel([{"name": "pauli_z", "sites": [0], "strength": 1e-12}], scheduled_jumps=[jump_dict(j, dt) for j in jumps])
        saved = os.environ.get("YAQS_MAX_WORKERS")
        os.environ["YAQS_MAX_WORKERS"] = "3"
        try:
            simulator.run(MPS(L, state=state_name), MPO.ising(L, 1.0, 0.7), p, nm, parallel=parallel)
        finally:
            if saved is None:
                os.environ.pop("YAQS_MAX_WORKERS", None)
            else:
                os.environ["YAQS_MAX_WORKERS"] = saved
        return np.array([np.real(np.asarray(o.trajectories)) for o in obs]), len(p.times)  # (observable, trajectory, column)
    # zero_procs: the schedule rides on a noise model whose stochastic channels are all switched off (the zero point of a strength sweep)
    procs = [{"name": "pauli_z", "sites": [0], "strength": 0.0}, {"name": "lowering", "sites": [L - 1], "strength": 0.0}] if zero_procs else []
    nm = NoiseModel(procs, scheduled_jumps=[jump_dict(j, dt) for j in jumps])
    simulator.run(MPS(L, state=state_name), MPO.ising(L, 1.0, 0.7), p, nm, parallel=False)
    return np.array([np.real(o.results) for o in obs]), len(p.times)


def user_matrix(seed, nsites):
    """the operator a user supplies with a scheduled jump (deterministic in the seed; generic, not unitary)"""
    r = np.random.default_rng(seed)
    d = 2**nsites
    if nsites == 2 and seed % 2 == 0:
        # a product of two one-site operators, each with genuinely complex entries (e.g. X (x) S)
        a, b = (np.eye(2) * 0.4 + 0.6 * (r.normal(size=(2, 2)) + 1j * r.normal(size=(2, 2))) for _ in range(2))
        return np.kron(a, b)
    return np.eye(d, dtype=complex) * 0.4 + 0.6 * (r.normal(size=(d, d)) + 1j * r.normal(size=(d, d)))


def jump_dict(j, dt):
    d = {"time": j[0] * dt, "sites": list(j[1]), "name": j[2]}
    if len(j) > 3 and j[3] is not None:
        d["matrix"] = user_matrix(j[3], len(j[1]))
    return d


def run_dense(L, dt, k_total, jumps, state_name):
    from mqt.yaqs.core.data_structures.noise_model import NoiseModel

    h = dense.ising(L, 1.0, 0.7)
    v = dense.named_state(L, state_name)
    ops = [dense.op_on(L, {i: dense.Z}) for i in range(L)] + [dense.op_on(L, {0: dense.X})]
    cols = [[dense.expect(v, o) for o in ops]]
    for j in range(1, k_total + 1):
        v = dense.evolve(h, v, dt)
        for jmp in jumps:
            k, sites, name = jmp[0], jmp[1], jmp[2]
            if k == j:
                m = np.asarray(NoiseModel.get_operator(name), dtype=complex) if len(jmp) < 4 or jmp[3] is None else user_matrix(jmp[3], len(sites))
                if len(sites) == 1:
                    full = dense.op_on(L, {sites[0]: m})
                else:
                    a = min(sites)
                    full = np.kron(np.kron(np.eye(2**a), m), np.eye(2 ** (L - a - 2)))
                v = full @ v
                v = v / np.linalg.norm(v)
        cols.append([dense.expect(v, o) for o in ops])
    return np.array(cols).T


def jump_oracle(args):
    real, n = run_real(args["order"], args["L"], args["dt"], args["k_total"], args["jumps"], args["state"], warm=args.get("warm"),
                       traj=args.get("traj"), parallel=bool(args.get("parallel")), zero_procs=bool(args.get("zero_procs")))
    if n != args["k_total"] + 1:
        return None  # grid length is C15's business
    ref = run_dense(args["L"], args["dt"], args["k_total"], args["jumps"], args["state"])
    if args.get("traj"):
        tol = 5e-3 if args["L"] > 2 else 1e-5
        if real.ndim != 3 or real.shape[1] != args["traj"]:
            return f"a run with {args['traj']} trajectories stored trajectories of shape {real.shape[1:]}"
        for t in range(real.shape[1]):
            err = np.max(np.abs(real[:, t, :] - ref), axis=0)
            bad = [int(j) for j in np.nonzero(err > tol)[0]]
            if bad:
                return (f"order {args['order']}, {'parallel' if args.get('parallel') else 'serial'} run with {args['traj']} trajectories: trajectory {t} differs from "
                        f"'apply once at t_k' by {err[bad[0]]:.3e} at column {bad[0]} (scheduled indices {[j[0] for j in args['jumps']]}); trajectory 0 "
                        f"{'agrees' if t and np.max(np.abs(real[:, 0, :] - ref)) <= tol else 'is the first'}")
        return None
    err = np.max(np.abs(real - ref), axis=0)
    tol = 5e-3 if args["L"] > 2 else 1e-5
    bad = [int(j) for j in np.nonzero(err > tol)[0]]
    if bad:
        kmin = min(j[0] for j in args["jumps"])
        when = "before" if bad[0] < kmin else "at/after"
        return (f"order {args['order']}: results differ from 'apply once at t_k' by {err[bad[0]]:.3e} at column {bad[0]} "
                f"({when} the scheduled index {kmin})" + ("; the noise model also lists stochastic channels of strength 0" if args.get("zero_procs") else "")
                + (f"; the parameter object had served a run with the schedule {args['warm']} before" if args.get("warm") is not None else ""))
    return None


DIRECTED = [
    [(2, [0, 1], "crosstalk_xy"), (2, [1], "lowering")],
    [(2, [1], "lowering"), (2, [0, 1], "crosstalk_xy")],
    [(1, [0], "raising"), (1, [0], "x")],
    [(3, [1, 2], "crosstalk_zx"), (3, [1], "raising"), (3, [2], "y")],
    # operators supplied by the user, under a name of their own and under names the library also knows
    [(2, [1], "my_kick", 11)],
    [(2, [1], "x", 12)],
    [(1, [0], "lowering", 13), (3, [2], "pauli_x")],
    [(2, [1, 2], "crosstalk_xx", 14)],
]


def search(ctx):
    for k, jumps in enumerate(DIRECTED):
        L = 3
        for order in (1, 2):
            args = dict(order=order, L=L, dt=0.02, k_total=4, jumps=jumps, state="x+")
            if (k + order) % 3 == 0:
                args["zero_procs"] = True
                ctx.count("dense_schedule_next_to_switched_off_channels")
            why = jump_oracle(args)
            ctx.case(nontrivial_key=("directed", k, order))
            ctx.count("dense_directed")
            if why:
                ctx.violation(f"jump-dense:equal-times", why, {"oracle": "jump", "args": args})
    # several trajectories on one sampled noise model, serial and through real worker processes
    for k, (order, par) in enumerate([(1, False), (2, False), (2, True), (1, True)][: 3 if ctx.quick else 4]):
        args = dict(order=order, L=2, dt=0.05, k_total=5, jumps=[(2, [0], "x"), (4, [1], "y")] if k % 2 else [(3, [0, 1], "crosstalk_xy")], state="x+", traj=4, parallel=par)
        try:
            with common.time_limit(180):
                why = jump_oracle(args)
        except common.HardTimeout:
            ctx.notes.append("multi-trajectory jump oracle timed out")
            continue
        ctx.case(nontrivial_key=("multi-traj", k))
        ctx.count("dense_multi_trajectory_" + ("parallel" if par else "serial"))
        if why:
            ctx.violation("jump-dense:multi-trajectory", why, {"oracle": "jump", "args": args})
    n = ctx.scale(10, 80)
    for i in range(n):
        L = 2 if i % 3 else 3
        order = 1 + i % 2
        k_total = int(ctx.rng.integers(3, 7))
        nj = 1 if ctx.rng.random() < 0.7 else 2
        jumps = []
        for _ in range(nj):
            k = int(ctx.rng.integers(1, k_total + 1))
            if ctx.rng.random() < 0.6:
                jumps.append((k, [int(ctx.rng.integers(0, L))], str(ctx.rng.choice(["x", "y", "lowering", "pauli_z"]))))
            else:
                a = int(ctx.rng.integers(0, L - 1))
                jumps.append((k, [a, a + 1], str(ctx.rng.choice(["crosstalk_xy", "crosstalk_zx", "raising_two"]))))
        state = str(ctx.rng.choice(["x+", "y+", "zeros"]))
        if ctx.rng.random() < 0.3:  # one of them carries the user's own matrix (under whatever name it has)
            q = int(ctx.rng.integers(0, len(jumps)))
            jumps[q] = (*jumps[q], int(ctx.rng.integers(1, 10**6)))
        if any(j[2] in ("raising_two",) for j in jumps) and state == "zeros":
            state = "x+"
        if any(j[2] == "lowering" for j in jumps) and state == "zeros":
            state = "x+"
        args = dict(order=order, L=L, dt=0.05 if L == 2 else 0.02, k_total=k_total, jumps=jumps, state=state)
        if i % 4 == 2:
            args["zero_procs"] = True
            ctx.count("dense_schedule_next_to_switched_off_channels")
        if i % 3 == 1:
            args["warm"] = [] if i % 2 else [(max(1, (jumps[0][0] + 1) % (k_total + 1)), [0], "x")]
        try:
            with common.time_limit(120):
                why = jump_oracle(args)
        except common.HardTimeout:
            ctx.notes.append("jump_oracle timed out")
            continue
        ctx.case(nontrivial_key=("dense", i), sample={"dense_oracle": args} if i < 2 else None)
        ctx.count("dense_order%d" % order)
        if why:
            ctx.violation(f"jump-dense:order{order}", why, {"oracle": "jump", "args": args})


def replay(ctx, data):
    rp = data.get("replay", data)
    if rp.get("oracle") == "jump":
        a = rp["args"]
        a["jumps"] = [tuple(j) for j in a["jumps"]]
        return jump_oracle(a)
    if rp.get("oracle") == "time_match":
        from mqt.yaqs.core.data_structures.noise_model import NoiseModel
        from mqt.yaqs.core.methods.scheduled_jumps import has_scheduled_jump

        nm = NoiseModel([], scheduled_jumps=[{"time": rp["jump_time"], "sites": [0], "name": "x"}])
        got = bool(has_scheduled_jump(nm, rp["t"], rp["dt"]))
        return f"has_scheduled_jump = {got}" if got != (rp["j"] == rp["k"]) else None
    return "re-run the check: " + "; ".join(b["what"] for b in data.get("broken", []))
