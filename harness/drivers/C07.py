"""C07 — model library: MPO builders equal their definition; Trotter circuits match them.

Tie: (1) exact — the tensors of the real MPO.from_pauli_sum(n_sweeps=0) are decoded back into a finite-state machine (per bond:
which Pauli leads from which state to which state; first site: accumulated coefficients) and compared with
Model/PauliFSM.build on the same term list; (2) exact — the gate list of create_ising_circuit vs Model/CircuitLib.
Search: every builder against the dense sum of its documented terms (dense vs sparse, with and without compression,
from_matrix round trip, boson / transmon chains), and every circuit builder against exp(-iHT) of its documented Hamiltonian at
increasing Trotter-step counts.
"""
from __future__ import annotations

import itertools
from fractions import Fraction

import numpy as np
import scipy.linalg

import common
from common import g_list, g_q
from drivers import dense

RULE = ("random Pauli-term lists (L=1..6, 0..9 terms, any range, repeated / identity / zero-coefficient terms, coefficients k/4); "
        "builders with random parameters; circuits on chains L=2..5 and grids up to 2x3; non-trivial = a repeated or long-range "
        "term, periodic boundary, or a grid; distinct by (builder, parameters)")
TRUSTED = ["decoder of MPO tensors into an FSM (harness)", "dense reference sums and scipy expm",
           "modelled, not verified: dense interpretation of the tensors, SVD compression, from_matrix, Lie-Trotter convergence"]
ASSUMES = ["site 0 is the leftmost tensor factor of dense matrices"]

HEADER = ("From Coq Require Import List QArith. Import ListNotations.\nFrom Yaqs Require Import Model.PauliFSM Model.CircuitLib.\n"
          "Definition pid (p : pauli) : nat := match p with PI => 0 | PX => 1 | PY => 2 | PZ => 3 end%nat.")
LAB = "IXYZ"
PMAT = [dense.I2, dense.X, dense.Y, dense.Z]


def gen_terms(rng, L):
    n = int(rng.integers(0, 10))
    terms = []
    for _ in range(n):
        ops = [0] * L
        k = int(rng.integers(0, min(L, 4) + 1))
        for s in rng.choice(L, size=k, replace=False):
            ops[int(s)] = int(rng.integers(1, 4))
        terms.append((Fraction(int(rng.integers(-8, 9)), 4), ops))
    if terms and rng.random() < 0.4:
        terms.append((Fraction(int(rng.integers(1, 9)), 4), list(terms[0][1])))  # repeated string
    return terms


def spec_of(ops):
    return " ".join(f"{LAB[o]}{i}" for i, o in enumerate(ops) if o)


def decode_fsm(mpo, L):
    """tensors (phys,phys,left,right) -> (first-site blocks, tables [(op,next)] per bond, bond dims)"""
    tables = []
    for i in range(1, L):
        t = mpo.tensors[i]
        tab = []
        for cur in range(t.shape[2]):
            hits = []
            for nxt in range(t.shape[3]):
                blk = t[:, :, cur, nxt]
                if np.allclose(blk, 0):
                    continue
                ids = [k for k, pm in enumerate(PMAT) if np.allclose(blk, pm)]
                hits.append((ids[0] if ids else -1, nxt))
            tab.append(hits)
        tables.append(tab)
    return mpo.tensors[0], tables, [mpo.tensors[i].shape[2] for i in range(1, L)]


def correspond(ctx):
    from mqt.yaqs.core.data_structures.networks import MPO
    from mqt.yaqs.core.libraries.circuit_library import create_ising_circuit

    ctx.rules.append(RULE)
    cases, exprs, impl = [], [], []
    for k in range(ctx.scale(120, 2500)):
        L = int(ctx.rng.integers(1, 7))
        terms = gen_terms(ctx.rng, L)
        if not terms:
            continue
        mpo = MPO()
        mpo.from_pauli_sum(terms=[(float(c), spec_of(o)) for c, o in terms], length=L, n_sweeps=0)
        impl.append(decode_fsm(mpo, L))
        ts = g_list([f"({g_q(c)}, {g_list(['P' + LAB[o] for o in ops])})" for c, ops in terms])
        exprs.append(f"let f := build {L}%nat {ts} in (map (fun e => (snd e, pid (snd (fst e)))) (first f), "
                     f"map (map (fun s => (pid (fst s), snd s))) (tables f))")
        cases.append((L, terms))
    vals = common.coq_eval_sharded(HEADER, exprs, tag="c07")
    for (L, terms), (t0, tables, dims), (mfirst, mtables) in zip(cases, impl, vals):
        strings = [tuple(o) for _, o in terms]
        nontriv = len(set(strings)) < len(strings) or any(sum(1 for x in o if x) >= 3 for o in strings)
        ctx.case(nontrivial_key=(L, str(terms)) if nontriv else None, validated=True,
                 sample={"L": L, "terms": [(str(c), spec_of(o)) for c, o in terms], "bond_dims": dims} if nontriv and L > 3 else None)
        ctx.count("fsm_term_lists")
        desc = {"L": L, "terms": [(str(c), spec_of(o)) for c, o in terms]}
        want_tables = [[[tuple(s)] for s in tab] for tab in mtables]
        got_tables = [[[tuple(h) for h in hits] for hits in tab] for tab in tables]
        if got_tables != want_tables:
            ctx.mismatch("from_pauli_sum tables vs PauliFSM.build", desc, got_tables, want_tables)
            continue
        # first site: column `target` accumulates coeff * op
        width = t0.shape[3]
        want0 = np.zeros((2, 2, 1, width), dtype=complex)
        ok = True
        for (c, _), (target, op) in zip(terms, mfirst):
            if target >= width:
                ok = False
                break
            want0[:, :, 0, target] += float(c) * PMAT[op]
        if not ok or not np.allclose(t0, want0, atol=1e-12):
            ctx.mismatch("from_pauli_sum first-site tensor vs PauliFSM.build", desc, "first tensor differs", mfirst)
    # Ising circuit gate list
    gc, ge, gi = [], [], []
    for L in range(1, 9 if ctx.quick else 14):
        for periodic in (False, True):
            J, g, dt = 0.7, 0.4, 0.1
            qc = create_ising_circuit(L, J, g, dt, 1, periodic=periodic)
            rx = [(qc.find_bit(ci.qubits[0]).index, float(ci.operation.params[0])) for ci in qc.data if ci.operation.name == "rx"]
            rzz = [((qc.find_bit(ci.qubits[0]).index, qc.find_bit(ci.qubits[1]).index), float(ci.operation.params[0])) for ci in qc.data if ci.operation.name == "rzz"]
            others = [ci.operation.name for ci in qc.data if ci.operation.name not in ("rx", "rzz", "barrier")]
            gi.append((rx, rzz, others))
            ge.append(f"(ising_fields {L}%nat, ising_bonds {L}%nat {'true' if periodic else 'false'})")
            gc.append((L, periodic, J, g, dt))
    vals = common.coq_eval_sharded(HEADER, ge, tag="c07c")
    for (L, periodic, J, g, dt), (rx, rzz, others), (mf, mb) in zip(gc, gi, vals):
        ctx.case(nontrivial_key=("ising-circuit", L, periodic) if L > 2 else None, validated=True)
        ctx.count("ising_circuits")
        ok = [q for q, _ in rx] == mf and [tuple(b) for b, _ in rzz] == [tuple(b) for b in mb] and not others
        ok = ok and all(abs(a - (-2 * dt * g)) < 1e-15 for _, a in rx) and all(abs(a - (-2 * dt * J)) < 1e-15 for _, a in rzz)
        if not ok:
            ctx.mismatch("create_ising_circuit gate list vs CircuitLib", {"L": L, "periodic": periodic}, (rx, rzz, others), (mf, mb))
    # Heisenberg circuit gate list: the same bond pattern for rzz, rxx, ryy, a field rotation on every site
    from mqt.yaqs.core.libraries.circuit_library import create_heisenberg_circuit

    hc, he, hi = [], [], []
    for L in range(1, 8 if ctx.quick else 13):
        for periodic in (False, True):
            jx, jy, jz, hf, dt = 0.8, 0.5, 0.3, 0.4, 0.1
            qc = create_heisenberg_circuit(L, jx, jy, jz, hf, dt, 1, periodic=periodic)
            ops = []
            for ci in qc.data:
                nm = ci.operation.name
                if nm == "barrier":
                    continue
                qs = [qc.find_bit(q).index for q in ci.qubits]
                ops.append((nm, (qs[0], qs[-1]), float(ci.operation.params[0]) if ci.operation.params else None))
            hi.append(ops)
            he.append(f"heis_step {L}%nat {'true' if periodic else 'false'}")
            hc.append((L, periodic))
    hv = common.coq_eval_sharded(HEADER, he, tag="c07h")
    want_angle = {"rz": -2 * 0.1 * 0.4, "rzz": -2 * 0.1 * 0.3, "rxx": -2 * 0.1 * 0.8, "ryy": -2 * 0.1 * 0.5}
    names = {"HRz": "rz", "HRzz": "rzz", "HRxx": "rxx", "HRyy": "ryy"}
    for (L, periodic), ops, mv in zip(hc, hi, hv):
        model = [(names[x[0][0]], (x[1][0], x[1][1])) for x in mv]
        ctx.case(nontrivial_key=("heis-circuit", L, periodic) if L > 2 else None, validated=True)
        ctx.count("heisenberg_circuits")
        ok = [(n_, pr) for n_, pr, _ in ops] == model and all(n_ in want_angle and abs(a_ - want_angle[n_]) < 1e-15 for n_, _, a_ in ops)
        if not ok:
            ctx.mismatch("create_heisenberg_circuit gate list vs CircuitLib.heis_step", {"L": L, "periodic": periodic}, ops, model, key="heis-gates")
    # Fermi-Hubbard chain: gate list and angles of one sub-step (repeated num_trotter_steps * timesteps times)
    from mqt.yaqs.core.libraries.circuit_library import create_1d_fermi_hubbard_circuit

    fc, fe, fi = [], [], []
    for L in range(1, 6 if ctx.quick else 9):
        for nsub, steps in ((1, 1), (2, 1), (3, 2)):
            u_, t_, mu_, dt = 0.9, 0.7, 0.4, 0.2
            qc = create_1d_fermi_hubbard_circuit(L, u_, t_, mu_, nsub, dt, steps)
            ops = [(ci.operation.name, tuple(qc.find_bit(q).index for q in ci.qubits), float(ci.operation.params[0])) for ci in qc.data if ci.operation.name != "barrier"]
            fi.append(ops)
            fe.append(f"fh_step {L}%nat")
            fc.append((L, nsub, steps, {"AMu": mu_ * dt / (2 * nsub), "AU": -u_ * dt / (2 * nsub), "AHop": -dt * t_ / nsub}))
    fv = common.coq_eval_sharded(HEADER, fe, tag="c07f")
    gname = {"FP": "p", "FCP": "cp", "FXX": "rxx", "FYY": "ryy"}
    for (L, nsub, steps, ang), ops, mv in zip(fc, fi, fv):
        one = [(gname[g[0]], tuple(g[1:]), ang[a[0]]) for (a, g) in mv]
        model = one * (nsub * steps)
        ctx.case(nontrivial_key=("fh-circuit", L, nsub, steps) if L > 1 else None, validated=True)
        ctx.count("fermi_hubbard_circuits")
        ok = len(ops) == len(model) and all(o[0] == m[0] and o[1] == m[1] and abs(o[2] - m[2]) < 1e-15 for o, m in zip(ops, model))
        if not ok:
            bad = next((k for k, (o, m) in enumerate(zip(ops, model)) if not (o[0] == m[0] and o[1] == m[1] and abs(o[2] - m[2]) < 1e-15)), min(len(ops), len(model)))
            ctx.mismatch("create_1d_fermi_hubbard_circuit gate list and angles vs CircuitLib.fh_step", {"L": L, "num_trotter_steps": nsub, "timesteps": steps},
                         {"gates": len(ops), "first_difference_at": bad, "there": ops[bad] if bad < len(ops) else None}, {"gates": len(model), "there": model[bad] if bad < len(model) else None}, key="fh-gates")
    hamiltonian_correspondence(ctx)
    bose_correspondence(ctx)
    transmon_correspondence(ctx)


def captured_terms(build):
    """the `terms` argument the real builder hands to from_pauli_sum, parsed into (Fraction coefficient, [(site, op id)...])"""
    import re

    from mqt.yaqs.core.data_structures.networks import MPO

    box = {}
    real = MPO.from_pauli_sum

    def spy(self, *, terms, **kw):
        box["terms"] = list(terms)
        box["kw"] = kw
        return real(self, terms=terms, **kw)

    MPO.from_pauli_sum = spy
    try:
        build()
    finally:
        MPO.from_pauli_sum = real
    out = []
    for c, spec in box.get("terms", []):
        toks = re.findall(r"([IXYZ])(\d+)", spec)
        out.append((Fraction(float(np.real(c))).limit_denominator(1 << 20), [(int(i), LAB.index(p)) for p, i in toks]))
    return out, box.get("kw", {})


def hamiltonian_correspondence(ctx):
    from mqt.yaqs.core.data_structures.networks import MPO

    hdr = ("From Coq Require Import List QArith. Import ListNotations.\nFrom Yaqs Require Import Model.PauliFSM Model.HamTerms.\n"
           "Definition pid (p : pauli) : nat := match p with PI => 0 | PX => 1 | PY => 2 | PZ => 3 end%nat.\n"
           "Definition show (l : list (Q * list (nat * pauli))) := map (fun t => (fst t, map (fun s => (fst s, pid (snd s))) (snd t))) l.")
    cases, exprs, impl = [], [], []
    r = ctx.rng
    q8 = lambda: Fraction(int(r.integers(-12, 13)), 8)  # noqa: E731
    for k in range(ctx.scale(60, 900)):
        L = int(r.integers(1, 9))
        per = bool(r.random() < 0.5) and L >= 2  # a periodic single site couples site 0 to itself: from_pauli_sum rejects "Z0 Z0"
        bc = "periodic" if per else "open"
        kind = ("ising", "heisenberg", "hamiltonian")[k % 3]
        if kind == "ising":
            J, g = q8(), q8()
            got, _ = captured_terms(lambda: MPO.ising(L, float(J), float(g), bc=bc))
            exprs.append(f"show (ising_terms {L}%nat {g_q(J)} {g_q(g)} {'true' if per else 'false'})")
            par = dict(J=str(J), g=str(g))
        elif kind == "heisenberg":
            a, b, c, h = q8(), q8(), q8(), (q8() if r.random() < 0.7 else Fraction(0))
            got, _ = captured_terms(lambda: MPO.heisenberg(L, float(a), float(b), float(c), float(h), bc=bc))
            exprs.append(f"show (heisenberg_terms {L}%nat {g_q(a)} {g_q(b)} {g_q(c)} {g_q(h)} {'true' if per else 'false'})")
            par = dict(Jx=str(a), Jy=str(b), Jz=str(c), h=str(h))
        else:
            two = [(q8(), str(r.choice(list("XYZ"))), str(r.choice(list("XYZ")))) for _ in range(int(r.integers(0, 4)))]
            one = [(q8(), str(r.choice(list("XYZ")))) for _ in range(int(r.integers(0, 3)))]
            got, _ = captured_terms(lambda: MPO.hamiltonian(length=L, two_body=[(float(c), a, b) for c, a, b in two],
                                                            one_body=[(float(c), a) for c, a in one], bc=bc))
            tw = g_list([f"({g_q(c)}, P{a}, P{b})" for c, a, b in two])
            on = g_list([f"({g_q(c)}, P{a})" for c, a in one])
            exprs.append(f"show (ham_terms {L}%nat {tw} {on} {'true' if per else 'false'})")
            par = dict(two_body=[(str(c), a, b) for c, a, b in two], one_body=[(str(c), a) for c, a in one])
        impl.append(got)
        cases.append(dict(builder=kind, L=L, bc=bc, **par))
    vals = common.coq_eval_sharded(hdr, exprs, tag="c07h")
    for c, got, want in zip(cases, impl, vals):
        ctx.case(nontrivial_key=("terms", str(c)) if c["L"] >= 3 else None, validated=True)
        ctx.count("term_lists_" + c["builder"])
        w = [(Fraction(t[0]), [tuple(x) for x in t[1]]) for t in want]
        g = [(t[0], [tuple(x) for x in t[1]]) for t in got]
        if g != w:
            ctx.mismatch("terms handed to from_pauli_sum vs HamTerms", c, [(str(a), b) for a, b in g][:6], [(str(a), b) for a, b in w][:6], key="terms")


def bose_correspondence(ctx):
    """MPO.bose_hubbard: every tensor decoded into a transition table over named local operators vs Model/ChainFSM.out
    (Start = 0, channel k = k+1, End = 3).  The theorem C07_chain_automaton_denotes_terms then covers every length."""
    from mqt.yaqs.core.data_structures.networks import MPO

    hdr = ("From Coq Require Import List. Import ListNotations.\nFrom Yaqs Require Import Model.ChainFSM.\n"
           "Definition sid (s : st) : nat := match s with Start => 0 | Chan k => S k | End => 3 end%nat.\n"
           "Definition tab (s : st) := map (fun t => (fst t, sid (snd t))) (out nat 0%nat 1%nat [(2,3);(4,5)]%nat s).")
    want = common.coq_eval(hdr, ["(tab Start, tab (Chan 0), tab (Chan 1), tab End)"], "c07b")[0]
    table = {}  # (row state, col state) -> symbol id
    for r, lst in enumerate(want):
        for sym_, c in lst:
            table[(r, c)] = sym_
    for L in range(1, 8):
        for d in (2, 3):
            om, jj, u = 0.7 + 0.1 * L, 0.3 + 0.05 * d, 0.45
            a = np.diag(np.sqrt(np.arange(1, d)), 1).astype(complex)
            nn = a.conj().T @ a
            ident = np.eye(d, dtype=complex)
            syms = {0: ident, 1: 0.5 * u * (nn @ (nn - ident)) + om * nn, 2: a.conj().T, 3: -jj * a, 4: a, 5: -jj * a.conj().T}
            mpo = MPO.bose_hubbard(L, d, om, jj, u)
            ctx.case(nontrivial_key=("bose-fsm", L, d) if L >= 3 else None, validated=True)
            ctx.count("bose_automata")
            bad = None
            for i, t in enumerate(mpo.tensors):
                rows, cols = t.shape[2], t.shape[3]
                for r in range(rows):
                    for c in range(cols):
                        blk = t[:, :, r, c]
                        # the first tensor is row Start, the last one column End; a single site is the (Start, End) entry
                        rr = 0 if i == 0 else r
                        cc = 3 if i == L - 1 else c
                        exp_sym = table.get((rr, cc))
                        if (rows != (1 if i == 0 else 4)) or (cols != (1 if i == L - 1 else 4)):
                            bad = f"tensor {i} has bond dimensions {rows}x{cols}"
                        elif exp_sym is None:
                            if np.max(np.abs(blk)) > 1e-14:
                                bad = f"tensor {i}: unexpected operator at transition {rr}->{cc}"
                        elif not np.allclose(blk, syms[exp_sym], atol=1e-14):
                            bad = f"tensor {i}: transition {rr}->{cc} does not carry symbol {exp_sym}"
            if bad:
                ctx.mismatch("bose_hubbard tensors vs ChainFSM.out", {"L": L, "local_dim": d}, bad, "transition table of the model", key="bose-fsm")


def transmon_correspondence(ctx):
    """MPO.coupled_transmon: every tensor decoded into a transition table over named local operators vs Model/Transmon.chain."""
    from mqt.yaqs.core.data_structures.networks import MPO

    hdr = "From Coq Require Import List. Import ListNotations.\nFrom Yaqs Require Import Model.Transmon."
    lengths = list(range(1, 9))
    vals = common.coq_eval(hdr, [f"chain {L}%nat" for L in lengths], "c07t")
    for L, want in zip(lengths, vals):
        for dq, dr in ((2, 2), (2, 3), (3, 2)):
            wq, wr, al, g = 0.9 + 0.01 * L, 0.6, -0.35, 0.27

            def low(dd):
                return np.diag(np.sqrt(np.arange(1, dd)), 1).astype(complex)

            bq, br = low(dq), low(dr)
            nq, nr = bq.conj().T @ bq, br.conj().T @ br
            syms = {0: np.eye(dq, dtype=complex), 1: np.eye(dr, dtype=complex), 2: wq * nq + 0.5 * al * nq @ (nq - np.eye(dq)), 3: wr * nr,
                    4: g * (bq + bq.conj().T), 5: br + br.conj().T}
            mpo = MPO.coupled_transmon(L, dq, dr, wq, wr, al, g)
            ctx.case(nontrivial_key=("transmon-fsm", L, dq, dr) if L >= 4 else None, validated=True)
            ctx.count("transmon_automata")
            bad = None
            for i, (t, tabw) in enumerate(zip(mpo.tensors, want)):
                t = np.asarray(t)
                rows, cols = t.shape[2], t.shape[3]
                if rows != len(tabw) or any(cols != len(r_) for r_ in tabw):
                    bad = f"tensor {i} has bond dimensions {rows}x{cols}, model {len(tabw)}x{len(tabw[0])}"
                    break
                for r in range(rows):
                    for c in range(cols):
                        blk, e = t[:, :, r, c], tabw[r][c]
                        e = e[1] if isinstance(e, tuple) else e  # Some x is parsed as App('Some', x)
                        if e is None:
                            if np.max(np.abs(blk)) > 1e-14:
                                bad = f"tensor {i}: unexpected operator at transition {r}->{c}"
                        elif blk.shape != syms[e].shape or not np.allclose(blk, syms[e], atol=1e-14):
                            bad = f"tensor {i}: transition {r}->{c} does not carry symbol {e}"
            if bad:
                ctx.mismatch("coupled_transmon tensors vs Transmon.chain", {"L": L, "qubit_dim": dq, "resonator_dim": dr}, bad, "transition tables of the model", key="transmon-fsm")


# ---- dense definitions ------------------------------------------------------------------------------------------------
def dense_terms(L, terms):
    m = np.zeros((2**L, 2**L), dtype=complex)
    for c, ops in terms:
        m += complex(c) * dense.kron_all([PMAT[o] for o in ops])
    return m


def builder_oracle(args):
    from mqt.yaqs.core.data_structures.networks import MPO

    rng = np.random.default_rng(args["seed"])
    kind = args["kind"]
    if kind == "pauli_sum":
        L = args["L"]
        terms = gen_terms(rng, L)
        cz = [complex(float(c), float(rng.choice([0, 0, 0.5, -1.25]))) for c, _ in terms]
        for sweeps in (0, 2):
            mpo = MPO()
            mpo.from_pauli_sum(terms=[(z, spec_of(o)) for z, (_, o) in zip(cz, terms)], length=L, n_sweeps=sweeps)
            want = dense_terms(L, [(z, o) for z, (_, o) in zip(cz, terms)])
            if not np.allclose(mpo.to_matrix(), want, atol=1e-9):
                return f"from_pauli_sum(n_sweeps={sweeps}).to_matrix() differs from the sum of its terms by {np.max(np.abs(mpo.to_matrix() - want)):.3e}; terms {[(z, spec_of(o)) for z, (_, o) in zip(cz, terms)]}"
            if not np.allclose(mpo.to_sparse_matrix().toarray(), mpo.to_matrix(), atol=1e-12):
                return "to_sparse_matrix differs from to_matrix"
        # explicit compression, every sweep schedule: the operator changes by no more than the tolerance
        if L >= 2:
            for directions in ("lr", "rl", "lr_rl", "rl_lr"):
                for sweeps in (1, 2, 3):
                    mpo = MPO()
                    mpo.from_pauli_sum(terms=[(z, spec_of(o)) for z, (_, o) in zip(cz, terms)], length=L, n_sweeps=0)
                    mpo.compress(tol=1e-12, n_sweeps=sweeps, directions=directions)
                    dev = float(np.max(np.abs(mpo.to_matrix() - want)))
                    if dev > 1e-8:
                        return (f"compress(tol=1e-12, n_sweeps={sweeps}, directions='{directions}') changed the operator by {dev:.3e}; "
                                f"terms {[(z, spec_of(o)) for z, (_, o) in zip(cz, terms)]}")
        return None
    if kind in ("ising", "heisenberg", "hamiltonian"):
        L, bc = args["L"], args["bc"]
        J, g = float(rng.uniform(-1, 1)), float(rng.uniform(-1, 1))
        # periodic: one bond per site, (i, (i+1) mod L) — for L = 2 the pair is coupled twice, as the Trotter circuits do too
        bonds = [(i, i + 1) for i in range(L - 1)] + ([(L - 1, 0)] if bc == "periodic" and L >= 2 else [])
        if kind == "ising":
            mpo = MPO.ising(L, J, g, bc=bc)
            want = sum((-J * dense.op_on(L, {a: dense.Z, b: dense.Z}) for a, b in bonds), np.zeros((2**L, 2**L), dtype=complex))
            want = want + sum(-g * dense.op_on(L, {i: dense.X}) for i in range(L))
        elif kind == "heisenberg":
            jy, jz, h = float(rng.uniform(-1, 1)), float(rng.uniform(-1, 1)), float(rng.uniform(-1, 1))
            mpo = MPO.heisenberg(L, J, jy, jz, h, bc=bc)
            want = np.zeros((2**L, 2**L), dtype=complex)
            for a, b in bonds:
                want -= J * dense.op_on(L, {a: dense.X, b: dense.X}) + jy * dense.op_on(L, {a: dense.Y, b: dense.Y}) + jz * dense.op_on(L, {a: dense.Z, b: dense.Z})
            for i in range(L):
                want -= h * dense.op_on(L, {i: dense.Z})
        else:
            two = [(J, "X", "Z"), (g, "Y", "Y")]
            one = [(0.3, "Z"), (-0.2, "X")]
            mpo = MPO.hamiltonian(length=L, two_body=two, one_body=one, bc=bc)
            want = np.zeros((2**L, 2**L), dtype=complex)
            for a, b in bonds:
                want += J * dense.op_on(L, {a: dense.X, b: dense.Z}) + g * dense.op_on(L, {a: dense.Y, b: dense.Y})
            for i in range(L):
                want += 0.3 * dense.op_on(L, {i: dense.Z}) - 0.2 * dense.op_on(L, {i: dense.X})
        got = mpo.to_matrix()
        if not np.allclose(got, want, atol=1e-9):
            return f"MPO.{kind}(L={L}, bc={bc}) differs from its documented Hamiltonian by {np.max(np.abs(got - want)):.3e}"
        if not np.allclose(mpo.to_sparse_matrix().toarray(), got, atol=1e-12):
            return f"MPO.{kind}: sparse and dense conversions disagree"
        return None
    if kind == "from_matrix":
        n = args["L"]
        m = rng.normal(size=(2**n, 2**n)) + 1j * rng.normal(size=(2**n, 2**n))
        back = MPO.from_matrix(m, 2).to_matrix()
        if not np.allclose(back, m, atol=1e-9):
            return f"from_matrix(...).to_matrix() differs from the input by {np.max(np.abs(back - m)):.3e} (n={n})"
        # matrices with structure: a weak term next to strong ones, a small overall scale, an explicit cutoff.  Singular values <= cutoff
        # are discarded (documented): at each of the n-1 cuts that costs at most sqrt(d^n) * cutoff in Frobenius norm
        var = args.get("variant")
        if var and n >= 2:
            d = int(args.get("d", 2))
            nn = max(2, min(n + 1, 4 if d == 2 else 3))

            def rnd_local():
                x = rng.normal(size=(d, d)) + 1j * rng.normal(size=(d, d))
                return x + x.conj().T

            def term():
                return dense.kron_all([rnd_local() if rng.random() < 0.7 else np.eye(d, dtype=complex) for _ in range(nn)])

            strong = sum(term() for _ in range(3))
            strong = strong / np.max(np.abs(strong))
            weak = term()
            weak = weak / np.max(np.abs(weak))
            cutoff = 1e-12
            if var == "weak":
                eps = float(args.get("eps", 1e-8))
                mat, what = strong + eps * weak, f"three strong terms + {eps:g} x one more term"
            elif var == "tiny":
                eps = float(args.get("eps", 1e-7))
                mat, what = eps * (strong + 0.3 * weak), f"overall scale {eps:g}"
            else:
                cutoff, eps = 1e-4, 3e-3
                mat, what = strong + eps * weak, f"cutoff={cutoff:g} with a term of size {eps:g}"
            mpo = MPO.from_matrix(mat, d, cutoff=cutoff) if var == "cutoff" else MPO.from_matrix(mat, d)
            back = np.asarray(mpo.to_matrix())
            allowed = (nn - 1) * np.sqrt(float(d) ** nn) * cutoff + 1e-13 * float(np.max(np.abs(mat)))
            err = float(np.max(np.abs(back - mat)))
            if back.shape != mat.shape or err > allowed:
                return (f"from_matrix on {nn} sites of dimension {d} ({what}): to_matrix() differs from the input by {err:.3e}; discarding singular values "
                        f"<= {cutoff:g} allows at most {allowed:.1e}")
            sp = mpo.to_sparse_matrix().toarray()
            if not np.allclose(sp, back, atol=1e-12 + 1e-9 * float(np.max(np.abs(mat)))):
                return f"from_matrix ({what}): sparse and dense conversions of the factorised operator disagree"
        return None
    if kind == "bose_hubbard":
        L, d = args["L"], args["d"]
        om, jj, u = float(rng.uniform(0.5, 1.5)), float(rng.uniform(0.1, 1.0)), float(rng.uniform(0.1, 1.0))
        a = np.diag(np.sqrt(np.arange(1, d)), 1).astype(complex)
        nn = a.conj().T @ a
        ident = np.eye(d, dtype=complex)

        def on(ops):
            return dense.kron_all([ops.get(i, ident) for i in range(L)])

        want = np.zeros((d**L, d**L), dtype=complex)
        for i in range(L):
            want += om * on({i: nn}) + 0.5 * u * on({i: nn @ (nn - ident)})
        for i in range(L - 1):
            want -= jj * (on({i: a.conj().T, i + 1: a}) + on({i: a, i + 1: a.conj().T}))
        mpo = MPO.bose_hubbard(L, d, om, jj, u)
        got = mpo.to_matrix()
        if got.shape != want.shape or not np.allclose(got, want, atol=1e-9):
            return f"bose_hubbard(L={L}, d={d}) differs from sum_i w n_i + U/2 n_i(n_i-1) - J(a+_i a_(i+1) + h.c.) by {np.max(np.abs(got - want)):.3e}"
        sp = mpo.to_sparse_matrix().toarray()
        if sp.shape != want.shape or not np.allclose(sp, want, atol=1e-9):
            return f"bose_hubbard(L={L}, d={d}): to_sparse_matrix differs from the documented Hamiltonian"
        return None
    if kind == "coupled_transmon":
        L, dq, dr = args["L"], args["d"], args["dr"]
        wq, wr, al, g = float(rng.uniform(0.5, 1.5)), float(rng.uniform(0.5, 1.5)), float(rng.uniform(-0.6, 0.0)), float(rng.uniform(0.1, 0.6))
        dims = [dq if i % 2 == 0 else dr for i in range(L)]

        def low(dd):
            return np.diag(np.sqrt(np.arange(1, dd)), 1).astype(complex)

        def on(ops):
            return dense.kron_all([ops.get(i, np.eye(dims[i], dtype=complex)) for i in range(L)])

        dim = int(np.prod(dims))
        want = np.zeros((dim, dim), dtype=complex)
        for i in range(L):
            a = low(dims[i])
            nn = a.conj().T @ a
            want += on({i: wq * nn + 0.5 * al * nn @ (nn - np.eye(dims[i]))}) if i % 2 == 0 else on({i: wr * nn})
        for i in range(L - 1):
            a, b = low(dims[i]), low(dims[i + 1])
            want += g * on({i: a + a.conj().T, i + 1: b + b.conj().T})
        mpo = MPO.coupled_transmon(L, dq, dr, wq, wr, al, g)
        got = np.asarray(mpo.to_matrix(), dtype=complex)
        if got.shape != want.shape or not np.allclose(got, want, atol=1e-9):
            return (f"coupled_transmon(length={L}, qubit_dim={dq}, resonator_dim={dr}) differs from sum_q (w_q n + a/2 n(n-1)) + sum_r w_r n "
                    f"+ g sum (b+b^+)(a+a^+) by {np.max(np.abs(got - want)) if got.shape == want.shape else 'shape'}")
        sp = mpo.to_sparse_matrix().toarray()
        if sp.shape != want.shape or not np.allclose(sp, want, atol=1e-9):
            return f"coupled_transmon(length={L}, qubit_dim={dq}, resonator_dim={dr}): to_sparse_matrix differs from the documented Hamiltonian"
        return None
    return None


def circuit_unitary(qc):
    from qiskit.quantum_info import Operator

    n = qc.num_qubits
    u = Operator(qc).data
    t = u.reshape((2,) * (2 * n))
    perm = list(reversed(range(n))) + [n + i for i in reversed(range(n))]
    return t.transpose(perm).reshape(2**n, 2**n)


def snake(num_cols):
    return lambda r, c: r * num_cols + (c if r % 2 == 0 else num_cols - 1 - c)


def documented_h(args):
    kind = args["kind"]
    if kind == "ising1d":
        L, J, g = args["L"], args["J"], args["g"]
        h = dense.ising(L, J, g)
        if args.get("periodic") and L > 1:
            h = h - J * dense.op_on(L, {0: dense.Z, L - 1: dense.Z})
        return h
    if kind == "heis1d":
        L = args["L"]
        h = dense.heisenberg(L, args["Jx"], args["Jy"], args["Jz"], args["h"])
        if args.get("periodic") and L > 1:
            for p, jc in (("X", args["Jx"]), ("Y", args["Jy"]), ("Z", args["Jz"])):
                h = h - jc * dense.op_on(L, {0: dense.PAULI[p], L - 1: dense.PAULI[p]})
        return h
    if kind in ("ising2d", "heis2d"):
        R, C = args["rows"], args["cols"]
        n = R * C
        idx = snake(C)
        pairs = [(idx(r, c), idx(r, c + 1)) for r in range(R) for c in range(C - 1)] + [(idx(r, c), idx(r + 1, c)) for r in range(R - 1) for c in range(C)]
        h = np.zeros((2**n, 2**n), dtype=complex)
        if kind == "ising2d":
            for a, b in pairs:
                h -= args["J"] * dense.op_on(n, {a: dense.Z, b: dense.Z})
            for i in range(n):
                h -= args["g"] * dense.op_on(n, {i: dense.X})
        else:
            for a, b in pairs:
                h -= args["Jx"] * dense.op_on(n, {a: dense.X, b: dense.X}) + args["Jy"] * dense.op_on(n, {a: dense.Y, b: dense.Y}) + args["Jz"] * dense.op_on(n, {a: dense.Z, b: dense.Z})
            for i in range(n):
                h -= args["h"] * dense.op_on(n, {i: dense.Z})
        return h
    if kind in ("fh1d", "fh2d"):
        # H = -1/2 mu (I-Z) + 1/4 u (I-Z)(I-Z) - 1/2 t (X Z..Z X + Y Z..Z Y)   (as documented by both builders)
        u, t, mu = args["u"], args["t"], args["mu"]
        if kind == "fh1d":
            L = args["L"]
            n = 2 * L
            up = lambda j: j  # noqa: E731
            dn = lambda j: L + j  # noqa: E731
            hops = [(j, j + 1) for j in range(L - 1)]
        else:
            Lx, Ly = args["Lx"], args["Ly"]
            L = Lx * Ly
            n = 2 * L
            up = lambda j: 2 * j  # noqa: E731
            dn = lambda j: 2 * j + 1  # noqa: E731
            hops = [(y * Lx + x, y * Lx + x + 1) for y in range(Ly) for x in range(Lx - 1)] + [(y * Lx + x, y * Lx + x + Lx) for y in range(Ly - 1) for x in range(Lx)]
        ident = np.eye(2**n, dtype=complex)
        h = np.zeros((2**n, 2**n), dtype=complex)
        for j in range(L):
            for q in (up(j), dn(j)):
                h += -0.5 * mu * (ident - dense.op_on(n, {q: dense.Z}))
            h += 0.25 * u * (ident - dense.op_on(n, {up(j): dense.Z})) @ (ident - dense.op_on(n, {dn(j): dense.Z}))
        for a, b in hops:
            for f in (up, dn):
                i, j = sorted((f(a), f(b)))
                zs = {k: dense.Z for k in range(i + 1, j)}
                h += -0.5 * t * (dense.op_on(n, {i: dense.X, j: dense.X, **zs}) + dense.op_on(n, {i: dense.Y, j: dense.Y, **zs}))
        return h
    raise ValueError(kind)


def build_circuit(args, steps, T):
    from mqt.yaqs.core.libraries import circuit_library as CL

    dt = T / steps
    k = args["kind"]
    if k == "ising1d":
        return CL.create_ising_circuit(args["L"], args["J"], args["g"], dt, steps, periodic=args.get("periodic", False))
    if k == "heis1d":
        return CL.create_heisenberg_circuit(args["L"], args["Jx"], args["Jy"], args["Jz"], args["h"], dt, steps, periodic=args.get("periodic", False))
    if k == "ising2d":
        return CL.create_2d_ising_circuit(args["rows"], args["cols"], args["J"], args["g"], dt, steps)
    if k == "heis2d":
        return CL.create_2d_heisenberg_circuit(args["rows"], args["cols"], args["Jx"], args["Jy"], args["Jz"], args["h"], dt, steps)
    if k == "fh1d":
        return CL.create_1d_fermi_hubbard_circuit(args["L"], args["u"], args["t"], args["mu"], steps, T, 1)
    return CL.create_2d_fermi_hubbard_circuit(args["Lx"], args["Ly"], args["u"], args["t"], args["mu"], steps, T, 1)


def trotter_oracle(args):
    T = 0.4
    h = documented_h(args)
    exact = scipy.linalg.expm(-1j * T * h)
    errs = []
    for steps in (4, 8, 16):
        u = circuit_unitary(build_circuit(args, steps, T))
        ph = np.trace(exact.conj().T @ u)
        ph = ph / abs(ph) if abs(ph) > 1e-12 else 1.0
        errs.append(float(np.linalg.norm(u - ph * exact, 2)))
    if errs[2] > 0.05 and errs[2] > 0.7 * errs[1]:
        return (f"{args['kind']}: the circuit does not converge to exp(-iHT) of its documented Hamiltonian: spectral-norm error "
                f"{errs[0]:.3e}, {errs[1]:.3e}, {errs[2]:.3e} at 4, 8, 16 Trotter steps ({ {k: v for k, v in args.items() if k != 'kind'} })")
    if errs[2] > 1e-9 and errs[2] > 0.75 * errs[1]:
        return f"{args['kind']}: error stalls at {errs[2]:.3e} when the step count doubles ({errs})"
    return None


def search(ctx):
    r = ctx.rng
    for k in range(ctx.scale(40, 700)):
        kind = ["pauli_sum", "ising", "heisenberg", "hamiltonian", "from_matrix", "bose_hubbard", "coupled_transmon"][k % 7]
        a = dict(kind=kind, seed=int(r.integers(0, 2**31)), L=int(r.integers(1 if kind == "pauli_sum" else 2, 6)), bc=str(r.choice(["open", "periodic"])), d=int(r.integers(2, 4)))
        if kind == "from_matrix":
            a["L"] = int(r.integers(1, 4))
            a["variant"] = ["weak", "tiny", "cutoff", None][(k // 7) % 4]
            a["eps"] = float(10.0 ** r.uniform(-9.5, -6.5))
        if kind == "bose_hubbard":
            a["L"] = int(r.integers(1, 6))
        if kind == "coupled_transmon":
            a["L"], a["dr"] = int(r.integers(1, 7)), int(r.integers(2, 4))
        try:
            why = builder_oracle(a)
        except Exception as e:  # noqa: BLE001
            why = f"{kind} raised {type(e).__name__}: {e}"
        ctx.case(nontrivial_key=("builder", kind, a["seed"]) if a["L"] > 2 else None)
        ctx.count("builder_" + kind)
        if why:
            ctx.violation("builder:" + kind, why, {"oracle": "builder", "args": a})
    plan = [
        dict(kind="ising1d", L=4, J=0.9, g=0.6), dict(kind="ising1d", L=5, J=0.9, g=0.6, periodic=True),
        dict(kind="heis1d", L=4, Jx=0.8, Jy=0.5, Jz=0.3, h=0.4), dict(kind="heis1d", L=5, Jx=0.8, Jy=0.5, Jz=0.3, h=0.4, periodic=True),
        dict(kind="ising2d", rows=2, cols=3, J=0.7, g=0.5), dict(kind="heis2d", rows=3, cols=2, Jx=0.6, Jy=0.4, Jz=0.3, h=0.2),
        dict(kind="fh1d", L=2, u=0.8, t=0.7, mu=0.5), dict(kind="fh1d", L=3, u=0.8, t=0.7, mu=0.5),
        dict(kind="fh2d", Lx=2, Ly=1, u=0.8, t=0.7, mu=0.5), dict(kind="fh2d", Lx=2, Ly=2, u=0.8, t=0.7, mu=0.5),
        # the smallest chains of every boundary condition (a periodic pair is coupled twice, by the builders and by the circuits)
        dict(kind="ising1d", L=2, J=0.9, g=0.6, periodic=True), dict(kind="ising1d", L=3, J=0.7, g=0.5, periodic=True), dict(kind="ising1d", L=2, J=0.9, g=0.6),
        dict(kind="heis1d", L=2, Jx=0.8, Jy=0.5, Jz=0.3, h=0.4, periodic=True), dict(kind="heis1d", L=3, Jx=0.8, Jy=0.5, Jz=0.3, h=0.4, periodic=True),
    ]
    if not ctx.quick:
        plan += [dict(kind="ising2d", rows=3, cols=2, J=0.4, g=0.9), dict(kind="heis2d", rows=2, cols=3, Jx=0.6, Jy=0.4, Jz=0.3, h=0.2),
                 dict(kind="fh2d", Lx=3, Ly=1, u=0.3, t=0.9, mu=0.2), dict(kind="ising1d", L=7, J=0.5, g=0.8, periodic=True)]
    for a in plan:
        try:
            with common.time_limit(300):
                why = trotter_oracle(a)
        except common.HardTimeout:
            ctx.notes.append(f"trotter oracle timed out {a}")
            continue
        except Exception as e:  # noqa: BLE001
            why = f"{a['kind']} raised {type(e).__name__}: {e}"
        ctx.case(nontrivial_key=("trotter", str(a)), sample={"trotter": a} if len(ctx.samples) < 5 else None)
        ctx.count("trotter_" + a["kind"])
        if why:
            ctx.violation("trotter:" + a["kind"], why, {"oracle": "trotter", "args": a})


def replay(ctx, data):
    rp = data.get("replay", data)
    if rp.get("oracle") == "builder":
        return builder_oracle(rp["args"])
    if rp.get("oracle") == "trotter":
        return trotter_oracle(rp["args"])
    return "re-run the check: " + "; ".join(b["what"] for b in data.get("broken", []))
