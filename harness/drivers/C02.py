"""C02 — noise-free circuit simulation equals the exact unitary semantics of the circuit.

Tie: (i) exact — the gate sequence executed by the real digital_tjm loop (recording stubs) vs Model/DigitalLoop.run on
random nearest-neighbour circuits over the property's gate set, both orientations; (ii) numeric — simulator.run with
get_state=True against Qiskit's Operator applied to the independently contracted initial state: amplitudes up to a global
phase (normalize drops it), every one-site Pauli and adjacent two-site Pauli expectation value, for every built-in product
state and several requested trajectory counts.
"""
from __future__ import annotations

import numpy as np

import common
from common import g_bool
from drivers import dense
from drivers.C16 import HEADER, build_qiskit, g_instrs, model_events, run_impl_trace

RULE = ("random circuits over {x,y,z,h,sx,id,rx,ry,rz,p,u,u2} and {cx,cz,cp,rxx,ryy,rzz} on (q,q+1) or (q+1,q), widths 2..5, "
        "depth <= 14, random angles, initial states zeros/ones/x+/x-/y+/y-/Neel/wall/basis; non-trivial = contains a two-qubit gate "
        "in reversed orientation or a cz/cp; distinct by circuit")
TRUSTED = ["Qiskit's Operator/Statevector as the exact reference of the search", "recording stubs as in C16",
           "modelled, not verified: exactness of the windowed two-site TDVP sweep for a rank-one generator inside the window "
           "(Lubich-Oseledets) and the accuracy of the local Krylov exponential (C19)"]
ASSUMES = ["MPS site i = circuit qubit i; no effective truncation (threshold 1e-13, max_bond_dim 64)"]

G1 = ["x", "y", "z", "h", "sx", "id", "rx", "ry", "rz", "p", "u", "u2"]
G2 = ["cx", "cz", "cp", "rxx", "ryy", "rzz"]
NPAR = {"rx": 1, "ry": 1, "rz": 1, "p": 1, "u": 3, "u2": 2, "cp": 1, "rxx": 1, "ryy": 1, "rzz": 1}


def angles(rng, k):
    """generic angles, and (one time in four) degenerate ones: exactly 0, multiples of pi/2, 2 pi — all legal"""
    u = rng.random()
    if k and u < 0.12:
        return [0.0] * k
    if k and u < 0.25:
        return [float(rng.choice([0.0, 0.0, np.pi / 2, -np.pi / 2, np.pi, 2 * np.pi])) for _ in range(k)]
    return [float(x) for x in rng.uniform(-3.1, 3.1, size=k)]


def gen(rng, n=None, m=None):
    n = n or int(rng.integers(2, 6))
    m = m or int(rng.integers(1, 15))
    gates = []
    for _ in range(m):
        if rng.random() < 0.45:
            name = str(rng.choice(G1))
            gates.append((name, [int(rng.integers(0, n))], angles(rng, NPAR.get(name, 0))))
        else:
            prev = [g for g in gates if len(g[1]) == 2]
            if prev and rng.random() < 0.35:
                # repetition family: the same gate type on the same pair again, orientation and/or angles possibly changed
                pn, pq, pp = prev[int(rng.integers(0, len(prev)))]
                qs = list(pq) if rng.random() < 0.4 else [pq[1], pq[0]]
                par = list(pp) if rng.random() < 0.5 else angles(rng, NPAR.get(pn, 0))
                gates.append((pn, qs, par))
                continue
            name = str(rng.choice(G2))
            q = int(rng.integers(0, n - 1))
            qs = [q, q + 1] if rng.random() < 0.5 else [q + 1, q]
            gates.append((name, qs, angles(rng, NPAR.get(name, 0))))
    return n, gates


def to_qiskit(n, gates):
    from qiskit import QuantumCircuit

    qc = QuantumCircuit(n)
    for name, qs, par in gates:
        if name == "u2":
            from qiskit.circuit.library import U2Gate

            qc.append(U2Gate(*par), qs)
        else:
            getattr(qc, name)(*par, *qs)
    return qc


def init_vec(n, state, basis=None):
    from mqt.yaqs.core.data_structures.networks import MPS

    mps = MPS(n, state=state, basis_string=basis) if state == "basis" else MPS(n, state=state)
    return mps, dense.mps_dense(mps)


def msb_to_qiskit(v, n):
    """site-0-leftmost vector -> Qiskit little-endian vector"""
    return v.reshape((2,) * n).transpose(tuple(reversed(range(n)))).reshape(-1)


def numeric_oracle(args):
    from qiskit.quantum_info import Operator

    from mqt.yaqs import simulator
    from mqt.yaqs.core.data_structures.simulation_parameters import Observable, StrongSimParams

    n, gates, state = args["n"], [tuple(g) for g in args["gates"]], args["state"]
    mps, v0 = init_vec(n, state, args.get("basis"))
    v0 = v0 / np.linalg.norm(v0)
    qc = to_qiskit(n, gates)
    u = Operator(qc).data
    ref = msb_to_qiskit(u @ msb_to_qiskit(v0, n), n)  # msb_to_qiskit is an involution (axis reversal)
    obs, ops = [], []
    for q in range(n):
        for p in "xyz":
            obs.append(Observable(p, q))
            ops.append(dense.op_on(n, {q: dense.PAULI[p]}))
    for q in range(n - 1):
        for p in ("xx", "yy", "zz"):
            try:
                obs.append(Observable(p, [q, q + 1]))
                ops.append(dense.op_on(n, {q: dense.PAULI[p[0]], q + 1: dense.PAULI[p[1]]}))
            except Exception:  # noqa: BLE001
                pass
    # products of two different Paulis (built from their 4x4 matrix): not symmetric under exchanging the two sites
    from mqt.yaqs.core.libraries.gate_library import BaseGate

    mixed = [("x", "z"), ("y", "x"), ("z", "y"), ("x", "y"), ("z", "x"), ("y", "z")]
    for q in range(n - 1):
        a, b = mixed[(q + len(gates)) % 6]
        obs.append(Observable(BaseGate(np.kron(dense.PAULI[a], dense.PAULI[b])), [q, q + 1]))
        ops.append(dense.op_on(n, {q: dense.PAULI[a], q + 1: dense.PAULI[b]}))
    # the listing order of the observables is the user's: shuffle it (one- and two-site observables on the same site in either order)
    perm = np.random.default_rng(len(gates) * 7919 + n).permutation(len(obs))
    obs, ops = [obs[i] for i in perm], [ops[i] for i in perm]
    par = StrongSimParams(obs, num_traj=args.get("num_traj", 1), get_state=True, threshold=1e-13, max_bond_dim=64, show_progress=False)
    if args.get("used_before"):
        # history: the same parameter object (and its observables) served a NOISY run of another circuit with several trajectories
        from qiskit import QuantumCircuit

        from mqt.yaqs.core.data_structures.networks import MPS as _MPS
        from mqt.yaqs.core.data_structures.noise_model import NoiseModel

        prev = QuantumCircuit(n)
        for q in range(n):
            prev.ry(0.9 + 0.2 * q, q)
        for q in range(n - 1):
            prev.cx(q, q + 1)
        nm = NoiseModel([{"name": "pauli_x", "sites": [q], "strength": 0.4} for q in range(n)])
        par.get_state = False  # a noisy run cannot return a state
        with common.time_limit(240):
            simulator.run(_MPS(n, state="x+"), prev, par, nm, parallel=False)
        par.get_state = True
    if args.get("state_used_before"):
        # history: the same initial-state OBJECT served an earlier noise-free run of this circuit (fresh parameter object each time)
        par0 = StrongSimParams([Observable("z", 0)], num_traj=1, threshold=1e-13, max_bond_dim=64, show_progress=False)
        with common.time_limit(240):
            simulator.run(mps, qc, par0, None, parallel=False)
    with common.time_limit(240):
        simulator.run(mps, qc, par, None, parallel=False)
    out = dense.mps_dense(par.output_state)
    d = dense.up_to_phase(out, ref)
    if d > 1e-6:
        return f"final state differs from the exact state vector by {d:.3e} (up to a global phase); circuit {gates}"
    for o, op in zip(obs, ops):
        got = float(np.real(np.ravel(o.results)[-1]))
        want = dense.expect(ref, op)
        if abs(got - want) > 1e-6:
            return (f"<{o.gate.name}> on site(s) {o.sites} is {got:.8f}, exact value {want:.8f}"
                    + (" (parameter object used before for a noisy run)" if args.get("used_before") else "")
                    + (" (the initial-state object had served an earlier run)" if args.get("state_used_before") else ""))
    if par.num_traj != args.get("num_traj", 1):
        return f"num_traj changed from {args.get('num_traj', 1)} to {par.num_traj}"
    return None


def correspond(ctx):
    ctx.rules.append(RULE)
    cases, exprs, impl = [], [], []
    for k in range(ctx.scale(60, 1500)):
        n, gates = gen(ctx.rng)
        instrs = [(i, "G1" if len(qs) == 1 else "G2", qs, name, par) for i, (name, qs, par) in enumerate(gates)]
        # the trace harness builds the circuit itself; give it parameter-free stand-ins with the same qubits
        tinstrs = [(i, kind, qs, "rx" if kind == "G1" else "rzz", 0.1 + 0.01 * i) for (i, kind, qs, _, _) in instrs]
        ev, cols, err = run_impl_trace(n, tinstrs, "plain")
        impl.append((ev, err))
        exprs.append(f"trajectory false {g_instrs(tinstrs)}")
        cases.append((n, tinstrs))
    vals = common.coq_eval_sharded(HEADER, exprs, tag="c02")
    # gauge discipline on real gates: the model says every two-qubit gate finds the centre at site 0
    gcases, gexprs, gimpl, allwins = [], [], [], []
    for k in range(ctx.scale(14, 200)):
        if k % 3 == 0:
            n, gates = structured(ctx.rng, n=int(ctx.rng.choice([6, 8])))
        else:
            n, gates = gen(ctx.rng, n=int(ctx.rng.integers(3, 8)), m=int(ctx.rng.integers(4, 16)))
        okops, wins = [], []
        gimpl.append(gauge_trace(n, gates, okops, wins))
        allwins.extend(wins)
        ctx.count("two_qubit_operators_checked", len(okops))
        if not all(okops):
            bad = [j for j, ok in enumerate(okops) if not ok]
            ctx.mismatch("operator handed to the windowed TDVP vs the unitary of the executed gate (name, angles, qubit order)",
                         {"qubits": n, "gates": gates}, f"two-qubit gates number {bad} (execution order) get another operator", "every gate gets its own",
                         key="operator")
        instrs = [(i, "G1" if len(qs) == 1 else "G2", qs, name, par) for i, (name, qs, par) in enumerate(gates)]
        gexprs.append(f"match run false (length {g_instrs(instrs)}) {g_instrs(instrs)} with Some (ex, _) => "
                      f"map snd (filter (fun p => match fst p with GTwo => true | _ => false end) (combine (gauge_word ex) (gauge_run true (gauge_word ex)))) | None => [] end")
        gcases.append((n, gates))
    wv = common.coq_eval_sharded("From Yaqs Require Import Model.Window.", [f"(window {a[0]} {a[1]} {a[2]} {a[3]}, window_len (window {a[0]} {a[1]} {a[2]} {a[3]}))" for a, _, _, _ in allwins], tag="c02w") if allwins else []
    for (a, w, ln, cen), (m0, m1, mlen) in zip(allwins, wv):
        mw = (m0, m1)
        ctx.count("windows")
        if tuple(mw) != w or mlen != ln or w[0] not in cen:
            ctx.mismatch("apply_window (window, length of the cut-out chain, centre at the first site of the window) vs Window.window",
                         {"first": a[0], "last": a[1], "size": a[2], "L": a[3]}, {"window": w, "length": ln, "centre_candidates": cen}, {"window": list(mw), "length": mlen}, key="window")
    gv = common.coq_eval_sharded(HEADER, gexprs, tag="c02g")
    for (n, gates), gi, gm in zip(gcases, gimpl, gv):
        ctx.case(nontrivial_key=("gauge", str(gates)) if n >= 6 else None, validated=True)
        ctx.count("gauge_traces")
        if gi != gm:
            ctx.mismatch("centre before each two-qubit gate vs DigitalLoop.gauge_run", {"qubits": n, "gates": gates}, gi, gm)
    for (n, instrs), (ev, err), v in zip(cases, impl, vals):
        mev = model_events(v)
        rev = any(k == "G2" and q[0] > q[1] for (_, k, q, _, _) in instrs)
        ctx.case(nontrivial_key=tuple((k, tuple(q)) for (_, k, q, _, _) in instrs) if rev else None, validated=True)
        ctx.count("schedule_traces")
        got = [e if e[0] == "G" else ("S",) for e in ev]
        if err or got != mev:
            ctx.mismatch("digital_tjm schedule vs DigitalLoop.trajectory", {"qubits": n, "instrs": [list(x) for x in instrs]}, err or ev, mev)


def gauge_trace(n, gates, ops=None, wins=None):
    """Real gates, real loop: before every two-qubit gate, is the state right-canonical (centre at site 0), as
    apply_window presupposes?  Returns the list of booleans in execution order."""
    import mqt.yaqs.digital.digital_tjm as D
    from mqt.yaqs.core.data_structures.networks import MPS
    from mqt.yaqs.core.data_structures.simulation_parameters import Observable, StrongSimParams

    from drivers.C11 import centre_of

    log, cur = [], {}
    real2, realw = D.apply_two_qubit_gate, D.apply_window

    def g2(state, node, sp, *extra, **kw):
        log.append(0 in centre_of(state))
        cur["node"] = node
        return real2(state, node, sp, *extra, **kw)

    def win(state, mpo, first, last, size, *extra, **kw):
        out = realw(state, mpo, first, last, size, *extra, **kw)
        if wins is not None:
            # (first, last, size, L) -> window, length of the cut-out chain, where the centre sits after the call
            wins.append(((int(first), int(last), int(size), int(state.length)), (int(out[2][0]), int(out[2][1])), int(out[0].length), centre_of(state)))
        if ops is not None and "node" in cur:
            ops.append(operator_matches(cur.pop("node"), out[1], out[2]))
        return out

    D.apply_two_qubit_gate, D.apply_window = g2, win
    try:
        p = StrongSimParams([Observable("z", 0)], show_progress=False, threshold=1e-13, max_bond_dim=64)
        with common.time_limit(120):
            D.digital_tjm((0, MPS(n, state="x+"), None, p, to_qiskit(n, gates)))
    finally:
        D.apply_two_qubit_gate, D.apply_window = real2, realw
    return log


def operator_matches(node, short_mpo, window):
    """Is exp(-i * generator handed to the windowed TDVP) the unitary of THIS gate (its own name, angles and qubit order),
    embedded in the window?  The expected matrix comes from Qiskit for a one-gate circuit."""
    import scipy.linalg
    from qiskit import QuantumCircuit
    from qiskit.quantum_info import Operator

    w0, w1 = window
    k = w1 - w0 + 1
    qs = [node.qargs[0]._index - w0, node.qargs[1]._index - w0] if hasattr(node.qargs[0], "_index") else None  # noqa: SLF001
    if qs is None:
        return None
    qc = QuantumCircuit(k)
    qc.append(node.op, qs)
    want = Operator(qc).reverse_qargs().data
    got = scipy.linalg.expm(-1j * short_mpo.to_matrix())
    ph = np.vdot(want.ravel(), got.ravel())
    return bool(abs(abs(ph) - want.shape[0]) < 1e-8 * want.shape[0])


def structured(rng, n=8):
    """brickwork rounds, a rotation layer, then a layer mixing an odd-bond gate with an even-bond gate further right"""
    gates = []
    for _ in range(2):
        for q in range(n):
            gates.append(("ry", [q], [float(rng.uniform(0.3, 2.8))]))
        for q in range(0, n - 1, 2):
            gates.append(("rxx", [q, q + 1], [float(rng.uniform(0.4, 2.0))]))
        for q in range(1, n - 1, 2):
            gates.append(("rzz", [q, q + 1], [float(rng.uniform(0.4, 2.0))]))
    for q in range(n):
        gates.append(("rx", [q], [float(rng.uniform(0.3, 2.8))]))
    a = int(rng.choice([q for q in range(1, n - 3, 2)]))
    gates.append(("ryy", [a, a + 1], [float(rng.uniform(0.4, 2.0))]))
    b = int(rng.choice([q for q in range(a + 3 - (a + 3) % 2, n - 1, 2)]))
    gates.append((str(rng.choice(["rzz", "cx"])), [b, b + 1] if rng.random() < 0.5 else [b + 1, b], [float(rng.uniform(0.4, 2.0))]))
    gates = [(nm, qs, par if nm not in ("cx",) else []) for nm, qs, par in gates]
    return n, gates


def deep_brickwork(rng, n=8, layers=16):
    """wide AND deep: the middle bonds reach dimension >= 8, so the local Krylov steps leave the small dense path
    (tdvp.DENSE_THRESHOLD = 128 entries) and the window margins see complex, non-symmetric environments"""
    gates = []
    for layer in range(layers):
        for q in range(n):
            nm = str(rng.choice(["ry", "rz", "rx", "h", "u"]))
            gates.append((nm, [q], [float(x) for x in rng.uniform(0.3, 2.8, size=NPAR.get(nm, 0))]))
        for q in range(layer % 2, n - 1, 2):
            nm = str(rng.choice(G2))
            qs = [q, q + 1] if rng.random() < 0.5 else [q + 1, q]
            gates.append((nm, qs, [float(x) for x in rng.uniform(0.4, 2.0, size=NPAR.get(nm, 0))]))
    return n, gates


STATES = ["zeros", "ones", "x+", "x-", "y+", "y-", "Neel", "wall", "basis"]


def search(ctx):
    fixed = [
        dict(n=2, gates=[("h", [0], []), ("cz", [0, 1], []), ("rx", [1], [0.7])], state="x+"),
        dict(n=2, gates=[("ry", [0], [0.9]), ("cp", [1, 0], [1.1]), ("h", [1], [])], state="x+"),
        dict(n=3, gates=[("h", [0], []), ("cx", [1, 0], []), ("cp", [1, 2], [0.3]), ("rxx", [2, 1], [0.4]), ("u", [2], [0.3, 0.2, 0.1])], state="y+"),
        # the same gate type on the same pair in both orientations / with two angles (SWAP by three CX)
        dict(n=2, gates=[("ry", [0], [0.8]), ("rx", [1], [0.3]), ("cx", [0, 1], []), ("cx", [1, 0], []), ("cx", [0, 1], [])], state="zeros"),
        dict(n=4, gates=[("h", [1], []), ("ry", [2], [1.1]), ("cx", [2, 1], []), ("cx", [1, 2], []), ("rzz", [1, 2], [0.4]), ("rzz", [2, 1], [0.9])], state="x+"),
    ]
    plan = list(fixed)
    plan += [dict(fixed[2], num_traj=6, used_before=True), dict(fixed[4], num_traj=3, used_before=True)]
    plan += [dict(fixed[2], num_traj=25, state_used_before=True), dict(fixed[0], num_traj=1, state_used_before=True)]
    # every parametrised gate of the library at angle(s) exactly zero (u2(0,0) is NOT the identity: its rotation angle is an implicit pi/2),
    # between entanglers, from two initial states; and at pi/2
    for ang in (0.0, float(np.pi / 2)):
        zero = [(nm, [k % 3], [ang] * NPAR[nm]) for k, nm in enumerate(g for g in G1 if g in NPAR)]
        zero2 = [(nm, [k % 2, k % 2 + 1] if k % 2 else [k % 2 + 1, k % 2], [ang] * NPAR[nm]) for k, nm in enumerate(g for g in G2 if g in NPAR)]
        circ = zero[:3] + [("cx", [0, 1], [])] + zero[3:] + zero2 + [("h", [2], []), ("cx", [2, 1], [])] + zero[:2]
        for st in ("zeros", "x+"):
            plan.append(dict(n=3, gates=circ, state=st))
    # start from the circuits on which model and implementation diverged
    for mm in ctx.mismatches[:12]:
        c = mm.get("case")
        if isinstance(c, dict) and "gates" in c:
            for st in ("zeros", "x+"):
                plan.append(dict(n=c["qubits"], gates=[tuple(g) for g in c["gates"]], state=st))
    for k in range(ctx.scale(2, 20)):
        n, gates = structured(ctx.rng, n=8)
        plan.append(dict(n=n, gates=gates, state="zeros", num_traj=int(ctx.rng.choice([1, 7]))))
    for k in range(ctx.scale(1, 6)):
        n, gates = deep_brickwork(ctx.rng, n=8 if k % 2 == 0 else 9, layers=int(ctx.rng.integers(14, 19)))
        plan.append(dict(n=n, gates=gates, state=str(ctx.rng.choice(["zeros", "y+", "x-"])), num_traj=1, deep=True))
        ctx.count("deep_wide_circuits")
    for k in range(ctx.scale(22, 400)):
        n, gates = gen(ctx.rng, n=int(ctx.rng.integers(2, 5 if ctx.quick else 6)), m=int(ctx.rng.integers(2, 11)))
        st = STATES[k % len(STATES)]
        a = dict(n=n, gates=gates, state=st, num_traj=int(ctx.rng.choice([1, 1, 7, 100])))
        if st == "basis":
            a["basis"] = "".join(str(int(b)) for b in ctx.rng.integers(0, 2, size=n))
        if k % 5 == 2 and a["num_traj"] in (7,):
            a["used_before"] = True
        if k % 5 == 4:
            a["state_used_before"] = True
        plan.append(a)
    for a in plan:
        try:
            why = numeric_oracle(a)
        except common.HardTimeout:
            ctx.notes.append("numeric oracle timed out")
            continue
        except Exception as e:  # noqa: BLE001
            why = f"simulator.run raised {type(e).__name__}: {e}"
        names = [g[0] for g in a["gates"]]
        nontriv = any(len(g[1]) == 2 and g[1][0] > g[1][1] for g in a["gates"]) or "cz" in names or "cp" in names
        ctx.case(nontrivial_key=("num", str(a["gates"]), a["state"]) if nontriv else None, sample=a if len(ctx.samples) < 2 else None)
        ctx.count("state_" + a["state"])
        for g in set(names):
            ctx.count("gate_" + g)
        if why:
            ctx.violation("numeric:" + ("gates" if "state" in why or "<" in why else "other"), why, {"oracle": "numeric", "args": a})


def replay(ctx, data):
    rp = data.get("replay", data)
    if rp.get("oracle") == "numeric":
        return numeric_oracle(rp["args"])
    return "re-run the check: " + "; ".join(b["what"] for b in data.get("broken", []))
