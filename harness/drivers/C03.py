"""C03 — noisy circuit trajectories average to ideal gates plus local Lindblad noise.

Tie: (1) exact — the processes handed to apply_dissipation / stochastic_process after every gate of the real digital_tjm
loop (recording wrappers) vs Model/NoiseAttrib.local_procs on the model's executed gate sequence: one-qubit gates are
silent, every two-qubit gate is followed by dissipation + lottery (dt = 1) over exactly the processes on its qubits, in
list order; (2) the lottery correspondence of C01 on local lists.
Search: the whole outcome tree of digital_tjm (forced generator) for circuits with <= 2 two-qubit gates against the dense
'gate, then unit-time Lindblad channel of the local processes' density matrix at strengths g and g/2 (error must fall ~4x).
"""
from __future__ import annotations

import numpy as np

import common
from common import g_list
from drivers import dense, lottery
from drivers.C16 import build_qiskit

RULE = ("random nearest-neighbour circuits (<= 8 gates) x random process lists (any order, duplicates, one-site and two-site in both "
        "site orders); trees: circuits with <= 2 two-qubit gates; non-trivial = a process list that is not site-sorted or has a "
        "two-site process; distinct by (circuit, list)")
TRUSTED = ["recording wrappers around digital_tjm.apply_dissipation/stochastic_process; forced Generator; dense reference",
           "modelled, not verified: O(strength^2) remainder; exactness of the gate application (C02)"]
ASSUMES = ["noise acts after two-qubit gates only, with unit duration, through the processes located on the gate's qubits"]

HEADER = "From Coq Require Import List. Import ListNotations.\nFrom Yaqs Require Import Model.NoiseAttrib."


def regenerate(ctx):
    """coq/Gen/LocalGen.v from the current source of create_local_noise_model (fail closed)"""
    from gen import translate_small

    translate_small.regenerate(("local",))


def gen_gates(rng, n, m):
    instrs = []
    for i in range(m):
        # degenerate angles are legal: a rotation by exactly 0 (a switched-off coupling of a Trotter layer) is still a gate of the circuit
        ang = 0.0 if rng.random() < 0.2 else 0.3 + 0.1 * i
        if rng.random() < 0.4:
            instrs.append((i, "G1", [int(rng.integers(0, n))], str(rng.choice(["rx", "ry", "h"])), ang))
        else:
            q = int(rng.integers(0, n - 1))
            instrs.append((i, "G2", [q, q + 1] if rng.random() < 0.5 else [q + 1, q], str(rng.choice(["cx", "rzz", "rxx"])), ang))
    return instrs


def trace_noise(n, instrs, procs, via_run=False):
    """Real digital_tjm with the gate kernels stubbed; logs, per event, the gate or the local process list.  via_run: through the
    public entry point simulator.run (one trajectory), which hands digital_tjm a bit-reversed copy of the circuit."""
    import mqt.yaqs.digital.digital_tjm as D
    from mqt.yaqs.core.data_structures.networks import MPS
    from mqt.yaqs.core.data_structures.noise_model import NoiseModel
    from mqt.yaqs.core.data_structures.simulation_parameters import Observable, StrongSimParams

    nm = NoiseModel(lottery.nm_procs(procs))
    ident = {id(p["matrix"]) if "matrix" in p else None: k for k, p in enumerate(nm.processes)}
    events = []
    saved = (D.apply_single_qubit_gate, D.apply_two_qubit_gate, D.apply_dissipation, D.stochastic_process)

    def g1(state, node, *extra, **kw):
        events.append(("G1", [q._index for q in node.qargs]))  # noqa: SLF001

    def g2(state, node, sp, *extra, **kw):
        a, b = (q._index for q in node.qargs)  # noqa: SLF001
        events.append(("G2", [a, b]))
        return min(a, b), max(a, b)

    def names(local):
        return [(p["name"], list(p["sites"]), float(p["strength"])) for p in local.processes]

    def dis(state, local, dt, sim_params, *xa, **xk):
        events.append(("D", float(dt), names(local)))

    def sto(state, local, dt, sim_params, rng=None, *xa, **xk):
        events.append(("J", float(dt), names(local)))
        return state

    D.apply_single_qubit_gate, D.apply_two_qubit_gate, D.apply_dissipation, D.stochastic_process = g1, g2, dis, sto
    try:
        p = StrongSimParams([Observable("z", 0)], num_traj=1, show_progress=False)
        with common.time_limit(20):
            if via_run:
                from mqt.yaqs import simulator

                simulator.run(MPS(n), build_qiskit(n, instrs), p, nm, parallel=False)
            else:
                D.digital_tjm((0, MPS(n), nm, p, build_qiskit(n, instrs)))
    finally:
        D.apply_single_qubit_gate, D.apply_two_qubit_gate, D.apply_dissipation, D.stochastic_process = saved
    return events, [(q["name"], list(q["sites"]), float(q["strength"])) for q in nm.processes]


def dissipation_correspondence(ctx):
    """apply_dissipation as digital_tjm calls it (unit time step): own strength per process, modelled order"""
    dc, de, di = [], [], []
    for k in range(ctx.scale(30, 600)):
        dseed, dL = int(ctx.rng.integers(0, 2**31)), int(ctx.rng.integers(2, 6))
        desc, order, err, dev, expr = lottery.dissipation_case(np.random.default_rng(dseed), dL, local_dt=1.0)
        dc.append({**desc, "seed": dseed})
        di.append((order, err, dev))
        de.append(expr)
    dvals = common.coq_eval_sharded(lottery.HEADER, de, tag="c03d")
    for desc, (order, err, dev), m in zip(dc, di, dvals):
        ctx.case(nontrivial_key=("diss", str(desc)), validated=True)
        ctx.count("dissipation_sweeps")
        if err or order != list(m):
            ctx.mismatch("damping operators contracted by apply_dissipation (unit step) vs NoiseAttrib.damp_schedule", desc, err or order, list(m), key="dissipation")
        if dev is not None and dev > 1e-9:
            ctx.violation("dissipation", f"apply_dissipation(dt=1) differs from prod_k exp(-gamma_k/2 L_k^+L_k) applied to the dense state by {dev:.3e} "
                          f"(processes {desc['processes']})", {"oracle": "dissipation", **desc})


def correspond(ctx):
    ctx.rules.append(RULE)
    dissipation_correspondence(ctx)
    cases, exprs, impl = [], [], []
    for k in range(ctx.scale(60, 1200)):
        n = int(ctx.rng.integers(2, 6))
        instrs = gen_gates(ctx.rng, n, int(ctx.rng.integers(1, 9)))
        procs = lottery.random_processes(ctx.rng, n, nmax=5)
        if ctx.rng.random() < 0.3 and procs:
            procs.append(dict(procs[0]))  # duplicates
        events, plist = trace_noise(n, instrs, procs, via_run=bool(k % 2))
        ctx.count("noise_trace_via_simulator_run" if k % 2 else "noise_trace_direct")
        # for every two-qubit gate event: which list positions does the model select?
        gates2 = [e[1] for e in events if e[0] == "G2"]
        kinds = g_list([("One %d%%nat" % s[0]) if len(s) == 1 else ("Two %d%%nat %d%%nat" % (s[0], s[1])) for (_, s, _) in plist])
        ex = g_list([f"local_procs (fun p => snd p) {min(a, b)}%nat {max(a, b)}%nat (combine (seq 0 (length {kinds})) {kinds})" for a, b in gates2])
        exprs.append(f"map (map fst) {ex}")
        impl.append((events, plist))
        cases.append((n, instrs, procs))
    vals = common.coq_eval_sharded(HEADER, exprs, tag="c03")
    for (n, instrs, procs), (events, plist), m in zip(cases, impl, vals):
        desc = {"qubits": n, "gates": [(k, q) for (_, k, q, _, _) in instrs], "processes": plist}
        sites = [p[1][0] for p in plist]
        nontriv = sites != sorted(sites) or any(len(p[1]) == 2 for p in plist)
        ctx.case(nontrivial_key=str(desc) if nontriv else None, validated=True, sample=desc if nontriv and len(instrs) > 3 else None)
        ctx.count("noise_traces")
        # expected event stream from the model: after each G2, D(1) and J(1) over the selected positions; nothing after G1
        want, gi = [], 0
        ok = True
        i = 0
        while i < len(events):
            e = events[i]
            if e[0] == "G1":
                if i + 1 < len(events) and events[i + 1][0] in ("D", "J"):
                    ok = False
                i += 1
            elif e[0] == "G2":
                sel = [plist[k] for k in m[gi]]
                gi += 1
                if not (i + 2 < len(events) + 0 and events[i + 1][0] == "D" and events[i + 2][0] == "J"):
                    ok = False
                    break
                if events[i + 1][1] != 1.0 or events[i + 2][1] != 1.0 or events[i + 1][2] != sel or events[i + 2][2] != sel:
                    ok = False
                    break
                i += 3
            else:
                ok = False
                break
        if not ok:
            ctx.mismatch("noise after gates vs NoiseAttrib.local_procs", desc, events, m)
    # which process a drawn outcome applies (shared with C01: stochastic_process is the same routine)
    from drivers import C01

    C01.chosen_process_correspondence(ctx)
    # lottery on local lists (dt = 1)
    lc, le, li = [], [], []
    for k in range(ctx.scale(40, 600)):
        desc, got, expr = lottery.lottery_case(ctx.rng, int(ctx.rng.integers(2, 5)))
        lc.append(desc), li.append(got), le.append(expr)
    vals = common.coq_eval_sharded(lottery.HEADER, le, tag="c03l")
    for desc, got, m in zip(lc, li, vals):
        ctx.case(nontrivial_key=("lot", str(desc)), validated=True)
        if isinstance(got, str) or len(got) != len(m) or any(not (abs(a - b) <= 1e-9) for a, b in zip(got, m)):
            ctx.mismatch("create_probability_distribution vs NoiseAttrib.probabilities", desc, got, m)


# ---- outcome tree of digital_tjm vs dense reference ------------------------------------------------------------------
def gate_unitary(n, instr):
    from qiskit.quantum_info import Operator

    u = Operator(build_qiskit(n, [instr]).remove_final_measurements(inplace=False)).data
    # Qiskit is little-endian: convert to site-0-leftmost
    t = u.reshape((2,) * (2 * n))
    perm = list(reversed(range(n))) + [n + i for i in reversed(range(n))]
    return t.transpose(perm).reshape(2**n, 2**n)


def digital_tree_average(n, instrs, procs, scale):
    import mqt.yaqs.digital.digital_tjm as D
    from mqt.yaqs.core.data_structures.networks import MPS
    from mqt.yaqs.core.data_structures.noise_model import NoiseModel
    from mqt.yaqs.core.data_structures.simulation_parameters import Observable, StrongSimParams

    obs = [Observable(p, q) for q in range(n) for p in "xz"]
    par = StrongSimParams(obs, show_progress=False, threshold=1e-14, max_bond_dim=16)
    nm = NoiseModel(lottery.nm_procs(procs, scale))
    # what the public entry point hands to a trajectory: simulator._run_circuit passes a deep copy of the bit-reversed circuit
    import copy as _copy

    qc = _copy.deepcopy(build_qiskit(n, instrs).reverse_bits())
    real_rng = np.random.default_rng

    def run(rng):
        np.random.default_rng = lambda *a, **k: rng
        try:
            return np.array(D.digital_tjm((0, MPS(n, state="x+"), nm, par, qc)), dtype=float)[:, -1]
        finally:
            np.random.default_rng = real_rng

    leaves = lottery.enumerate_tree(run)
    return sum(p * r for p, r, _ in leaves), sum(p for p, _, _ in leaves), len(leaves)


def digital_reference(n, instrs, procs, scale):
    v = dense.named_state(n, "x+")
    rho = np.outer(v, v.conj())
    for ins in instrs:
        u = gate_unitary(n, ins)
        rho = u @ rho @ u.conj().T
        if ins[1] == "G2":
            a, b = sorted(ins[2])
            loc = [p for p in procs if p["sites"] in ([a, b], [a], [b])]
            ls = [np.sqrt(p["strength"] * scale) * lottery.dense_op(p, n) for p in loc]
            rho = dense.lindblad_evolve(np.zeros_like(rho), ls, rho, 1.0)
    out = []
    for q in range(n):
        for p in "xz":
            out.append(float(np.real(np.trace(rho @ dense.op_on(n, {q: dense.PAULI[p]})))))
    return np.array(out)


def tree_oracle(args):
    n, instrs, procs = args["n"], [tuple(x) for x in args["instrs"]], args["procs"]
    errs = []
    for scale in (1.0, 0.5, 0.25):
        avg, tot, leaves = digital_tree_average(n, instrs, procs, scale)
        if abs(tot - 1) > 1e-8:
            return f"probabilities of the {leaves} outcome paths sum to {tot:.10f}"
        errs.append(float(np.max(np.abs(avg - digital_reference(n, instrs, procs, scale)))))
    g = sum(p["strength"] for p in procs)
    if errs[0] > 6.0 * g * g + 1e-9:
        return (f"tree-averaged observables differ from 'gate then local Lindblad channel' by {errs[0]:.3e} (> 6 g^2 = {6 * g * g:.3e}); "
                f"gates {[(k, q) for (_, k, q, _, _) in instrs]}, processes {[(p['name'], p['sites'], p['strength']) for p in procs]}")
    if errs[0] > 1e-7 and errs[1] > 0.36 * errs[0] and errs[2] > 0.36 * errs[1]:
        return (f"halving all strengths twice reduces the error only from {errs[0]:.3e} to {errs[1]:.3e} to {errs[2]:.3e} (not quadratic); gates "
                f"{[(k, q) for (_, k, q, _, _) in instrs]}, processes {[(p['name'], p['sites'], p['strength']) for p in procs]}")
    return None


FIXED = [
    dict(n=4, instrs=[(0, "G1", [0], "ry", 0.8), (1, "G2", [0, 1], "cx", 0.1), (2, "G1", [1], "ry", 0.9), (3, "G2", [1, 2], "cx", 0.1),
                      (4, "G1", [2], "ry", 0.6), (5, "G2", [2, 3], "rxx", 0.9)],
         procs=[{"name": "lowering", "sites": [3], "strength": 0.08}, {"name": "pauli_x", "sites": [1], "strength": 0.03},
                {"name": "lowering", "sites": [2], "strength": 0.05}, {"name": "pauli_z", "sites": [3], "strength": 0.02}]),
    dict(n=2, instrs=[(0, "G1", [0], "ry", 0.7), (1, "G2", [0, 1], "cx", 0.1)],
         procs=[{"name": "lowering", "sites": [1], "strength": 0.10}, {"name": "pauli_z", "sites": [0], "strength": 0.02}]),
    dict(n=3, instrs=[(0, "G2", [1, 2], "rxx", 0.8), (1, "G1", [0], "rx", 0.5), (2, "G2", [1, 0], "cx", 0.1)],
         procs=[{"name": "pauli_x", "sites": [2], "strength": 0.06}, {"name": "lowering_two", "sites": [0, 1], "strength": 0.08},
                {"name": "pauli_y", "sites": [0], "strength": 0.03}]),
    # a two-qubit rotation by exactly zero between two others: it is a gate, the noise of its qubits follows it
    dict(n=3, instrs=[(0, "G1", [0], "h", 0.1), (1, "G1", [1], "ry", 0.7), (2, "G2", [0, 1], "cx", 0.1), (3, "G2", [1, 2], "rzz", 0.0), (4, "G2", [1, 2], "rxx", 0.7)],
         procs=[{"name": "pauli_x", "sites": [1], "strength": 0.05}, {"name": "lowering", "sites": [2], "strength": 0.06}, {"name": "pauli_z", "sites": [0], "strength": 0.03}]),
    # a switched-off process listed ahead of live ones, and one in the middle of the list
    dict(n=3, instrs=[(0, "G1", [0], "h", 0.1), (1, "G1", [1], "ry", 0.7), (2, "G2", [0, 1], "cx", 0.1), (3, "G2", [1, 2], "rzz", 0.6)],
         procs=[{"name": "pauli_x", "sites": [0], "strength": 0.0}, {"name": "pauli_z", "sites": [1], "strength": 0.05},
                {"name": "pauli_y", "sites": [2], "strength": 0.0}, {"name": "lowering", "sites": [2], "strength": 0.06}]),
]


def search(ctx):
    plan = [dict(f) for f in FIXED]
    for k in range(ctx.scale(3, 40)):
        n = int(ctx.rng.integers(2, 4))
        instrs = gen_gates(ctx.rng, n, int(ctx.rng.integers(2, 5)))
        while sum(1 for i in instrs if i[1] == "G2") > 2:
            instrs = gen_gates(ctx.rng, n, int(ctx.rng.integers(2, 5)))
        procs = lottery.random_processes(ctx.rng, n, nmax=3, allow_long=False)
        for p in procs:
            p["strength"] = p["strength"] * 0.1
        plan.append(dict(n=n, instrs=instrs, procs=procs))
    for a in plan:
        try:
            with common.time_limit(300):
                why = tree_oracle({**a, "instrs": [list(x) for x in a["instrs"]]})
        except common.HardTimeout:
            ctx.notes.append("digital tree timed out")
            continue
        except RuntimeError as e:
            ctx.notes.append(f"tree skipped: {e}")
            continue
        ctx.case(nontrivial_key=("tree", str(a["instrs"]), str(a["procs"])), sample={"tree": a} if len(ctx.samples) < 5 else None)
        ctx.count("digital_trees")
        if why:
            ctx.violation("tree", why, {"oracle": "tree", "args": {**a, "instrs": [list(x) for x in a["instrs"]]}})


def replay(ctx, data):
    rp = data.get("replay", data)
    if rp.get("oracle") == "dissipation":
        _, _, err, dev, _ = lottery.dissipation_case(np.random.default_rng(rp["seed"]), rp["L"], local_dt=1.0)
        return err or (f"apply_dissipation differs from the dense product of exponentials by {dev:.3e}" if dev > 1e-9 else None)
    if rp.get("oracle") == "tree":
        return tree_oracle(rp["args"])
    if rp.get("oracle") == "chosen":
        from drivers import C01

        return C01.replay(ctx, data)
    return "re-run the check: " + "; ".join(b["what"] for b in data.get("broken", []))
