"""C18 — a gate's matrix, tensor, generator and MPO forms all describe the standard gate.

Tie: coq/Gen/GatesGen.v is REGENERATED from gate_library.py by the fail-closed ast translator on every run and the C18
theorems are re-checked against it; the translator's reading of the source is validated by evaluating the same ast nodes in
Python against the live gate objects.  Search: the live objects against Qiskit's standard-gate matrices: matrix, generator
(scipy expm), tensor in both orientations, MPO tensors for separations 1..4 in both orientations.
"""
from __future__ import annotations

import sys
from pathlib import Path

import numpy as np
import scipy.linalg

sys.path.insert(0, str(Path(__file__).resolve().parent.parent))
from gen import translate_gates  # noqa: E402

RULE = ("gate classes x random angles x orientations (a<b, b<a) x separations 1..4; non-trivial = parametrised or two-qubit; "
        "distinct by (gate, angles, sites)")
TRUSTED = ["translator harness/gen/translate_gates.py (python ast -> Gallina), validated every run against the live objects",
           "modelled, not verified: the closed forms of exp(-iG) coincide with the analytic matrix exponential (group law "
           "proved, uniqueness cited); numpy SVD inside split_tensor; reshape/transposes of set_sites and extend_gate are "
           "checked numerically by the search, not mechanised"]
ASSUMES = ["qubit 0 of a two-qubit gate is the most significant index of its 4x4 matrix (gate_library convention)"]

ONE = ["x", "y", "z", "h", "id", "sx", "rx", "ry", "rz", "p", "u2", "u"]
TWO = ["cx", "cz", "cp", "swap", "rxx", "ryy", "rzz"]
NPAR = {"rx": 1, "ry": 1, "rz": 1, "p": 1, "cp": 1, "rxx": 1, "ryy": 1, "rzz": 1, "u2": 2, "u": 3}
_items = {}


def regenerate(ctx):
    _items["items"] = translate_gates.regenerate()


def live_gate(name, angles):
    from mqt.yaqs.core.libraries.gate_library import GateLibrary

    cls = getattr(GateLibrary, name)
    return cls(list(angles)) if name in NPAR else cls()


def qiskit_matrix(name, angles):
    """Standard matrix with qubit 0 as the MOST significant index (Qiskit itself is little-endian)."""
    from qiskit.circuit import library as L
    from qiskit.quantum_info import Operator

    cls = {"x": L.XGate, "y": L.YGate, "z": L.ZGate, "h": L.HGate, "id": L.IGate, "sx": L.SXGate, "rx": L.RXGate, "ry": L.RYGate,
           "rz": L.RZGate, "p": L.PhaseGate, "u2": L.U2Gate, "u": L.UGate, "cx": L.CXGate, "cz": L.CZGate, "cp": L.CPhaseGate,
           "swap": L.SwapGate, "rxx": L.RXXGate, "ryy": L.RYYGate, "rzz": L.RZZGate}[name]
    g = cls(*angles) if name in NPAR else cls()
    m = Operator(g).data
    if m.shape == (4, 4):
        m = m.reshape(2, 2, 2, 2).transpose(1, 0, 3, 2).reshape(4, 4)  # little-endian -> qubit 0 most significant
    return m


def embed(m4, a, b, n):
    """m4 acts on (first qubit = a, second = b) with qubit 0 of the pair most significant; n sites, site 0 leftmost."""
    t = m4.reshape(2, 2, 2, 2)
    full = np.zeros((2,) * (2 * n), dtype=complex)
    for idx in np.ndindex(*(2,) * (n - 2)):
        pass
    # build by einsum: identity on the other sites
    others = [s for s in range(n) if s not in (a, b)]
    out = np.zeros((2**n, 2**n), dtype=complex)
    for i in range(2**n):
        bi = [(i >> (n - 1 - s)) & 1 for s in range(n)]
        for oa in (0, 1):
            for ob in (0, 1):
                bo = list(bi)
                bo[a], bo[b] = oa, ob
                o = sum(v << (n - 1 - s) for s, v in enumerate(bo))
                out[o, i] += t[oa, ob, bi[a], bi[b]]
    return out


def mpo_to_matrix(tensors):
    """tensors: list of (phys_out, phys_in, left, right); contract to a dense matrix, first tensor = leftmost factor."""
    cur = np.ones((1, 1, 1), dtype=complex)  # (out, in, bond)
    for t in tensors:
        cur = np.einsum("oib,pqbc->opiqc", cur, t)
        s = cur.shape
        cur = cur.reshape(s[0] * s[1], s[2] * s[3], s[4])
    return cur[:, :, 0]


def gate_oracle(args):
    name, angles = args["name"], args["angles"]
    g = live_gate(name, angles)
    ref = qiskit_matrix(name, angles)
    if not np.allclose(np.asarray(g.matrix, dtype=complex), ref, atol=1e-12):
        return f"{name}{angles}: matrix is not the standard gate matrix (max diff {np.max(np.abs(g.matrix - ref)):.3e})"
    if name in ONE:
        g.set_sites(args.get("a", 0))
        if not np.allclose(g.tensor, ref, atol=1e-12):
            return f"{name}: tensor differs from the matrix"
        return None
    a, b = args["a"], args["b"]
    for (a0, b0) in args.get("before", []):  # history: the same gate object was placed elsewhere before — and every form was read there
        g.set_sites(a0, b0)
        _ = (g.matrix, g.tensor, getattr(g, "generator", None), getattr(g, "mpo_tensors", None))
    g.set_sites(a, b)
    # tensor: the matrix placed on (a, b) in the given orientation, indexed by (site min, site max)
    lo, hi = min(a, b), max(a, b)
    want = ref.reshape(2, 2, 2, 2)
    if b < a:
        want = want.transpose(1, 0, 3, 2)
    if not np.allclose(g.tensor, want, atol=1e-12):
        return f"{name} on sites ({a},{b}): tensor is not the gate in the given orientation"
    # generator: exp(-i A (x) B) with A on the lower site
    if name != "swap":
        ga, gb = g.generator
        first, second = (0, 1) if a < b else (1, 0)
        gen = np.kron(np.asarray(g.generator[first], dtype=complex), np.asarray(g.generator[second], dtype=complex))
        u = scipy.linalg.expm(-1j * gen)
        want_m = want.reshape(4, 4)
        if not np.allclose(u, want_m, atol=1e-10):
            return (f"{name}{angles} on sites ({a},{b}): exp(-i A(x)B) of the stored generator is not the gate "
                    f"(max diff {np.max(np.abs(u - want_m)):.3e})")
    # MPO: contracts to the gate on (a, b) with identities in between
    n = hi - lo + 1
    dense = mpo_to_matrix(g.mpo_tensors)
    want_full = embed(ref, a - lo, b - lo, n)
    if dense.shape != want_full.shape or not np.allclose(dense, want_full, atol=1e-9):
        return f"{name}{angles} on sites ({a},{b}): MPO form does not contract to the gate with identities in between"
    return None


def correspond(ctx):
    ctx.rules.append(RULE)
    items = _items.get("items") or translate_gates.regenerate()
    bad = translate_gates.validate(items, ctx.rng)
    ctx.case(nontrivial_key="translator-validation", validated=True, sample={"translator_validated_gates": sorted(items)})
    for b in bad:
        ctx.mismatch("translator validation (ast expression vs live gate object)", b, "live", "extracted")
    ctx.count("gates_translated", len(items))
    for name in TWO:
        for (a, b) in ((0, 1), (1, 0), (0, 2), (2, 0), (0, 4), (5, 1), (3, 0)):
            angles = [float(x) for x in ctx.rng.uniform(-3, 3, size=NPAR.get(name, 0))]
            # fine Trotter steps: the second Schmidt component of the gate is of the order of the angle (kept by split_tensor's own
            # absolute cut-off of 1e-6 for angles above about 2e-6; smaller angles are legitimately rounded to bond dimension 1)
            if (a + b) % 3 == 0:
                angles = [float(ctx.rng.choice([1e-2, 1e-3, -2e-4, 3e-5])) for _ in angles]
            try:
                why = mpo_structure(name, angles, a, b)
            except Exception as e:  # noqa: BLE001
                why = f"raised {type(e).__name__}: {e}"
            ctx.case(nontrivial_key=("mpo-structure", name, a, b) if abs(a - b) > 1 else None, validated=True)
            ctx.count("gate_mpo_structures")
            if why:
                ctx.mismatch("gate MPO vs the padded chain of LinAlg/TT (T1, identity pass-through, T2; flipped when the sites are reversed)",
                             {"gate": name, "sites": [a, b]}, why, "padded chain", key="mpo-structure")


def mpo_structure(name, angles, a, b):
    """Shape of the gate MPO assumed by the theorem C18_padded_gate_mpo (+ flip for the reversed orientation): after undoing the flip
    the chain is [T1, identity pass-through tensors (bond chi), ..., T2] with one tensor per site from min(a,b) to max(a,b), and
    sum_m T1[.,.,0,m] T2[.,.,m,0] is the gate tensor."""
    g = live_gate(name, angles)
    g.set_sites(a, b)
    ts = [np.asarray(t) for t in g.mpo_tensors]
    if len(ts) != abs(a - b) + 1:
        return f"{len(ts)} tensors for sites ({a},{b})"
    if b < a:  # undo MPS-style flip: reverse the chain and exchange the bond legs
        ts = [np.transpose(t, (0, 1, 3, 2)) for t in reversed(ts)]
    t1, t2 = ts[0], ts[-1]
    chi = t1.shape[3]
    if t1.shape[2] != 1 or t2.shape[3] != 1 or t2.shape[2] != chi:
        return f"end tensors have bond shapes {t1.shape[2:]}, {t2.shape[2:]}"
    for k, t in enumerate(ts[1:-1]):
        want = np.zeros((2, 2, chi, chi), dtype=complex)
        for i in range(chi):
            want[:, :, i, i] = np.eye(2)
        if t.shape != want.shape or not np.array_equal(t, want):
            return f"inner tensor {k + 1} is not the identity passing the bond through"
    two = np.einsum("abim,cdmj->acbd", t1, t2).reshape(4, 4)  # (out1,out2),(in1,in2) in chain order
    ref = qiskit_matrix(name, angles)
    # after undoing the flip the chain runs in the order the sites were LISTED (first listed site first): T1.T2 is the gate as written
    if not np.allclose(two, ref, atol=1e-10):
        return "T1.T2 is not the gate tensor"
    return None


def search(ctx):
    n = ctx.scale(4, 40)
    for name in ONE + TWO:
        for k in range(n if name in NPAR else 1):
            angles = [float(x) for x in ctx.rng.uniform(-6.5, 6.5, size=NPAR.get(name, 0))]
            if k % 4 == 3:
                angles = [float(ctx.rng.choice([1e-2, 1e-3, 5e-4, -2e-4, 3e-5])) for _ in angles]
            if k == 0 and name in NPAR:
                angles = [0.3][: NPAR[name]] * 1 if NPAR[name] == 1 else [0.3, -1.1, 2.0][: NPAR[name]]
            if name in ONE:
                cases = [dict(name=name, angles=angles, a=0)]
            else:
                cases = [dict(name=name, angles=angles, a=a, b=b) for (a, b) in ((0, 1), (1, 0), (0, 2), (3, 0), (1, 4), (4, 0))]
            if name in TWO and k < 2:
                cases += [dict(name=name, angles=angles, a=2, b=3, before=[(0, 1), (1, 0)]), dict(name=name, angles=angles, a=3, b=0, before=[(2, 0)]),
                          dict(name=name, angles=angles, a=0, b=2, before=[(4, 1), (3, 1)])]
            for args in cases:
                why = gate_oracle(args)
                if why and args.get("before"):
                    why += f" (the same gate object had been placed on {args['before']} before)"
                ctx.case(nontrivial_key=(name, tuple(angles), args.get("a"), args.get("b")) if (name in NPAR or name in TWO) else None,
                         sample=args if name == "cp" and k == 0 and args.get("b") == 0 else None)
                ctx.count("gate_" + name)
                if why:
                    kind = "generator" if "generator" in why else ("mpo" if "MPO" in why else ("tensor" if "tensor" in why else "matrix"))
                    ctx.violation(f"{kind}:{name}", why, {"oracle": "gate", "args": args})


def replay(ctx, data):
    rp = data.get("replay", data)
    if rp.get("oracle") == "gate":
        return gate_oracle(rp["args"])
    return "re-run the check: " + "; ".join(b["what"] for b in data.get("broken", []))
