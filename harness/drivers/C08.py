"""C08 — the bond dimension never exceeds the user's cap.

Tie: the spectrum returned by the SVD inside the real split_mps_tensor / two_site_svd is replaced (in this process)
by a harness-chosen spectrum; the rank the real routine keeps is compared bit-exactly with the binary64 instance of
Model/RankSelect.v, about which the cap theorems are proved for every spectrum.  Search: whole simulator runs with
small caps (also caps that are not powers of two), bonds read from output_state and the max_bond diagnostic.
"""
from __future__ import annotations

import numpy as np

import common
from drivers import ranksel
from gen import translate_rank

RULE = ("spectra injected into the real split routines (decaying, tied, rank-deficient, zero, dyadic, uniform; thresholds "
        "incl. exact ties), random min/max bond and dynamic flag; non-trivial = the routine cut at least one value or "
        "raised; whole runs: circuits/Hamiltonians with caps 1..6; distinct by (spectrum, parameters)")
TRUSTED = ["correspondence harness: robust_svd replaced in tdvp's/decompositions' namespace by a spectrum-injecting wrapper",
           "modelled, not verified: LAPACK returns a valid factorisation; QR/one-site updates do not enlarge a bond "
           "(ShrinkAt in the model), checked only on the whole-run searches"]
ASSUMES = ["bond dimensions change only through the split routines (two-site update/gate/jump) or through QR/SVD centre "
           "moves, which cannot enlarge a bond"]


def regenerate(ctx):
    """coq/Gen/RankGen.v from the current source of split_mps_tensor / two_site_svd / truncated_right_svd (fail closed)"""
    translate_rank.regenerate()


def correspond(ctx):
    ctx.rules.append(RULE)
    cases = ranksel.gen_split_cases(ctx, ctx.scale(600, 12000))
    res = ranksel.run_split_correspondence(ctx, cases)
    # the property itself on the same injected runs: kept rank within the cap
    for c, i, m in res:
        k = len(c["s"])
        bound = max(c["maxb"], min(c["minb"], k)) if c["mode"] == "discarded_weight" else max(c["maxb"], c["minb"])
        if isinstance(i, int) and i > bound:
            ctx.violation("split-cap", f"split_mps_tensor kept {i} singular values with max_bond_dim={c['maxb']}, "
                          f"min_bond_dim={c['minb']} ({c['mode']}, dynamic={c['dyn']})", {"oracle": "split", **c, "kept": i})
    # two_site_svd with a cap
    tcases, exprs, impl = [], [], []
    for j in range(ctx.scale(150, 2000)):
        d, L, R = 2, int(ctx.rng.integers(1, 4)), int(ctx.rng.integers(1, 4))
        k = min(d * L, d * R)
        s = ranksel.spectrum(ctx.rng, k, "dyadic")
        thr = ranksel.tie_threshold(s, int(ctx.rng.integers(0, k + 1))) if ctx.rng.random() < 0.5 else float(2.0 ** -int(ctx.rng.integers(1, 30)))
        maxb = None if ctx.rng.random() < 0.3 else int(ctx.rng.integers(1, 6))
        minb = int(ctx.rng.choice([1, 2, 2, 3, 7]))
        tcases.append(dict(s=s, d=d, L=L, R=R, thr=thr, maxb=maxb, minb=minb))
        impl.append(ranksel.impl_tss_keep(s, d, L, R, thr, maxb, minb))
        exprs.append(ranksel.model_tss(s, thr, maxb, minb))
    vals = common.coq_eval_sharded(ranksel.HEADER, exprs, tag="tss")
    for c, i, m in zip(tcases, impl, vals):
        ctx.case(nontrivial_key=("tss", tuple(c["s"]), c["thr"], c["maxb"], c["minb"]) if isinstance(i, int) and i < len(c["s"]) else None, validated=True)
        ctx.count("two_site_svd")
        if i != m:
            ctx.mismatch("two_site_svd-vs-RankSelect.keep_tss", c, i, m)
        if isinstance(i, int) and c["maxb"] is not None and i > c["maxb"]:
            ctx.violation("tss-cap", f"two_site_svd kept {i} > max_bond_dim={c['maxb']}", {"oracle": "tss", **c, "kept": i})


    truncate_correspondence(ctx)


def truncate_trace(L, chi, center, thr, cap, seed):
    """Which (flipped?, i) pairs does the real MPS.truncate hand to two_site_svd?"""
    import mqt.yaqs.core.data_structures.networks as N

    rng = np.random.default_rng(seed)
    tens = []
    for i in range(L):
        lft = 1 if i == 0 else chi
        r = 1 if i == L - 1 else chi
        tens.append(rng.normal(size=(2, lft, r)) + 1j * rng.normal(size=(2, lft, r)))
    mps = N.MPS(L, tensors=tens, physical_dimensions=[2] * L)
    mps.normalize("B")
    mps.set_canonical_form(center)
    center_seen = int(mps.check_canonical_form()[0])  # what truncate itself will read (0 for product states)
    calls, flips = [], [0]
    real_svd, real_flip = N.two_site_svd, N.MPS.flip_network

    def svd(a, b, threshold, max_bond_dim=None):
        idx = [k for k, t in enumerate(mps.tensors) if t is a]
        calls.append((bool(flips[0] % 2), idx[0] if idx else -1, threshold, max_bond_dim))
        return real_svd(a, b, threshold, max_bond_dim)

    def flip(self):
        if self is mps:
            flips[0] += 1
        return real_flip(self)

    N.two_site_svd, N.MPS.flip_network = svd, flip
    try:
        mps.truncate(threshold=thr, max_bond_dim=cap)
    finally:
        N.two_site_svd, N.MPS.flip_network = real_svd, real_flip
    return calls, [int(t.shape[2]) for t in mps.tensors[:-1]], center_seen


def truncate_correspondence(ctx):
    cases, exprs, impl = [], [], []
    for i in range(ctx.scale(60, 800)):
        L = int(ctx.rng.integers(1, 7))
        c = int(ctx.rng.integers(0, L))
        thr = float(ctx.rng.choice([0.0, 0.0, 1e-12, 1e-6, 0.3]))
        cap = None if ctx.rng.random() < 0.3 else int(ctx.rng.integers(1, 5))
        chi = int(ctx.rng.integers(1, 6))
        calls, bonds, c_seen = truncate_trace(L, chi, c, thr, cap, int(ctx.rng.integers(0, 2**31)))
        impl.append((calls, bonds))
        exprs.append(f"truncate_calls {L}%nat {c_seen}%nat")
        cases.append(dict(L=L, center=c, thr=thr, cap=cap, chi=chi))
    vals = common.coq_eval_sharded(ranksel.HEADER, exprs, tag="trunc")
    for cse, (calls, bonds), m in zip(cases, impl, vals):
        ctx.case(nontrivial_key=("truncate", cse["L"], cse["center"], cse["thr"], cse["cap"]) if cse["L"] > 2 else None, validated=True)
        ctx.count("truncate_trace")
        got = [(f, i) for (f, i, _, _) in calls]
        if got != [tuple(x) for x in m]:
            ctx.mismatch("MPS.truncate sweep vs RankSelect.truncate_calls", cse, got, m)
        if any(t != cse["thr"] or mb != cse["cap"] for (_, _, t, mb) in calls):
            ctx.mismatch("MPS.truncate passes its threshold/cap to two_site_svd", cse, calls, "(threshold, cap) unchanged")
        if cse["cap"] is not None and bonds and max(bonds) > cse["cap"]:
            ctx.violation("truncate-cap", f"MPS.truncate(threshold={cse['thr']}, max_bond_dim={cse['cap']}) left bonds {bonds}",
                          {"oracle": "truncate", **cse})


# ---------------------------------------------------------------------------------------------------------
def bonds_of(state):
    return [int(t.shape[2]) for t in state.tensors[:-1]]


class SamplingBonds:
    """Records the internal bonds of every state handed to MPS.evaluate_observables (the sampling points).  The max_bond
    diagnostic itself also compares the physical dimension (shape[0]) and therefore never reports less than 2."""

    def __enter__(self):
        from mqt.yaqs.core.data_structures.networks import MPS

        self.cls, self.orig, self.worst = MPS, MPS.evaluate_observables, 0
        rec = self

        def wrapped(state, *a, **k):
            rec.worst = max([rec.worst] + bonds_of(state))
            return rec.orig(state, *a, **k)

        MPS.evaluate_observables = wrapped
        return self

    def __exit__(self, *exc):
        self.cls.evaluate_observables = self.orig


def run_digital(cap, mode, seed, n=4, depth=6, noisy=False, minb=2, thr=None):
    from qiskit import QuantumCircuit

    from mqt.yaqs import simulator
    from mqt.yaqs.core.data_structures.networks import MPS
    from mqt.yaqs.core.data_structures.noise_model import NoiseModel
    from mqt.yaqs.core.data_structures.simulation_parameters import Observable, StrongSimParams

    rng = np.random.default_rng(seed)
    qc = QuantumCircuit(n)
    for layer in range(depth):
        for q in range(n):
            qc.rx(float(rng.uniform(0.3, 2.5)), q)
            qc.rz(float(rng.uniform(0.3, 2.5)), q)
        for q in range(layer % 2, n - 1, 2):
            g = rng.choice(["cx", "rzz", "rxx"])
            if g == "cx":
                qc.cx(q, q + 1)
            else:
                getattr(qc, g)(float(rng.uniform(0.5, 2.0)), q, q + 1)
    obs = [Observable("max_bond"), Observable("z", 0)]
    if thr is None:
        thr = 1e-9 if mode == "discarded_weight" else 1e-6
    nm = None
    if noisy:
        nm = NoiseModel([{"name": "crosstalk_xx", "sites": [1, 2], "strength": 0.3},
                         {"name": "lowering", "sites": [0], "strength": 0.2}])
    p = StrongSimParams(obs, num_traj=3 if noisy else 1, max_bond_dim=cap, min_bond_dim=minb, trunc_mode=mode,
                        threshold=thr, get_state=not noisy, show_progress=False)
    with SamplingBonds() as sb:
        simulator.run(MPS(n, state="zeros"), qc, p, nm, parallel=False)
    diag = int(np.max(np.real(obs[0].trajectories)))
    worst = max(sb.worst, diag if diag > 2 else 0)  # the diagnostic includes the physical dimension 2
    if not noisy:
        worst = max(worst, max(bonds_of(p.output_state)))
    return worst


def run_analog(cap, mode, seed, L=4, order=2, noisy=False, minb=2, bug=False, thr=None):
    from mqt.yaqs import simulator
    from mqt.yaqs.core.data_structures.networks import MPO, MPS
    from mqt.yaqs.core.data_structures.noise_model import NoiseModel
    from mqt.yaqs.core.data_structures.simulation_parameters import AnalogSimParams, Observable

    obs = [Observable("max_bond"), Observable("z", 0)]
    nm = None
    if noisy:
        nm = NoiseModel([{"name": "crosstalk_xy", "sites": [1, 2], "strength": 0.4},
                         {"name": "pauli_z", "sites": [0], "strength": 0.2}])
    from mqt.yaqs.core.data_structures.simulation_parameters import EvolutionMode

    if thr is None:
        thr = 1e-9 if mode == "discarded_weight" else 1e-6
    p = AnalogSimParams(obs, elapsed_time=0.6, dt=0.1, num_traj=2 if noisy else 1, max_bond_dim=cap, min_bond_dim=minb,
                        trunc_mode=mode, threshold=thr, order=order, sample_timesteps=True, get_state=not noisy,
                        show_progress=False, evolution_mode=EvolutionMode.BUG if bug else EvolutionMode.TDVP)
    H = MPO.ising(L, 1.0, 0.7 + 0.01 * (seed % 7))
    st = MPS(L, state="x+" if seed % 2 else "Neel")
    with SamplingBonds() as sb:
        simulator.run(st, H, p, nm, parallel=False)
    diag = int(np.max(np.real(obs[0].trajectories)))
    worst = max(sb.worst, diag if diag > 2 else 0)  # the diagnostic includes the physical dimension 2
    if not noisy:
        worst = max(worst, max(bonds_of(p.output_state)))
    return worst


def whole_run(kind, cap, mode, seed, noisy, minb=2, bug=False, thr=None):
    with common.time_limit(240):
        if kind == "digital":
            return run_digital(cap, mode, seed, noisy=noisy, minb=minb, thr=thr)
        return run_analog(cap, mode, seed, order=2 if bug else 1 + seed % 2, noisy=noisy, minb=minb, bug=bug, thr=thr)


def jump_oracle(args):
    """A forced jump of an adjacent two-site process whose operator is NOT a product of one-site operators (custom matrix) on a chain
    whose bonds already sit at the cap: after dissipation + jump (+ the routine's own renormalisation) no bond may exceed the cap."""
    import copy

    from mqt.yaqs.core.data_structures.networks import MPS
    from mqt.yaqs.core.data_structures.noise_model import NoiseModel
    from mqt.yaqs.core.data_structures.simulation_parameters import AnalogSimParams, Observable
    from mqt.yaqs.core.methods.dissipation import apply_dissipation
    from mqt.yaqs.core.methods.stochastic_process import stochastic_process

    from drivers import lottery

    rng = np.random.default_rng(args["seed"])
    L, cap, site = args["L"], args["cap"], args["site"]
    dims = [1] + [min(cap, 2 ** min(i + 1, L - 1 - i)) for i in range(L - 1)] + [1]
    mps = MPS(L, tensors=[rng.normal(size=(2, dims[i], dims[i + 1])) + 1j * rng.normal(size=(2, dims[i], dims[i + 1])) for i in range(L)],
              physical_dimensions=[2] * L)
    mps.normalize("B")
    sp, sm = np.array([[0, 1], [0, 0]], dtype=complex), np.array([[0, 0], [1, 0]], dtype=complex)
    if args["op"] == "exchange":
        mat = np.kron(sp, sm) + np.kron(sm, sp)
    else:
        mat = rng.normal(size=(4, 4)) + 1j * rng.normal(size=(4, 4))
    nm = NoiseModel([{"name": "pair", "sites": [site, site + 1], "strength": 0.5, "matrix": mat}])
    par = AnalogSimParams([Observable("z", 0)], elapsed_time=0.1, dt=0.1, max_bond_dim=cap, min_bond_dim=args.get("minb", 2), trunc_mode=args["mode"],
                          threshold=1e-9 if args["mode"] == "discarded_weight" else 1e-6, show_progress=False)
    before = bonds_of(mps)
    st = copy.deepcopy(mps)
    try:
        apply_dissipation(st, nm, 0.1, par)
        out = stochastic_process(st, nm, 0.1, par, rng=lottery.ForcedRng(["J", 0]))
    except lottery.Pruned:
        return None
    except Exception as e:  # noqa: BLE001
        return f"stochastic_process raised {type(e).__name__}: {e}"
    after = bonds_of(out)
    bound = max(cap, args.get("minb", 2), max(before))
    if max(after) > bound:
        return (f"a jump of a non-product two-site process on sites ({site},{site + 1}) took the bonds from {before} to {after} with max_bond_dim={cap} "
                f"(trunc_mode={args['mode']}, operator {args['op']})")
    return None


def search(ctx):
    plan = []
    caps = [1, 2, 3] if ctx.quick else [1, 2, 3, 4, 5, 6]
    for cap in caps:
        for mode in ("discarded_weight", "relative"):
            for kind in ("digital", "analog"):
                plan.append((kind, cap, mode, False))
    for cap in (3, 4):
        for thr in (0.0, 1e-9):
            plan.append(("analog-bug", cap, "discarded_weight", False, thr))
    # the rank-adaptive integrator under the other truncation rule (whatever it does with trunc_mode, the cap binds)
    plan += [("analog-bug", 2, "relative", False, 1e-8), ("analog-bug", 3, "relative", False, 1e-6)]
    plan += [("digital", 2, "discarded_weight", True), ("analog", 3, "discarded_weight", True),
             ("analog", 3, "relative", True), ("digital", 3, "relative", True),
             # noisy runs with threshold 0: the uncapped SVD centre shifts of the dissipation sweep must still drop the null directions
             ("analog", 3, "discarded_weight", True, 0.0), ("digital", 3, "discarded_weight", True, 0.0), ("analog", 4, "relative", True, 0.0)]
    # product-state bonds with max_bond_dim = min_bond_dim = 1: the SVD-based centre shifts must not pad them
    ones = [("analog", 1, "relative", True), ("digital", 1, "discarded_weight", True), ("analog", 1, "discarded_weight", False)]
    for k in range(ctx.scale(12, 120)):
        L = int(ctx.rng.integers(4, 7))
        a = dict(seed=int(ctx.rng.integers(0, 2**31)), L=L, cap=int(ctx.rng.choice([2, 3, 4])), site=int(ctx.rng.integers(0, L - 1)),
                 mode=["discarded_weight", "relative"][k % 2], op=["exchange", "random"][(k // 2) % 2])
        why = jump_oracle(a)
        ctx.case(nontrivial_key=("jump", a["seed"]))
        ctx.count("forced_pair_jumps")
        if why:
            ctx.violation("jump-cap", why, {"oracle": "jump", "args": a})
    reps = 1 if ctx.quick else 3
    for rep in range(reps):
        for item in plan + [o + (None, 1) for o in ones]:
            kind, cap, mode, noisy = item[:4]
            thr = item[4] if len(item) > 4 else None
            bug = kind == "analog-bug"
            seed = int(ctx.rng.integers(0, 10**6))
            minb = item[5] if len(item) > 5 else 2 if rep == 0 else int(ctx.rng.choice([1, 2]))
            try:
                worst = whole_run("analog" if bug else kind, cap, mode, seed, noisy, minb, bug=bug, thr=thr)
            except common.HardTimeout:
                ctx.notes.append(f"whole run timed out: {kind} cap={cap} {mode}")
                continue
            bound = max(cap, minb, 1)
            ctx.case(nontrivial_key=("run", kind, cap, mode, noisy, seed) if worst >= min(bound, 2) else None,
                     sample={"whole_run": kind, "cap": cap, "mode": mode, "noisy": noisy, "max_bond_seen": worst, "bound": bound})
            ctx.count("run_" + kind)
            if worst > bound:
                ctx.violation(f"run-cap:{kind}", f"{kind} run (trunc_mode={mode}, noisy={noisy}) reached bond dimension {worst} "
                              f"with max_bond_dim={cap}, min_bond_dim={minb}",
                              {"oracle": "whole_run", "kind": "analog" if bug else kind, "cap": cap, "mode": mode, "seed": seed,
                               "noisy": noisy, "minb": minb, "seen": worst, "bug": bug, "thr": thr})


def replay(ctx, data):
    rp = data.get("replay", data)
    if rp.get("oracle") == "split":
        i = ranksel.impl_split_keep(rp["s"], rp["d"], rp["D0"], rp["D2"], rp["thr"], rp["minb"], rp["maxb"], rp["mode"], rp["dyn"])
        k = len(rp["s"])
        bound = max(rp["maxb"], min(rp["minb"], k)) if rp["mode"] == "discarded_weight" else max(rp["maxb"], rp["minb"])
        return f"kept {i} > {bound}" if not isinstance(i, int) or i > bound else None
    if rp.get("oracle") == "tss":
        i = ranksel.impl_tss_keep(rp["s"], rp["d"], rp["L"], rp["R"], rp["thr"], rp["maxb"], rp.get("minb", 2))
        return f"kept {i} > {rp['maxb']}" if isinstance(i, int) and i > rp["maxb"] else None
    if rp.get("oracle") == "truncate":
        calls, bonds, _ = truncate_trace(rp["L"], rp["chi"], rp["center"], rp["thr"], rp["cap"], 1)
        return f"bonds {bonds}" if bonds and max(bonds) > rp["cap"] else None
    if rp.get("oracle") == "jump":
        return jump_oracle(rp["args"])
    if rp.get("oracle") == "whole_run":
        w = whole_run(rp["kind"], rp["cap"], rp["mode"], rp["seed"], rp["noisy"], rp.get("minb", 2), bug=rp.get("bug", False), thr=rp.get("thr"))
        b = max(rp["cap"], rp.get("minb", 2))
        return f"bond {w} > {b}" if w > b else None
    return "re-run the check: " + "; ".join(b["what"] for b in data.get("broken", []))
