"""C09 — truncation discards at most the threshold weight and returns an optimal split.

Tie: spectrum injection (see ranksel.py) — kept rank of the real routines vs the binary64 instance of the model, bit for
bit, including exact ties, rank-deficient and zero spectra and min_bond_dim above the available rank.
Search: the property stated directly on real (un-injected) calls: reconstruction error = discarded weight, weight within
the threshold unless the cap binds, relative rule, isometry of the advertised factor, the three distributions agree.
"""
from __future__ import annotations

import numpy as np

import common
from drivers import ranksel
from gen import translate_rank

RULE = ("injected spectra as in C08 plus direct calls on tensors U.diag(s).V with Haar-random U,V and prescribed s; "
        "non-trivial = at least one singular value cut, or an exception; distinct by (spectrum, parameters)")
TRUSTED = ["correspondence harness: robust_svd replaced by a spectrum-injecting wrapper",
           "modelled, not verified: LAPACK SVD validity; the inequality 'discarded weight <= threshold' is proved over exact "
           "rationals, the binary64 accumulation is compared bit-exactly but not proved to preserve it"]
ASSUMES = ["singular values are returned non-increasing and non-negative"]


def regenerate(ctx):
    """coq/Gen/RankGen.v from the current source of split_mps_tensor / two_site_svd / truncated_right_svd (fail closed)"""
    translate_rank.regenerate()


def correspond(ctx):
    ctx.rules.append(RULE)
    cases = ranksel.gen_split_cases(ctx, ctx.scale(800, 20000))
    # add the regression corpus: min_bond_dim above the available rank in relative mode, zero spectrum, exact tie
    corpus = [
        dict(s=[1.0, 0.5], d=2, D0=1, D2=1, thr=0.1, minb=3, maxb=8, mode="relative", dyn=False, kind="corpus"),
        dict(s=[0.0, 0.0], d=2, D0=1, D2=2, thr=1e-6, minb=2, maxb=4, mode="relative", dyn=True, kind="corpus"),
        dict(s=[1.0, 0.5, 0.25, 0.125], d=2, D0=2, D2=2, thr=0.078125, minb=1, maxb=8, mode="discarded_weight", dyn=False, kind="corpus"),
        dict(s=[1.0, 0.9, 0.8, 0.7], d=2, D0=2, D2=2, thr=1e-6, minb=2, maxb=2, mode="discarded_weight", dyn=False, kind="corpus"),
    ]
    res = ranksel.run_split_correspondence(ctx, corpus + cases)
    for c, i, m in res:
        if isinstance(i, str):
            ctx.violation("split-raises", f"split_mps_tensor raised {i[4:]} for a legal input (mode={c['mode']}, "
                          f"min_bond_dim={c['minb']}, {len(c['s'])} singular values)", {"oracle": "split_inj", **c})


# --- the property, stated directly -------------------------------------------------------------------------
def haar(rng, n):
    z = rng.normal(size=(n, n)) + 1j * rng.normal(size=(n, n))
    q, r = np.linalg.qr(z)
    return q * (np.diag(r) / np.abs(np.diag(r)))


class FastDriverFails:
    """fault injection: LAPACK's divide-and-conquer driver (gesdd) does not converge; robust_svd must fall back and still return a valid SVD"""

    def __enter__(self):
        import scipy.linalg

        self.real = scipy.linalg.svd
        self.hits = 0

        def svd(a, *xa, **kw):
            if kw.get("lapack_driver", "gesdd") == "gesdd":
                self.hits += 1
                raise np.linalg.LinAlgError("SVD did not converge (injected)")
            return self.real(a, *xa, **kw)

        scipy.linalg.svd = svd
        return self

    def __exit__(self, *e):
        import scipy.linalg

        scipy.linalg.svd = self.real
        return False


class NoFault:
    def __enter__(self):
        return self

    def __exit__(self, *e):
        return False


def direct_split(args):
    """Returns a failure description or None."""
    import mqt.yaqs.core.methods.tdvp as T

    rng = np.random.default_rng(args["seed"])
    d0, d1, D0, D2 = args["d0"], args["d1"], args["D0"], args["D2"]
    m, n = d0 * D0, d1 * D2
    k = min(m, n)
    s = np.array(args["s"], dtype=float)
    U, V = haar(rng, m)[:, :k], haar(rng, n)[:k, :]
    exact = False
    if args.get("exact"):
        # signed permutation matrices and dyadic singular values: theta has one entry +-s_j per row and column, and LAPACK
        # (both drivers) returns the spectrum bit for bit — only then are ties at the cut judged
        import scipy.linalg

        U = (np.eye(m)[:, rng.permutation(m)[:k]] * rng.choice([-1.0, 1.0], size=k)).astype(complex)
        V = (np.eye(n)[rng.permutation(n)[:k], :] * rng.choice([-1.0, 1.0], size=(k, 1))).astype(complex)
        tm = (U * s) @ V
        exact = all(np.array_equal(scipy.linalg.svd(tm, compute_uv=False, lapack_driver=drv), s) for drv in ("gesdd", "gesvd"))
    scale = float(args.get("scale", 1.0)) if not args.get("exact") else 1.0
    thr_eff = args["thr"] * (scale**2 if args["mode"] == "discarded_weight" else 1.0)
    if scale != 1.0:
        s = s * scale  # a block of tiny (or large) norm: the rules are stated relative to it, the threshold is scaled along
    theta_mat = (U * s) @ V
    if args.get("nearly_real") and not args.get("exact"):
        # a real block with an imaginary part of relative size 1e-9 (what a real state acquires in a very short time step)
        Ur, _ = np.linalg.qr(rng.normal(size=(m, m)))
        Vr, _ = np.linalg.qr(rng.normal(size=(n, n)))
        theta_mat = (Ur[:, :k] * s) @ Vr[:k, :] + 1e-9j * (float(np.max(s)) or 1.0) * rng.normal(size=(m, n))
        s = np.linalg.svd(theta_mat, compute_uv=False)[:k]
    theta = theta_mat.reshape(d0, D0, d1, D2).transpose(0, 2, 1, 3).reshape(d0 * d1, D0, D2)
    p = ranksel.params(thr_eff, args["minb"], args["maxb"], args["mode"])
    outs = {}
    for dist in ("left", "right", "sqrt"):
        try:
            with (FastDriverFails() if args.get("gesdd_fails") else NoFault()):
                a, b = T.split_mps_tensor(theta.copy(), dist, p, [d0, d1], dynamic=args["dyn"])
        except Exception as e:  # noqa: BLE001
            return f"split_mps_tensor raised {type(e).__name__}: {e}"
        keep = a.shape[2]
        if a.shape != (d0, D0, keep) or b.shape != (d1, keep, D2):
            return f"shapes {a.shape} {b.shape}"
        prod = np.einsum("aik,bkj->aibj", a, b).reshape(m, n)
        outs[dist] = (keep, prod, a, b)
    keep, prod, a, b = outs["right"]
    norm2 = float(np.sum(s**2)) or 1.0
    tol = 1e-9 * norm2 + (1e-13 if scale == 1.0 else 0.0)
    disc = float(np.sum(s[keep:] ** 2))
    err2 = float(np.linalg.norm(theta_mat - prod) ** 2)
    if abs(err2 - disc) > tol:
        return (f"|theta - A.B|^2 = {err2:.6e} but discarded weight is {disc:.6e}" + (" (fast SVD driver failing, fallback driver in use)" if args.get("gesdd_fails") else "")
                + (f" (block of norm {np.sqrt(norm2):.1e})" if scale != 1.0 else ""))
    if abs(np.sqrt(err2) - np.sqrt(disc)) > 1e-10 * np.sqrt(norm2) + (1e-13 if scale == 1.0 else 0.0):
        return (f"|theta - A.B| = {np.sqrt(err2):.6e} but the discarded singular values have norm {np.sqrt(disc):.6e} (block norm {np.sqrt(norm2):.3e}"
                + (", nearly real block" if args.get("nearly_real") else "") + ")")
    for dist in ("left", "sqrt"):
        if outs[dist][0] != keep or np.linalg.norm(outs[dist][1] - prod) > 1e-9 * np.sqrt(norm2) + 1e-12:
            return f"distribution {dist} gives a different product"
    al = outs["right"][2].reshape(m, keep)
    if np.linalg.norm(al.conj().T @ al - np.eye(keep)) > 1e-9:
        return "svd_distribution='right': left factor is not an isometry"
    br = outs["left"][3].transpose(1, 0, 2).reshape(keep, n)
    if np.linalg.norm(br @ br.conj().T - np.eye(keep)) > 1e-9:
        return "svd_distribution='left': right factor is not an isometry"
    minb, maxb, thr = args["minb"], args["maxb"], thr_eff
    if args["mode"] == "discarded_weight":
        capk = max(min(k, maxb), min(k, minb))
        if disc > thr * (1 + 1e-9) + 1e-15 * norm2 and keep != max(maxb, min(k, minb)) and keep < capk:
            return f"discarded weight {disc:.3e} exceeds threshold {thr:.3e} although the cap does not force it (kept {keep})"
        if disc > thr * (1 + 1e-9) + 1e-15 * norm2 and keep < min(k, maxb):
            return f"discarded weight {disc:.3e} > threshold {thr:.3e} with kept rank {keep} below the cap {maxb}"
    else:
        if s[0] > 0:
            ratios = s / s[0]
            if np.min(np.abs(ratios - thr)) > 1e-9 or exact:  # away from rounding ties, or ties that are exact in binary64
                cnt = int(np.sum(ratios >= thr))
                want = min(max(min(cnt, maxb), minb), k)
                if keep != want:
                    return f"relative mode kept {keep}, rule gives {want}" + (f" (spectrum {s.tolist()}, threshold {thr}: values exactly at threshold x largest must be kept)" if exact else "")
    return None


def direct_tss(args):
    import mqt.yaqs.core.methods.decompositions as D

    rng = np.random.default_rng(args["seed"])
    d, L, R = args["d"], args["L"], args["R"]
    m, n = d * L, d * R
    k = min(m, n)
    s = np.array(args["s"], dtype=float)
    U, V = haar(rng, m)[:, :k], haar(rng, n)[:k, :]
    # a (d, L, chi), b (d, chi, R) with a.b = theta
    a = U.reshape(d, L, k) + 0j
    b = ((s[:, None] * V).reshape(k, d, R)).transpose(1, 0, 2) + 0j
    theta = np.tensordot(a, b, axes=(2, 1)).reshape(m, n)
    try:
        with (FastDriverFails() if args.get("gesdd_fails") else NoFault()):
            an, bn = D.two_site_svd(a, b, args["thr"], args["maxb"])
    except Exception as e:  # noqa: BLE001
        return f"two_site_svd raised {type(e).__name__}: {e}"
    keep = an.shape[2]
    prod = np.tensordot(an, bn, axes=(2, 1)).reshape(m, n)
    disc = float(np.sum(s[keep:] ** 2))
    err2 = float(np.linalg.norm(theta - prod) ** 2)
    norm2 = float(np.sum(s**2)) or 1.0
    if abs(err2 - disc) > 1e-9 * norm2 + 1e-13:
        return f"two_site_svd: |theta - A.B|^2 = {err2:.3e}, discarded weight {disc:.3e}"
    if args["maxb"] is None or keep < args["maxb"]:
        # slack: the singular values LAPACK returns differ from the prescribed ones by ~eps * s_max
        slack = 1e-9 * args["thr"] + 20 * 2.3e-16 * float(s[0]) * float(np.sum(s[keep:])) + 1e-300
        if disc >= args["thr"] + slack and keep >= 2:
            return f"two_site_svd discarded {disc:.3e} >= threshold {args['thr']:.3e} without being forced by the cap"
    if args["maxb"] is not None and keep > args["maxb"]:
        return f"two_site_svd kept {keep} > cap {args['maxb']}"
    al = an.reshape(m, keep)
    if np.linalg.norm(al.conj().T @ al - np.eye(keep)) > 1e-9:
        return "two_site_svd: left factor not an isometry"
    return None


def direct_truncate(args):
    """MPS.truncate: state changes by at most the accumulated threshold, bonds within the cap."""
    from mqt.yaqs.core.data_structures.networks import MPS

    rng = np.random.default_rng(args["seed"])
    L, chi = args["L"], args["chi"]
    tens = []
    for i in range(L):
        l = 1 if i == 0 else chi
        r = 1 if i == L - 1 else chi
        tens.append(rng.normal(size=(2, l, r)) + 1j * rng.normal(size=(2, l, r)))
    mps = MPS(L, tensors=tens, physical_dimensions=[2] * L)
    mps.normalize("B")
    c = args["center"]
    mps.set_canonical_form(c)
    v0 = mps.to_vec()
    try:
        mps.truncate(threshold=args["thr"], max_bond_dim=args["maxb"])
    except Exception as e:  # noqa: BLE001
        return f"MPS.truncate raised {type(e).__name__}: {e}"
    v1 = mps.to_vec()
    if args["maxb"] is not None and max(t.shape[2] for t in mps.tensors[:-1]) > max(args["maxb"], 1):
        return f"MPS.truncate left a bond above the cap {args['maxb']}"
    if args["maxb"] is None:
        err2 = float(np.linalg.norm(v1 - v0) ** 2)
        if err2 > 4 * L * args["thr"] + 1e-12:
            return f"MPS.truncate changed the state by {err2:.3e} > {L}*threshold"
    return None


ORACLES = {"direct_split": direct_split, "direct_tss": direct_tss, "direct_truncate": direct_truncate}


def search(ctx):
    rng = ctx.rng
    # start from the cases on which model and implementation diverged: the same spectrum on a real (un-injected) tensor
    for mm in [m for m in ctx.mismatches if isinstance(m.get("case"), dict) and "s" in m["case"]][:40]:
        c = mm["case"]
        if "D0" not in c:
            continue
        for dyn in (c["dyn"], not c["dyn"]):
            args = dict(seed=1, d0=c["d"], d1=c["d"], D0=c["D0"], D2=c["D2"], s=c["s"], thr=c["thr"], minb=c["minb"],
                        maxb=c["maxb"], mode=c["mode"], dyn=dyn)
            why = direct_split(args)
            ctx.case(nontrivial_key=("from-mismatch", tuple(c["s"]), c["thr"], c["maxb"], dyn))
            if why:
                ctx.violation("split-raises" if "raised" in why else "split-direct", why, {"oracle": "direct_split", "args": args})
    n = ctx.scale(250, 5000)
    for i in range(n):
        d0, d1 = (int(x) for x in rng.choice([2, 3], size=2))
        D0, D2 = int(rng.integers(1, 5)), int(rng.integers(1, 5))
        k = min(d0 * D0, d1 * D2)
        kind = ranksel.KINDS[i % len(ranksel.KINDS)]
        s = ranksel.spectrum(rng, k, kind)
        mode = "discarded_weight" if i % 2 == 0 else "relative"
        thr = float(10 ** rng.uniform(-10, 0)) if rng.random() < 0.8 else 0.0
        if i % 5 == 0 and k >= 3:  # small tail: each tail value alone fits under the threshold, two of them do not
            thr = float(10 ** rng.uniform(-8, -2))
            s = [1.0] + [float(np.sqrt(0.6 * thr))] * (k - 1)
        args = dict(seed=int(rng.integers(0, 2**31)), d0=d0, d1=d1, D0=D0, D2=D2, s=s, thr=thr,
                    minb=int(rng.choice([1, 2, 2, 3, 6, 12])), maxb=int(rng.choice([1, 2, 3, 4, 6, 64])),
                    mode=mode, dyn=bool(rng.random() < 0.5))
        if i % 6 == 1:  # the fast LAPACK driver fails to converge: the fallback path, on tall, square and wide complex matrices
            args["gesdd_fails"] = True
            ctx.count("direct_split_fallback_driver")
        if i % 7 == 3:  # blocks of tiny or large norm (the centre block of a state whose norm has decayed), thresholds scaled along
            args["scale"] = float(10.0 ** rng.choice([-10, -9, -6, 5]))
            ctx.count("direct_split_scaled_blocks")
        if i % 7 == 5:
            args["nearly_real"] = True
            ctx.count("direct_split_nearly_real_blocks")
        why = direct_split(args)
        cut = sum(1 for x in s if x > 0)
        ctx.case(nontrivial_key=("ds", i) if kind != "zero" else None,
                 sample={"direct_split": {k_: args[k_] for k_ in ("s", "thr", "minb", "maxb", "mode", "dyn")}} if i < 2 else None)
        ctx.count("direct_split_" + mode)
        if why:
            key = "split-raises" if "raised" in why else "split-direct"
            ctx.violation(key, why, {"oracle": "direct_split", "args": args})
    for i in range(ctx.scale(60, 600)):
        # exact ties at the cut (relative mode): flat blocks and dyadic ladders, threshold a power of two
        d0 = d1 = 2
        D0, D2 = int(rng.integers(1, 5)), int(rng.integers(1, 5))
        k = min(d0 * D0, d1 * D2)
        fam = i % 3
        if fam == 0:
            sv = [float(2.0 ** -int(rng.integers(0, 3)))] * k
            thr = 1.0
        elif fam == 1:
            top = float(2.0 ** int(rng.integers(-2, 3)))
            sv = [top * 2.0 ** -j for j in range(k)]
            thr = float(2.0 ** -int(rng.integers(0, k)))
        else:
            blk = int(rng.integers(1, k + 1))
            sv = sorted([1.0] + [0.5] * blk + [0.125] * k, reverse=True)[:k]
            thr = float(rng.choice([0.5, 0.125, 1.0]))
        args = dict(seed=int(rng.integers(0, 2**31)), d0=d0, d1=d1, D0=D0, D2=D2, s=sv, thr=thr, minb=int(rng.choice([1, 1, 2, 3])),
                    maxb=int(rng.choice([2, 4, 64])), mode="relative", dyn=bool(rng.random() < 0.5), exact=True)
        why = direct_split(args)
        ctx.case(nontrivial_key=("tie", i))
        ctx.count("direct_split_exact_ties")
        if why:
            ctx.violation("split-raises" if "raised" in why else "split-direct", why, {"oracle": "direct_split", "args": args})
    for i in range(ctx.scale(100, 2000)):
        d, L, R = 2, int(rng.integers(1, 5)), int(rng.integers(1, 5))
        k = min(d * L, d * R)
        s = ranksel.spectrum(rng, k, ranksel.KINDS[i % len(ranksel.KINDS)])
        args = dict(seed=int(rng.integers(0, 2**31)), d=d, L=L, R=R, s=s, thr=float(10 ** rng.uniform(-13, -1)),
                    maxb=None if rng.random() < 0.4 else int(rng.integers(1, 6)))
        if ranksel.KINDS[i % len(ranksel.KINDS)] == "widerange" and k >= 3:
            # thresholds well inside the gaps of the cumulative tail weight (no tie with LAPACK's rounding), and tiny ones
            cum = np.cumsum(np.array(s[::-1]) ** 2)
            j = int(rng.integers(0, k - 1))
            args["thr"] = float(rng.choice([0.0, 1e-20, 1e-12, float(np.sqrt(cum[j] * cum[j + 1]))]))
            ctx.count("direct_two_site_svd_widerange")
        if i % 7 == 3:
            args["gesdd_fails"] = True
        why = direct_tss(args)
        ctx.case(nontrivial_key=("tss", i))
        ctx.count("direct_two_site_svd")
        if why:
            ctx.violation("tss-direct", why, {"oracle": "direct_tss", "args": args})
    for i in range(ctx.scale(30, 400)):
        L = int(rng.integers(2, 6))
        args = dict(seed=int(rng.integers(0, 2**31)), L=L, chi=int(rng.integers(1, 5)), center=int(rng.integers(0, L)),
                    thr=float(10 ** rng.uniform(-12, -2)), maxb=None if rng.random() < 0.5 else int(rng.integers(2, 5)))
        why = direct_truncate(args)
        ctx.case(nontrivial_key=("trunc", i))
        ctx.count("direct_truncate")
        if why:
            ctx.violation("truncate-direct", why, {"oracle": "direct_truncate", "args": args})


def replay(ctx, data):
    rp = data.get("replay", data)
    if rp.get("oracle") in ORACLES:
        return ORACLES[rp["oracle"]](rp["args"])
    if rp.get("oracle") == "split_inj":
        i = ranksel.impl_split_keep(rp["s"], rp["d"], rp["D0"], rp["D2"], rp["thr"], rp["minb"], rp["maxb"], rp["mode"], rp["dyn"])
        return f"raised {i}" if isinstance(i, str) else None
    return "re-run the check: " + "; ".join(b["what"] for b in data.get("broken", []))
