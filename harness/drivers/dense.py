"""Dense reference implementations (NumPy/SciPy) used ONLY by the violation searches.  Convention: site 0 is the
leftmost Kronecker factor (most significant digit)."""
from __future__ import annotations

import numpy as np
import scipy.linalg

I2 = np.eye(2, dtype=complex)
X = np.array([[0, 1], [1, 0]], dtype=complex)
Y = np.array([[0, -1j], [1j, 0]], dtype=complex)
Z = np.array([[1, 0], [0, -1]], dtype=complex)
H = np.array([[1, 1], [1, -1]], dtype=complex) / np.sqrt(2)
PAULI = {"I": I2, "X": X, "Y": Y, "Z": Z, "x": X, "y": Y, "z": Z}


def kron_all(ops):
    out = np.array([[1.0 + 0j]])
    for o in ops:
        out = np.kron(out, o)
    return out


def op_on(L, placements):
    """placements: {site: 2x2}; identity elsewhere."""
    return kron_all([placements.get(i, I2) for i in range(L)])


def ising(L, J, g, periodic=False):
    h = np.zeros((2**L, 2**L), dtype=complex)
    for i in range(L - 1):
        h -= J * op_on(L, {i: Z, i + 1: Z})
    if periodic and L > 2:
        h -= J * op_on(L, {L - 1: Z, 0: Z})
    for i in range(L):
        h -= g * op_on(L, {i: X})
    return h


def heisenberg(L, Jx, Jy, Jz, h):
    m = np.zeros((2**L, 2**L), dtype=complex)
    for i in range(L - 1):
        m -= Jx * op_on(L, {i: X, i + 1: X}) + Jy * op_on(L, {i: Y, i + 1: Y}) + Jz * op_on(L, {i: Z, i + 1: Z})
    for i in range(L):
        m -= h * op_on(L, {i: Z})
    return m


ONE_SITE = {
    "zeros": np.array([1, 0], dtype=complex), "ones": np.array([0, 1], dtype=complex),
    "x+": np.array([1, 1], dtype=complex) / np.sqrt(2), "x-": np.array([1, -1], dtype=complex) / np.sqrt(2),
    "y+": np.array([1, 1j], dtype=complex) / np.sqrt(2), "y-": np.array([1, -1j], dtype=complex) / np.sqrt(2),
}


def product_state(vecs):
    return kron_all([v.reshape(-1, 1) for v in vecs]).reshape(-1)


def basis_state(bits):
    return product_state([ONE_SITE["ones" if b else "zeros"] for b in bits])


def named_state(L, name):
    """Dense vector of MPS(L, state=name) as DOCUMENTED by yaqs (site 0 leftmost)."""
    if name in ONE_SITE:
        return product_state([ONE_SITE[name]] * L)
    if name == "Neel":   # documented: alternating, starting with |1> on site 0?  resolved against the code in callers
        raise ValueError("use mps_dense for Neel/wall")
    raise ValueError(name)


def mps_dense(mps):
    """Dense vector of an MPS by explicit contraction, site 0 = leftmost (most significant) factor.
    Independent of MPS.to_vec."""
    v = np.ones((1, 1), dtype=complex)  # (basis index, bond)
    for t in mps.tensors:  # t: (phys, left, right)
        v = np.einsum("xl,plr->xpr", v, t).reshape(v.shape[0] * t.shape[0], t.shape[2])
    return v.reshape(-1)


def expect(v, op):
    return float(np.real(np.vdot(v, op @ v)))


def evolve(h, v, t):
    return scipy.linalg.expm(-1j * t * h) @ v


def up_to_phase(a, b):
    """distance between two vectors up to a global phase"""
    ov = np.vdot(a, b)
    ph = ov / abs(ov) if abs(ov) > 1e-14 else 1.0
    return float(np.linalg.norm(a * ph - b))


def lindblad_rhs(h, ls):
    """dense Liouvillian (row-major vec) for rho' = -i[H,rho] + sum_k (L rho L^+ - 1/2 {L^+L, rho}); ls carry sqrt(gamma)"""
    d = h.shape[0]
    idd = np.eye(d)
    lv = -1j * (np.kron(h, idd) - np.kron(idd, h.T))
    for l in ls:
        ll = l.conj().T @ l
        lv += np.kron(l, l.conj()) - 0.5 * (np.kron(ll, idd) + np.kron(idd, ll.T))
    return lv


def lindblad_evolve(h, ls, rho0, t):
    lv = lindblad_rhs(h, ls)
    d = h.shape[0]
    return (scipy.linalg.expm(lv * t) @ rho0.reshape(-1)).reshape(d, d)
