"""Shared by C01/C03: forced random generators, outcome-tree enumeration, lottery correspondence."""
from __future__ import annotations

import numpy as np

import common
from common import g_bool, g_float, g_list, g_nat
from drivers import dense

HEADER = ("From Coq Require Import List PrimFloat. Import ListNotations.\n"
          "From Yaqs Require Import Base.Num Model.NoiseAttrib.")


class NeedDecision(BaseException):
    def __init__(self, kind, info=None):
        self.kind, self.info = kind, info


class Pruned(BaseException):
    """A forced branch whose probability is (numerically) zero: the real code cannot take it."""


class Probe(float):
    """The value returned by ForcedRng.random(): comparing it with a threshold records the threshold and answers as the
    script dictates (jump: random < threshold)."""

    def __new__(cls, decision, sink):
        o = float.__new__(cls, 0.0 if decision == "J" else 1.0)
        o.decision, o.sink = decision, sink
        return o

    def _thr(self, other):
        thr = float(np.real(np.asarray(other)))
        self.sink(thr)
        if (self.decision == "J" and thr < 1e-14) or (self.decision != "J" and thr > 1 - 1e-14):
            raise Pruned

    def __ge__(self, other):
        self._thr(other)
        return self.decision != "J"

    def __gt__(self, other):
        self._thr(other)
        return self.decision != "J"

    def __lt__(self, other):
        self._thr(other)
        return self.decision == "J"

    def __le__(self, other):
        self._thr(other)
        return self.decision == "J"


class ForcedRng:
    """Stands in for numpy's Generator: follows a script of decisions and records thresholds and probability vectors."""

    def __init__(self, script):
        self.script, self.k = list(script), 0
        self.log = []

    def random(self):
        if self.k >= len(self.script):
            raise NeedDecision("random")
        d = self.script[self.k]
        self.k += 1
        entry = ["random", d, None]
        self.log.append(entry)
        return Probe(d, lambda thr, e=entry: e.__setitem__(2, thr))

    def choice(self, n, p=None):
        p = np.asarray(p, dtype=float)
        if self.k >= len(self.script):
            raise NeedDecision("choice", p.tolist())
        d = self.script[self.k]
        self.k += 1
        if callable(d):  # the decision is described by what it means (which entry of THIS vector), not by a position fixed in advance
            d = d(n, p)
        self.log.append(["choice", int(d), p.tolist()])
        return int(d)


def enumerate_tree(run_with_rng, max_leaves=600):
    """run_with_rng(rng) -> result.  Returns [(probability the code itself assigns to the path, result, script)]."""
    leaves, stack = [], [[]]
    while stack:
        script = stack.pop()
        rng = ForcedRng(script)
        try:
            res = run_with_rng(rng)
        except Pruned:
            continue
        except NeedDecision as nd:
            if nd.kind == "random":
                stack.append(script + ["N"])
                stack.append(script + ["J"])
            else:
                for k, pk in enumerate(nd.info):
                    if pk > 0:
                        stack.append(script + [k])
            continue
        prob = 1.0
        for entry in rng.log:
            if entry[0] == "random":
                thr = entry[2]
                if thr is None:
                    raise RuntimeError("a drawn random number was never compared with a threshold")
                thr = min(max(thr, 0.0), 1.0)
                prob *= thr if entry[1] == "J" else (1.0 - thr)
            else:
                prob *= entry[2][entry[1]]
        if prob > 0:
            leaves.append((prob, res, script))
        if len(leaves) > max_leaves:
            raise RuntimeError("outcome tree too large")
    return leaves


# ---- lottery correspondence: real create_probability_distribution vs Model/NoiseAttrib ---------------------------
ONE_NAMES = ["lowering", "raising", "pauli_x", "pauli_y", "pauli_z"]
TWO_ADJ = ["crosstalk_xx", "crosstalk_xy", "crosstalk_zx", "crosstalk_yz", "lowering_two", "raising_two"]
TWO_LONG = ["crosstalk_xx", "crosstalk_zy", "crosstalk_yx"]
PAULI_NAMES = {"pauli_x", "pauli_y", "pauli_z"} | {f"crosstalk_{a}{b}" for a in "xyz" for b in "xyz"}


def random_processes(rng, L, nmax=4, allow_long=True):
    procs = []
    for _ in range(int(rng.integers(1, nmax + 1))):
        u = rng.random()
        g = float(rng.choice([0.05, 0.1, 0.3, 0.7, 1.0]))
        if u < 0.5 or L < 2:
            procs.append({"name": str(rng.choice(ONE_NAMES)), "sites": [int(rng.integers(0, L))], "strength": g})
        elif u < 0.85 or L < 3 or not allow_long:
            s = int(rng.integers(0, L - 1))
            procs.append({"name": str(rng.choice(TWO_ADJ)), "sites": [s, s + 1], "strength": g})
        else:
            s = int(rng.integers(0, L - 2))
            t = int(rng.integers(s + 2, L))
            procs.append({"name": str(rng.choice(TWO_LONG)), "sites": [s, t], "strength": g})
    # user-defined one-site operators sharing ONE label and ONE strength but not their matrix (decay here, something else there)
    if rng.random() < 0.2:
        g = float(rng.choice([0.1, 0.3, 0.7]))
        for st_ in rng.permutation(L)[: min(L, 2)]:
            procs.insert(int(rng.integers(0, len(procs) + 1)), {"name": "custom", "sites": [int(st_)], "strength": g, "mseed": int(rng.integers(1, 10**6))})
    # a legal corner: some processes with strength exactly 0 (NoiseModel.sample clamps negative draws to 0), anywhere in the list
    if len(procs) >= 2 and rng.random() < 0.2:
        k = int(rng.integers(0, len(procs) - 1))
        procs[k]["strength"] = 0.0
    return procs


def custom_matrix(mseed):
    """the one-site jump operator a user supplies under a label of their own (deterministic in the seed; generic, not Hermitian)"""
    # a weighted exchange a|0><1| + b|1><0| (decay and heating with different amplitudes): not Hermitian, different for every seed, and
    # L^+L is diagonal, so that the damping factors of all processes commute and the order of the sweep does not enter the reference
    r = np.random.default_rng(mseed)
    a, b = (r.uniform(0.3, 1.2) * np.exp(1j * r.uniform(0, 2 * np.pi)) for _ in range(2))
    return np.array([[0, a], [b, 0]], dtype=complex)


def nm_procs(procs, scale=1.0):
    """process dicts for NoiseModel: user-defined operators (key 'mseed') get their matrix; strengths optionally rescaled"""
    out = []
    for p in procs:
        q = {k: v for k, v in p.items() if k != "mseed"}
        if "mseed" in p:
            q["matrix"] = custom_matrix(p["mseed"])
        q["strength"] = p["strength"] * scale
        out.append(q)
    return out


def dense_op(proc, L):
    from mqt.yaqs.core.data_structures.noise_model import NoiseModel

    sites = proc["sites"]
    if "mseed" in proc:
        return dense.op_on(L, {sites[0]: custom_matrix(proc["mseed"])})
    if "matrix" in proc and len(sites) == 1 and proc["name"] == "custom":
        return dense.op_on(L, {sites[0]: np.asarray(proc["matrix"], dtype=complex)})
    if len(sites) == 1:
        return dense.op_on(L, {sites[0]: np.asarray(NoiseModel.get_operator(proc["name"]), dtype=complex)})
    a, b = sites
    if proc["name"].startswith("crosstalk_"):
        s = proc["name"].rsplit("_", 1)[-1]
        return dense.op_on(L, {a: dense.PAULI[s[0]], b: dense.PAULI[s[1]]})
    m = np.asarray(NoiseModel.get_operator(proc["name"]), dtype=complex)
    return np.kron(np.kron(np.eye(2**a), m), np.eye(2 ** (L - a - 2)))


def dissipation_case(rng, L, local_dt=None):
    """Real apply_dissipation on a random entangled state: (a) the vector afterwards vs prod_k exp(-dt/2 gamma_k L_k^+ L_k) v
    computed densely, each process with ITS OWN strength; (b) the order in which the damping operators of the non-Pauli
    processes are contracted in (identified by matching the operator handed to opt_einsum against each process's own
    exponential) vs NoiseAttrib.damp_schedule.  Strengths are pairwise distinct so that the identification is unambiguous."""
    import scipy.linalg

    import mqt.yaqs.core.methods.dissipation as DM
    from mqt.yaqs.core.data_structures.noise_model import NoiseModel
    from mqt.yaqs.core.data_structures.simulation_parameters import AnalogSimParams, Observable

    from drivers.C11 import random_mps

    procs = random_processes(rng, L, nmax=5, allow_long=True)
    if rng.random() < 0.6:  # the same process kind on several sites
        nm_ = str(rng.choice(["lowering", "raising", "lowering", "pauli_x"]))
        procs += [{"name": nm_, "sites": [int(q)], "strength": 0.3} for q in rng.choice(L, size=min(L, int(rng.integers(2, 4))), replace=False)]
    for k, p in enumerate(procs):
        p["strength"] = float(p["strength"]) + 0.013 * (k + 1)
    nm = NoiseModel(nm_procs(procs))
    mps = random_mps(rng, L, 3)
    v = dense.mps_dense(mps)
    dt = float(local_dt if local_dt is not None else rng.choice([0.1, 0.05, 0.5]))
    par = AnalogSimParams([Observable("z", 0)], elapsed_time=dt, dt=dt, show_progress=False, threshold=1e-14, max_bond_dim=64)
    expected_ops = {}
    for k, p in enumerate(nm.processes):
        if p["name"] not in PAULI_NAMES and "matrix" in p:
            m = np.asarray(p["matrix"], dtype=complex)
            expected_ops[k] = scipy.linalg.expm(-0.5 * dt * p["strength"] * (m.conj().T @ m))
    order = []

    class Proxy:
        def __getattr__(self, name):
            return getattr(real_oe, name)

        def contract(self, spec, *ops, **kw):
            if spec.replace(" ", "") == "ab,bcd->acd" and np.ndim(ops[0]) == 2:
                hits = [k for k, e in expected_ops.items() if e.shape == np.shape(ops[0]) and np.allclose(e, ops[0], atol=1e-13)]
                order.append(hits[0] if len(hits) == 1 else ("?", len(hits)))
            return real_oe.contract(spec, *ops, **kw)

    real_oe = DM.oe
    DM.oe = Proxy()
    try:
        DM.apply_dissipation(mps, nm, dt, par)
        err = None
    except Exception as e:  # noqa: BLE001
        err = f"EXC:{type(e).__name__}:{e}"
    finally:
        DM.oe = real_oe
    want = v.copy()
    for p in nm.processes:
        lk = dense_op(p, L)
        want = scipy.linalg.expm(-0.5 * dt * p["strength"] * (lk.conj().T @ lk)) @ want
    got = None if err else dense.mps_dense(mps)
    kinds = g_list([(f"One {p['sites'][0]}%nat" if len(p["sites"]) == 1 else f"Two {p['sites'][0]}%nat {p['sites'][1]}%nat") for p in nm.processes])
    nonpauli = g_list([g_bool(k in expected_ops) for k in range(len(nm.processes))])
    expr = f"map snd (filter (fun e => nth (snd e) {nonpauli} false) (damp_schedule {g_nat(L)} {kinds}))"
    desc = {"L": L, "dt": dt, "processes": [(p["name"], p["sites"], p["strength"]) for p in nm.processes]}
    dev = None if got is None else float(np.linalg.norm(got - want))
    return desc, order, err, dev, expr


def mcwf_operators_case(rng, L):
    """preprocess_mcwf: the jump operators are sqrt(gamma_k) L_k of the processes with gamma_k > 0, in list order, each with ITS OWN
    strength, and H_eff = H - i/2 sum_k gamma_k L_k^+ L_k.  Returns a description and None or what differs."""
    from mqt.yaqs.analog.mcwf import preprocess_mcwf
    from mqt.yaqs.core.data_structures.networks import MPO, MPS
    from mqt.yaqs.core.data_structures.noise_model import NoiseModel
    from mqt.yaqs.core.data_structures.simulation_parameters import AnalogSimParams, Observable

    procs = random_processes(rng, L, nmax=5, allow_long=True)
    for k, p in enumerate(procs):
        if p["strength"] > 0:
            p["strength"] = float(p["strength"]) + 0.017 * (k + 1)
    if rng.random() < 0.5:
        procs.insert(int(rng.integers(0, len(procs) + 1)), {"name": str(rng.choice(["pauli_z", "lowering"])), "sites": [int(rng.integers(0, L))], "strength": 0.0})
    nm = NoiseModel(nm_procs(procs))
    J, g = float(rng.uniform(0.3, 1.2)), float(rng.uniform(0.3, 1.0))
    par = AnalogSimParams([Observable("z", 0)], elapsed_time=0.1, dt=0.1, solver="MCWF", show_progress=False)
    ctx = preprocess_mcwf(MPS(L, state="zeros"), MPO.ising(L, J, g), nm, par)
    desc = {"L": L, "processes": [(p["name"], p["sites"], p["strength"]) for p in nm.processes]}
    want = [np.sqrt(p["strength"]) * dense_op(p, L) for p in nm.processes if p["strength"] > 0]
    got = [np.asarray(op.todense() if hasattr(op, "todense") else op) for op in ctx.jump_ops]
    if len(got) != len(want):
        return desc, f"{len(got)} jump operators for {len(want)} processes of positive strength"
    for k, (a, b) in enumerate(zip(got, want)):
        if a.shape != b.shape or not np.allclose(a, b, atol=1e-12):
            return desc, f"jump operator {k} is not sqrt(gamma) L of the {k}-th process of positive strength"
    heff = dense.ising(L, J, g).astype(complex)
    for b in want:
        heff = heff - 0.5j * (b.conj().T @ b)
    h = np.asarray(ctx.heff.todense() if hasattr(ctx.heff, "todense") else ctx.heff)
    if not np.allclose(h, heff, atol=1e-10):
        return desc, "H_eff is not H - i/2 sum gamma L^+ L"
    return desc, None


def lottery_case(rng, L):
    """Real create_probability_distribution on a random (sub-normalised) state vs the model fed with dense norms."""
    from mqt.yaqs.core.data_structures.noise_model import NoiseModel
    from mqt.yaqs.core.data_structures.simulation_parameters import AnalogSimParams, Observable
    from mqt.yaqs.core.methods.stochastic_process import create_probability_distribution

    from drivers.C11 import random_mps

    procs = random_processes(rng, L)
    if L >= 3 and rng.random() < 0.35:  # gate-local style lists: nothing on the leftmost site(s)
        procs = [p for p in procs if min(p["sites"]) >= 1] or [{"name": "lowering", "sites": [L - 1], "strength": 0.3},
                                                                {"name": "pauli_z", "sites": [L - 1], "strength": 0.2}]
    if all(p["strength"] == 0 for p in procs):  # the lottery is only ever run for a model with some positive strength
        procs[0]["strength"] = 0.3
    nm = NoiseModel(nm_procs(procs))
    mps = random_mps(rng, L, 3)
    scale = float(rng.uniform(0.6, 1.0))
    mps.tensors[0] = mps.tensors[0] * scale  # a state after dissipation is sub-normalised
    v = dense.mps_dense(mps)
    dt = float(rng.choice([0.1, 0.05, 1.0]))
    par = AnalogSimParams([Observable("z", 0)], elapsed_time=dt, dt=dt, show_progress=False, threshold=1e-14)
    try:
        got = [float(x) for x in create_probability_distribution(mps, nm, dt, par)]
    except Exception as e:  # noqa: BLE001
        got = f"EXC:{type(e).__name__}:{e}"
    nstate = float(np.vdot(v, v).real)
    items = []
    for p in nm.processes:
        lv = dense_op(p, L) @ v
        items.append((p, float(np.vdot(lv, lv).real)))
    gp = []
    for p, nj in items:
        s = p["sites"]
        kind = f"One {s[0]}%nat" if len(s) == 1 else f"Two {s[0]}%nat {s[1]}%nat"
        gp.append(f"(Build_proc FN ({kind}) {g_bool(p['name'] in PAULI_NAMES)} {g_float(p['strength'])} {g_float(nj)})")
    expr = f"probabilities FN {g_nat(L)} {g_float(dt)} {g_float(nstate)} {g_list(gp)}"
    desc = {"L": L, "dt": dt, "processes": [(p["name"], p["sites"], p["strength"]) for p in nm.processes]}
    return desc, got, expr
