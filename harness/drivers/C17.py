"""C17 — a reconstructed process tensor predicts held-out interventions exactly.

Tie: the live probe states (get_basis_states) vs the constants of Model/Tomo.v; the live expansion of random 2x2 matrices in the
probe states vs the model's explicit coefficients (evaluated over the same doubles in numpy — the Coq theorem is over all of C);
the live dual frame reproduces every 4x4 matrix (frame completeness) and the Choi index order is (prep, meas).
Search: tomography.run + ProcessTensor.predict_final_state on HELD-OUT preparations and CPTP interventions (unitary,
amplitude damping, dephasing) against the partial trace of the dense evolution, one and two segments, TJM and MCWF back-ends.
"""
from __future__ import annotations

import numpy as np

import common
from drivers import dense

RULE = ("random complex 2x2 / 4x4 matrices for the frame identities; tomography: chains L=2..3, ising / random-field Hamiltonians, "
        "1 and 2 segments, held-out preparations (random pure/mixed) and interventions (unitary, amplitude damping, dephasing); "
        "non-trivial = a preparation or intervention outside the probe set; distinct by seed")
TRUSTED = ["dense evolution + partial trace (harness)", "modelled, not verified: numpy pinv, the sequence bookkeeping, the weighted "
           "aggregation, exactness of the simulated segments (C05)"]
ASSUMES = ["noise-free dynamics; environment starts in all-zeros",
           "a segment duration t is represented by round(t/dt) time steps: the exact reference evolves for round(t/dt)*dt"]


def correspond(ctx):
    from mqt.yaqs.characterization.tomography.tomography import calculate_dual_choi_basis, get_basis_states, get_choi_basis

    ctx.rules.append(RULE)
    bs = get_basis_states()
    model = {"zeros": np.array([[1, 0], [0, 0]], dtype=complex), "ones": np.array([[0, 0], [0, 1]], dtype=complex),
             "x+": np.array([[0.5, 0.5], [0.5, 0.5]], dtype=complex), "y+": np.array([[0.5, -0.5j], [0.5j, 0.5]], dtype=complex)}
    names = [b[0] for b in bs]
    ctx.case(nontrivial_key="probe-states", validated=True, sample={"probe_states": names})
    if names != ["zeros", "ones", "x+", "y+"]:
        ctx.mismatch("order of the probe states vs Tomo.v", names, names, ["zeros", "ones", "x+", "y+"])
    for nme, _, rho in bs:
        if nme in model and not np.allclose(rho, model[nme], atol=1e-15):
            ctx.mismatch("probe state vs Tomo.v constant", nme, rho, model[nme])
    rhos = [b[2] for b in bs]
    choi, idx = get_choi_basis()
    duals = calculate_dual_choi_basis(choi)
    if idx != [(p, m) for p in range(4) for m in range(4)]:
        ctx.mismatch("Choi index order", "indices", idx, "(prep, meas) row-major")
    for k in range(ctx.scale(60, 1000)):
        a, b, c, d = (complex(x) for x in (ctx.rng.normal(size=4) + 1j * ctx.rng.normal(size=4)))
        kp, ky = b + c, 1j * (b - c)
        k0, k1 = a - 0.5 * (kp + ky), d - 0.5 * (kp + ky)
        m = k0 * rhos[0] + k1 * rhos[1] + kp * rhos[2] + ky * rhos[3]
        ctx.case(nontrivial_key=("expand", k), validated=True)
        ctx.count("expansions")
        if not np.allclose(m, np.array([[a, b], [c, d]]), atol=1e-12):
            ctx.mismatch("expansion of a 2x2 matrix in the live probe states with Tomo.v's coefficients", [a, b, c, d], m, "[[a,b],[c,d]]")
        j = ctx.rng.normal(size=(4, 4)) + 1j * ctx.rng.normal(size=(4, 4))
        rec = sum(np.trace(dk.conj().T @ j) * bk for dk, bk in zip(duals, choi))
        if not np.allclose(rec, j, atol=1e-10):
            ctx.mismatch("dual frame reconstruction sum_a <D_a,J> B_a = J", "random J", float(np.max(np.abs(rec - j))), 0.0)
    bookkeeping_correspondence(ctx)


def bookkeeping_trace(rng, k_steps, ntraj):
    """tomography.run with the parallel runner replaced by a scripted one that delivers the jobs in a random order and a synthetic
    worker whose output depends on (tuple of the sequence, trajectory) only.  Returns what the real aggregation put into the
    tensor and the weights for every tuple, and the synthetic values."""
    import mqt.yaqs.characterization.tomography.tomography as TM
    from mqt.yaqs.core.data_structures.networks import MPO
    from mqt.yaqs.core.data_structures.noise_model import NoiseModel
    from mqt.yaqs.core.data_structures.simulation_parameters import AnalogSimParams

    def synth(seq, t):
        h = (sum((i + 1) * 17 * a for i, a in enumerate(seq)) + 7 * t) % 64
        rho = np.array([[h / 64.0, (t + 1) / 8.0 + 0.25j * (seq[0] % 3)], [(t + 1) / 8.0 - 0.25j * (seq[0] % 3), 1 - h / 64.0]], dtype=complex)
        w = (1 + (seq[-1] % 4) + t) / 8.0
        return rho, w

    seen = {}

    def fake_runner(worker_fn, payload, n_jobs, max_workers, show_progress=False, desc="", **kw):  # noqa: ARG001
        nt = payload["num_trajectories"]
        seqs = payload["worker_sequences"]
        seen["order"] = [tuple(x) for x in seqs]
        for j in rng.permutation(n_jobs):
            si, t = int(j) // nt, int(j) % nt
            rho, w = synth(tuple(seqs[si]), t)
            yield int(j), (si, t, [rho], w)

    saved = TM.run_backend_parallel
    TM.run_backend_parallel = fake_runner
    try:
        par = AnalogSimParams(observables=[], elapsed_time=0.1, dt=0.1, show_progress=False, get_state=True)
        nm = NoiseModel([{"name": "pauli_z", "sites": [0], "strength": 0.1}]) if ntraj > 1 else None
        pt = TM.run(MPO.ising(2, 1.0, 0.5), par, timesteps=[0.1] * k_steps, num_trajectories=ntraj, noise_model=nm)
    finally:
        TM.run_backend_parallel = saved
    return pt, synth, seen.get("order", [])


def bookkeeping_correspondence(ctx):
    import itertools

    for k in range(ctx.scale(4, 30)):
        k_steps = 1 if k % 2 == 0 else 2
        ntraj = int(ctx.rng.choice([1, 2, 3, 5]))
        pt, synth, order = bookkeeping_trace(ctx.rng, k_steps, ntraj)
        ctx.case(nontrivial_key=("bookkeeping", k_steps, ntraj, k) if ntraj > 1 else None, validated=True)
        ctx.count("bookkeeping_runs")
        if order == sorted(order):
            ctx.notes.append("sequence list was not shuffled in this run")
        worst, where = 0.0, None
        for seq in itertools.product(range(16), repeat=k_steps):
            # TomoAgg.tensor_at: the average over the trajectories of THIS tuple of weight * rho, and of the weight
            want = sum(synth(seq, t)[0] * synth(seq, t)[1] for t in range(ntraj)) / ntraj
            wantw = sum(synth(seq, t)[1] for t in range(ntraj)) / ntraj
            got = pt.tensor[(slice(None), *seq)].reshape(2, 2)
            dev = max(float(np.max(np.abs(got - want))), abs(float(pt.weights[seq]) - wantw))
            if dev > worst:
                worst, where = dev, seq
        if worst > 1e-12:
            ctx.mismatch("process-tensor entries after tomography.run's aggregation vs TomoAgg.tensor_at (own-tuple average)",
                         {"steps": k_steps, "num_trajectories": ntraj, "tuple": where}, worst, 0.0, key="bookkeeping")


def kraus_map(kind, rng):
    if kind == "unitary":
        z = rng.normal(size=(2, 2)) + 1j * rng.normal(size=(2, 2))
        q, _ = np.linalg.qr(z)
        ks = [q]
    elif kind == "damping":
        g = float(rng.uniform(0.1, 0.9))
        ks = [np.array([[1, 0], [0, np.sqrt(1 - g)]], dtype=complex), np.array([[0, np.sqrt(g)], [0, 0]], dtype=complex)]
    else:
        p = float(rng.uniform(0.1, 0.9))
        ks = [np.sqrt(1 - p) * np.eye(2, dtype=complex), np.sqrt(p) * dense.Z]
    return ks


def tomo_oracle(args):
    from mqt.yaqs.characterization.tomography import tomography
    from mqt.yaqs.core.data_structures.networks import MPO
    from mqt.yaqs.core.data_structures.simulation_parameters import AnalogSimParams

    rng = np.random.default_rng(args["seed"])
    L, segs, solver = args["L"], args["segments"], args["solver"]
    J, g = float(rng.uniform(0.5, 1.2)), float(rng.uniform(0.3, 1.0))
    # weakly driven chains: the forced projections between the segments then have branch weights of 1e-10 and below
    J, g = float(args.get("J", J)), float(args.get("g", g))
    H, hd = MPO.ising(L, J, g), dense.ising(L, J, g)
    if args.get("ham") == "pauli":  # site-dependent fields and couplings: not symmetric under reversing the chain
        from drivers.C05 import pauli_terms

        terms, hd = pauli_terms(L, rng)
        H = MPO()
        H.from_pauli_sum(terms=terms, length=L)
    dt = args.get("dt", 0.05)
    par = AnalogSimParams(observables=[], elapsed_time=segs[0], dt=dt, solver=solver, show_progress=False, threshold=1e-13,
                          max_bond_dim=16, get_state=True, order=int(args.get("order", 2)))
    with common.time_limit(900):
        pt = tomography.run(H, par, timesteps=list(segs), num_trajectories=1)
    # held-out preparations and interventions: SEVERAL predictions from the same process tensor (a prediction must not depend on
    # the predictions made before), with freshly built closures each time and with one function object whose parameters change
    env = np.zeros(2 ** (L - 1), dtype=complex)
    env[0] = 1.0
    state = {}

    def prep_fn(x):
        return np.trace(x) * state["rho"]

    worst = None
    for rep in range(args.get("predictions", 4)):
        psi = rng.normal(size=2) + 1j * rng.normal(size=2)
        psi /= np.linalg.norm(psi)
        mix = float(rng.uniform(0, 0.4))
        rho_prep = (1 - mix) * np.outer(psi, psi.conj()) + mix * np.eye(2) / 2
        maps = [kraus_map(str(rng.choice(["unitary", "damping", "dephasing"])), rng) for _ in range(len(segs) - 1)]
        state["rho"] = rho_prep
        first = prep_fn if rep % 2 else (lambda x, r=rho_prep: np.trace(x) * r)
        inter = [first] + [lambda x, ks=ks: sum(k @ x @ k.conj().T for k in ks) for ks in maps]
        queried = ""
        if rep >= 1 and args.get("queries", True):
            # history: the read-only queries of the returned object are used between predictions
            try:
                pt.to_linear_map_matrix() if rep % 2 else None
                pt.quantum_mutual_information()
                queried = ", after to_linear_map_matrix / quantum_mutual_information on the same object"
            except Exception:  # noqa: BLE001 — the queries themselves are not the subject here
                pass
        pred = pt.predict_final_state(inter)
        del inter, first
        # dense reference
        rho = np.kron(rho_prep, np.outer(env, env.conj()))
        for s, t in enumerate(segs):
            # the simulators live on the time grid: a duration is represented by round(t/dt) steps (C15); durations that are
            # nominal multiples of dt (0.15 = 3 * 0.05 although 0.15/0.05 = 2.9999999999999996) must get exactly that many
            u = dense.evolve(hd, np.eye(2**L, dtype=complex), round(t / dt) * dt)
            rho = u @ rho @ u.conj().T
            if s < len(maps):
                rho = sum(np.kron(k, np.eye(2 ** (L - 1))) @ rho @ np.kron(k, np.eye(2 ** (L - 1))).conj().T for k in maps[s])
        red = rho.reshape(2, 2 ** (L - 1), 2, 2 ** (L - 1)).trace(axis1=1, axis2=3)
        err = float(np.max(np.abs(pred - red)))
        if err > 2e-4 and worst is None:
            worst = (f"predict_final_state differs from the partial trace of the exact evolution by {err:.3e} (L={L}, segments={segs}, "
                     f"solver={solver}, prediction number {rep + 1} from the same process tensor{queried}, held-out preparation with mixing {mix:.2f})")
    return worst


def search(ctx):
    plan = [dict(seed=1, L=2, segments=[0.2], solver="TJM"), dict(seed=2, L=3, segments=[0.15], solver="TJM"),
            dict(seed=3, L=2, segments=[0.1], solver="MCWF"), dict(seed=4, L=2, segments=[0.1, 0.15], solver="TJM"),
            dict(seed=5, L=2, segments=[0.3], solver="MCWF", dt=0.1),
            # the dense back-end with intermediate interventions (re-preparation of an evolved, complex state)
            dict(seed=6, L=2, segments=[0.1, 0.1], solver="MCWF"), dict(seed=7, L=3, segments=[0.2, 0.1], solver="MCWF", dt=0.1),
            dict(seed=8, L=3, segments=[0.1], solver="MCWF", dt=0.1, ham="pauli"), dict(seed=9, L=2, segments=[0.1, 0.2], solver="MCWF", dt=0.1, ham="pauli"),
            dict(seed=10, L=3, segments=[0.1, 0.1], solver="TJM", ham="pauli"),
            # first-order driver; weak transverse fields (branch weights of the intermediate projections far below 1e-8)
            dict(seed=11, L=2, segments=[0.1, 0.2], solver="TJM", order=1), dict(seed=12, L=2, segments=[0.1, 0.2], solver="TJM", order=1, g=1e-4, J=1.0),
            dict(seed=13, L=3, segments=[0.1, 0.1], solver="TJM", order=2, g=3e-4, J=0.7), dict(seed=14, L=2, segments=[0.05, 0.05, 0.05], solver="TJM", order=1, g=2e-5),
            dict(seed=15, L=2, segments=[0.1, 0.1], solver="MCWF", dt=0.1, g=1e-4),
            # the dense back-end on a chain whose Hilbert space (32, 64) exceeds a Krylov basis of 25 vectors, strongly coupled, long segments
            dict(seed=16, L=6, segments=[4.0], solver="MCWF", dt=0.1, J=1.5, g=1.0, predictions=2),
            dict(seed=17, L=6, segments=[2.0, 4.0], solver="MCWF", dt=0.1, J=1.5, g=1.0, predictions=2)]
    if not ctx.quick:
        plan += [dict(seed=int(ctx.rng.integers(0, 2**31)), L=int(ctx.rng.integers(2, 4)), segments=[0.1, 0.1] if k % 3 == 0 else [round(int(ctx.rng.integers(1, 7)) * 0.05, 2)] if k % 3 == 1
                      else [float(ctx.rng.uniform(0.05, 0.3))],
                      solver=str(ctx.rng.choice(["TJM", "MCWF"])), order=int(ctx.rng.integers(1, 3)),
                      **({"g": float(10.0 ** ctx.rng.uniform(-6, -2))} if k % 4 == 0 else {})) for k in range(10)]
    for a in plan:
        try:
            why = tomo_oracle(a)
        except common.HardTimeout:
            ctx.notes.append(f"tomography oracle timed out {a}")
            continue
        except Exception as e:  # noqa: BLE001
            why = f"tomography raised {type(e).__name__}: {e}"
        ctx.case(nontrivial_key=("tomo", str(a)), sample=a if len(ctx.samples) < 5 else None)
        ctx.count("tomography_runs")
        if why:
            ctx.violation("tomography", why, {"oracle": "tomo", "args": a})


def replay(ctx, data):
    rp = data.get("replay", data)
    if rp.get("oracle") == "tomo":
        return tomo_oracle(rp["args"])
    return "re-run the check: " + "; ".join(b["what"] for b in data.get("broken", []))
