"""C20 — a run depends only on its own arguments.

Tie: histories of 1-4 runs (noisy / noise-free, serial, and parallel through the deterministic executor of C13) on ONE
shared parameter object through the real front-ends (_run_strong_sim, _run_weak_sim, _run_analog) with the back-ends
replaced by counting stubs; executed trajectory counts, num_traj/shots afterwards, allocated rows and returned counts are
compared exactly with Model/Params.v.
Search: real runs — noise-free results of a reused object equal those of a fresh one; circuit / Hamiltonian / noise model /
initial state are deep-equal before and after; every trajectory draws from its own freshly OS-seeded Generator.
"""
from __future__ import annotations

import copy

import os

import numpy as np

import common
from common import g_bool, g_list, g_nat

RULE = ("histories = sequences of 1..4 runs, each noisy or noise-free, on one shared StrongSimParams / AnalogSimParams / "
        "WeakSimParams object, serial or parallel; non-trivial = a noisy run follows a noise-free one or vice versa; "
        "distinct by (class, history, num_traj/shots)")
TRUSTED = ["translator harness/gen/translate_init.py (Observable.initialize -> Gen/InitGen.v), validated against the real method on every run",
           "correspondence harness: counting stubs for digital_tjm / analog_tjm_1/2 / lindblad / mcwf in simulator's namespace",
           "modelled, not verified: independence of the OS entropy behind separate numpy default_rng() calls (also in forked workers)"]
ASSUMES = ["the observable effect of a run = (trajectories executed, shots/counts returned, result values as a function of the "
           "per-trajectory values)"]

HEADER = "From Coq Require Import List. Import ListNotations.\nFrom Yaqs Require Import Model.Params."


def run_history(kind, hist, n, parallel=False):
    """Returns per run: (calls, num_traj_or_shots_after, rows_or_counts)."""
    import mqt.yaqs.simulator as S
    from mqt.yaqs.core.data_structures.networks import MPO, MPS
    from mqt.yaqs.core.data_structures.noise_model import NoiseModel
    from mqt.yaqs.core.data_structures.simulation_parameters import AnalogSimParams, Observable, StrongSimParams, WeakSimParams
    from qiskit import QuantumCircuit

    from drivers.C13 import Sched

    nm_on = NoiseModel([{"name": "pauli_x", "sites": [0], "strength": 0.1}])
    nm_off = [None, NoiseModel([{"name": "pauli_x", "sites": [0], "strength": 0.0}])]
    saved = (S.digital_tjm, S.analog_tjm_1, S.analog_tjm_2, S.ProcessPoolExecutor, S.wait, S.available_cpus)
    qc = QuantumCircuit(2)
    qc.h(0)
    obs = [Observable("z", 0)]
    if kind == "strong":
        p = StrongSimParams(obs, num_traj=n, show_progress=False)
    elif kind == "analog":
        p = AnalogSimParams(obs, elapsed_time=0.2, dt=0.1, num_traj=n, show_progress=False)
    else:
        p = WeakSimParams(shots=n, show_progress=False)
    out = []
    try:
        for k, noisy in enumerate(hist):
            calls = []

            def stub(args, p=p):
                calls.append(args[0])
                if kind == "weak":
                    return {0: int(p.shots)}
                return [np.full(o.trajectories.shape[1:], 1.0) for o in p.sorted_observables]

            S.digital_tjm = S.analog_tjm_1 = S.analog_tjm_2 = stub
            nm = nm_on if noisy else nm_off[k % 2]
            if parallel:
                sched = Sched([(0, "Ok")] * (4 * n + 8))
                S.ProcessPoolExecutor, S.wait = sched.executor, sched.wait
                S.available_cpus = lambda: 3
            if kind == "strong":
                S._run_strong_sim(MPS(2), qc, p, nm, parallel=parallel)  # noqa: SLF001
                out.append((len(calls), int(p.num_traj), int(p.observables[0].trajectories.shape[0])))
            elif kind == "analog":
                S._run_analog(MPS(2), MPO.ising(2, 1, 0.5), p, nm, parallel=parallel)  # noqa: SLF001
                out.append((len(calls), int(p.num_traj), int(p.observables[0].trajectories.shape[0])))
            else:
                S._run_weak_sim(MPS(2), qc, p, nm, parallel=parallel)  # noqa: SLF001
                out.append((len(calls), int(p.shots), int(sum(p.results.values()))))
    finally:
        S.digital_tjm, S.analog_tjm_1, S.analog_tjm_2, S.ProcessPoolExecutor, S.wait, S.available_cpus = saved
    return out


def run_solver_history(hist, n, parallel=False):
    """ONE AnalogSimParams object served by different back-ends: hist = [(solver, noisy), ...]; per run (calls, num_traj after, rows)."""
    import mqt.yaqs.simulator as S
    from mqt.yaqs.core.data_structures.networks import MPO, MPS
    from mqt.yaqs.core.data_structures.noise_model import NoiseModel
    from mqt.yaqs.core.data_structures.simulation_parameters import AnalogSimParams, Observable

    from drivers.C13 import Sched

    nm_on = NoiseModel([{"name": "pauli_x", "sites": [0], "strength": 0.1}])
    saved = (S.analog_tjm_1, S.analog_tjm_2, S.mcwf, S.lindblad, S.preprocess_mcwf, S.ProcessPoolExecutor, S.wait, S.available_cpus)
    p = AnalogSimParams([Observable("z", 0)], elapsed_time=0.2, dt=0.1, num_traj=n, show_progress=False)
    out = []
    try:
        for solver, noisy in hist:
            calls = []

            def stub(args, p=p):
                calls.append(args[0])
                return np.array([np.full(o.trajectories.shape[1:], 1.0) for o in p.sorted_observables])

            S.analog_tjm_1 = S.analog_tjm_2 = S.mcwf = S.lindblad = stub
            S.preprocess_mcwf = lambda *a, **k: "ctx"
            if parallel:
                sched = Sched([(0, "Ok")] * (4 * n + 8))
                S.ProcessPoolExecutor, S.wait = sched.executor, sched.wait
                S.available_cpus = lambda: 3
            p.solver = solver
            S._run_analog(MPS(2), MPO.ising(2, 1, 0.5), p, nm_on if noisy else None, parallel=parallel)  # noqa: SLF001
            out.append((len(calls), int(p.num_traj), int(p.observables[0].trajectories.shape[0])))
    finally:
        S.analog_tjm_1, S.analog_tjm_2, S.mcwf, S.lindblad, S.preprocess_mcwf, S.ProcessPoolExecutor, S.wait, S.available_cpus = saved
    return out


def solver_history_correspondence(ctx):
    cases = [([("Lindblad", False), ("TJM", True)], 6, False), ([("Lindblad", True), ("MCWF", True), ("TJM", False), ("TJM", True)], 4, False)]
    for _ in range(ctx.scale(16, 200)):
        hist = [(str(ctx.rng.choice(["TJM", "MCWF", "Lindblad"])), bool(ctx.rng.integers(0, 2))) for _ in range(int(ctx.rng.integers(1, 5)))]
        cases.append((hist, int(ctx.rng.integers(2, 8)), bool(ctx.rng.random() < 0.3)))
    exprs, impl = [], []
    for hist, n, par in cases:
        try:
            impl.append(run_solver_history(hist, n, par))
        except Exception as e:  # noqa: BLE001
            impl.append(f"EXC:{type(e).__name__}:{e}")
        runs = []
        for k in range(len(hist)):
            pre = g_list([f"({s_}, {g_bool(b)})" for s_, b in hist[:k]])
            runs.append(f"let r := run_analog {hist[k][0]} {g_bool(hist[k][1])} (analog_history {pre} {{| num_traj := {g_nat(n)}; traj_rows := 0%nat |}}) in "
                        f"(snd r, num_traj (fst r), traj_rows (fst r))")
        exprs.append("[" + "; ".join(runs) + "]")
    vals = common.coq_eval_sharded(HEADER, exprs, tag="c20s")
    for (hist, n, par), i, v in zip(cases, impl, vals):
        ctx.case(nontrivial_key=("solvers", tuple(hist), n, par) if len({s_ for s_, _ in hist}) > 1 else None, validated=True,
                 sample={"history(solver,noisy)": hist, "num_traj": n, "per_run(calls,param,rows)": i} if len(hist) > 2 and len(ctx.samples) < 8 else None)
        ctx.count("solver_histories")
        mv = [tuple(x) for x in v]
        if i != mv:
            ctx.mismatch("analog front-end over a history of back-ends vs Params.run_analog", {"history": hist, "n": n, "parallel": par}, i, mv, key="solver-history")
        if isinstance(i, list):
            for k, (calls, after, rows) in enumerate(i):
                want = 1 if (hist[k][0] == "Lindblad" or not hist[k][1]) else n
                if calls != want or after != n:
                    ctx.violation("history:solvers", f"analog run {k + 1} of history {hist} on one parameter object executed {calls} trajectories and left "
                                  f"num_traj={after}; a fresh object executes {want} and keeps num_traj={n}",
                                  {"oracle": "solver-history", "hist": [list(h) for h in hist], "n": n, "parallel": par})
                    break


def model_exprs(kind, hist, n):
    exprs = []
    for k in range(len(hist)):
        pre = g_list([g_bool(b) for b in hist[:k]])
        if kind == "weak":
            p0 = f"{{| shots := {g_nat(n)}; meas := repeat None {g_nat(n)} |}}"
            exprs.append(f"let r := run_weak {g_bool(hist[k])} (weak_history {pre} {p0}) in (snd (fst r), shots (fst (fst r)), snd r)")
        else:
            p0 = f"{{| num_traj := {g_nat(n)}; traj_rows := 0%nat |}}"
            exprs.append(f"let r := run_strong {g_bool(hist[k])} (strong_history {pre} {p0}) in (snd r, num_traj (fst r), traj_rows (fst r))")
    return exprs


def refused_then_run(kind, n, noisy, refusals=1):
    """a noisy circuit run that asks for the final state is refused (AssertionError) `refusals` times on ONE parameter object, then the
    corrected call (get_state off) runs; returns (refused as expected, value of shots / num_traj after the refusals, calls, value afterwards,
    rows or counts)"""
    import mqt.yaqs.simulator as S
    from qiskit import QuantumCircuit

    from mqt.yaqs.core.data_structures.networks import MPS
    from mqt.yaqs.core.data_structures.noise_model import NoiseModel
    from mqt.yaqs.core.data_structures.simulation_parameters import Observable, StrongSimParams, WeakSimParams

    nm_on = NoiseModel([{"name": "pauli_x", "sites": [0], "strength": 0.1}])
    qc = QuantumCircuit(2)
    qc.h(0)
    p = StrongSimParams([Observable("z", 0)], num_traj=n, get_state=True, show_progress=False) if kind == "strong" else WeakSimParams(shots=n, get_state=True, show_progress=False)
    saved = S.digital_tjm
    calls = []

    def stub(args, p=p):
        calls.append(args[0])
        if kind == "weak":
            return {0: int(p.shots)}
        return [np.full(o.trajectories.shape[1:], 1.0) for o in p.sorted_observables]

    S.digital_tjm = stub
    refused = 0
    try:
        for _ in range(refusals):
            try:
                (S._run_strong_sim if kind == "strong" else S._run_weak_sim)(MPS(2), qc, p, nm_on, parallel=False)  # noqa: SLF001
            except AssertionError:
                refused += 1
        between = int(p.num_traj if kind == "strong" else p.shots)
        calls.clear()
        p.get_state = False
        nm = nm_on if noisy else None
        if kind == "strong":
            S._run_strong_sim(MPS(2), qc, p, nm, parallel=False)  # noqa: SLF001
            return refused == refusals, between, len(calls), int(p.num_traj), int(p.observables[0].trajectories.shape[0])
        S._run_weak_sim(MPS(2), qc, p, nm, parallel=False)  # noqa: SLF001
        return refused == refusals, between, len(calls), int(p.shots), int(sum(p.results.values()))
    finally:
        S.digital_tjm = saved


def refused_correspondence(ctx):
    cases, exprs, impl = [], [], []
    for k in range(ctx.scale(12, 80)):
        kind = ("weak", "strong")[k % 2]
        n, noisy, refusals = int(ctx.rng.integers(2, 9)), bool((k // 2) % 2), 1 + (k // 4) % 2
        try:
            impl.append(refused_then_run(kind, n, noisy, refusals))
        except Exception as e:  # noqa: BLE001
            impl.append(f"EXC:{type(e).__name__}:{e}")
        h = g_list(["(true, true)"] * refusals)
        if kind == "weak":
            p0 = f"{{| shots := {g_nat(n)}; meas := repeat None {g_nat(n)} |}}"
            exprs.append(f"let q := weak_attempts {h} {p0} in let r := run_weak {g_bool(noisy)} q in (shots q, snd (fst r), shots (fst (fst r)), snd r)")
        else:
            p0 = f"{{| num_traj := {g_nat(n)}; traj_rows := 0%nat |}}"
            exprs.append(f"let q := strong_attempts {h} {p0} in let r := run_strong {g_bool(noisy)} q in (num_traj q, snd r, num_traj (fst r), traj_rows (fst r))")
        cases.append({"class": kind, "n": n, "noisy": noisy, "refusals": refusals})
    vals = common.coq_eval_sharded(HEADER, exprs, tag="c20r")
    for c, i, v in zip(cases, impl, vals):
        ctx.case(nontrivial_key=("refused", str(c)), validated=True)
        ctx.count("refused_then_run_" + c["class"])
        want = tuple(int(x) for x in v)
        if isinstance(i, str) or not i[0]:
            ctx.mismatch("a noisy circuit run that asks for the final state is refused (Params.attempt_*)", c, i, "AssertionError, object unchanged", key="refused")
            continue
        if tuple(i[1:]) != want:
            ctx.mismatch("parameter object after refused calls, and the corrected run, vs Params.weak_attempts / strong_attempts", c, list(i[1:]), list(want), key="refused")
        # the property itself: the corrected call executes what a fresh object would
        fresh = c["n"] if c["noisy"] else 1
        if i[2] != fresh or i[3] != c["n"] or (c["class"] == "weak" and i[4] != c["n"]):
            ctx.violation("refused-run:" + c["class"], f"{c['class']}: after {c['refusals']} refused call(s) (noisy run with get_state=True -> AssertionError) on a parameter "
                          f"object with {'shots' if c['class'] == 'weak' else 'num_traj'}={c['n']}, the object holds {i[1]}; the corrected {'noisy' if c['noisy'] else 'noise-free'} run "
                          f"executed {i[2]} trajectories (fresh object: {fresh}), left {i[3]} on the object and returned {i[4]} rows/counts",
                          {"oracle": "refused", **c})


def failed_then_run(kind, n, fail_noisy, noisy_after, pool=False):
    """through the PUBLIC entry point simulator.run, on ONE parameter object: a run whose engine raises midway (the trajectory routine
    raises NotImplementedError, as the real one does for a three-qubit gate), then a run that completes; returns (failed as expected,
    num_traj / shots between the two, trajectories executed by the second, value afterwards, rows or counts)"""
    import mqt.yaqs.simulator as S
    from qiskit import QuantumCircuit

    from mqt.yaqs.core.data_structures.networks import MPO, MPS
    from mqt.yaqs.core.data_structures.noise_model import NoiseModel
    from mqt.yaqs.core.data_structures.simulation_parameters import AnalogSimParams, Observable, StrongSimParams, WeakSimParams

    nm_on = NoiseModel([{"name": "pauli_x", "sites": [0], "strength": 0.1}])
    qc = QuantumCircuit(2)
    qc.h(0)
    if kind == "strong":
        p, op = StrongSimParams([Observable("z", 0)], num_traj=n, show_progress=False), qc
    elif kind == "analog":
        p, op = AnalogSimParams([Observable("z", 0)], elapsed_time=0.2, dt=0.1, num_traj=n, show_progress=False), MPO.ising(2, 1, 0.5)
    else:
        p, op = WeakSimParams(shots=n, show_progress=False), qc
    saved = (S.digital_tjm, S.analog_tjm_1, S.analog_tjm_2, S.ProcessPoolExecutor, S.wait, S.available_cpus)
    st, calls = {"fail": True}, []
    use_pool = bool(pool and fail_noisy and n > 1)  # the failure comes from the worker pool: every completion is a retryable error

    def stub(args, p=p):
        if st["fail"]:
            raise NotImplementedError("operation not supported (injected)")
        calls.append(args[0])
        if kind == "weak":
            return {0: int(p.shots)}
        return [np.full(o.trajectories.shape[1:], 1.0) for o in p.sorted_observables]

    S.digital_tjm = S.analog_tjm_1 = S.analog_tjm_2 = stub
    try:
        failed = False
        try:
            if use_pool:
                from concurrent.futures import CancelledError

                from drivers.C13 import Sched

                sched = Sched([(0, "Retry")] * 400)
                S.ProcessPoolExecutor, S.wait, S.available_cpus = sched.executor, sched.wait, (lambda: 3)
                try:
                    S.run(MPS(2), op, p, nm_on, parallel=True)
                except (TimeoutError, CancelledError, OSError):
                    failed = True
                finally:
                    S.ProcessPoolExecutor, S.wait, S.available_cpus = saved[3:]
            else:
                S.run(MPS(2), op, p, nm_on if fail_noisy else None, parallel=False)
        except NotImplementedError:
            failed = True
        between = int(p.shots if kind == "weak" else p.num_traj)
        st["fail"] = False
        S.run(MPS(2), op, p, nm_on if noisy_after else None, parallel=False)
        if kind == "weak":
            return failed, between, len(calls), int(p.shots), int(sum(p.results.values()))
        return failed, between, len(calls), int(p.num_traj), int(p.observables[0].trajectories.shape[0])
    finally:
        S.digital_tjm, S.analog_tjm_1, S.analog_tjm_2, S.ProcessPoolExecutor, S.wait, S.available_cpus = saved


def failed_correspondence(ctx):
    cases, exprs, impl = [], [], []
    for k in range(ctx.scale(24, 96)):
        kind = ("strong", "analog", "weak")[k % 3]
        n, fail_noisy, noisy_after = int(ctx.rng.integers(2, 9)), bool((k // 3) % 2), bool((k // 6) % 2)
        pool = bool((k // 12) % 2)
        try:
            impl.append(failed_then_run(kind, n, fail_noisy, noisy_after, pool))
        except Exception as e:  # noqa: BLE001
            impl.append(f"EXC:{type(e).__name__}:{e}")
        if pool and fail_noisy and n > 1:
            ctx.count("failed_run_from_the_worker_pool")
        h = f"[(Fails, {g_bool(fail_noisy)})]"
        if kind == "weak":
            p0 = f"{{| shots := {g_nat(n)}; meas := repeat None {g_nat(n)} |}}"
            exprs.append(f"let q := weak_tries {h} {p0} in let r := run_weak {g_bool(noisy_after)} q in (shots q, snd (fst r), shots (fst (fst r)), snd r)")
        else:
            p0 = f"{{| num_traj := {g_nat(n)}; traj_rows := 0%nat |}}"
            exprs.append(f"let q := strong_tries {h} {p0} in let r := run_strong {g_bool(noisy_after)} q in (num_traj q, snd r, num_traj (fst r), traj_rows (fst r))")
        cases.append({"class": kind, "n": n, "failed_run_noisy": fail_noisy, "noisy": noisy_after, "pool": pool})
    vals = common.coq_eval_sharded(HEADER + "\nFrom Yaqs Require Import Model.Failures.", exprs, tag="c20f")
    for c, i, v in zip(cases, impl, vals):
        ctx.case(nontrivial_key=("failed", str(c)), validated=True)
        ctx.count("failed_then_run_" + c["class"])
        want = tuple(int(x) for x in v)
        if isinstance(i, str) or not i[0]:
            ctx.mismatch("a run whose trajectory routine raises ends with that exception (Failures.try_*)", c, i, "NotImplementedError, object unchanged", key="failed-run")
            continue
        if tuple(i[1:]) != want:
            ctx.mismatch("parameter object after a failed run, and the next run, vs Failures.strong_tries / weak_tries", c, list(i[1:]), list(want), key="failed-run")
        fresh = c["n"] if c["noisy"] else 1
        if i[2] != fresh or i[3] != c["n"] or (c["class"] == "weak" and i[4] != c["n"]):
            what = "shots" if c["class"] == "weak" else "num_traj"
            ctx.violation("failed-run:" + c["class"], f"{c['class']}: a {'noisy' if c['failed_run_noisy'] else 'noise-free'} run on a parameter object with {what}={c['n']} failed inside the "
                          f"engine (NotImplementedError, as for an unsupported gate) and left {what}={i[1]} on the object; the next {'noisy' if c['noisy'] else 'noise-free'} run "
                          f"through simulator.run executed {i[2]} trajectories (fresh object: {fresh}), left {i[3]} and returned {i[4]} rows/counts",
                          {"oracle": "failed-run", **c})


def regenerate(ctx):
    """coq/Gen/InitGen.v from the current source of Observable.initialize (fail closed)"""
    from gen import translate_init

    translate_init.regenerate()


def init_rule_correspondence(ctx):
    """validation of the translator: the real Observable.initialize on parameter objects of all three classes (fresh observables and
    observables that carry the buffers of an earlier run) vs Gen/InitGen.init_shape_src"""
    from mqt.yaqs.core.data_structures.simulation_parameters import AnalogSimParams, Observable, StrongSimParams, WeakSimParams

    cases, exprs, impl = [], [], []
    for k in range(ctx.scale(30, 300)):
        n, mid, shots = int(ctx.rng.integers(1, 9)), int(ctx.rng.integers(0, 5)), int(ctx.rng.integers(1, 9))
        flag = bool(ctx.rng.integers(0, 2))
        steps = int(ctx.rng.integers(1, 7))
        cls = ("KAnalog", "KWeak", "KStrong")[k % 3]
        o = Observable("z", 0)
        if k % 2:  # the observable served an earlier run with other sizes
            o.initialize(StrongSimParams([o], num_traj=n + 3, sample_layers=flag, num_mid_measurements=mid, show_progress=False))
        if cls == "KAnalog":
            p = AnalogSimParams([o], elapsed_time=0.1 * steps, dt=0.1, num_traj=n, sample_timesteps=flag, show_progress=False)
            ntimes = len(p.times)
        elif cls == "KWeak":
            p, ntimes = WeakSimParams(shots=shots, show_progress=False), 0
        else:
            p, ntimes = StrongSimParams([o], num_traj=n, sample_layers=flag, num_mid_measurements=mid, show_progress=False), 0
        o.initialize(p)
        impl.append((int(o.trajectories.shape[0]), int(o.trajectories.shape[1]), int(np.shape(o.results)[0])))
        exprs.append(f"init_shape_src {cls} {g_bool(flag)} {g_nat(n)} {g_nat(ntimes)} {g_nat(shots)} {g_nat(mid)}")
        cases.append({"class": cls, "flag": flag, "num_traj": n, "times": ntimes, "shots": shots, "mid": mid, "used_before": bool(k % 2)})
    vals = common.coq_eval_sharded("From Coq Require Import List. Import ListNotations.\nFrom Yaqs Require Import Model.InitRule Gen.InitGen.", exprs, tag="c20i")
    for c, got, v in zip(cases, impl, vals):
        want = tuple(int(x) for x in v[1]) if isinstance(v, common.App) and v[0] == "Some" else None
        ctx.case(nontrivial_key=("init", str(c)) if c["used_before"] else None, validated=True)
        ctx.count("init_rule_cases")
        if got != want:
            ctx.mismatch("Observable.initialize (rows, columns of trajectories; length of results) vs Gen/InitGen.init_shape_src", c, list(got), list(want) if want else None, key="init-rule")


def shares(nm, other):
    """where two noise-model objects alias each other (None if nowhere)"""
    if other is nm:
        return "the same NoiseModel object"
    if other.processes is nm.processes:
        return "the same process list"
    for k, (a, b) in enumerate(zip(nm.processes, other.processes)):
        if a is b:
            return f"process dictionary {k} is shared"
        for key in ("matrix",):
            if key in a and key in b and isinstance(a[key], np.ndarray) and isinstance(b[key], np.ndarray) and a[key].size and np.shares_memory(a[key], b[key]):
                return f"the matrix of process {k} is shared"
        if isinstance(a.get("strength"), dict) and a.get("strength") is b.get("strength"):
            return f"the strength description of process {k} is shared"
    if getattr(nm, "scheduled_jumps", None) and other.scheduled_jumps is nm.scheduled_jumps:
        return "the same scheduled-jump list"
    for k, (a, b) in enumerate(zip(getattr(nm, "scheduled_jumps", []), getattr(other, "scheduled_jumps", []))):
        if a is b:
            return f"scheduled jump {k} is shared"
    return None


def alias_correspondence(ctx):
    """ObjStore.v: simulator.run works on a sample of the caller's noise model; the sample is a fresh object (Copy), so writes and
    prunings addressed to it never reach the caller.  Real NoiseModel.sample() + the same operation sequences on the real sample,
    caller's and sample's strengths afterwards vs run_on_sample; and the object that run() hands to the front-ends is a sample."""
    import mqt.yaqs.simulator as S
    from mqt.yaqs.core.data_structures.networks import MPO, MPS
    from mqt.yaqs.core.data_structures.noise_model import NoiseModel
    from mqt.yaqs.core.data_structures.simulation_parameters import AnalogSimParams, Observable

    names = ["pauli_x", "pauli_z", "lowering", "pauli_y", "raising"]
    cases, exprs, impl = [], [], []
    for k in range(ctx.scale(40, 400)):
        m = int(ctx.rng.integers(1, 6))
        strengths = [int(ctx.rng.choice([0, 0, 1, 2, 5, 8])) for _ in range(m)]
        procs = [{"name": str(ctx.rng.choice(names)), "sites": [int(ctx.rng.integers(0, 3))], "strength": st / 16} for st in strengths]
        if k % 5 == 0:
            procs.append({"name": "crosstalk_xz", "sites": [0, 2], "strength": 0.0})
            strengths.append(0)
        sched = [{"time": 0.1, "sites": [0], "name": "pauli_x"}] if k % 4 == 0 else None
        nm = NoiseModel(procs, scheduled_jumps=sched)
        ops = []
        for _ in range(int(ctx.rng.integers(1, 5))):
            ops.append(("Prune",) if ctx.rng.random() < 0.5 else ("Write", int(ctx.rng.integers(0, len(strengths) + 1)), int(ctx.rng.integers(0, 9))))
        sampled = nm.sample()
        why = shares(nm, sampled)
        for o in ops:
            if o[0] == "Prune":
                sampled.processes = [pr for pr in sampled.processes if pr["strength"] > 0]
            elif o[1] < len(sampled.processes):
                sampled.processes[o[1]]["strength"] = o[2] / 16
        got = ([int(round(pr["strength"] * 16)) for pr in nm.processes], [int(round(pr["strength"] * 16)) for pr in sampled.processes])
        impl.append((why, got))
        gops = "; ".join("Prune fresh" if o[0] == "Prune" else f"Write fresh {o[1]}%nat {o[2]}%Z" for o in ops)
        exprs.append(f"let h := run_on_sample [{g_list([str(x) + '%Z' for x in strengths])}] 0%nat (fun fresh => [{gops}]) in "
                     f"(nth 0%nat h [], nth 1%nat h [])")
        cases.append({"strengths_x16": strengths, "ops": [list(o) for o in ops]})
    vals = common.coq_eval_sharded("From Coq Require Import List ZArith. Import ListNotations.\nFrom Yaqs Require Import Model.ObjStore.", exprs, tag="c20o")
    for c, (why, got), v in zip(cases, impl, vals):
        ctx.case(nontrivial_key=("alias", str(c)) if 0 in c["strengths_x16"] and any(x for x in c["strengths_x16"]) else None, validated=True)
        ctx.count("alias_cases")
        want = ([int(x) for x in v[0]], [int(x) for x in v[1]])
        if why:
            ctx.mismatch("NoiseModel.sample() vs ObjStore.Copy (a fresh object)", c, why, "no part of the sample is shared with the model it was drawn from", key="alias")
        if got != want:
            ctx.mismatch("writes addressed to the sampled noise model vs ObjStore.run_on_sample (caller's strengths, sample's strengths)", c,
                         [list(got[0]), list(got[1])], [list(want[0]), list(want[1])], key="alias")
    # what run() hands on is a sample, for every front-end
    seen = {}
    saved = (S._run_analog, S._run_circuit)  # noqa: SLF001

    def grab(initial_state, operator, sim_params, noise_model, **kw):
        seen["nm"] = noise_model

    S._run_analog = S._run_circuit = grab  # noqa: SLF001
    try:
        from qiskit import QuantumCircuit

        from mqt.yaqs.core.data_structures.simulation_parameters import StrongSimParams, WeakSimParams

        nm = NoiseModel([{"name": "lowering", "sites": [0], "strength": 0.0}, {"name": "pauli_z", "sites": [1], "strength": 0.1}])
        qc = QuantumCircuit(2)
        qc.h(0)
        for label, op, par in (("analog", MPO.ising(2, 1.0, 0.5), AnalogSimParams([Observable("z", 0)], elapsed_time=0.1, dt=0.1, show_progress=False)),
                               ("strong", qc, StrongSimParams([Observable("z", 0)], show_progress=False)),
                               ("weak", qc, WeakSimParams(shots=2, show_progress=False))):
            seen.clear()
            S.run(MPS(2), op, par, nm, parallel=False)
            ctx.case(nontrivial_key=("handed-on", label), validated=True)
            why = "no noise model reached the front-end" if seen.get("nm") is None else shares(nm, seen["nm"])
            if why:
                ctx.mismatch("the noise model handed to the front-end vs ObjStore.run_on_sample (a sample, not the caller's object)", {"front_end": label}, why,
                             "a fresh sample", key="alias")
    finally:
        S._run_analog, S._run_circuit = saved  # noqa: SLF001


def correspond(ctx):
    ctx.rules.append(RULE)
    alias_correspondence(ctx)
    init_rule_correspondence(ctx)
    refused_correspondence(ctx)
    failed_correspondence(ctx)
    # layer sampling: the number of result columns of a run depends on the circuit of that run only (Params.run_layers)
    from drivers import C16

    C16.history_correspondence(ctx)
    solver_history_correspondence(ctx)
    cases = []
    for kind in ("strong", "analog", "weak"):
        for hist in ([False, True], [True, False], [True, False, True], [False, False, True, True], [True], [False]):
            cases.append((kind, hist, 5, False))
    for _ in range(ctx.scale(24, 300)):
        kind = str(ctx.rng.choice(["strong", "analog", "weak"]))
        hist = [bool(b) for b in ctx.rng.integers(0, 2, size=int(ctx.rng.integers(1, 5)))]
        cases.append((kind, hist, int(ctx.rng.integers(1, 8)), bool(ctx.rng.random() < 0.4)))
    exprs, impl = [], []
    for (kind, hist, n, par) in cases:
        try:
            impl.append(run_history(kind, hist, n, par))
        except Exception as e:  # noqa: BLE001
            impl.append(f"EXC:{type(e).__name__}:{e}")
        exprs.append("[" + "; ".join(model_exprs(kind, hist, n)) + "]")
    vals = common.coq_eval_sharded(HEADER, exprs, tag="c20")
    for (kind, hist, n, par), i, v in zip(cases, impl, vals):
        mixed = any(a != b for a, b in zip(hist, hist[1:]))
        ctx.case(nontrivial_key=(kind, tuple(hist), n, par) if mixed else None, validated=True,
                 sample={"class": kind, "history_noisy": hist, "num_traj_or_shots": n, "parallel": par, "per_run(calls,param,rows/counts)": i} if mixed else None)
        ctx.count("class_" + kind)
        ctx.count("parallel" if par else "serial")
        mv = [tuple(x) for x in v]
        if i != mv:
            ctx.mismatch("front-end history vs Params.run_*", {"class": kind, "history": hist, "n": n, "parallel": par}, i, mv)
        # the property itself
        if isinstance(i, list):
            for k, (calls, par_after, rows) in enumerate(i):
                want = (n if hist[k] else 1)
                if calls != want:
                    ctx.violation(f"history:{kind}", f"{kind}: run {k + 1} of history noisy={hist} executed {calls} trajectories, a fresh "
                                  f"object executes {want} (num_traj/shots={n})", {"oracle": "history", "kind": kind, "hist": hist, "n": n, "parallel": par})
                    break
                if par_after != n:
                    ctx.violation(f"param:{kind}", f"{kind}: after run {k + 1} of history noisy={hist} the object holds {par_after} instead of {n}",
                                  {"oracle": "history", "kind": kind, "hist": hist, "n": n, "parallel": par})
                    break
                if kind == "weak" and rows != n:
                    ctx.violation("counts:weak", f"weak: run {k + 1} of history noisy={hist} returned counts summing to {rows} for {n} shots",
                                  {"oracle": "history", "kind": kind, "hist": hist, "n": n, "parallel": par})
                    break


# ---- real runs ------------------------------------------------------------------------------------------------
def snapshot(obj):
    import qiskit

    from mqt.yaqs.core.data_structures.networks import MPO, MPS
    from mqt.yaqs.core.data_structures.noise_model import NoiseModel

    if isinstance(obj, (MPS, MPO)):
        return [np.array(t, copy=True) for t in obj.tensors]
    if isinstance(obj, NoiseModel):
        return [(p["name"], list(p["sites"]), p["strength"] if not isinstance(p["strength"], dict) else dict(p["strength"]),
                 np.array(p["matrix"], copy=True) if "matrix" in p else None,
                 [np.array(f, copy=True) for f in p["factors"]] if "factors" in p else None) for p in obj.processes] + [
                ("scheduled", j.get("name"), list(j.get("sites", [])), j.get("time")) for j in getattr(obj, "scheduled_jumps", [])]
    if isinstance(obj, qiskit.QuantumCircuit):
        return [(ci.operation.name, tuple(float(x) for x in ci.operation.params), tuple(obj.find_bit(q).index for q in ci.qubits)) for ci in obj.data]
    return copy.deepcopy(obj)


def same(a, b):
    if isinstance(a, np.ndarray):
        return a.shape == b.shape and np.array_equal(a, b)
    if isinstance(a, (list, tuple)):
        return len(a) == len(b) and all(same(x, y) for x, y in zip(a, b))
    return a == b


def pool_oracle(args):
    """Real process pools (several workers): trajectories of one run, and of consecutive runs on the same objects, must not repeat
    each other.  Noise is strong enough that every trajectory carries several randomly timed jumps (two independent trajectories
    coincide with probability ~0)."""
    from qiskit import QuantumCircuit
    from mqt.yaqs import simulator
    from mqt.yaqs.core.data_structures.networks import MPO, MPS
    from mqt.yaqs.core.data_structures.noise_model import NoiseModel
    from mqt.yaqs.core.data_structures.simulation_parameters import AnalogSimParams, Observable, StrongSimParams

    kind, n = args["kind"], args.get("n", 10)
    L = 3
    saved = os.environ.get("YAQS_MAX_WORKERS")
    os.environ["YAQS_MAX_WORKERS"] = str(args.get("workers", 4))
    try:
        if kind == "strong":
            nm = NoiseModel([{"name": nme, "sites": [i], "strength": 0.3} for i in range(L) for nme in ("pauli_x", "pauli_z")])
            qc = QuantumCircuit(L)
            for _ in range(6):
                for q in range(L):
                    qc.rx(0.4, q)
                qc.cx(0, 1); qc.cx(1, 2)  # noqa: E702
            p = StrongSimParams([Observable("z", i) for i in range(L)] + [Observable("x", 0)], num_traj=n, sample_layers=True, show_progress=False)
            op = qc
        else:
            nm = NoiseModel([{"name": nme, "sites": [i], "strength": 0.5} for i in range(L) for nme in ("lowering", "pauli_x")])
            p = AnalogSimParams([Observable("z", i) for i in range(L)] + [Observable("x", 0)], elapsed_time=3.0, dt=0.1, num_traj=n,
                                solver="MCWF" if kind == "analog-MCWF" else "TJM", show_progress=False)
            op = MPO.ising(L, 1.0, 0.5)
        st = MPS(L, state="x+")
        prev, prev_label = None, ""
        for label, par in args.get("history", [("parallel run 1", True), ("parallel run 2", True), ("serial run 3", False)]):
            simulator.run(st, op, p, nm, parallel=par)
            rows = np.hstack([np.real(np.asarray(o.trajectories)).astype(float).reshape(n, -1) for o in p.sorted_observables])
            if rows.shape[0] != n:
                return f"{kind}: {label} delivered {rows.shape[0]} trajectories, requested {n}"
            dup = [(i, j) for i in range(n) for j in range(i + 1, n) if np.array_equal(rows[i], rows[j])]
            if dup:
                return (f"{kind}: {label} with {os.environ['YAQS_MAX_WORKERS']} workers: trajectories {dup[0][0]} and {dup[0][1]} are bit-identical "
                        f"({len(dup)} identical pairs among {n} noisy trajectories) — their randomness is not independent")
            if prev is not None:
                cross = [(i, j) for i in range(n) for j in range(n) if np.array_equal(prev[i], rows[j])]
                if cross:
                    return f"{kind}: trajectory {cross[0][1]} of {label} repeats trajectory {cross[0][0]} of {prev_label} bit for bit"
            prev, prev_label = rows, label
    finally:
        if saved is None:
            os.environ.pop("YAQS_MAX_WORKERS", None)
        else:
            os.environ["YAQS_MAX_WORKERS"] = saved
    return None


def same_name_oracle(args):
    """two runs in one interpreter whose noise models carry DIFFERENT user-defined operators under the SAME name, strength and time step:
    the second run (dephasing-like operator Z on a classical state under a diagonal Hamiltonian / diagonal gates: <Z_i> = 1 in every
    trajectory, whatever is drawn) must not inherit anything computed for the first"""
    from qiskit import QuantumCircuit

    from mqt.yaqs import simulator
    from mqt.yaqs.core.data_structures.networks import MPO, MPS
    from mqt.yaqs.core.data_structures.noise_model import NoiseModel
    from mqt.yaqs.core.data_structures.simulation_parameters import AnalogSimParams, Observable, StrongSimParams

    L, kind = 3, args["kind"]
    plus, minus = np.array([1, 1]) / np.sqrt(2), np.array([1, -1]) / np.sqrt(2)
    first = np.outer(plus, minus).astype(complex)      # |+><-|: not Hermitian, L^+L = |-><-|
    second = np.diag([1.0, -1.0]).astype(complex)      # Z: L^+L = 1

    def nm(mat):
        return NoiseModel([{"name": args.get("name", "custom"), "sites": [i], "strength": 0.2, "matrix": mat.copy()} for i in range(L)])

    def run(mat):
        if kind == "analog":
            p = AnalogSimParams([Observable("z", i) for i in range(L)], elapsed_time=0.5, dt=0.1, num_traj=3, order=args.get("order", 2), show_progress=False)
            simulator.run(MPS(L, state="zeros"), MPO.ising(L, 1.0, 0.0), p, nm(mat), parallel=False)
        else:
            qc = QuantumCircuit(L)
            for _ in range(3):
                qc.rzz(0.4, 0, 1); qc.rzz(0.3, 1, 2); qc.rz(0.2, 0)  # noqa: E702
            p = StrongSimParams([Observable("z", i) for i in range(L)], num_traj=3, show_progress=False)
            simulator.run(MPS(L, state="zeros"), qc, p, nm(mat), parallel=False)
        return np.array([np.real(np.asarray(o.trajectories)) for o in p.observables])

    with common.time_limit(180):
        run(first)
        tr = run(second)
    dev = float(np.max(np.abs(tr - 1.0)))
    if dev > 1e-8:
        return (f"{kind}: a run with the user-defined operator Z (named '{args.get('name', 'custom')}') on |000> under diagonal dynamics must report <Z_i> = 1 in every "
                f"trajectory; after an earlier run whose noise model carried ANOTHER operator under the same name, strength and time step it reports values down to "
                f"{float(np.min(tr)):.6f} (deviation {dev:.3e}): the run depends on the run before it")
    return None


def real_oracle(args, notes=None):
    from qiskit import QuantumCircuit

    from mqt.yaqs import simulator
    from mqt.yaqs.core.data_structures.networks import MPO, MPS
    from mqt.yaqs.core.data_structures.noise_model import NoiseModel
    from mqt.yaqs.core.data_structures.simulation_parameters import AnalogSimParams, Observable, StrongSimParams, WeakSimParams

    kind = args["kind"]
    rng_calls = []
    real_rng = np.random.default_rng

    def spy(*a, **k):
        g = real_rng(*a, **k)
        rng_calls.append((a, k, g.bit_generator.state["state"]["state"]))
        return g

    nm = NoiseModel([{"name": "pauli_x", "sites": [0], "strength": 0.05}, {"name": "crosstalk_xx", "sites": [0, 1], "strength": 0.02}])
    if args.get("noise") == "pairs-only":  # correlated noise only: no one-site process anywhere, the pairs reach the last site
        nm = NoiseModel([{"name": "crosstalk_zz", "sites": [1, 2], "strength": 0.5}, {"name": "crosstalk_xy", "sites": [0, 2], "strength": 0.3}])
    if args.get("noise") == "with-zero":  # switched-off channels (strength exactly 0) next to live ones, as in a strength sweep
        nm = NoiseModel([{"name": "lowering", "sites": [0], "strength": 0.0}, {"name": "pauli_z", "sites": [0], "strength": 0.1},
                         {"name": "crosstalk_xx", "sites": [0, 1], "strength": 0.0}, {"name": "crosstalk_zy", "sites": [0, 2], "strength": 0.0},
                         {"name": "pauli_x", "sites": [2], "strength": 0.05}])
    if args.get("noise") == "drawn":  # static disorder: strengths drawn once per run from a distribution
        nm = NoiseModel([{"name": "pauli_x", "sites": [0], "strength": {"distribution": "normal", "mean": 0.05, "std": 0.01}},
                         {"name": "pauli_z", "sites": [1], "strength": {"distribution": "truncated_normal", "mean": 0.0, "std": 0.0}},
                         {"name": "lowering", "sites": [2], "strength": 0.0}])
    if args.get("noise") == "scheduled":
        # scheduled jumps next to a stochastic channel of negligible rate: the run counts as noisy (several trajectories on one sampled
        # model), every trajectory is the same deterministic evolution with the scheduled jumps — whatever its index or its worker
        nm = NoiseModel([{"name": "pauli_z", "sites": [1], "strength": 1e-12}],
                        scheduled_jumps=[{"time": 0.1, "sites": [0], "name": "x"}, {"time": 0.2, "sites": [1, 2], "name": "crosstalk_xy"}])
    qc = QuantumCircuit(3)
    qc.h(0); qc.cx(0, 1); qc.rzz(0.4, 1, 2); qc.rx(0.3, 2)  # noqa: E702
    H = MPO.ising(3, 1.0, 0.6)
    def mkstate():
        return MPS(3, state="basis", basis_string="100") if args.get("asym") else MPS(3, state="x+")

    st = mkstate()
    ntraj = 4

    def mk():
        if kind == "strong":
            return StrongSimParams([Observable("z", 0), Observable("x", 2)], num_traj=ntraj, show_progress=False)
        if kind in ("analog", "mcwf", "lindblad"):
            return AnalogSimParams([Observable("z", 0), Observable("x", 2)], elapsed_time=0.2, dt=0.1, num_traj=ntraj,
                                   order=args.get("order", 2), solver={"mcwf": "MCWF", "lindblad": "Lindblad"}.get(kind, "TJM"), show_progress=False)
        return WeakSimParams(shots=ntraj, show_progress=False)

    op = H if kind in ("analog", "mcwf", "lindblad") else qc
    before = [snapshot(x) for x in (op, nm, st)]
    p = mk()
    # history: the requested sequence on the shared object
    for noisy in args["hist"]:
        np.random.default_rng = spy
        rng_calls.clear()
        try:
            simulator.run(st, op, p, nm if noisy else None, parallel=bool(args.get("parallel")))
        finally:
            np.random.default_rng = real_rng
        if noisy and args.get("noise") == "scheduled":
            for o in p.observables:
                tr = np.real(np.asarray(o.trajectories))
                if tr.ndim == 2 and tr.shape[0] == ntraj and np.max(np.abs(tr - tr[0])) > 1e-7:
                    worst = int(np.argmax(np.max(np.abs(tr - tr[0]), axis=1)))
                    return (f"{kind} ({'parallel' if args.get('parallel') else 'serial'}): with scheduled jumps and a stochastic channel of negligible rate all "
                            f"trajectories are the same evolution, but trajectory {worst} of <{o.gate.name}> on {o.sites} differs from trajectory 0 by "
                            f"{np.max(np.abs(tr[worst] - tr[0])):.3e}: a trajectory depends on the trajectories run before it")
        n_exec = ntraj if (noisy and kind != "lindblad") else 1
        if noisy and kind in ("analog", "mcwf"):
            # every trajectory starts from the state that was passed in: the t = 0 entries do not depend on the trajectory index
            for o in p.observables:
                tr = np.real(np.asarray(o.trajectories))
                if tr.ndim == 2 and tr.shape[0] == ntraj and tr.shape[1] >= 1 and np.max(np.abs(tr[:, 0] - tr[0, 0])) > 1e-9:
                    return (f"{kind}: the value at t = 0 of <{o.gate.name}> on site {o.sites} differs between the trajectories of one run "
                            f"({tr[:, 0].tolist()}): they do not all start from the state that was passed in")
        inner = [c for c in rng_calls if not c[0] and not c[1]]
        if noisy and kind not in ("weak", "lindblad") and not args.get("parallel") and len(inner) != n_exec and notes is not None:
            # the mechanism of the model (one OS-seeded generator per noisy trajectory), not the property itself: a serial run could
            # share one generator; reported as a broken correspondence, the pool oracle below looks for repeated trajectories
            notes.append(f"{kind}: {len(inner)} OS-seeded generators were created for {n_exec} trajectories (one per trajectory in the model)")
        if noisy and len({c[2] for c in inner}) != len(inner):
            return f"{kind}: two trajectories started from the same generator state"
        if any(c[0] or c[1] for c in rng_calls if c[0] != (None,)):
            seeded = [c[0] for c in rng_calls if c[0] and c[0] != (None,)]
            if seeded and kind != "weak" and notes is not None:
                notes.append(f"{kind}: a trajectory generator was created with a fixed seed {seeded[:2]} (OS entropy in the model)")
    after = [snapshot(x) for x in (op, nm, st)]
    from drivers import dense as _dense

    vb = _dense.mps_dense(MPS(3, tensors=[t.copy() for t in before[2]], physical_dimensions=[2] * 3))
    va = _dense.mps_dense(st)
    if abs(np.linalg.norm(vb) - 1) < 1e-9 and abs(np.linalg.norm(va) - 1) > 1e-8:
        return f"{kind}: the normalised initial state passed in has norm {np.linalg.norm(va):.6f} after the runs"
    if abs(abs(np.vdot(vb, va)) - np.linalg.norm(vb) * np.linalg.norm(va)) > 1e-9 * np.linalg.norm(vb) * max(np.linalg.norm(va), 1e-300):
        return f"{kind}: the initial state passed in represents another state after the runs (overlap {abs(np.vdot(vb, va)):.6f} with what was passed)"
    names = ("operator", "noise model", "initial state")
    for nme, b, a in zip(names, before, after):
        if nme == "initial state":
            continue  # run() normalises the state in place by design (documented: 'Must be B normalized'); compared as a vector below
        if not same(b, a):
            return f"{kind}: the {nme} passed in was modified by simulator.run"
    # noise-free results after the history equal those of a fresh object
    if kind != "weak":
        simulator.run(st, op, p, None, parallel=False)
        fresh = mk()
        simulator.run(mkstate(), op, fresh, None, parallel=False)
        for o1, o2 in zip(p.observables, fresh.observables):
            if np.max(np.abs(np.asarray(o1.results) - np.asarray(o2.results))) > 1e-9:
                return f"{kind}: noise-free results of the reused parameter object differ from those of a fresh object"
        if p.num_traj != ntraj:
            return f"{kind}: num_traj is {p.num_traj} after the runs, requested {ntraj}"
    else:
        simulator.run(st, op, p, None, parallel=False)
        if sum(p.results.values()) != ntraj:
            return f"weak: counts sum to {sum(p.results.values())} for {ntraj} shots after history {args['hist']}"
    return None


def search(ctx):
    plan = [dict(kind=k, hist=h) for k in ("strong", "analog", "weak", "mcwf") for h in ([True], [False, True], [True, False])]
    plan.append(dict(kind="analog", hist=[True], order=1))
    plan += [dict(kind="analog", hist=[True], order=2, noise="pairs-only"), dict(kind="analog", hist=[True, True], order=1, noise="pairs-only"),
             dict(kind="strong", hist=[True], noise="pairs-only"),
             dict(kind="strong", hist=[True], noise="with-zero"), dict(kind="analog", hist=[True, False], noise="with-zero"),
             dict(kind="mcwf", hist=[True], noise="with-zero"), dict(kind="weak", hist=[True], noise="with-zero"),
             dict(kind="lindblad", hist=[True], noise="with-zero"), dict(kind="lindblad", hist=[True, True]),
             dict(kind="analog", hist=[True], noise="drawn"), dict(kind="strong", hist=[True], noise="drawn"),
             dict(kind="analog", hist=[True, True], noise="scheduled", order=1), dict(kind="analog", hist=[True], noise="scheduled", order=2),
             dict(kind="analog", hist=[True], noise="scheduled", order=2, parallel=True),
             dict(kind="mcwf", hist=[True], asym=True), dict(kind="mcwf", hist=[False, True, False], asym=True), dict(kind="analog", hist=[True, False], asym=True), dict(kind="strong", hist=[False], asym=True)]
    if not ctx.quick:
        for _ in range(20):
            plan.append(dict(kind=str(ctx.rng.choice(["strong", "analog", "weak"])), hist=[bool(b) for b in ctx.rng.integers(0, 2, size=3)],
                             order=int(ctx.rng.integers(1, 3))))
    for a in plan:
        try:
            notes = []
            with common.time_limit(180):
                why = real_oracle(a, notes)
            for note in notes:
                ctx.mismatch("trajectory generators vs the model (one OS-seeded numpy Generator per noisy trajectory)", a, note,
                             "one default_rng() without arguments per trajectory", key="generators")
        except common.HardTimeout:
            ctx.notes.append(f"real oracle timed out {a}")
            continue
        except Exception as e:  # noqa: BLE001
            why = f"simulator.run raised {type(e).__name__}: {e}"
        ctx.case(nontrivial_key=("real", a["kind"], tuple(a["hist"]), a.get("order")))
        ctx.count("real_" + a["kind"])
        if why:
            ctx.violation("real:" + a["kind"], why, {"oracle": "real", "args": a})
    for a in (dict(kind="analog", order=2), dict(kind="analog", order=1, name="my_channel"), dict(kind="strong")):
        try:
            why = same_name_oracle(a)
        except common.HardTimeout:
            ctx.notes.append(f"same-name oracle timed out {a}")
            continue
        except Exception as e:  # noqa: BLE001
            why = f"simulator.run raised {type(e).__name__}: {e}"
        ctx.case(nontrivial_key=("same-name", str(a)))
        ctx.count("same_name_custom_operators")
        if why:
            ctx.violation("same-name:" + a["kind"], why, {"oracle": "same-name", "args": a})
    pool_search(ctx)


def pool_search(ctx):
    """real worker processes: no trajectory may repeat another one of the same run or of the previous run on the same objects"""
    for kind in ("analog-MCWF", "analog-TJM", "strong"):
        a = dict(kind=kind, n=10 if ctx.quick else 16, workers=4)
        try:
            with common.time_limit(300):
                why = pool_oracle(a)
        except common.HardTimeout:
            ctx.notes.append(f"pool oracle timed out {a}")
            continue
        except Exception as e:  # noqa: BLE001
            why = f"simulator.run (parallel) raised {type(e).__name__}: {e}"
        ctx.case(nontrivial_key=("pool", kind))
        ctx.count("real_pool_" + kind)
        if why:
            ctx.violation("pool:" + kind, why, {"oracle": "pool", "args": a})


def replay(ctx, data):
    rp = data.get("replay", data)
    if rp.get("oracle") == "failed-run":
        i = failed_then_run(rp["class"], rp["n"], rp["failed_run_noisy"], rp["noisy"], rp.get("pool", False))
        fresh = rp["n"] if rp["noisy"] else 1
        if not i[0] or i[2] != fresh or i[3] != rp["n"] or (rp["class"] == "weak" and i[4] != rp["n"]):
            return f"after the failed run the object holds {i[1]}; the next run executed {i[2]} (fresh: {fresh}), left {i[3]}, returned {i[4]}"
        return None
    if rp.get("oracle") == "same-name":
        return same_name_oracle(rp["args"])
    if rp.get("oracle") == "refused":
        i = refused_then_run(rp["class"], rp["n"], rp["noisy"], rp["refusals"])
        fresh = rp["n"] if rp["noisy"] else 1
        if not i[0] or i[2] != fresh or i[3] != rp["n"] or (rp["class"] == "weak" and i[4] != rp["n"]):
            return f"after the refused call(s) the object holds {i[1]}; the corrected run executed {i[2]} (fresh: {fresh}), left {i[3]}, returned {i[4]}"
        return None
    if rp.get("oracle") == "pool":
        return pool_oracle(rp["args"])
    if rp.get("oracle") == "solver-history":
        hist = [tuple(h) for h in rp["hist"]]
        r = run_solver_history(hist, rp["n"], rp.get("parallel", False))
        for k, (calls, after, rows) in enumerate(r):
            want = 1 if (hist[k][0] == "Lindblad" or not hist[k][1]) else rp["n"]
            if calls != want or after != rp["n"]:
                return f"run {k + 1}: executed {calls} (fresh object: {want}), num_traj afterwards {after} (requested {rp['n']})"
        return None
    if rp.get("oracle") == "real":
        return real_oracle(rp["args"])
    if rp.get("oracle") == "history":
        r = run_history(rp["kind"], rp["hist"], rp["n"], rp.get("parallel", False))
        for k, (calls, par_after, rows) in enumerate(r):
            if calls != (rp["n"] if rp["hist"][k] else 1) or par_after != rp["n"] or (rp["kind"] == "weak" and rows != rp["n"]):
                return f"run {k + 1}: calls={calls} param={par_after} rows/counts={rows}"
        return None
    return "re-run the check: " + "; ".join(b["what"] for b in data.get("broken", []))
