"""C10 — canonicalisation and gauge moves never change the represented state.

Tie: random MPS (any length, mixed physical dimensions, rank-deficient bonds, any gauge) x random sequences of gauge
operations with QR or SVD decomposition: (1) the isometry KNOWN to the flag model (Model/Gauge.v) must be measured on the real
tensors and every centre the model derives must be reported by the real check_canonical_form(); (2) the represented vector
(independent contraction) is unchanged by every operation (normalize / last-site shift: unchanged up to the scalar that is
dropped, unit norm afterwards) — the statement the LinAlg/TT.v theorems prove for every factorisation Q.R.
"""
from __future__ import annotations

import numpy as np

import common
from common import g_list
from drivers import dense

RULE = ("random MPS, L=1..6, physical dims in {2,3} mixed, bonds 1..4 incl. rank-deficient; operation sequences of length 1..6 "
        "over shift right/left, set_canonical_form, normalize, flip, pad, QR/SVD; non-trivial = L>=3 and the sequence mixes "
        "directions; distinct by (seed, sequence)")
TRUSTED = ["independent dense contraction of the MPS; isometry measured from the real tensors",
           "modelled, not verified: LAPACK QR/SVD produce a factorisation Q.R with Q isometric; SVD mode cuts at most 1e-12"]
ASSUMES = ["operations are called with any site index (the state is preserved by a QR of any site, not only of the centre)"]
HEADER = "From Coq Require Import List. Import ListNotations.\nFrom Yaqs Require Import Model.Gauge."


def random_mps(rng, L, dims, chi, deficient, alias=None, rescale=None):
    """alias: None | "object" (one array object reused at every bulk site of equal shape) | "view" (bulk sites are views of one
    buffer, as MPO.identity(L).to_mps() produces them): a gauge move must not write through to another site"""
    from mqt.yaqs.core.data_structures.networks import MPS

    tens = []
    bonds = chi if isinstance(chi, (list, tuple)) else [chi] * (L - 1)  # a list: one dimension per bond (may exceed the Hilbert space next to it)
    for i in range(L):
        lft = 1 if i == 0 else bonds[i - 1]
        r = 1 if i == L - 1 else bonds[i]
        t = rng.normal(size=(dims[i], lft, r)) + 1j * rng.normal(size=(dims[i], lft, r))
        if deficient and r > 1:
            # the bond is rank deficient: two equal columns, or an unused (zero) bond index — at the end of the bond index or in its
            # middle, followed by an independent direction (unpivoted QR does not reveal the rank then)
            how = (i + L + r) % 3 if r >= 3 else 0
            if how == 0:
                t[:, :, -1] = t[:, :, 0]
            elif how == 1:
                t[:, :, 1] = t[:, :, 0]
            else:
                t[:, :, 1] = 0.0
        tens.append(t)
    if rescale and L >= 3:
        # a legal but unusual gauge: one tensor tiny, another huge (product of the scales = 1), or a state of tiny norm
        i, j = (int(x) for x in rng.choice(L, size=2, replace=False))
        f = float(10.0 ** rng.integers(6, 12))
        if rescale == "small":  # the intermediate regime: a state of norm 1e-5 .. 1e-7 (squared weight around 1e-12)
            f = float(10.0 ** rng.uniform(5, 7)) * float(np.sqrt(sum(np.linalg.norm(t) ** 2 for t in tens)))
        tens[i] = tens[i] * (1.0 / f)
        if rescale == "balanced":
            tens[j] = tens[j] * f
    if alias and L >= 4:
        bulk = [i for i in range(1, L - 1) if tens[i].shape == tens[1].shape]
        if alias == "object":
            for i in bulk:
                tens[i] = tens[1]
        else:
            buf = np.stack([tens[1]] * len(bulk))
            for k, i in enumerate(bulk):
                tens[i] = buf[k]
    return MPS(L, tensors=tens, physical_dimensions=list(dims))


def measured_flags(mps):
    lf, rf = [], []
    for t in mps.tensors:
        d, l, r = t.shape
        lf.append(bool(np.allclose(np.einsum("plr,pls->rs", t.conj(), t), np.eye(r), atol=1e-9)))
        rf.append(bool(np.allclose(np.einsum("plr,pmr->lm", t, t.conj()), np.eye(l), atol=1e-9)))
    return lf, rf


def gen_ops(rng, L):
    ops = []
    for _ in range(int(rng.integers(1, 7))):
        u = rng.random()
        dec = "QR" if rng.random() < 0.7 else "SVD"
        if u < 0.3:
            ops.append(("shiftR", int(rng.integers(0, L)), dec))
        elif u < 0.5:
            ops.append(("shiftL", int(rng.integers(0, L)), dec))
        elif u < 0.75:
            ops.append(("set", int(rng.integers(0, L)), dec))
        elif u < 0.9:
            ops.append(("normalize", 0, dec))
        else:
            ops.append(("flip", 0, dec))
    return ops


def apply_op(mps, op):
    kind, c, dec = op
    if kind == "shiftR":
        mps.shift_orthogonality_center_right(c, dec)
    elif kind == "shiftL":
        mps.shift_orthogonality_center_left(c, dec)
    elif kind == "set":
        mps.set_canonical_form(c, dec)
    elif kind == "normalize":
        mps.normalize("B", dec)
    else:
        mps.flip_network()


def g_op(op):
    kind, c, _ = op
    return {"shiftR": f"OpShiftR {c}%nat", "shiftL": f"OpShiftL {c}%nat", "set": f"OpSet {c}%nat", "normalize": "OpNormalize", "flip": "OpFlip"}[kind]


def vec_of(mps, flipped):
    """dense vector in the ORIGINAL site order (flip_network reverses the chain and transposes the bonds)"""
    if not flipped:
        return dense.mps_dense(mps)
    v = np.ones((1, 1), dtype=complex)
    for t in reversed(mps.tensors):  # undo the flip: sites back in order, left/right bonds exchanged
        tt = t.transpose(0, 2, 1)
        v = np.einsum("xl,plr->xpr", v, tt).reshape(v.shape[0] * tt.shape[0], tt.shape[2])
    return v.reshape(-1)


def run_case(seed, L, dims, chi, deficient, ops, alias=None, rescale=None):
    rng = np.random.default_rng(seed)
    mps = random_mps(rng, L, dims, chi, deficient, alias, rescale)
    v = dense.mps_dense(mps)
    flipped = False
    problems = []
    for k, op in enumerate(ops):
        try:
            apply_op(mps, op)
        except Exception as e:  # noqa: BLE001
            return None, None, [f"{op} raised {type(e).__name__}: {e}"]
        if op[0] == "flip":
            flipped = not flipped
        try:
            w = vec_of(mps, flipped)
            if w.shape != v.shape:
                raise ValueError(f"vector of {w.size} entries instead of {v.size}")
        except Exception as e:  # noqa: BLE001 — the chain no longer contracts to a vector of the original space
            shapes = [tuple(t.shape) for t in mps.tensors]
            return None, None, [f"after {op} (step {k}) the network is no longer a valid MPS of the input space: tensor shapes {shapes} ({type(e).__name__}: {e})"]
        rescales = op[0] == "normalize" or (op[0] in ("shiftR",) and op[1] == L - 1) or (op[0] == "shiftL" and op[1] == 0)
        nv, nw = np.linalg.norm(v), np.linalg.norm(w)
        if rescales:
            ov = abs(np.vdot(v, w))
            unit = op[0] != "normalize" or abs(nw - 1.0) <= 1e-9  # only normalize promises unit norm; a boundary shift drops R
            if not unit or abs(ov - nv * nw) > 1e-8 * max(nv * nw, 1e-30):
                problems.append(f"after {op} (step {k}) the vector is not the normalised input: norm {nw:.12f}, overlap defect {abs(ov - nv * nw):.2e}")
        else:
            # SVD-based moves may drop a relative weight of 1e-12 of the block they act on; the allowance scales with the state
            tol = 1e-9 * (max(nv, 1.0) if not rescale else nv) if op[2] == "QR" or op[0] == "flip" else 1e-5 * (max(nv, 1.0) if not rescale else nv)
            if w.shape != v.shape or np.linalg.norm(w - v) > tol:
                problems.append(f"{op} (step {k}) changed the represented vector by {np.linalg.norm(w - v):.3e}")
        v = w
    lf, rf = measured_flags(mps)
    try:
        centres = [int(c) for c in mps.check_canonical_form()]
    except Exception as e:  # noqa: BLE001
        centres = f"EXC:{e}"
    # the query itself: when every isometry condition clearly holds (defect < 1e-10) or clearly fails (> 1e-4), the reported centres must
    # be exactly the sites c with everything left of c left-isometric and everything right of c right-isometric
    if not rescale and isinstance(centres, list):
        dl, dr = [], []
        for t in mps.tensors:
            d_, l_, r_ = t.shape
            dl.append(float(np.max(np.abs(np.einsum("plr,pls->rs", t.conj(), t) - np.eye(r_)))))
            dr.append(float(np.max(np.abs(np.einsum("plr,pmr->lm", t, t.conj()) - np.eye(l_)))))
        if all(x < 1e-10 or x > 1e-4 for x in dl + dr):
            want = [c for c in range(L) if all(x < 1e-10 for x in dl[:c]) and all(x < 1e-10 for x in dr[c + 1:])]
            if sorted(centres) != want:
                problems.append(f"check_canonical_form() reports {centres} after {ops}, but the isometry conditions hold exactly for the centres {want} "
                                f"(tensor shapes {[tuple(t.shape) for t in mps.tensors]})")
    return (lf, rf), centres, problems


def correspond(ctx):
    ctx.rules.append(RULE)
    cases, exprs, impl = [], [], []
    # corpus: chains carrying a bond wider than the Hilbert space to its left (legal, rank deficient), gauged from the right
    for dims, bonds in (([2, 2, 2, 2, 2], [2, 8, 4, 2]), ([2, 2, 4, 4], [2, 8, 4]), ([3, 2, 2, 2, 3], [3, 7, 6, 3]), ([2, 2, 2], [1, 4])):
        L = len(dims)
        for ops in ([("normalize", 0, "QR")], [("set", 0, "QR")], [("flip", 0, "QR"), ("set", L - 1, "QR"), ("flip", 0, "QR")], [("set", L - 1, "SVD"), ("shiftL", L - 1, "QR")]):
            seed = int(ctx.rng.integers(0, 2**31))
            impl.append(run_case(seed, L, dims, bonds, False, ops, None, None))
            exprs.append(f"let g := fold_left apply_gop {g_list([g_op(o) for o in ops])} (unknown {L}%nat) in (lf g, rf g, centres g)")
            cases.append(dict(seed=seed, L=L, dims=dims, chi=bonds, deficient=False, ops=ops, alias=None, rescale=None))
            ctx.count("uneven_bonds")
    # corpus: states of small norm under SVD-based moves (a gauge move does not depend on the overall scale of the state)
    for q in range(6):
        L = 6
        ops = [[("normalize", 0, "SVD")], [("set", 3, "SVD"), ("normalize", 0, "QR")], [("set", 5, "SVD"), ("shiftL", 5, "SVD"), ("shiftL", 4, "SVD")]][q % 3]
        seed = int(ctx.rng.integers(0, 2**31))
        impl.append(run_case(seed, L, [2] * L, [2, 4, 8, 4, 2], False, ops, None, "small"))
        exprs.append(f"let g := fold_left apply_gop {g_list([g_op(o) for o in ops])} (unknown {L}%nat) in (lf g, rf g, centres g)")
        cases.append(dict(seed=seed, L=L, dims=[2] * L, chi=[2, 4, 8, 4, 2], deficient=False, ops=ops, alias=None, rescale="small"))
        ctx.count("rescaled_gauge")
    for k in range(ctx.scale(150, 3000)):
        L = int(ctx.rng.integers(1, 7))
        dims = [int(x) for x in ctx.rng.choice([2, 2, 3], size=L)]
        chi = int(ctx.rng.integers(1, 5))
        ops = gen_ops(ctx.rng, L)
        seed = int(ctx.rng.integers(0, 2**31))
        deficient = bool(ctx.rng.random() < 0.3)
        alias = [None, None, "object", "view"][k % 4]
        if alias:
            L = max(L, 4)
            dims = [2] * L
            ops = gen_ops(ctx.rng, L)
            ctx.count("aliased_site_tensors")
        rescale = None
        if not alias and k % 4 == 1:
            rescale = ["balanced", "tiny"][(k // 4) % 2]
            L = max(L, 3)
            dims = [int(x) for x in ctx.rng.choice([2, 2, 3], size=L)]
            ops = [(o[0], min(o[1], L - 1), o[2]) for o in gen_ops(ctx.rng, L)]  # QR and SVD moves alike: a gauge move is scale-free
            ctx.count("rescaled_gauge")
        if k % 5 == 2 and L >= 3 and not alias:  # uneven bonds, some wider than the Hilbert space on one side of them
            chi = [int(x) for x in ctx.rng.choice([1, 2, 2, 3, 4, 6, 8], size=L - 1)]
            ctx.count("uneven_bonds")
        impl.append(run_case(seed, L, dims, chi, deficient, ops, alias, rescale))
        exprs.append(f"let g := fold_left apply_gop {g_list([g_op(o) for o in ops])} (unknown {L}%nat) in (lf g, rf g, centres g)")
        cases.append(dict(seed=seed, L=L, dims=dims, chi=chi, deficient=deficient, ops=ops, alias=alias, rescale=rescale))
    vals = common.coq_eval_sharded(HEADER, exprs, tag="c10")
    for c, (flags, centres, problems), (mlf, mrf, mcent) in zip(cases, impl, vals):
        kinds = {o[0] for o in c["ops"]}
        nontriv = c["L"] >= 3 and len(kinds) >= 2
        ctx.case(nontrivial_key=(c["seed"], str(c["ops"])) if nontriv else None, validated=True,
                 sample={**c, "measured_flags": flags, "check_canonical_form": centres} if nontriv and len(c["ops"]) > 3 else None)
        ctx.count("sequences")
        for o in c["ops"]:
            ctx.count("op_" + o[0] + "_" + o[2])
        for pr in problems:
            ctx.violation("vector-changed" if "changed" in pr or "not the normalised" in pr else ("query" if "check_canonical_form" in pr else "gauge-raises"), pr, {"oracle": "sequence", **c})
        if flags is None:
            continue
        lf, rf = flags
        ok = all((not m) or r for m, r in zip(mlf, lf)) and all((not m) or r for m, r in zip(mrf, rf))
        if not ok:
            ctx.mismatch("isometry known to Gauge.v vs measured on the real tensors", c, flags, (mlf, mrf))
        if isinstance(centres, str) or not set(mcent) <= set(centres):
            ctx.mismatch("check_canonical_form vs Gauge.centres", c, centres, mcent)


def pad_oracle(args):
    rng = np.random.default_rng(args["seed"])
    L = args["L"]
    dims = args.get("dims") or [2] * L
    if args.get("bonds"):
        # legal inputs outside the qubit staircase: bonds wider than 2^min(i+1, L-1-i) (sites of dimension three, or a rank-deficient
        # over-wide bond of a qubit chain), in an arbitrary gauge or brought to form B first
        from mqt.yaqs.core.data_structures.networks import MPS

        bd = [1] + [int(b) for b in args["bonds"]] + [1]
        mps = MPS(L, tensors=[rng.normal(size=(dims[i], bd[i], bd[i + 1])) + 1j * rng.normal(size=(dims[i], bd[i], bd[i + 1])) for i in range(L)],
                  physical_dimensions=list(dims))
        if args.get("canonical", True):
            mps.normalize("B")
    else:
        mps = random_mps(rng, L, dims, args["chi"], False)
        mps.normalize("B")
    v = dense.mps_dense(mps)
    try:
        mps.pad_bond_dimension(args["target"])
    except ValueError:
        # target below a current bond: rejected, as documented — and the state must be left as it was
        shapes = [t.shape for t in mps.tensors]
        if any(shapes[i][2] != shapes[i + 1][1] for i in range(len(shapes) - 1)):
            return (f"pad_bond_dimension({args['target']}) refused the request (ValueError) but left tensors that no longer fit together: shapes {shapes} "
                    f"(chain with physical dimensions {dims}, bonds {args.get('bonds')})")
        w = dense.mps_dense(mps)
        if w.shape != v.shape or np.linalg.norm(w - v) > 1e-12 * max(1.0, np.linalg.norm(v)):
            return f"pad_bond_dimension({args['target']}) refused the request but changed the state"
        return None
    w = dense.mps_dense(mps)
    if args.get("bonds"):
        nv, nw = np.linalg.norm(v), np.linalg.norm(w)
        if abs(abs(np.vdot(v, w)) - nv * nw) > 1e-9 * nv * nw or abs(nw - 1) > 1e-9:
            return (f"pad_bond_dimension({args['target']}) on a chain with physical dimensions {dims} and bonds {args['bonds']} changed the represented "
                    f"state (overlap {abs(np.vdot(v, w)) / (nv * nw):.12f}, norm afterwards {nw:.9f})")
        return None
    if abs(abs(np.vdot(v, w)) - 1.0) > 1e-9 or abs(np.linalg.norm(w) - 1) > 1e-9:
        return f"pad_bond_dimension({args['target']}) changed the represented state (overlap {abs(np.vdot(v, w)):.12f})"
    want = [min(args["target"], 2 ** min(i + 1, L - 1 - i)) for i in range(L - 1)]
    got = [t.shape[2] for t in mps.tensors[:-1]]
    if got != want:
        return f"pad_bond_dimension({args['target']}) produced bonds {got}, documented {want}"
    return None


def search(ctx):
    wide = [dict(L=4, dims=[2, 2, 2, 2], bonds=[1, 1, 4], target=2, canonical=False),  # the first sites fit, a later one does not
            dict(L=4, dims=[3, 3, 3, 3], bonds=[3, 9, 3], target=9), dict(L=4, dims=[3, 2, 2, 3], bonds=[3, 4, 3], target=4),
            dict(L=5, dims=[2] * 5, bonds=[4, 4, 4, 4], target=8), dict(L=5, dims=[2] * 5, bonds=[4, 4, 4, 4], target=4, canonical=False),
            dict(L=3, dims=[2, 3, 2], bonds=[2, 2], target=2), dict(L=4, dims=[2] * 4, bonds=[2, 3, 2], target=4)]
    for k in range(ctx.scale(40, 600)):
        a = dict(seed=int(ctx.rng.integers(0, 2**31)), L=int(ctx.rng.integers(2, 7)), chi=int(ctx.rng.integers(1, 3)), target=int(ctx.rng.choice([2, 3, 4, 8, 16])))
        if k < len(wide):
            a.update(wide[k])
            ctx.count("pad_outside_the_qubit_staircase")
        elif k % 6 == 5:
            L = a["L"]
            a.update(dims=[int(x) for x in ctx.rng.choice([2, 2, 3], size=L)], bonds=[int(x) for x in ctx.rng.integers(1, 6, size=L - 1)], canonical=bool(k % 12 == 5))
            ctx.count("pad_outside_the_qubit_staircase")
        why = pad_oracle(a)
        ctx.case(nontrivial_key=("pad", a["seed"]))
        ctx.count("pad")
        if why:
            ctx.violation("pad", why, {"oracle": "pad", "args": a})


def replay(ctx, data):
    rp = data.get("replay", data)
    if rp.get("oracle") == "pad":
        return pad_oracle(rp["args"])
    if rp.get("oracle") == "sequence":
        _, _, problems = run_case(rp["seed"], rp["L"], rp["dims"], rp["chi"], rp["deficient"], [tuple(o) for o in rp["ops"]], rp.get("alias"), rp.get("rescale"))
        return "; ".join(problems) or None
    return "re-run the check: " + "; ".join(b["what"] for b in data.get("broken", []))
