"""C13 — each trajectory runs exactly once under any completion order or transient fault.

Tie to the code: simulator.ProcessPoolExecutor and simulator.wait are replaced IN THIS PROCESS by a deterministic
scheduler that follows a script [(position of the in-flight future that completes, outcome)], one completion per
wait().  The real run_backend_parallel generator then runs unchanged.  Its yielded sequence, its submit log, the
futures left in flight and the exception it raises are compared exactly with Model/ParRunner.v on the same script.
"""
from __future__ import annotations

import itertools
from concurrent.futures import CancelledError

import numba  # noqa: F401  (import before any in-process worker_init touches NUMBA_NUM_THREADS)
import numpy as np

import common
from common import g_list, g_nat

RULE = ("scripts = sequences of (position in the insertion-ordered in-flight dict, Ok|Retry|Fatal), one completion per "
        "wait(); exhaustive over short scripts for small (n_jobs, max_workers, max_retries) plus seeded random long "
        "scripts; non-trivial = contains an out-of-order completion (p>0) or a Retry/Fatal; distinct by full script")
TRUSTED = ["correspondence harness: deterministic executor replacing ProcessPoolExecutor/wait in simulator's namespace",
           "modelled, not verified: process start-up, pickling, real time-outs, tqdm, OS scheduling"]
ASSUMES = ["a wait(FIRST_COMPLETED) batch is equivalent to completing its futures one at a time in the batch's "
           "iteration order (the loop body pops one future per iteration)"]

OUTCOMES = ("Ok", "Retry", "Fatal")


class ScriptEnd(BaseException):
    pass


class _Fut:
    def __init__(self, fn, idx):
        self.fn, self.idx, self.outcome, self.exc = fn, idx, None, None

    def result(self):
        if self.outcome == "Ok":
            return self.fn(self.idx)
        if self.outcome == "Retry":
            raise self.exc
        raise ValueError(f"fatal-{self.idx}")


class Sched:
    """Deterministic stand-in for ProcessPoolExecutor + wait."""

    def __init__(self, script, retry_excs=(TimeoutError, CancelledError, OSError)):
        self.script = list(script)
        self.k = 0
        self.sub: list[int] = []
        self.maxfl = 0
        self.effective: list[tuple[int, str]] = []
        self.last_fl: list[int] = []
        self.retry_excs = retry_excs
        self.init_called = 0

    def executor(self, *a, **kw):
        sched = self

        class Ex:
            def __enter__(s):
                init = kw.get("initializer")
                if init:
                    import os
                    saved = dict(os.environ)  # worker_init caps thread env vars: meant for a child process
                    init(*kw.get("initargs", ()))
                    os.environ.clear()
                    os.environ.update(saved)
                    sched.init_called += 1
                return s

            def __exit__(s, *e):
                return False

            def submit(s, fn, idx):
                sched.sub.append(idx)
                return _Fut(fn, idx)

        return Ex()

    def wait(self, futs, return_when=None, timeout=None):
        fl = list(futs)
        self.maxfl = max(self.maxfl, len(fl))
        self.last_fl = [f.idx for f in fl]
        if self.k >= len(self.script):
            raise ScriptEnd()
        p, o = self.script[self.k]
        self.k += 1
        p = p % len(fl)
        self.effective.append((p, o))
        f = fl[p]
        f.outcome = o
        f.exc = self.retry_excs[(self.k + p) % len(self.retry_excs)]()
        return [f], None


def run_impl(n, workers, maxr, script, worker_fn=lambda i: ("res", i)):
    import mqt.yaqs.simulator as S

    sched = Sched(script)
    old = (S.ProcessPoolExecutor, S.wait)
    S.ProcessPoolExecutor, S.wait = sched.executor, sched.wait
    out, err, bad_result = [], None, None
    try:
        try:
            for i, r in S.run_backend_parallel(worker_fn=worker_fn, payload=None, n_jobs=n, max_workers=workers,
                                               show_progress=False, desc="", max_retries=maxr):
                if r != worker_fn(i):
                    bad_result = (i, r)
                out.append(i)
            fl_end = []
        except ScriptEnd:
            fl_end = sched.last_fl
        except ValueError as e:
            err = ("Fatal", int(str(e).split("-")[1])) if str(e).startswith("fatal-") else ("Other", repr(e))
            fl_end = None
        except (TimeoutError, CancelledError, OSError) as e:
            err = ("RetryExhausted", type(e).__name__)
            fl_end = None
        except Exception as e:  # noqa: BLE001  # neither a job result nor an injected fault: the runner itself failed
            err = ("RunnerRaised", type(e).__name__)
            fl_end = None
    finally:
        S.ProcessPoolExecutor, S.wait = old
    return {"out": out, "err": err, "fl": fl_end, "sub": sched.sub, "maxfl": sched.maxfl,
            "effective": sched.effective, "bad_result": bad_result}


def g_script(eff):
    return g_list([f"({p}%nat, {o})" for p, o in eff])


HEADER = "From Coq Require Import List. Import ListNotations.\nFrom Yaqs Require Import Model.ParRunner."


def model_expr(n, workers, maxr, eff):
    return f"observe (run {g_nat(n)} {g_nat(2 * workers)} {g_nat(maxr)} {g_script(eff)})"


def property_failures(n, workers, maxr, r):
    """The property itself, stated on the implementation's behaviour (no model involved)."""
    f = []
    if len(set(r["out"])) != len(r["out"]):
        f.append("an index was delivered twice")
    if r["bad_result"] is not None:
        f.append(f"index {r['bad_result'][0]} delivered with another index's result")
    if r["maxfl"] > 2 * workers:
        f.append(f"{r['maxfl']} tasks in flight > 2*max_workers={2 * workers}")
    if r["err"] is None and r["fl"] == [] and sorted(r["out"]) != list(range(n)):
        f.append(f"completed without error but delivered {sorted(r['out'])} instead of 0..{n - 1}")
    if any(x >= n for x in r["sub"]):
        f.append("submitted an index outside 0..n-1")
    # failures must surface
    retries = {}
    for (p, o) in r["effective"]:
        pass
    n_fatal = sum(1 for _, o in r["effective"] if o == "Fatal")
    if n_fatal and r["err"] is None:
        f.append("a non-retryable failure was dropped")
    if r["err"] and r["err"][0] == "Fatal" and r["err"][1] in r["out"]:
        f.append("failed index was also delivered")
    if len(r["sub"]) > n * (maxr + 1):
        f.append("more attempts than n*(max_retries+1)")
    return f


def compare(ctx, cases, tagname):
    exprs = [model_expr(n, w, m, r["effective"]) for (n, w, m, r) in cases]
    vals = common.coq_eval_sharded(HEADER, exprs, tag=f"c13_{tagname}")
    for (n, w, m, r), v in zip(cases, vals):
        out_m, fl_m, sub_m, err_m = v
        err_i = None
        ok = (out_m == r["out"]) and (sub_m == r["sub"])
        if r["err"] is None:
            ok = ok and err_m is None and fl_m == r["fl"]
        else:
            ok = ok and err_m is not None
            if ok and r["err"][0] == "Fatal":
                ok = isinstance(err_m, common.App) and err_m[1] == r["err"][1]
        eff = r["effective"]
        nontriv = any(p > 0 or o != "Ok" for p, o in eff)
        ctx.case(nontrivial_key=(n, w, m, tuple(eff)) if nontriv else None, validated=True,
                 sample={"n_jobs": n, "max_workers": w, "max_retries": m, "script": eff, "yielded": r["out"],
                         "submitted": r["sub"], "error": r["err"]} if nontriv and len(eff) > 3 else None)
        ctx.count("len_%d" % min(len(eff), 12))
        for _, o in eff:
            ctx.count("outcome_" + o)
        if not ok:
            ctx.mismatch("run_backend_parallel-vs-ParRunner.run", {"n": n, "workers": w, "maxr": m, "script": eff},
                         {k: r[k] for k in ("out", "fl", "sub", "err")}, v)
        for why in property_failures(n, w, m, r):
            ctx.violation("runner:" + why.split(" ")[0], f"run_backend_parallel: {why}",
                          {"oracle": "runner", "n": n, "workers": w, "maxr": m, "script": [list(e) for e in eff], "why": why})


def drain(n, maxr):
    return [(0, "Ok")] * (n * (maxr + 1) + 2)


def correspond(ctx):
    ctx.rules.append(RULE)
    cases = []
    # exhaustive short scripts
    nmax, wmax, rmax, L = (3, 2, 1, 3) if ctx.quick else (4, 2, 2, 4)
    for n in range(0, nmax + 1):
        for w in range(1, wmax + 1):
            for m in range(0, rmax + 1):
                alpha = [(p, o) for p in range(min(2 * w, max(n, 1))) for o in OUTCOMES]
                for ln in range(0, L + 1):
                    for script in itertools.product(alpha, repeat=ln):
                        r = run_impl(n, w, m, list(script) + drain(n, m))
                        cases.append((n, w, m, r))
    ctx.count("exhaustive_scripts", len(cases))
    # random long scripts
    nrand = ctx.scale(400, 6000)
    for _ in range(nrand):
        n = int(ctx.rng.integers(0, 41))
        w = int(ctx.rng.integers(1, 5))
        m = int(ctx.rng.integers(0, 4))
        ln = int(ctx.rng.integers(0, 3 * n + 4))
        pf = ctx.rng.choice([0.0, 0.02, 0.1])
        pr = ctx.rng.choice([0.0, 0.1, 0.4])
        script = []
        for _ in range(ln):
            u = ctx.rng.random()
            o = "Fatal" if u < pf else ("Retry" if u < pf + pr else "Ok")
            script.append((int(ctx.rng.integers(0, 2 * w)), o))
        if ctx.rng.random() < 0.7:
            script += drain(n, m)
        r = run_impl(n, w, m, script)
        cases.append((n, w, m, r))
    compare(ctx, cases, "scripts")
    frontends(ctx)
    ctx.exhaustive = False


def frontends(ctx):
    """The three front-ends and the tomography driver stitch result i into row i (tagged results)."""
    import mqt.yaqs.simulator as S
    from mqt.yaqs.core.data_structures.networks import MPO, MPS
    from mqt.yaqs.core.data_structures.noise_model import NoiseModel
    from mqt.yaqs.core.data_structures.simulation_parameters import AnalogSimParams, Observable, StrongSimParams, WeakSimParams
    from qiskit import QuantumCircuit

    nm = NoiseModel([{"name": "pauli_x", "sites": [0], "strength": 0.1}])
    old = (S.ProcessPoolExecutor, S.wait, S.digital_tjm, S.analog_tjm_1, S.analog_tjm_2, S.available_cpus)
    nrun = ctx.scale(12, 120)
    try:
        for k in range(nrun):
            n = int(ctx.rng.integers(2, 9))
            workers = int(ctx.rng.integers(1, 4))
            S.available_cpus = lambda workers=workers: workers + 1
            script = []
            for _ in range(4 * n + 8):
                o = "Retry" if ctx.rng.random() < 0.2 else "Ok"
                script.append((int(ctx.rng.integers(0, 2 * workers)), o))
            sched = Sched(script)
            S.ProcessPoolExecutor, S.wait = sched.executor, sched.wait
            mode = ("strong", "weak", "analog1", "analog2")[k % 4]
            obs = [Observable("z", 1), Observable("x", 0), Observable("z", 0)]
            calls = []
            if mode == "strong":
                p = StrongSimParams(obs, num_traj=n, show_progress=False)

                def stub(args, p=p):
                    calls.append(args[0])
                    return [np.full(o.trajectories.shape[1:], float(args[0] * 100 + j)) for j, o in enumerate(p.sorted_observables)]

                S.digital_tjm = stub
                qc = QuantumCircuit(2)
                qc.h(0)
                S._run_strong_sim(MPS(2), qc, p, nm, parallel=True)
                got = [[float(np.real(np.ravel(o.trajectories[i])[0])) for i in range(n)] for o in p.sorted_observables]
                want = [[float(i * 100 + j) for i in range(n)] for j in range(len(p.sorted_observables))]
            elif mode == "weak":
                p = WeakSimParams(shots=n, show_progress=False)

                def stub(args):
                    calls.append(args[0])
                    return {args[0]: 1}

                S.digital_tjm = stub
                qc = QuantumCircuit(2)
                qc.h(0)
                S._run_weak_sim(MPS(2), qc, p, nm, parallel=True)
                got = [list(m.keys())[0] if isinstance(m, dict) else None for m in p.measurements[:n]]
                want = list(range(n))
            else:
                order = 1 if mode == "analog1" else 2
                p = AnalogSimParams(obs, elapsed_time=0.2, dt=0.1, num_traj=n, order=order, show_progress=False)

                def stub(args, p=p):
                    calls.append(args[0])
                    return [np.full(o.trajectories.shape[1:], float(args[0] * 100 + j)) for j, o in enumerate(p.sorted_observables)]

                S.analog_tjm_1 = stub
                S.analog_tjm_2 = stub
                S._run_analog(MPS(2), MPO.ising(2, 1, 0.5), p, nm, parallel=True)
                got = [[float(np.real(np.ravel(o.trajectories[i])[0])) for i in range(n)] for o in p.sorted_observables]
                want = [[float(i * 100 + j) for i in range(n)] for j in range(len(p.sorted_observables))]
            retried = any(o == "Retry" for _, o in sched.effective)
            ctx.case(nontrivial_key=("fe", mode, n, workers, tuple(sched.effective)), validated=True)
            ctx.count("frontend_" + mode)
            if got != want:
                ctx.violation(f"frontend:{mode}", f"{mode} front-end stored a trajectory result in the wrong row",
                              {"oracle": "frontend", "mode": mode, "n": n, "workers": workers,
                               "script": [list(e) for e in sched.effective], "got": got, "want": want})
            if sorted(set(calls)) != list(range(n)) or (not retried and len(calls) != n):
                ctx.violation(f"frontend-calls:{mode}", f"{mode} front-end executed trajectories {sorted(calls)} for n={n}",
                              {"oracle": "frontend", "mode": mode, "n": n, "calls": calls})
    finally:
        S.ProcessPoolExecutor, S.wait, S.digital_tjm, S.analog_tjm_1, S.analog_tjm_2, S.available_cpus = old


class TargetSched(Sched):
    """completes the oldest task in flight; every attempt of ONE chosen index fails with a retryable error, `times` times in a row"""

    def __init__(self, fail_idx, times, exc):
        super().__init__([])
        self.fail_idx, self.left, self.exc_type = fail_idx, times, exc

    def wait(self, futs, return_when=None, timeout=None):
        fl = list(futs)
        self.maxfl = max(self.maxfl, len(fl))
        f = fl[0]
        if f.idx == self.fail_idx and self.left > 0:
            self.left -= 1
            f.outcome, f.exc = "Retry", self.exc_type()
            self.effective.append((0, "Retry"))
        else:
            f.outcome = "Ok"
            self.effective.append((0, "Ok"))
        return [f], None


def public_entry(ctx):
    """simulator.run (the public entry point) under faults that exhaust the retry budget of one trajectory: the failure must reach the
    caller, and no trajectory may be executed again behind the caller's back"""
    import mqt.yaqs.simulator as S
    from mqt.yaqs.core.data_structures.networks import MPO, MPS
    from mqt.yaqs.core.data_structures.noise_model import NoiseModel
    from mqt.yaqs.core.data_structures.simulation_parameters import AnalogSimParams, Observable, StrongSimParams, WeakSimParams
    from qiskit import QuantumCircuit

    nm = NoiseModel([{"name": "pauli_x", "sites": [0], "strength": 0.1}])
    old = (S.ProcessPoolExecutor, S.wait, S.digital_tjm, S.analog_tjm_1, S.analog_tjm_2, S.available_cpus)
    try:
        for k, (mode, exc, times) in enumerate([("strong", OSError, 11), ("analog", TimeoutError, 11), ("weak", OSError, 11), ("strong", CancelledError, 11),
                                                ("analog", OSError, 3), ("weak", TimeoutError, 10)]):
            n = 5 if mode != "weak" else 4
            fail_idx = int(ctx.rng.integers(0, n))
            sched = TargetSched(fail_idx, times, exc)
            S.ProcessPoolExecutor, S.wait = sched.executor, sched.wait
            S.available_cpus = lambda: 3
            calls = []
            obs = [Observable("z", 0)]
            qc = QuantumCircuit(2)
            qc.h(0)
            if mode == "weak":
                p = WeakSimParams(shots=n, show_progress=False)

                def stub(args):
                    calls.append(args[0])
                    return {0: 1}
            else:
                p = StrongSimParams(obs, num_traj=n, show_progress=False) if mode == "strong" else AnalogSimParams(obs, elapsed_time=0.2, dt=0.1, num_traj=n, show_progress=False)

                def stub(args, p=p):
                    calls.append(args[0])
                    return [np.full(o.trajectories.shape[1:], float(args[0])) for o in p.sorted_observables]

            S.digital_tjm = S.analog_tjm_1 = S.analog_tjm_2 = stub
            raised = None
            try:
                S.run(MPS(2), MPO.ising(2, 1, 0.5) if mode == "analog" else qc, p, nm, parallel=True)
            except (OSError, TimeoutError, CancelledError) as e:
                raised = type(e).__name__
            except Exception as e:  # noqa: BLE001
                raised = "other:" + type(e).__name__
            exhausted = times > 10
            ctx.case(nontrivial_key=("public", mode, exc.__name__, times), validated=True)
            ctx.count("public_entry_exhausted" if exhausted else "public_entry_within_budget")
            dup = sorted({i for i in calls if calls.count(i) > 1})
            desc = {"oracle": "public", "mode": mode, "exc": exc.__name__, "times": times, "n": n, "fail_idx": fail_idx}
            if exhausted and raised is None:
                ctx.violation(f"public-dropped:{mode}", f"simulator.run ({mode}, parallel): trajectory {fail_idx} failed {times} times with {exc.__name__} (budget: 10 retries) "
                              f"but run() returned normally; executed indices {sorted(calls)}", desc)
            elif not exhausted and (raised is not None or sorted(set(calls)) != list(range(n)) or dup):
                ctx.violation(f"public-within:{mode}", f"simulator.run ({mode}, parallel): {times} transient {exc.__name__} failures of trajectory {fail_idx} (within the budget): "
                              f"raised={raised}, executed {sorted(calls)}", desc)
            elif dup:
                ctx.violation(f"public-rerun:{mode}", f"simulator.run ({mode}, parallel): trajectories {dup} were executed more than once around an exhausted budget", desc)
    finally:
        S.ProcessPoolExecutor, S.wait, S.digital_tjm, S.analog_tjm_1, S.analog_tjm_2, S.available_cpus = old


def search(ctx):
    """Serial and parallel modes run the same set of trajectories (tagged stubs, no model needed)."""
    public_entry(ctx)
    import mqt.yaqs.simulator as S
    from mqt.yaqs.core.data_structures.networks import MPS
    from mqt.yaqs.core.data_structures.noise_model import NoiseModel
    from mqt.yaqs.core.data_structures.simulation_parameters import Observable, StrongSimParams
    from qiskit import QuantumCircuit

    nm = NoiseModel([{"name": "pauli_x", "sites": [0], "strength": 0.1}])
    old = S.digital_tjm
    try:
        for n in (1, 2, 5):
            calls = []

            def stub(args):
                calls.append(args[0])
                return [np.full(o.trajectories.shape[1:], float(args[0])) for o in p.sorted_observables]

            S.digital_tjm = stub
            p = StrongSimParams([Observable("z", 0)], num_traj=n, show_progress=False)
            qc = QuantumCircuit(2)
            qc.h(0)
            S._run_strong_sim(MPS(2), qc, p, nm, parallel=False)
            ctx.case(nontrivial_key=("serial", n))
            if calls != list(range(n)):
                ctx.violation("serial-set", f"serial mode ran trajectories {calls} for num_traj={n}",
                              {"oracle": "serial", "n": n, "calls": calls})
    finally:
        S.digital_tjm = old


def replay(ctx, data):
    rp = data.get("replay", data)
    if rp.get("oracle") == "runner":
        r = run_impl(rp["n"], rp["workers"], rp["maxr"], [tuple(e) for e in rp["script"]])
        f = property_failures(rp["n"], rp["workers"], rp["maxr"], r)
        return "; ".join(f) if f else None
    if data.get("kind") == "no-failing-input-found":
        return "re-run the check: " + "; ".join(b["what"] for b in data.get("broken", []))
    c2 = type(ctx)(ctx.pid, "quick", ctx.seed)
    if rp.get("oracle") == "public":
        public_entry(c2)
        return "; ".join(v["what"] for v in c2.violations) or None
    frontends(c2)
    search(c2)
    return "; ".join(v["what"] for v in c2.violations) or None
