"""C05 — noise-free analog evolution: unitary, energy-conserving, converges to exp(-iHt).

Tie: the real local_dynamic_tdvp runs with its numerical kernels (update_site, update_bond) replaced by recording identity
stubs; the recorded step list (kind, site, direction of time) is compared exactly with Model/TdvpSweep.sweep fed with the
one-site/two-site decisions read off the real bond dimensions at the moment each decision is taken.
Search: real runs — norm and energy drift, convergence to the dense exp(-iHt) at dt and dt/2 (TDVP second order, BUG first
order), agreement of the two integrator orders.
"""
from __future__ import annotations

import numpy as np

import common
from common import g_bool, g_list
from drivers import dense

RULE = ("chains L=2..8 with random bond-dimension patterns in {1,2,3,4} and caps in {1,2,3,4,8}; non-trivial = the pattern mixes "
        "one-site and two-site steps; distinct by (dims, cap). Real runs: ising/heisenberg/random Pauli Hamiltonians x built-in states")
TRUSTED = ["recording identity stubs for update_site/update_bond in tdvp's namespace; dense exp(-iHt) reference",
           "modelled, not verified: exactness of the local Krylov steps (C19), truncation error (C09), order of the splitting"]
ASSUMES = ["a two-site step on (i,i+1) accounts for the one-site terms of i and i+1 and the bond term (i,i+1) of the tangent-space projector"]
HEADER = "From Coq Require Import List. Import ListNotations.\nFrom Yaqs Require Import Model.TdvpSweep."


def trace_sweep(dims, cap, seed=0, reuse=False):
    """dims: right bond dimension of sites 0..L-2.  Returns (steps, ones_f, L, ops): ops[k] = indices of the operator tensors
    of the Hamiltonian GIVEN TO THIS CALL that make up the operator handed to step k (None when it is none of them).
    reuse: the MPO object has been used for a run with a different operator before and was rebuilt in place."""
    import mqt.yaqs.core.methods.tdvp as T
    from mqt.yaqs.core.data_structures.networks import MPO, MPS
    from mqt.yaqs.core.data_structures.simulation_parameters import AnalogSimParams, Observable

    L = len(dims) + 1
    rng = np.random.default_rng(seed)
    tens = []
    for i in range(L):
        lft = 1 if i == 0 else dims[i - 1]
        r = 1 if i == L - 1 else dims[i]
        tens.append(rng.normal(size=(2, lft, r)) + 1j * rng.normal(size=(2, lft, r)))
    st = MPS(L, tensors=tens, physical_dimensions=[2] * L)
    p = AnalogSimParams([Observable("z", 0)], elapsed_time=0.1, dt=0.1, max_bond_dim=cap, threshold=1e-14, show_progress=False)
    H = MPO.ising(L, 1.0, 0.5)
    if reuse:
        H = MPO()
        H.custom([t.copy() for t in MPO.ising(L, 0.3, 1.1).tensors], transpose=False)
        warm = MPS(L, tensors=[t.copy() for t in tens], physical_dimensions=[2] * L)
        T.local_dynamic_tdvp(warm, H, p)  # a complete earlier run with the previous content of the object
        H.custom([t.copy() for t in MPO.ising(L, 1.0, 0.5).tensors], transpose=False)
    steps, ops, phase = [], [], {"half": "f", "last": None}
    ones_f = [bool(t.shape[2] >= cap) for t in st.tensors]
    ones_b = [None] * L
    saved = (T.update_site, T.update_bond, T.merge_mps_tensors)
    pending = {}

    def which(tensor):
        for k, t in enumerate(st.tensors):
            if t is tensor:
                return k
        return None

    def merge(a, b, *xa, **xk):
        pending["pair"] = which(a)
        return saved[2](a, b)

    def upd_site(left, right, op, tensor, dt, *xa, **xk):
        fwd = dt > 0
        if "pair" in pending:
            i = pending.pop("pair")
            steps.append(("P", i))
            want = T.merge_mpo_tensors(H.tensors[i], H.tensors[i + 1])
            ops.append([i, i + 1] if op.shape == want.shape and np.array_equal(op, want) else None)
            if phase["half"] == "b" or (steps and _is_backward(steps)):
                ones_b[i + 1] = False
            phase["last"] = ("P", i)
        else:
            i = which(tensor)
            steps.append(("S", i, fwd))
            ops.append([k for k, w in enumerate(H.tensors) if w is op] or None)
            phase["last"] = ("S", i, fwd)
        return tensor

    def upd_bond(left, right, bond, dt, *xa, **xk):
        steps.append(("B", None))
        ops.append([])
        return bond

    def _is_backward(_):
        return False

    T.update_site, T.update_bond, T.merge_mps_tensors = upd_site, upd_bond, merge
    try:
        T.local_dynamic_tdvp(st, H, p)
    finally:
        T.update_site, T.update_bond, T.merge_mps_tensors = saved
    return steps, ones_f, L, ops


def trace_bug(dims, seed=0, reuse=False, kind="analog", dt=0.1):
    """One call of bug.bug with recording kernels.  Returns the list of events
    ("U", site of the tensor, index of the operator tensor, left block id, right block id, dt / params.dt) ... ("T", threshold, cap)."""
    import mqt.yaqs.core.methods.bug as B
    from mqt.yaqs.core.data_structures.networks import MPO, MPS
    from mqt.yaqs.core.data_structures.simulation_parameters import AnalogSimParams, Observable, StrongSimParams

    L = len(dims) + 1
    rng = np.random.default_rng(seed)
    tens = []
    for i in range(L):
        lft = 1 if i == 0 else dims[i - 1]
        r = 1 if i == L - 1 else dims[i]
        tens.append(rng.normal(size=(2, lft, r)) + 1j * rng.normal(size=(2, lft, r)))
    st = MPS(L, tensors=tens, physical_dimensions=[2] * L)
    if kind == "analog":
        p = AnalogSimParams([Observable("z", 0)], elapsed_time=dt, dt=dt, max_bond_dim=7, threshold=1e-9, show_progress=False)
    else:
        p = StrongSimParams([Observable("z", 0)], num_traj=1, max_bond_dim=7, threshold=1e-9, show_progress=False)
    H = MPO.ising(L, 1.0, 0.5)
    if reuse:
        H = MPO()
        H.custom([t.copy() for t in MPO.ising(L, 0.3, 1.1).tensors], transpose=False)
        warm = MPS(L, tensors=[t.copy() for t in st.tensors], physical_dimensions=[2] * L)
        B.bug(warm, H, p)
        H.custom([t.copy() for t in MPO.ising(L, 1.0, 0.5).tensors], transpose=False)
    ev = []
    saved = (B.update_site, B.update_left_environment, B.update_right_environment)
    lefts, rights = {}, {}   # id(array) -> index; arrays kept alive in keep
    keep = []
    seen_left = {"n": 0}
    canon = {}

    def lenv(a, b, w, prev, *xa, **xk):
        out = saved[1](a, b, w, prev, *xa, **xk)
        k = [i for i, t in enumerate(H.tensors) if t is w]
        keep.append(out)
        lefts[id(out)] = (k[0] + 1) if len(k) == 1 else None
        return out

    def renv(a, b, w, prev, *xa, **xk):
        out = saved[2](a, b, w, prev, *xa, **xk)
        k = [i for i, t in enumerate(H.tensors) if t is w]
        keep.append(out)
        rights[id(out)] = k[0] if len(k) == 1 else None
        return out

    def upd(left, right, op, tensor, step, *xa, **xk):
        k = [i for i, t in enumerate(H.tensors) if t is op]
        li = lefts.get(id(left), 0 if left.shape[0] == left.shape[2] and np.array_equal(left[:, 0, :], np.eye(left.shape[0])) else None)
        ri = rights.get(id(right), L if right.shape[0] == right.shape[2] and np.array_equal(right[:, 0, :], np.eye(right.shape[0])) else None)
        ev.append(("U", k[0] if len(k) == 1 else None, li, ri, float(step)))
        return saved[0](left, right, op, tensor, step, *xa, **xk)

    trunc = type(st).truncate

    def truncate(self, threshold=None, max_bond_dim=None, *xa, **xk):
        ev.append(("T", threshold, max_bond_dim))
        return trunc(self, threshold, max_bond_dim, *xa, **xk)

    B.update_site, B.update_left_environment, B.update_right_environment = upd, lenv, renv
    type(st).truncate = truncate
    try:
        B.bug(st, H, p)
    finally:
        B.update_site, B.update_left_environment, B.update_right_environment = saved
        type(st).truncate = trunc
    return ev, p, L


def trace_single_site(L, kind="analog", seed=0, dt=0.1, via_dynamic=False):
    """single_site_tdvp (or local_dynamic_tdvp on a one-site chain) with recording kernels: ("S", site, half steps) / ("B", bond, half steps)"""
    import mqt.yaqs.core.methods.tdvp as T
    from mqt.yaqs.core.data_structures.networks import MPO, MPS
    from mqt.yaqs.core.data_structures.simulation_parameters import AnalogSimParams, Observable, StrongSimParams

    rng = np.random.default_rng(seed)
    dims = [int(min(rng.choice([1, 2, 3]), 2 ** min(i + 1, L - 1 - i))) for i in range(L - 1)]
    tens = []
    for i in range(L):
        lft = 1 if i == 0 else dims[i - 1]
        r = 1 if i == L - 1 else dims[i]
        tens.append(rng.normal(size=(2, lft, r)) + 1j * rng.normal(size=(2, lft, r)))
    st = MPS(L, tensors=tens, physical_dimensions=[2] * L)
    if kind == "analog":
        p = AnalogSimParams([Observable("z", 0)], elapsed_time=dt, dt=dt, max_bond_dim=8, threshold=1e-12, show_progress=False)
        unit = dt
    else:
        p = StrongSimParams([Observable("z", 0)], num_traj=1, max_bond_dim=8, threshold=1e-12, show_progress=False)
        unit = 1.0
    H = MPO.ising(L, 1.0, 0.5)
    ev, pending = [], []
    saved = (T.update_site, T.update_bond)

    def half(x):
        h = 2 * x / unit
        return int(round(h)) if abs(h - round(h)) < 1e-9 else float(h)

    def upd_site(left, right, op, tensor, step, *xa, **xk):
        k = [i for i, w in enumerate(H.tensors) if w is op]
        site = k[0] if len(k) == 1 else None
        for b in pending:   # bond updates of the right-to-left half belong to the bond left of the previous site = this site
            ev[b] = ("B", site, ev[b][2])
        pending.clear()
        ev.append(("S", site, half(step)))
        return tensor

    def upd_bond(left, right, bond, step, *xa, **xk):
        last = [e for e in ev if e[0] == "S"]
        full_seen = any(e[0] == "S" and e[1] == L - 1 for e in ev)
        if full_seen:
            pending.append(len(ev))
            ev.append(("B", None, half(-step)))
        else:
            ev.append(("B", last[-1][1] if last else None, half(-step)))
        return bond

    T.update_site, T.update_bond = upd_site, upd_bond
    try:
        (T.local_dynamic_tdvp if via_dynamic else T.single_site_tdvp)(st, H, p)
    finally:
        T.update_site, T.update_bond = saved
    return ev


def split_halves(steps, L):
    """The forward half ends after the step that touches site L-1 for the first time in forward direction; the real loop structure
    makes the split unambiguous: the first half contains exactly one positive update covering site L-1."""
    seen = 0
    for k, s in enumerate(steps):
        covers_last = (s[0] == "S" and s[1] == L - 1 and s[2]) or (s[0] == "P" and s[1] == L - 2)
        if covers_last:
            return steps[: k + 1], steps[k + 1:]
    return steps, []


def infer_back_decisions(back, L):
    """one-site/two-site decisions of the right-to-left half, read off the recorded steps (site L-1 first)."""
    ones = [None] * L
    for s in back:
        if s[0] == "S" and s[2]:
            ones[s[1]] = True
        elif s[0] == "P":
            ones[s[1] + 1] = False
    return ones


def to_model_steps(v, L):
    out = []
    for s in v:
        if s[0] == "TSite":
            out.append(("S", s[1], bool(s[2])))
        elif s[0] == "TBond":
            out.append(("B", None))
        else:
            out.append(("P", s[1]))
    return out


def correspond(ctx):
    ctx.rules.append(RULE)
    correspond_bug(ctx)
    correspond_single_site(ctx)
    cases, exprs, impl = [], [], []
    for k in range(ctx.scale(120, 2500)):
        L = int(ctx.rng.integers(2, 9))
        cap = int(ctx.rng.choice([1, 2, 3, 4, 8]))
        dims = [int(min(ctx.rng.choice([1, 2, 3, 4]), 2 ** min(i + 1, L - 1 - i))) for i in range(L - 1)]
        reuse = k % 3 == 2
        steps, ones_f, _, ops = trace_sweep(dims, cap, seed=k, reuse=reuse)
        fwd, back = split_halves(steps, L)
        ob = infer_back_decisions(back, L)
        # sites without an own decision step in the backward half (skipped or covered by a pair): fill consistently
        for i in range(L):
            if ob[i] is None:
                ob[i] = False if i == 0 else (cap <= 1)
        impl.append(steps)
        sw = f"sweep {g_list([g_bool(b) for b in ones_f])} {g_list([g_bool(b) for b in ob])}"
        exprs.append(f"({sw}, map step_ops ({sw}))")
        cases.append(dict(L=L, cap=cap, dims=dims, ones_f=ones_f, ones_b=ob, reuse=reuse, ops=ops))
    vals = common.coq_eval_sharded(HEADER, exprs, tag="c05")
    for c, steps, (v, mops) in zip(cases, impl, vals):
        ops = c.pop("ops")
        ctx.count("reused_operator_object" if c["reuse"] else "fresh_operator_object")
        if ops != [list(o) for o in mops]:
            bad = [k for k, (a, b) in enumerate(zip(ops, mops)) if a != list(b)]
            ctx.mismatch("operator tensors handed to the local steps vs TdvpSweep.step_ops (tensors of the Hamiltonian given to this call)",
                         c, [ops[k] for k in bad[:4]], [list(mops[k]) for k in bad[:4]], key="operator")
        mixed = len(set(c["ones_f"][:-1])) > 1
        ctx.case(nontrivial_key=(tuple(c["dims"]), c["cap"]) if mixed else None, validated=True,
                 sample={**c, "steps": steps} if mixed and c["L"] > 3 else None)
        ctx.count("sweeps")
        ctx.count("pattern_mixed" if mixed else "pattern_uniform")
        if steps != to_model_steps(v, c["L"]):
            ctx.mismatch("local_dynamic_tdvp step list vs TdvpSweep.sweep", c, steps, to_model_steps(v, c["L"]))
        # the property-level content of the trace: aggregate time budget
        site_t = sum((1 if s[2] else -1) for s in steps if s[0] == "S") + 2 * sum(1 for s in steps if s[0] == "P")
        bond_t = -sum(1 for s in steps if s[0] in ("B", "P"))
        if site_t != 2 * c["L"] or bond_t != -2 * (c["L"] - 1):
            ctx.violation("time-budget", f"one TDVP step spends {site_t} half-steps on sites and {bond_t} on bonds for L={c['L']} "
                          f"(expected {2 * c['L']} and {-2 * (c['L'] - 1)}); dims {c['dims']}, cap {c['cap']}", {"oracle": "budget", **c})


def correspond_bug(ctx):
    """bug.bug with recording kernels vs Model/BugSweep.bug_steps: which site, operator tensor and environment blocks every local
    update works with, the step length (the full dt; 1 for circuit parameters), and the closing truncation with the run's limits."""
    cases, exprs = [], []
    for k in range(ctx.scale(40, 600)):
        L = int(ctx.rng.integers(2, 8))
        dims = [int(min(ctx.rng.choice([1, 2, 3, 4]), 2 ** min(i + 1, L - 1 - i))) for i in range(L - 1)]
        kind = "analog" if k % 3 else "strong"
        dt = float(ctx.rng.choice([0.1, 0.05, 0.3]))
        ev, par, _ = trace_bug(dims, seed=k, reuse=(k % 4 == 3), kind=kind, dt=dt)
        cases.append(dict(L=L, dims=dims, kind=kind, dt=dt, reuse=(k % 4 == 3), events=ev, want_dt=(dt if kind == "analog" else 1.0),
                          limits=(par.threshold, par.max_bond_dim)))
        exprs.append(f"bug_steps {L}")
    vals = common.coq_eval_sharded("From Coq Require Import List. Import ListNotations.\nFrom Yaqs Require Import Model.BugSweep.", exprs, tag="c05b")
    for c, v in zip(cases, vals):
        ev = c.pop("events")
        model = [("U", a[2], a[3], a[4]) if a[0] == "BUpd" else ("T",) for a in v]
        impl = [("U", e[1], e[2], e[3]) if e[0] == "U" else ("T",) for e in ev]
        ctx.case(nontrivial_key=("bug", tuple(c["dims"]), c["kind"], c["reuse"]), validated=True,
                 sample={**c, "events": ev} if c["L"] == 4 and c["reuse"] else None)
        ctx.count("bug_steps_" + c["kind"])
        if impl != model:
            ctx.mismatch("bug.bug step list vs BugSweep.bug_steps (operator tensor, left block, right block per update; truncation last)",
                         c, ev, model, key="bug-steps")
            continue
        bad_dt = [e for e in ev if e[0] == "U" and e[4] != c["want_dt"]]
        if bad_dt:
            ctx.mismatch("bug.bug step length vs BugSweep (every update covers the full dt)", c, bad_dt[:3], c["want_dt"], key="bug-dt")
        tr = [e for e in ev if e[0] == "T"]
        if tr and (tr[0][1], tr[0][2]) != tuple(c["limits"]):
            ctx.mismatch("bug.bug closing truncation vs the run's (threshold, max_bond_dim)", c, tr[0], list(c["limits"]), key="bug-trunc")


def correspond_single_site(ctx):
    """single_site_tdvp with recording kernels (also reached through local_dynamic_tdvp on a one-site chain) vs Model/SingleSite"""
    cases, exprs = [], []
    for k in range(ctx.scale(30, 300)):
        L = 1 if k % 3 == 0 else int(ctx.rng.integers(1, 7))
        kind = "analog" if k % 4 else "strong"
        via = bool(L == 1 and k % 2 == 0)
        dt = float(ctx.rng.choice([0.1, 0.05, 0.3]))
        cases.append(dict(L=L, kind=kind, dt=dt, via_local_dynamic_tdvp=via, events=trace_single_site(L, kind=kind, seed=k, dt=dt, via_dynamic=via)))
        exprs.append(f"ss_{'analog' if kind == 'analog' else 'circuit'} {L}")
    vals = common.coq_eval_sharded("From Coq Require Import List. Import ListNotations.\nFrom Yaqs Require Import Model.SingleSite.", exprs, tag="c05s")
    for c, v in zip(cases, vals):
        ev = c.pop("events")
        model = [("S" if a[0] == "SSite" else "B", a[1], a[2]) for a in v]
        ctx.case(nontrivial_key=("single-site", c["L"], c["kind"], c["via_local_dynamic_tdvp"]), validated=True,
                 sample={**c, "events": ev} if c["L"] in (1, 3) and len(ctx.samples) < 6 else None)
        ctx.count("single_site_one_site_chain" if c["L"] == 1 else "single_site_chain")
        if [tuple(e) for e in ev] != model:
            ctx.mismatch("single_site_tdvp step list (site / bond, duration in half steps) vs SingleSite.ss_analog / ss_circuit", c, ev, model, key="single-site")


# ---- real runs ------------------------------------------------------------------------------------------------------
def ham(kind, L, rng):
    from mqt.yaqs.core.data_structures.networks import MPO

    if kind == "ising":
        J, g = float(rng.uniform(0.5, 1.2)), float(rng.uniform(0.3, 1.0))
        return MPO.ising(L, J, g), dense.ising(L, J, g)
    if kind == "heisenberg":
        a, b, c, h = (float(x) for x in rng.uniform(0.2, 1.0, size=4))
        return MPO.heisenberg(L, a, b, c, h), dense.heisenberg(L, a, b, c, h)
    terms, hd = pauli_terms(L, rng)
    m = MPO()
    m.from_pauli_sum(terms=terms, length=L)
    return m, hd


def pauli_terms(L, rng):
    terms, hd = [], np.zeros((2**L, 2**L), dtype=complex)
    for i in range(L):
        for p in "XZ":
            c = float(rng.uniform(-1, 1))
            terms.append((c, f"{p}{i}"))
            hd += c * dense.op_on(L, {i: dense.PAULI[p]})
    for i in range(L - 1):
        p, q = rng.choice(list("XYZ"), size=2)
        c = float(rng.uniform(-1, 1))
        terms.append((c, f"{p}{i} {q}{i + 1}"))
        hd += c * dense.op_on(L, {i: dense.PAULI[p], i + 1: dense.PAULI[q]})
    return terms, hd


def evolve_real(L, H, state, dt, T, order, mode):
    from mqt.yaqs import simulator
    from mqt.yaqs.core.data_structures.networks import MPS
    from mqt.yaqs.core.data_structures.simulation_parameters import AnalogSimParams, EvolutionMode, Observable

    obs = [Observable(p, i) for i in range(L) for p in "xz"]
    par = AnalogSimParams(obs, elapsed_time=T, dt=dt, order=order, sample_timesteps=True, get_state=True, show_progress=False,
                          threshold=1e-13, max_bond_dim=64, evolution_mode=EvolutionMode.BUG if mode == "BUG" else EvolutionMode.TDVP)
    with common.time_limit(300):
        simulator.run(MPS(L, state=state), H, par, None, parallel=False)
    return np.array([np.real(o.results) for o in obs]), dense.mps_dense(par.output_state)


def convergence_oracle(args):
    from mqt.yaqs.core.data_structures.networks import MPS

    rng = np.random.default_rng(args["seed"])
    L, mode, order = args["L"], args["mode"], args["order"]
    H, hd = ham(args["ham"], L, rng)
    if args.get("reuse"):
        # history: the same MPO object carried another operator in an earlier run and is rebuilt in place
        evolve_real(L, H, args["state"], 0.1, 0.2, order, mode)
        terms, hd = pauli_terms(L, rng)
        H.from_pauli_sum(terms=terms, length=L)
    v0 = dense.mps_dense(MPS(L, state=args["state"]))
    v0 /= np.linalg.norm(v0)
    T = float(args.get("T", 0.4))
    e0 = dense.expect(v0, hd)
    errs = []
    for dt in (0.1, 0.05):
        res, vT = evolve_real(L, H, args["state"], dt, T, order, mode)
        if abs(np.linalg.norm(vT) - 1) > 1e-8:
            return f"{mode} order {order}: norm of the final state is {np.linalg.norm(vT):.10f}"
        eT = dense.expect(vT, hd)
        if abs(eT - e0) > 1e-7 * max(1.0, np.linalg.norm(hd, 2)) and mode == "TDVP":
            return f"{mode} order {order}: energy drifts from {e0:.10f} to {eT:.10f} (dt={dt})"
        ref = dense.evolve(hd, v0, T)
        errs.append(dense.up_to_phase(vT, ref))
        if dt == 0.05:
            ops = [dense.op_on(L, {i: dense.PAULI[p]}) for i in range(L) for p in "xz"]
            refv = np.array([dense.expect(ref, o) for o in ops])
            if np.max(np.abs(res[:, -1] - refv)) > (0.02 if mode == "TDVP" else 0.2):
                return f"{mode} order {order}: final observables differ from exp(-iHT) by {np.max(np.abs(res[:, -1] - refv)):.3e} at dt=0.05"
    if mode == "TDVP":
        floor = 1e-4 if args.get("wide") else 1e-5  # below the floor the error is Krylov / truncation noise, not splitting error
        if errs[0] > floor and errs[1] > errs[0] / 2.8:
            return f"TDVP order {order}: halving dt reduces the state error only from {errs[0]:.3e} to {errs[1]:.3e} (second order expected)"
    else:
        if errs[0] > 1e-5 and errs[1] > errs[0] / 1.5:
            return f"BUG: halving dt reduces the state error only from {errs[0]:.3e} to {errs[1]:.3e} (first order expected)"
    if mode == "TDVP" and args.get("compare_orders"):
        r1, v1 = evolve_real(L, H, args["state"], 0.05, T, 1, mode)
        r2, v2 = evolve_real(L, H, args["state"], 0.05, T, 2, mode)
        if dense.up_to_phase(v1, v2) > 1e-7:
            return f"TDVP: integrator orders 1 and 2 give different noise-free states (distance {dense.up_to_phase(v1, v2):.3e})"
    return None


def short_run_oracle(args):
    """the shortest runs (one and two steps), both orders, with and without intermediate sampling, both evolution modes: final state
    and final observables against exp(-iHT)"""
    from mqt.yaqs import simulator
    from mqt.yaqs.core.data_structures.networks import MPS
    from mqt.yaqs.core.data_structures.simulation_parameters import AnalogSimParams, EvolutionMode, Observable

    rng = np.random.default_rng(args["seed"])
    L, dt = args["L"], 0.05
    H, hd = ham(args["ham"], L, rng)
    v0 = dense.mps_dense(MPS(L, state=args["state"]))
    v0 /= np.linalg.norm(v0)
    ops = [dense.op_on(L, {i: dense.PAULI[p]}) for i in range(L) for p in "xz"]
    for mode in ("TDVP", "BUG"):
        for order in (1, 2):
            for sample in (True, False):
                for steps in (1, 2):
                    T = steps * dt
                    obs = [Observable(p, i) for i in range(L) for p in "xz"]
                    par = AnalogSimParams(obs, elapsed_time=T, dt=dt, order=order, sample_timesteps=sample, get_state=True, show_progress=False,
                                          threshold=1e-13, max_bond_dim=64, evolution_mode=EvolutionMode.BUG if mode == "BUG" else EvolutionMode.TDVP)
                    tag = f"{mode} order {order}, {steps} step(s) of dt={dt}, sample_timesteps={sample}"
                    with common.time_limit(120):
                        simulator.run(MPS(L, state=args["state"]), H, par, None, parallel=False)
                    if par.output_state is None:
                        return f"{tag}: no final state was produced although get_state=True"
                    ref = dense.evolve(hd, v0, T)
                    tol = (0.5 * dt**2 if mode == "TDVP" else 2 * dt) * max(1.0, np.linalg.norm(hd, 2))
                    err = dense.up_to_phase(dense.mps_dense(par.output_state), ref)
                    if err > tol:
                        return f"{tag}: final state is {err:.3e} away from exp(-iHT)|psi0> (allowed {tol:.1e})"
                    got = np.array([np.real(np.ravel(o.results))[-1] for o in obs])
                    want = np.array([dense.expect(ref, o) for o in ops])
                    if np.max(np.abs(got - want)) > 4 * tol:
                        k = int(np.argmax(np.abs(got - want)))
                        return f"{tag}: reported <{obs[k].gate.name}_{obs[k].sites}>(T) = {got[k]:+.6f}, exp(-iHT) gives {want[k]:+.6f}"
    return None


def stiff_oracle(args):
    """stiff local steps (large coupling x time step: the local Krylov solves need many vectors), unconstrained bonds: norm, energy and
    final state against exp(-iHT)"""
    from mqt.yaqs.core.data_structures.networks import MPO, MPS

    L, J, g, dt, T = args["L"], args["J"], args["g"], args["dt"], args["T"]
    H, hd = MPO.ising(L, J, g), dense.ising(L, J, g)
    v0 = dense.mps_dense(MPS(L, state=args["state"]))
    v0 /= np.linalg.norm(v0)
    ref = dense.evolve(hd, v0, T)
    for order in (1, 2):
        _, vT = evolve_real(L, H, args["state"], dt, T, order, "TDVP")
        tag = f"stiff Ising chain J={J} g={g} L={L} dt={dt} TDVP order {order}"
        if abs(np.linalg.norm(vT) - 1) > 1e-8:
            return f"{tag}: norm of the final state is {np.linalg.norm(vT):.8f}"
        if abs(dense.expect(vT, hd) - dense.expect(v0, hd)) > 1e-6 * np.linalg.norm(hd, 2):
            return f"{tag}: energy drifts from {dense.expect(v0, hd):.8f} to {dense.expect(vT, hd):.8f}"
        err = dense.up_to_phase(vT, ref)
        if err > 5e-3:
            return f"{tag}: final state is {err:.3e} away from exp(-iHT)|psi0> with unconstrained bonds"
    return None


def qudit_oracle(args):
    """chains of three-level sites (Bose-Hubbard, transmon-resonator chains) with the default, unconstrained bond dimension: norm, energy and
    final state vs exp(-iHT) of the operator's own dense matrix (site 0 leftmost, as C07 establishes for the builders)"""
    from mqt.yaqs import simulator
    from mqt.yaqs.core.data_structures.networks import MPO, MPS
    from mqt.yaqs.core.data_structures.simulation_parameters import AnalogSimParams, EvolutionMode, Observable

    L, d, T = args["L"], int(args.get("d", 3)), args.get("T", 1.0)
    if args["ham"] == "bose":
        H = MPO.bose_hubbard(length=L, local_dim=d, omega=0.8, hopping_j=0.7, hubbard_u=0.5)
    else:
        H = MPO.coupled_transmon(length=L, qubit_dim=d, resonator_dim=d, qubit_freq=1.0, resonator_freq=0.9, anharmonicity=-0.2, coupling=0.6)
    start = args["start"]
    v0 = dense.mps_dense(MPS(L, state="basis", basis_string=start, physical_dimensions=[d] * L))
    if d ** L > 2000:  # many levels per site: the local problems of the sweep reach thousands of entries (compiled Krylov path)
        import scipy.sparse as sp
        import scipy.sparse.linalg as spl

        hd = sp.csr_matrix(np.asarray(H.to_matrix()))
        ref = spl.expm_multiply(-1j * T * hd.tocsc(), v0)
    else:
        hd = np.asarray(H.to_matrix())
        ref = dense.evolve(hd, v0, T)
    e0 = dense.expect(v0, hd)
    errs = []
    dts = (0.1, 0.05) if args["mode"] == "TDVP" else (0.05, 0.025)
    for dt in dts:
        # threshold far below every weight that matters: a rank-adaptive integrator started from a product state grows new directions
        # from weights of order dt^2 and smaller, which the default threshold (1e-6) would prune again at every step
        par = AnalogSimParams([Observable(start)], elapsed_time=T, dt=dt, order=args["order"], sample_timesteps=False, get_state=True, threshold=float(args.get("threshold", 1e-13)),
                              show_progress=False, evolution_mode=EvolutionMode.BUG if args["mode"] == "BUG" else EvolutionMode.TDVP)
        with common.time_limit(300):
            simulator.run(MPS(L, state="basis", basis_string=start, physical_dimensions=[d] * L), H, par, None, parallel=False)
        vT = dense.mps_dense(par.output_state)
        if abs(np.linalg.norm(vT) - 1) > 1e-6:
            return f"{args['ham']} L={L} (d={d}) {args['mode']} order {args['order']}: norm of the final state is {np.linalg.norm(vT):.8f}"
        if args["mode"] == "TDVP" and abs(dense.expect(vT, hd) - e0) > 1e-5 * max(1.0, float(abs(hd).sum(axis=1).max())):
            return f"{args['ham']} L={L} (d={d}) order {args['order']}: energy drifts from {e0:.8f} to {dense.expect(vT, hd):.8f} (dt={dt}, default bond limits)"
        errs.append(dense.up_to_phase(vT, ref))
    tol = 2e-3 if args["mode"] == "TDVP" else 6e-2
    if errs[1] > tol or (args["mode"] == "BUG" and errs[0] > 1e-5 and errs[1] > errs[0] / 1.5):
        return (f"{args['ham']} L={L} (d={d}) {args['mode']} order {args['order']}: final state is {errs[1]:.3e} away from exp(-iHT)|psi0> at dt={dts[1]} "
                f"({errs[0]:.3e} at dt={dts[0]}) with the default bond limit, start {start}")
    return None


def search(ctx):
    plan = []
    states = ["zeros", "x+", "Neel", "wall", "y+", "ones"]
    for k in range(ctx.scale(10, 150)):
        plan.append(dict(seed=int(ctx.rng.integers(0, 2**31)), L=int(ctx.rng.integers(2, 5 if ctx.quick else 6)), ham=["ising", "heisenberg", "pauli"][k % 3],
                         state=states[k % len(states)], mode="TDVP" if k % 4 else "BUG", order=1 + k % 2, compare_orders=(k % 5 == 0),
                         reuse=(k % 3 == 2 and k % 4 != 0)))
    # one-site chains: the dynamic sweep hands them to the one-site integrator
    for k in range(ctx.scale(3, 12)):
        plan.append(dict(seed=int(ctx.rng.integers(0, 2**31)), L=1, ham=["pauli", "ising"][k % 2], state=["zeros", "y+", "x+"][k % 3],
                         mode="TDVP" if k % 3 else "BUG", order=1 + k % 2, T=1.0))
        ctx.count("one_site_chains")
    # six-site Heisenberg chains over a longer time: the compressed MPO is in a complex gauge (its operator blocks are not Hermitian one
    # by one) and the bonds keep growing during the run
    for k in range(ctx.scale(2, 6)):
        plan.append(dict(seed=int(ctx.rng.integers(0, 2**31)), L=6, ham="heisenberg", state=["x+", "Neel", "y+"][k % 3], mode="TDVP", order=2 - k % 2, T=1.0))
        ctx.count("heisenberg_six_sites")
    # wide and long enough for the middle bonds to pass dimension 8: the local Krylov steps then leave the small dense path
    for k in range(ctx.scale(1, 4)):
        plan.append(dict(seed=int(ctx.rng.integers(0, 2**31)), L=8, ham="pauli", state=["Neel", "x+"][k % 2], mode="TDVP", order=1 + k % 2, T=1.2, wide=True))
        ctx.count("wide_chains")
    for k, a in enumerate([dict(L=6, J=4.0, g=2.8, dt=0.2, T=0.4, state="wall"), dict(L=8, J=1.0, g=0.7, dt=0.5, T=1.0, state="zeros")][: 1 if ctx.quick else 2]):
        try:
            with common.time_limit(300):
                why = stiff_oracle(a)
        except common.HardTimeout:
            ctx.notes.append("stiff oracle timed out")
            continue
        except Exception as e:  # noqa: BLE001
            why = f"simulator.run raised {type(e).__name__}: {e}"
        ctx.case(nontrivial_key=("stiff", k))
        ctx.count("stiff_local_steps")
        if why:
            ctx.violation("stiff-steps", why, {"oracle": "stiff", "args": a})
    for k in range(ctx.scale(1, 6)):
        a = dict(seed=int(ctx.rng.integers(0, 2**31)), L=int(ctx.rng.integers(2, 5)), ham=["ising", "heisenberg", "pauli"][k % 3], state=["wall", "x+", "Neel"][k % 3])
        try:
            why = short_run_oracle(a)
        except common.HardTimeout:
            ctx.notes.append("short-run oracle timed out")
            continue
        except Exception as e:  # noqa: BLE001
            why = f"simulator.run raised {type(e).__name__}: {e}"
        ctx.case(nontrivial_key=("short", k))
        ctx.count("shortest_runs")
        if why:
            ctx.violation("short-run", why, {"oracle": "short", "args": a})
    for k, (hamk, L, start) in enumerate([("bose", 4, "1010"), ("transmon", 3, "101"), ("bose", 3, "201"), ("transmon", 4, "1010")][: 3 if ctx.quick else 4]):
        a = dict(ham=hamk, L=L, start=start, order=1 + k % 2, mode="TDVP" if k != 2 else "BUG")
        if a["mode"] == "BUG":
            a["order"] = 2
        if k == 0:  # eight levels per site: two-site blocks of 64 x 8 x 8 entries in the middle of the chain
            a.update(d=8, start="2121", T=0.6, threshold=0.0)  # nothing is cut: the bonds reach 8 | 64 | 8
            ctx.count("qudit_chains_eight_levels")
        try:
            why = qudit_oracle(a)
        except common.HardTimeout:
            ctx.notes.append("qudit oracle timed out")
            continue
        except Exception as e:  # noqa: BLE001
            why = f"simulator.run raised {type(e).__name__}: {e}"
        ctx.case(nontrivial_key=("qudit", hamk, L, start))
        ctx.count("qudit_chains")
        if why:
            ctx.violation("convergence:qudit", why, {"oracle": "qudit", "args": a})
    for a in plan:
        if a["mode"] == "BUG":
            a["order"] = 2
        try:
            why = convergence_oracle(a)
        except common.HardTimeout:
            ctx.notes.append("convergence oracle timed out")
            continue
        except Exception as e:  # noqa: BLE001
            why = f"simulator.run raised {type(e).__name__}: {e}"
        ctx.case(nontrivial_key=("conv", a["seed"], a["mode"], a["order"]), sample=a if len(ctx.samples) < 5 else None)
        ctx.count("conv_" + a["mode"])
        if why:
            ctx.violation("convergence:" + a["mode"], why, {"oracle": "conv", "args": a})


def replay(ctx, data):
    rp = data.get("replay", data)
    if rp.get("oracle") == "stiff":
        return stiff_oracle(rp["args"])
    if rp.get("oracle") == "short":
        return short_run_oracle(rp["args"])
    if rp.get("oracle") == "conv":
        return convergence_oracle(rp["args"])
    if rp.get("oracle") == "qudit":
        return qudit_oracle(rp["args"])
    if rp.get("oracle") == "budget":
        steps = trace_sweep(rp["dims"], rp["cap"])[0]
        st = sum((1 if s[2] else -1) for s in steps if s[0] == "S") + 2 * sum(1 for s in steps if s[0] == "P")
        return f"site time {st}" if st != 2 * rp["L"] else None
    return "re-run the check: " + "; ".join(b["what"] for b in data.get("broken", []))
