"""C11 — expectation values and diagnostics equal dense definitions, correctly attributed.

Tie: (1) evaluate_observables runs for real on a random entangled state while MPS.expect / get_entropy /
get_schmidt_spectrum are wrapped to log (which observable object, where the orthogonality centre of the state being read
is — measured from the real tensors); the log is compared exactly with Model/ObsAttrib.reads; (2) row attribution: tagged
values through the real front-end stitching vs Model/ObsAttrib.stitched.
Search: every observable kind on every site/pair of random normalised entangled states against the dense vector.
"""
from __future__ import annotations

import numpy as np

import common
from common import g_list
from drivers import dense

RULE = ("observable lists: random permutations and mixtures of one-site ops, adjacent two-site ops, entropy/Schmidt bonds and "
        "diagnostics on random sites of random entangled MPS (L=2..6, bond<=4); non-trivial = unsorted listing or a bond/two-site "
        "observable away from site 0; distinct by (L, list)")
TRUSTED = ["correspondence harness: logging wrappers around MPS.expect/get_entropy/get_schmidt_spectrum; centre measured from the "
           "isometry defects of the real tensors", "dense reference: independent contraction of the MPS (drivers/dense.py)"]
ASSUMES = ["the state handed to evaluate_observables is normalised and right-canonical (centre at site 0), as the simulator maintains it"]

HEADER = "From Coq Require Import List. Import ListNotations.\nFrom Yaqs Require Import Model.ObsAttrib."
ONE = ["x", "y", "z", "h", "p0", "p1"]
TWO = ["xx", "yy", "zz"]
TWO_ENT = ["cx", "cz", "swap"]  # Hermitian two-site gates that are not products of one-site operators
DIAG = ["max_bond", "total_bond", "runtime_cost"]


def random_mps(rng, L, chi, d=2):
    from mqt.yaqs.core.data_structures.networks import MPS

    tens = []
    for i in range(L):
        lft = 1 if i == 0 else min(chi, d**i, d ** (L - i))
        r = 1 if i == L - 1 else min(chi, d ** (i + 1), d ** (L - i - 1))
        tens.append(rng.normal(size=(d, lft, r)) + 1j * rng.normal(size=(d, lft, r)))
    m = MPS(L, tensors=tens, physical_dimensions=[d] * L)
    m.normalize("B")
    return m


def centre_of(mps):
    """Sites at which the state can be considered centred: all tensors left of c left-isometric, right of c right-isometric."""
    L = mps.length
    left_ok, right_ok = [], []
    for t in mps.tensors:
        d, l, r = t.shape
        a = t.transpose(1, 0, 2).reshape(l * d, r) if False else np.einsum("plr,pls->rs", t.conj(), t)
        left_ok.append(np.allclose(a, np.eye(r), atol=1e-9))
        b = np.einsum("plr,pmr->lm", t, t.conj())
        right_ok.append(np.allclose(b, np.eye(l), atol=1e-9))
    return [c for c in range(L) if all(left_ok[:c]) and all(right_ok[c + 1:])]


def gen_obs(rng, L):
    from mqt.yaqs.core.data_structures.simulation_parameters import Observable

    n = int(rng.integers(1, 7))
    out = []
    for k in range(n):
        u = rng.random()
        if u < 0.4 or L < 2:
            out.append((Observable(str(rng.choice(ONE)), int(rng.integers(0, L))), "Local1"))
        elif u < 0.6:
            s = int(rng.integers(0, L - 1))
            if rng.random() < 0.5:
                out.append((Observable(str(rng.choice(TWO)), [s, s + 1]), "Local2"))
            else:
                out.append((Observable(str(rng.choice(TWO_ENT)), [s, s + 1]), "Local2E"))
        elif u < 0.64 and L >= 2:
            # history on a gate object: ONE gate instance handed to several observables on different sites, listed out of site order
            from mqt.yaqs.core.libraries.gate_library import GateLibrary

            nm_ = str(rng.choice(["x", "y", "z"]))
            shared = getattr(GateLibrary, nm_)()
            for st_ in rng.permutation(L)[: int(rng.integers(2, min(L, 4) + 1))]:
                out.append((Observable(shared, int(st_)), "Local1"))
        elif u < 0.7:
            # user-defined operators (all of them carry the gate name "custom"): two different ones on the same site(s)
            from mqt.yaqs.core.libraries.gate_library import BaseGate

            two = L >= 2 and rng.random() < 0.4
            s = int(rng.integers(0, L - 1)) if two else int(rng.integers(0, L))
            for _ in range(int(rng.integers(1, 3))):
                dim = 4 if two else 2
                m = rng.normal(size=(dim, dim)) + 1j * rng.normal(size=(dim, dim))
                m = (m + m.conj().T) / 2
                o = Observable(BaseGate(m), [s, s + 1] if two else s)
                o._verif_matrix = m  # noqa: SLF001 — the reference value is computed from the matrix the user supplied
                out.append((o, "Local2E" if two else "Local1"))
        elif u < 0.85:
            s = int(rng.integers(0, L - 1))
            out.append((Observable(str(rng.choice(["entropy", "schmidt_spectrum"])), [s, s + 1]), "Bond"))
        else:
            out.append((Observable(str(rng.choice(DIAG))), "Diag"))
    return out


def first_site(o):
    return (o.sites[0] if isinstance(o.sites, list) else o.sites) if hasattr(o, "sites") else 0


def g_obs(olist):
    return g_list([f"{{| oid := {k}%nat; kind := {'Local2' if kind == 'Local2E' else kind}; site := {first_site(o) if kind != 'Diag' else 0}%nat |}}" for k, (o, kind) in enumerate(olist)])


def trace_reads(mps, olist):
    """Run the real evaluate_observables; log (oid, centre candidates of the state each value was read from)."""
    from mqt.yaqs.core.data_structures.networks import MPS
    from mqt.yaqs.core.data_structures.simulation_parameters import StrongSimParams

    p = StrongSimParams([o for o, _ in olist], show_progress=False)
    ids = {id(o): k for k, (o, _) in enumerate(olist)}
    log = []
    saved = (MPS.expect, MPS.get_entropy, MPS.get_schmidt_spectrum)

    formula = []

    def expect(self, observable, *xa, **xk):
        log.append((ids[id(observable)], centre_of(self)))
        val = saved[0](self, observable, *xa, **xk)
        # the contraction the theorem C11_centred_expectation_is_dense is about, evaluated on the real centre tensor(s):
        #   sum_{p,p',l,r} O[p,p'] A[p',l,r] conj(A[p,l,r])   (two sites: A = merged tensor, physical index p1*d2+p2)
        try:
            st = observable.sites if isinstance(observable.sites, list) else [observable.sites]
            a = self.tensors[st[0]]
            if len(st) == 2:
                b = self.tensors[st[1]]
                a = np.einsum("plk,qkr->pqlr", a, b).reshape(a.shape[0] * b.shape[0], a.shape[1], b.shape[2])
            o = np.asarray(observable.gate.matrix, dtype=complex)
            formula.append((ids[id(observable)], complex(np.einsum("pq,qlr,plr->", o, a, a.conj())), complex(val)))
        except Exception as e:  # noqa: BLE001
            formula.append((ids[id(observable)], None, repr(e)))
        return val

    cur = {}

    def ent(self, sites, *xa, **xk):
        log.append((cur["k"], centre_of(self)))
        return saved[1](self, sites, *xa, **xk)

    def sch(self, sites, *xa, **xk):
        log.append((cur["k"], centre_of(self)))
        return saved[2](self, sites, *xa, **xk)

    MPS.expect, MPS.get_entropy, MPS.get_schmidt_spectrum = expect, ent, sch
    try:
        # bond observables are identified through the sorted order (get_entropy does not receive the object)
        res = np.zeros((len(p.sorted_observables), 1), dtype=object)
        order = [ids[id(o)] for o in p.sorted_observables]
        bond_ids = [k for k in order if olist[k][1] == "Bond"]
        it = iter(bond_ids)
        real_ent, real_sch = ent, sch

        def ent2(self, sites, *xa, **xk):
            cur["k"] = next(it)
            return real_ent(self, sites, *xa, **xk)

        def sch2(self, sites, *xa, **xk):
            cur["k"] = next(it)
            return real_sch(self, sites, *xa, **xk)

        MPS.get_entropy, MPS.get_schmidt_spectrum = ent2, sch2
        mps.evaluate_observables(p, res, 0)
    finally:
        MPS.expect, MPS.get_entropy, MPS.get_schmidt_spectrum = saved
    trace_reads.formula = formula
    return log, order, res, p


def correspond(ctx):
    ctx.rules.append(RULE)
    cases, exprs, impl = [], [], []
    for k in range(ctx.scale(80, 1500)):
        L = int(ctx.rng.integers(2, 7))
        mps = random_mps(ctx.rng, L, int(ctx.rng.integers(2, 5)))
        olist = gen_obs(ctx.rng, L)
        try:
            log, order, res, p = trace_reads(mps, olist)
        except Exception as e:  # noqa: BLE001
            log, order = f"EXC:{type(e).__name__}:{e}", []
        for oid_, want_, got_ in getattr(trace_reads, "formula", []):
            ctx.count("centre_contraction_checked")
            if want_ is None or abs(want_ - got_) > 1e-9:
                ctx.mismatch("MPS.expect vs the centre contraction local_expect of LinAlg/TT (evaluated on the real centre tensors)",
                             {"L": L, "observable": (olist[oid_][0].gate.name, olist[oid_][0].sites)}, got_, want_, key="centre-contraction")
        impl.append((log, order))
        exprs.append(f"(map oid (sorted_observables {g_obs(olist)}), map (fun r => (fst (fst (fst r)), snd r)) (filter (fun r => match snd (fst (fst r)) with Diag => false | _ => true end) (reads {g_obs(olist)})))")
        cases.append((L, olist))
    vals = common.coq_eval_sharded(HEADER, exprs, tag="c11")
    for (L, olist), (log, order), (morder, mreads) in zip(cases, impl, vals):
        desc = {"L": L, "observables": [(o.gate.name, getattr(o, "sites", None), kind) for o, kind in olist]}
        sites = [first_site(o) for o, k in olist if k != "Diag"]
        nontriv = sites != sorted(sites) or any(k in ("Bond", "Local2", "Local2E") and first_site(o) > 0 for o, k in olist)
        ctx.case(nontrivial_key=(L, str(desc["observables"])) if nontriv else None, validated=True, sample={**desc, "reads(oid,centres)": log} if nontriv else None)
        ctx.count("lists")
        if isinstance(log, str):
            ctx.mismatch("evaluate_observables raised", desc, log, mreads)
            continue
        if order != morder:
            ctx.mismatch("sorted_observables order vs ObsAttrib.sorted_observables", desc, order, morder)
        ok = len(log) == len(mreads) and all(a[0] == b[0] and b[1] in a[1] for a, b in zip(log, mreads))
        if not ok:
            ctx.mismatch("centre at each read vs ObsAttrib.reads", desc, log, mreads)
    frontend_correspondence(ctx)


# ---- the property, directly ---------------------------------------------------------------------------------
def dense_value(v, L, o, kind):
    from mqt.yaqs.core.libraries.gate_library import GateLibrary

    name = o.gate.name
    own = getattr(o, "_verif_matrix", None)
    if kind == "Local1":
        m = np.asarray(getattr(GateLibrary, name)().matrix, dtype=complex) if own is None else own
        return dense.expect(v, dense.op_on(L, {first_site(o): m}))
    if kind == "Local2":
        s = first_site(o)
        pa = dense.PAULI[name[0]], dense.PAULI[name[1]]
        return dense.expect(v, dense.op_on(L, {s: pa[0], s + 1: pa[1]}))
    if kind == "Local2E":
        s = first_site(o)
        g = np.asarray(getattr(GateLibrary, name)().matrix, dtype=complex) if own is None else own  # site s = most significant factor
        w = v.reshape(2**s, 4, 2 ** (L - s - 2))
        return complex(np.einsum("apb,pq,aqb->", w.conj(), g, w))
    s = first_site(o)
    mat = v.reshape(2 ** (s + 1), 2 ** (L - s - 1))
    sv = np.linalg.svd(mat, compute_uv=False)
    if name == "entropy":
        pr = sv**2 / np.sum(sv**2)
        pr = pr[pr > 1e-300]
        return float(-np.sum(pr * np.log(pr)))
    return np.sort(sv)[::-1]


def value_oracle(args):
    from mqt.yaqs.core.data_structures.simulation_parameters import StrongSimParams

    rng = np.random.default_rng(args["seed"])
    L = args["L"]
    mps = random_mps(rng, L, args["chi"])
    v = dense.mps_dense(mps)
    olist = gen_obs(rng, L)
    perm = rng.permutation(len(olist))
    olist = [olist[i] for i in perm]
    p = StrongSimParams([o for o, _ in olist], show_progress=False)
    res = np.zeros((len(olist), 1), dtype=object)
    try:
        mps.evaluate_observables(p, res, 0)
    except Exception as e:  # noqa: BLE001
        return f"evaluate_observables raised {type(e).__name__}: {e}"
    for row, o in enumerate(p.sorted_observables):
        kind = next(k for oo, k in olist if oo is o)
        if kind == "Diag":
            continue  # bond-dimension diagnostics are C08's business; here they only must not disturb the attribution
        want = dense_value(v, L, o, kind)
        got = res[row, 0]
        if o.gate.name == "schmidt_spectrum":
            got = np.asarray(got, dtype=float).ravel()
            got = np.sort(got[~np.isnan(got)])[::-1]
            k = min(len(got), len(want))
            if k == 0:
                return f"schmidt_spectrum at bond {o.sites} is empty"
            if np.max(np.abs(got[:k] - want[:k])) > 1e-8 or np.any(np.abs(want[k:]) > 1e-8) or np.any(np.abs(got[k:]) > 1e-8):
                return f"schmidt_spectrum at bond {o.sites}: got {got[:4]}, dense {want[:4]}"
        elif abs(complex(got) - want) > 1e-8:
            return f"{o.gate.name} at {o.sites}: got {complex(got):.8f}, dense value {want:.8f} (L={L}, listing order {[oo.gate.name for oo, _ in olist]})"
    # history on one state object: sampling it again (as every backend does that keeps evolving the object it has just sampled) gives the
    # same values, and the object still represents the same state in the same form
    res2 = np.zeros((len(olist), 1), dtype=object)
    try:
        mps.evaluate_observables(p, res2, 0)
    except Exception as e:  # noqa: BLE001
        return f"the second evaluate_observables on the same state raised {type(e).__name__}: {e}"
    for row, o in enumerate(p.sorted_observables):
        a, b = np.asarray(res[row, 0], dtype=complex).ravel(), np.asarray(res2[row, 0], dtype=complex).ravel()
        if next(k for oo, k in olist if oo is o) == "Diag":
            continue
        ok = a.shape == b.shape and np.all((np.isnan(a) & np.isnan(b)) | (np.abs(np.nan_to_num(a) - np.nan_to_num(b)) <= 1e-8))
        if not ok:
            return (f"{o.gate.name} at {o.sites}: the SECOND evaluation of the same state object gives {np.round(b[:3], 8)}, the first one (equal to the dense value) "
                    f"gave {np.round(a[:3], 8)}: sampling moved the state it sampled")
    if dense.up_to_phase(dense.mps_dense(mps), v) > 1e-9:
        return "evaluate_observables changed the vector the state represents"
    # norm, overlap, bitstring probability
    if abs(mps.norm() - np.vdot(v, v).real) > 1e-9:
        return "norm differs from the dense norm"
    other = random_mps(rng, L, 2)
    if abs(mps.scalar_product(other) - np.vdot(v, dense.mps_dense(other))) > 1e-9:
        return "scalar_product differs from the dense overlap"
    bits = "".join(str(int(b)) for b in rng.integers(0, 2, size=L))
    pb = mps.project_onto_bitstring(bits)
    idx = int(bits, 2)
    if abs(pb - abs(v[idx]) ** 2) > 1e-9 and abs(pb - abs(v[int(bits[::-1], 2)]) ** 2) > 1e-9:
        return f"project_onto_bitstring({bits}) = {pb}, dense |amplitude|^2 = {abs(v[idx])**2}"
    return None


def attribution_oracle(args):
    """Through simulator.run: each user observable object carries its own value after the run, for shuffled lists."""
    from qiskit import QuantumCircuit

    from mqt.yaqs import simulator
    from mqt.yaqs.core.data_structures.networks import MPS
    from mqt.yaqs.core.data_structures.simulation_parameters import Observable, StrongSimParams

    rng = np.random.default_rng(args["seed"])
    n = 4
    qc = QuantumCircuit(n)
    for q in range(n):
        qc.ry(0.3 + 0.4 * q, q)
    qc.cx(0, 1); qc.cx(2, 3); qc.rzz(0.7, 1, 2)  # noqa: E702
    spec = [("z", 3), ("x", 0), ("entropy", [1, 2]), ("y", 2), ("max_bond", None), ("zz", [2, 3]), ("z", 0), ("entropy", [2, 3])]
    order = rng.permutation(len(spec))
    obs = [Observable(spec[i][0], spec[i][1]) if spec[i][1] is not None else Observable(spec[i][0]) for i in order]
    p = StrongSimParams(obs, get_state=True, threshold=1e-13, show_progress=False)
    simulator.run(MPS(n), qc, p, None, parallel=False)
    v = dense.mps_dense(p.output_state)
    for o, i in zip(obs, order):
        name, sites = spec[i]
        if name == "max_bond":
            continue
        kind = "Bond" if name == "entropy" else ("Local2" if name == "zz" else "Local1")
        want = dense_value(v, n, o, kind)
        got = float(np.real(np.ravel(o.results)[-1]))
        if abs(got - want) > 1e-7:
            return f"after simulator.run observable {name}@{sites} listed at position {list(order).index(i)} holds {got:.7f}, its dense value is {want:.7f}"
    return None


def frontend_attribution(kind, obs_specs, order, noisy, parallel, ntraj=3):
    """The real front-end (_run_strong_sim / _run_analog) with the backend replaced by a stub that returns, for every trajectory,
    one row per entry of sorted_observables filled with a tag that identifies THAT observable object; the pool is the scripted
    executor of C13.  Returns, per user observable (in the user's listing order), the tags found in its results."""
    import mqt.yaqs.simulator as S
    from qiskit import QuantumCircuit

    from drivers.C13 import Sched
    from mqt.yaqs.core.data_structures.networks import MPO, MPS
    from mqt.yaqs.core.data_structures.noise_model import NoiseModel
    from mqt.yaqs.core.data_structures.simulation_parameters import AnalogSimParams, Observable, StrongSimParams

    obs = [Observable(obs_specs[i][0], obs_specs[i][1]) if obs_specs[i][1] is not None else Observable(obs_specs[i][0]) for i in order]
    tag = {id(o): 100.0 + j for j, o in enumerate(obs)}
    L = 4
    if kind == "strong":
        p = StrongSimParams(obs, num_traj=ntraj, show_progress=False)
    else:
        p = AnalogSimParams(obs, elapsed_time=0.2, dt=0.1, num_traj=ntraj, show_progress=False)
    nm = NoiseModel([{"name": "pauli_z", "sites": [0], "strength": 0.1}]) if noisy else None
    saved = (S.digital_tjm, S.analog_tjm_1, S.analog_tjm_2, S.ProcessPoolExecutor, S.wait, S.available_cpus)

    def stub(args, p=p):
        return [np.full(o.trajectories.shape[1:] if o.trajectories is not None else (1,), tag[id(o)]) for o in p.sorted_observables]

    S.digital_tjm = S.analog_tjm_1 = S.analog_tjm_2 = stub
    try:
        if parallel:
            sched = Sched([(0, "Ok")] * (4 * ntraj + 8))
            S.ProcessPoolExecutor, S.wait = sched.executor, sched.wait
            S.available_cpus = lambda: 3
        if kind == "strong":
            qc = QuantumCircuit(L)
            qc.h(0)
            S._run_strong_sim(MPS(L), qc, p, nm, parallel=parallel)  # noqa: SLF001
        else:
            S._run_analog(MPS(L), MPO.ising(L, 1, 0.5), p, nm, parallel=parallel)  # noqa: SLF001
    finally:
        S.digital_tjm, S.analog_tjm_1, S.analog_tjm_2, S.ProcessPoolExecutor, S.wait, S.available_cpus = saved
    return [(sorted({float(x) for x in np.ravel(np.real(o.results))}), tag[id(o)]) for o in obs]


def frontend_correspondence(ctx):
    spec = [("z", 3), ("x", 0), ("y", 2), ("max_bond", None), ("zz", [2, 3]), ("z", 0), ("x", 1), ("total_bond", None)]
    for k in range(ctx.scale(16, 120)):
        order = [int(i) for i in ctx.rng.permutation(len(spec))][: int(ctx.rng.integers(3, len(spec) + 1))]
        kind = ("strong", "analog")[k % 2]
        noisy = bool((k // 2) % 2)
        parallel = bool((k // 4) % 2)
        try:
            got = frontend_attribution(kind, spec, order, noisy, parallel)
        except Exception as e:  # noqa: BLE001
            ctx.mismatch("front-end raised", {"kind": kind, "order": order, "noisy": noisy, "parallel": parallel}, repr(e), "-", key="frontend")
            continue
        ctx.case(nontrivial_key=("frontend", kind, tuple(order), noisy, parallel), validated=True)
        ctx.count(f"frontend_{kind}_{'parallel' if parallel else 'serial'}_{'noisy' if noisy else 'clean'}")
        wrong = [(order[j], vals, t) for j, (vals, t) in enumerate(got) if vals != [t]]
        if wrong:
            # ObsAttrib.each_gets_its_own: every object holds the value computed for it
            ctx.mismatch("rows written back by the front-end vs ObsAttrib.stitched (each observable object receives its own row)",
                         {"front_end": kind, "listing": [spec[i] for i in order], "noisy": noisy, "parallel": parallel},
                         [(spec[i][0], spec[i][1], vals) for i, vals, _ in wrong][:4], "own tag", key="frontend")
            ctx.violation("frontend-attribution", f"{kind} front-end (noisy={noisy}, parallel={parallel}): observable {spec[wrong[0][0]]} listed at position "
                          f"{order.index(wrong[0][0])} received the values {wrong[0][1]} computed for another observable (its own tag is {wrong[0][2]})",
                          {"oracle": "frontend", "kind": kind, "order": order, "noisy": noisy, "parallel": parallel})


def wide_bond_oracle(args):
    """bond entropy and Schmidt spectrum of a cut that carries more Schmidt values than any fixed-length report (two sites of a large
    local dimension, bond dimension above 500) vs the dense singular values"""
    from mqt.yaqs.core.data_structures.networks import MPS
    from mqt.yaqs.core.data_structures.simulation_parameters import Observable, StrongSimParams

    rng = np.random.default_rng(args["seed"])
    d, chi = args["d"], args["chi"]
    tens = [rng.normal(size=(d, 1, chi)) + 1j * rng.normal(size=(d, 1, chi)), rng.normal(size=(d, chi, 1)) + 1j * rng.normal(size=(d, chi, 1))]
    mps = MPS(2, tensors=tens, physical_dimensions=[d, d])
    mps.normalize("B")
    theta = np.einsum("plk,qkr->pq", mps.tensors[0], mps.tensors[1])
    sv = np.linalg.svd(theta, compute_uv=False)
    pr = sv**2 / np.sum(sv**2)
    pr = pr[pr > 1e-300]
    want = float(-np.sum(pr * np.log(pr)))
    o = Observable("entropy", [0, 1])
    p = StrongSimParams([o], show_progress=False)
    res = np.zeros((1, 1), dtype=object)
    mps.evaluate_observables(p, res, 0)
    got = float(np.real(res[0, 0]))
    if abs(got - want) > 1e-9:
        return f"bond entropy of a cut with {int(np.sum(sv > 1e-12))} Schmidt values: got {got:.12f}, dense value {want:.12f}"
    return None


def run_diag_oracle(args):
    """Observable.results after a real, noise-free simulator.run: bond entropy (and, where asked, the Schmidt spectrum) next to local
    operators, against the dense final state.  Returns (key suffix, message) or None."""
    from qiskit import QuantumCircuit
    from qiskit.quantum_info import Statevector

    from mqt.yaqs import simulator
    from mqt.yaqs.core.data_structures.networks import MPO, MPS
    from mqt.yaqs.core.data_structures.simulation_parameters import AnalogSimParams, Observable, StrongSimParams

    L = 3
    obs = [Observable("entropy", [1, 2]), Observable("z", 0), Observable("x", 2), Observable("entropy", [0, 1])]
    if args.get("schmidt"):
        obs.insert(1, Observable("schmidt_spectrum", [0, 1]))
    if args["kind"] == "analog":
        H = MPO.ising(L, 1.0, 0.5)
        p = AnalogSimParams(obs, elapsed_time=0.3, dt=0.1, order=args["order"], sample_timesteps=args["sample"], threshold=1e-13, show_progress=False)
        st = MPS(L, state="basis", basis_string="100")
        v = dense.evolve(np.asarray(H.to_matrix()), dense.mps_dense(st), 0.3)
        op = H
    else:
        qc = QuantumCircuit(L)
        qc.h(0); qc.cx(0, 1); qc.ry(0.7, 2); qc.rxx(0.9, 1, 2)  # noqa: E702
        p = StrongSimParams(obs, sample_layers=args["sample"], threshold=1e-13, show_progress=False)
        st = MPS(L)
        sv = Statevector(qc).data  # bit i = qubit i  ->  site 0 most significant
        v = sv.reshape([2] * L).transpose(list(range(L))[::-1]).reshape(-1)
        op = qc
    try:
        with common.time_limit(120):
            simulator.run(st, op, p, None, parallel=False)
    except Exception as e:  # noqa: BLE001
        return ("raises" if args.get("schmidt") else "raises-without-schmidt",
                f"simulator.run ({args['kind']}, order {args.get('order')}, sampling {args['sample']}) with observables {[o.gate.name for o in obs]} raised {type(e).__name__}: {e}")
    for o in obs:
        got = np.ravel(np.asarray(o.results))
        if o.gate.name == "schmidt_spectrum":
            want = dense_value(v, L, o, "Bond")
            g = np.sort(np.asarray([x for x in np.ravel(got[-500:] if got.size >= 500 else got) if x == x], dtype=float))[::-1]
            if len(g) < len(want[want > 1e-9]) or np.max(np.abs(g[: len(want)] - want[: len(g)][: len(want)])) > 1e-6:
                return ("value", f"Schmidt spectrum of bond {o.sites} after the run is {g[:4]}, dense {want[:4]}")
            continue
        want = dense_value(v, L, o, "Bond" if o.gate.name == "entropy" else "Local1")
        if abs(float(np.real(got[-1])) - float(np.real(want))) > 1e-6:
            return ("value", f"{o.gate.name} on {o.sites} after a {args['kind']} run (order {args.get('order')}, sampling {args['sample']}) is "
                    f"{float(np.real(got[-1])):.8f}, dense {float(np.real(want)):.8f}")
    return None


def search(ctx):
    for a in [dict(kind="analog", order=o, sample=sm, schmidt=sc) for o in (1, 2) for sm in (True, False) for sc in (False, True)] + [
            dict(kind="strong", sample=sm, schmidt=sc) for sm in (True, False) for sc in (False, True)]:
        r = run_diag_oracle(a)
        ctx.case(nontrivial_key=("run-diag", str(a)))
        ctx.count("run_level_diagnostics")
        if r:
            ctx.violation("run-diagnostics:" + r[0], r[1], {"oracle": "run-diag", "args": a})
    for a in (dict(seed=int(ctx.rng.integers(0, 2**31)), d=560, chi=530), dict(seed=int(ctx.rng.integers(0, 2**31)), d=40, chi=33)):
        try:
            why = wide_bond_oracle(a)
        except Exception as e:  # noqa: BLE001
            why = f"evaluate_observables raised {type(e).__name__}: {e}"
        ctx.case(nontrivial_key=("wide-bond", a["d"], a["chi"]))
        ctx.count("wide_bond_entropies")
        if why:
            ctx.violation("entropy", why, {"oracle": "wide-bond", "args": a})
    for k in range(ctx.scale(60, 1500)):
        a = dict(seed=int(ctx.rng.integers(0, 2**31)), L=int(ctx.rng.integers(2, 7)), chi=int(ctx.rng.integers(1, 5)))
        why = value_oracle(a)
        ctx.case(nontrivial_key=("val", a["seed"]))
        ctx.count("dense_values")
        if why:
            key = "entropy" if "entropy" in why or "schmidt" in why else "value"
            ctx.violation(key, why, {"oracle": "value", "args": a})
    for k in range(ctx.scale(4, 40)):
        a = dict(seed=int(ctx.rng.integers(0, 2**31)))
        why = attribution_oracle(a)
        ctx.case(nontrivial_key=("attr", a["seed"]))
        ctx.count("run_attribution")
        if why:
            ctx.violation("attribution", why, {"oracle": "attr", "args": a})


def replay(ctx, data):
    rp = data.get("replay", data)
    if rp.get("oracle") == "run-diag":
        r = run_diag_oracle(rp["args"])
        return r[1] if r else None
    if rp.get("oracle") == "frontend":
        spec = [("z", 3), ("x", 0), ("y", 2), ("max_bond", None), ("zz", [2, 3]), ("z", 0), ("x", 1), ("total_bond", None)]
        got = frontend_attribution(rp["kind"], spec, rp["order"], rp["noisy"], rp["parallel"])
        bad = [(vals, t) for vals, t in got if vals != [t]]
        return f"observables hold foreign rows: {bad[:3]}" if bad else None
    if rp.get("oracle") == "value":
        return value_oracle(rp["args"])
    if rp.get("oracle") == "wide-bond":
        return wide_bond_oracle(rp["args"])
    if rp.get("oracle") == "attr":
        return attribution_oracle(rp["args"])
    return "re-run the check: " + "; ".join(b["what"] for b in data.get("broken", []))
