"""C15 — results are reported on the time grid the user asked for.

Tie: (1) AnalogSimParams.times (length and every element, bit for bit) vs the binary64 model Model/Grid.v on a sweep of
(k, dt); (2) the result columns of analog_tjm_1/2 as symbolic words (shared with C14) vs Model/JumpPipeline.cols1/cols2;
Search: all four solvers x both sample_timesteps settings: result lengths, end points, value at the total time vs dense.
"""
from __future__ import annotations

import numpy as np

import common
from gen import translate_small
from common import g_bool, g_float
from drivers import dense, tracing
from drivers.C14 import HEADER as WHEADER
from drivers.C14 import model_expr

RULE = ("(k, dt) with elapsed_time = fl(k*dt): k in 1..40 plus large k, dt from decimal/binary/awkward steps and random "
        "doubles; non-trivial = fl(k*dt)/dt is not exactly k in binary64 (the cases where a naive arange miscounts) or "
        "sampling is off; distinct by (k, dt, flag)")
TRUSTED = ["correspondence harness: bit-exact comparison via float.hex(); recording stubs as in C14",
           "modelled, not verified: identification of NumPy's binary64 */ and Python round() with PrimFloat ops and Grid.roundZ "
           "is by the sweep; C15_len_partial is stated over Flocq's real-number model of binary64"]
ASSUMES = ["elapsed_time is the binary64 product k*dt (or the nearest decimal literal) with 1 <= k <= 2^40, no underflow"]

DTS = [0.1, 0.05, 0.01, 0.2, 0.25, 0.125, 0.3, 0.07, 1.0, 0.001, 0.7, 1e-4, 0.15, 0.6, 3.3, 1 / 3]


def params(T, dt, sampling=True, order=2, solver="TJM"):
    from mqt.yaqs.core.data_structures.simulation_parameters import AnalogSimParams, Observable

    return AnalogSimParams([Observable("z", 0)], elapsed_time=T, dt=dt, order=order, sample_timesteps=sampling,
                           solver=solver, show_progress=False)


def mcwf_clock(k, dt, sampling, noisy=False):
    """One MCWF trajectory with a clock in place of the observable: returns (row, durations): row[c] = number of propagation steps
    taken before entry c was evaluated, durations = the step lengths handed to the propagator."""
    import mqt.yaqs.analog.mcwf as M
    from mqt.yaqs.core.data_structures.simulation_parameters import AnalogSimParams, Observable
    T = float(k * dt)
    p = AnalogSimParams([Observable("z", 0)], elapsed_time=T, dt=dt, sample_timesteps=sampling, solver="MCWF", show_progress=False)
    durations = []
    class Clock:
        def __matmul__(self, psi):
            return psi * (len(durations) / np.vdot(psi, psi).real)
        def dot(self, psi):
            return self.__matmul__(psi)
    psi0 = np.array([1.0, 0.0], dtype=complex)
    heff = np.array([[0.3, 0.1], [0.1, -0.2]], dtype=complex)
    jumps = [np.sqrt(0.5) * np.array([[0, 1], [0, 0]], dtype=complex)] if noisy else []
    if noisy:
        heff = heff - 0.5j * jumps[0].conj().T @ jumps[0]
    ctx = M.MCWFContext(psi_initial=psi0, heff=heff, jump_ops=jumps, embedded_observables=[Clock()], sim_params=p)
    saved = M.expm_arnoldi
    def prop(op, v, step, *xa, **xk):
        durations.append(float(step))
        return saved(op, v, step, *xa, **xk)
    M.expm_arnoldi = prop
    try:
        res = M.mcwf((0, ctx))
    finally:
        M.expm_arnoldi = saved
    return [float(x) for x in np.asarray(res)[0]], durations, [float(t) for t in p.times]

def lindblad_clock(k, dt, sampling):
    """lindblad() with the integrator replaced by one that returns, at every requested time t, a state whose <Z_0> is t:
    returns (row, t_span, t_eval)."""
    import mqt.yaqs.analog.lindblad as Lb
    from mqt.yaqs.core.data_structures.networks import MPO, MPS
    from mqt.yaqs.core.data_structures.simulation_parameters import AnalogSimParams, Observable
    T = float(k * dt)
    p = AnalogSimParams([Observable("z", 0)], elapsed_time=T, dt=dt, sample_timesteps=sampling, solver="Lindblad", show_progress=False)
    seen = {}
    saved = Lb.solve_ivp
    class Res:
        success = True
        message = "clock"
    def fake(rhs, t_span, y0, t_eval=None, **kw):
        seen["span"] = tuple(float(x) for x in t_span)
        te = np.asarray(t_eval if t_eval is not None else [t_span[1]], dtype=float)
        seen["eval"] = [float(x) for x in te]
        dim = int(round(np.sqrt(len(y0))))
        z = np.kron(np.diag([1.0, -1.0]), np.eye(dim // 2))
        r = Res()
        r.t = te
        r.y = np.stack([(t * z / dim).astype(complex).flatten() for t in te], axis=1)
        return r
    Lb.solve_ivp = fake
    try:
        out = Lb.lindblad((0, MPS(2, state="zeros"), None, p, MPO.ising(2, 1.0, 0.5)))
    finally:
        Lb.solve_ivp = saved
    return [float(x) for x in np.asarray(out)[0]], seen, [float(t) for t in p.times]


def regenerate(ctx):
    """coq/Gen/TimesGen.v from the current source of AnalogSimParams.times (fail closed)"""
    translate_small.regenerate(("times",))


def correspond(ctx):
    ctx.rules.append(RULE)
    cases = [(2, 0.1), (3, 0.1), (5, 0.2), (7, 0.1), (10, 0.1), (1, 0.1)]  # corpus: 0.2/0.1, 0.3/0.1, ...
    for _ in range(ctx.scale(1500, 40000)):
        u = ctx.rng.random()
        # common steps, steps over five decades, and time axes in other units (nanoseconds in seconds, ... : 1e-12 .. 1e3)
        dt = float(ctx.rng.choice(DTS)) if u < 0.6 else float(10 ** ctx.rng.uniform(-4, 1)) if u < 0.8 else float(
            ctx.rng.choice([1, 2, 2.5, 5]) * 10.0 ** int(ctx.rng.integers(-12, 4)))
        k = int(ctx.rng.integers(1, 41)) if ctx.rng.random() < 0.8 else int(ctx.rng.integers(41, 3000))
        cases.append((k, dt))
    exprs, impl, meta = [], [], []
    for (k, dt) in cases:
        # the user's elapsed_time: the float product, or the decimal they would type (12 decimals / 10 significant digits)
        T = float(k * dt) if ctx.rng.random() < 0.7 else (float(round(k * dt, 12)) if dt >= 1e-4 else float(f"{k * dt:.10e}"))
        p = params(T, dt)
        times = [float(t) for t in p.times]
        impl.append((len(times), times[0].hex(), times[min(1, len(times) - 1)].hex(), times[-1].hex()))
        exprs.append(f"(grid_len {g_float(T)} {g_float(dt)}, let g := grid {g_float(T)} {g_float(dt)} in "
                     f"(nth 0 g 0%float, nth 1 g (nth 0 g 0%float), last g 0%float))")
        meta.append((k, dt, T, times))
    vals = common.coq_eval_sharded("From Coq Require Import List ZArith PrimFloat. Import ListNotations.\nFrom Yaqs Require Import Model.Grid.",
                                   exprs, tag="c15")
    for (k, dt, T, times), i, v in zip(meta, impl, vals):
        mlen, (m0, m1, mlast) = v
        inexact = (T / dt) != float(k)
        ctx.case(nontrivial_key=(k, dt, T) if inexact else None, validated=True,
                 sample={"k": k, "dt": dt, "elapsed_time": T, "len(times)": i[0], "last": times[-1]} if inexact else None)
        ctx.count("quotient_inexact" if inexact else "quotient_exact")
        same = (i[0] == mlen and float.fromhex(i[1]) == m0 and float.fromhex(i[2]) == m1 and float.fromhex(i[3]) == mlast)
        if not same:
            ctx.mismatch("AnalogSimParams.times-vs-Grid.grid", {"k": k, "dt": dt, "T": T}, i, [mlen, m0, m1, mlast])
        # the property itself
        why = None
        if len(times) != k + 1:
            why = f"time grid has {len(times)} points, expected k+1 = {k + 1}"
        elif times[0] != 0.0 or abs(times[-1] - T) > 1e-9 * max(T, dt) + (2e-12 if dt >= 1e-4 else 0.0):
            why = f"time grid runs from {times[0]} to {times[-1]}, expected 0 .. {T}"
        elif any(abs(times[j] - j * dt) > 1e-9 * max(T, dt) for j in (1, len(times) // 2, len(times) - 1)):
            why = "grid does not advance by dt"
        if why:
            ctx.violation("grid", f"AnalogSimParams(elapsed_time={T!r}, dt={dt!r}): {why}", {"oracle": "grid", "k": k, "dt": dt, "T": T})
    # the dense back-ends with a clock in place of the observable: which grid point every reported entry is evaluated at
    ccases, cexprs = [], []
    for n in range(ctx.scale(60, 800)):
        k = int(ctx.rng.integers(1, 13)) if n % 7 else int(ctx.rng.integers(13, 120))
        dt = float(ctx.rng.choice(DTS[:8]))
        sampling = bool(n % 2)
        ccases.append(dict(k=k, dt=dt, sampling=sampling, noisy=bool(n % 3 == 0)))
        cexprs.append(f"(mcwf_cols {g_bool(sampling)} {k + 1}, lindblad_cols {g_bool(sampling)} {k + 1})")
    vals = common.coq_eval_sharded("From Coq Require Import List. Import ListNotations.\nFrom Yaqs Require Import Model.SolverClock.", cexprs, tag="c15c")
    for c, (mm, ml) in zip(ccases, vals):
        row, durations, times = mcwf_clock(c["k"], c["dt"], c["sampling"], noisy=c["noisy"])
        ctx.case(nontrivial_key=("clock", c["k"], c["dt"], c["sampling"], c["noisy"]), validated=True,
                 sample={**c, "mcwf_entry_steps": row} if c["k"] == 3 else None)
        ctx.count("clock_sampling" if c["sampling"] else "clock_final_only")
        impl = [(j, int(round(x))) for j, x in enumerate(row)]
        if impl != [tuple(x) for x in mm] or any(d != c["dt"] for d in durations) or len(durations) != c["k"]:
            ctx.mismatch("mcwf entries (column, steps of dt taken before it) and step lengths vs SolverClock.mcwf_cols", c,
                         {"entries": impl, "step_lengths": sorted(set(durations)), "steps": len(durations)}, [list(x) for x in mm], key="mcwf-clock")
        lrow, seen, ltimes = lindblad_clock(c["k"], c["dt"], c["sampling"])
        limpl = [(j, ltimes.index(x) if x in ltimes else None) for j, x in enumerate(lrow)]
        ok_span = seen["span"][0] == 0.0 and ltimes[-1] <= seen["span"][1] <= ltimes[-1] + 1e-6 * max(1.0, ltimes[-1])
        if limpl != [tuple(x) for x in ml] or not ok_span:
            ctx.mismatch("lindblad entries (column, index of the grid time it is evaluated at) and integration span vs SolverClock.lindblad_cols", c,
                         {"entries": limpl, "span": seen["span"]}, [list(x) for x in ml], key="lindblad-clock")
    # result columns as words
    wcases, wexprs, wimpl = [], [], []
    for n in range(ctx.scale(40, 600)):
        order = 1 + n % 2
        dt = float(ctx.rng.choice(DTS[:8]))
        k = int(ctx.rng.integers(1, 9))
        sampling = bool(n % 4 < 2)
        T = float(k * dt)
        rows, npts, shape, ncalls = tracing.analog_columns(order, T, dt, [], sampling, True)
        wimpl.append((rows, shape))
        wexprs.append(model_expr(order, T, dt, [], sampling, True))
        wcases.append(dict(order=order, T=T, dt=dt, k=k, sampling=sampling))
    vals = common.coq_eval_sharded(WHEADER, wexprs, tag="c15w")
    for c, (rows, shape), v in zip(wcases, wimpl, vals):
        model_rows = [(col, tracing.word_to_py(w)) for (col, w) in v]
        ctx.case(nontrivial_key=("w", c["order"], c["k"], c["dt"], c["sampling"]), validated=True)
        ctx.count("words_sampling" if c["sampling"] else "words_final_only")
        if rows != model_rows:
            ctx.mismatch("analog_tjm-columns-vs-JumpPipeline.cols", c, rows, model_rows)
        want_cols = c["k"] + 1 if c["sampling"] else 1
        if shape[1] != want_cols:
            ctx.violation("columns", f"analog_tjm_{c['order']} returned {shape[1]} columns, expected {want_cols}", {"oracle": "cols", **c})
        if not c["sampling"] and (len(rows) != 1 or rows[0][1].count("U") != c["k"]):
            ctx.violation("final-only", f"analog_tjm_{c['order']} with sample_timesteps=False evaluated {len(rows)} columns "
                          f"(the single entry must be the state after {c['k']} steps)", {"oracle": "cols", **c})


def solver_oracle(args):
    """All solvers, both flags: lengths and the value at the total time."""
    from mqt.yaqs import simulator
    from mqt.yaqs.core.data_structures.networks import MPO, MPS
    from mqt.yaqs.core.data_structures.simulation_parameters import AnalogSimParams, Observable

    k, dt, solver, order, sampling = args["k"], args["dt"], args["solver"], args["order"], args["sampling"]
    L = args.get("L", 2)
    T = float(k * dt)
    obs = [Observable("x", 0), Observable("z", 1)]
    try:
        if args.get("reuse"):
            # history: the same Observable objects served an earlier run on the same grid with the other sampling flag
            p0 = AnalogSimParams(obs, elapsed_time=T, dt=dt, order=order, sample_timesteps=not sampling, solver=solver,
                                 show_progress=False, threshold=1e-14, num_traj=1)
            simulator.run(MPS(L, state="zeros"), MPO.ising(L, 1.0, 0.8), p0, None, parallel=False)
        p = AnalogSimParams(obs, elapsed_time=T, dt=dt, order=order, sample_timesteps=sampling, solver=solver,
                            show_progress=False, threshold=1e-14, num_traj=1)
        simulator.run(MPS(L, state="zeros"), MPO.ising(L, 1.0, 0.8), p, None, parallel=False)
    except Exception as e:  # noqa: BLE001
        return f"simulator.run raised {type(e).__name__}: {e}"
    h = dense.ising(L, 1.0, 0.8)
    v0 = dense.basis_state([0] * L)
    ops = [dense.op_on(L, {0: dense.X}), dense.op_on(L, {1: dense.Z})]
    want_len = k + 1 if sampling else 1
    for o, op in zip(obs, ops):
        res = np.real(np.atleast_1d(o.results))
        if len(res) != want_len:
            return f"{solver}: result has {len(res)} entries, expected {want_len}" + (" (observables reused after a run with the other sampling flag)" if args.get("reuse") else "")
        idxs = range(want_len) if sampling else [0]
        for c in idxs:
            t = c * dt if sampling else T
            ref = dense.expect(dense.evolve(h, v0, t), op)
            if abs(res[c] - ref) > 2e-4:
                return f"{solver} order {order}: entry {c} is {res[c]:.6f}, value at time {t:.4f} is {ref:.6f}"
    return None


def initial_column_oracle(args):
    """Entry 0 is the value at time 0, i.e. of the initial state — also with noise, in every trajectory."""
    from mqt.yaqs import simulator
    from mqt.yaqs.core.data_structures.networks import MPO, MPS
    from mqt.yaqs.core.data_structures.noise_model import NoiseModel
    from mqt.yaqs.core.data_structures.simulation_parameters import AnalogSimParams, Observable

    L = 2
    obs = [Observable("x", 0), Observable("z", 0), Observable("x", 1)]
    p = AnalogSimParams(obs, elapsed_time=args["k"] * args["dt"], dt=args["dt"], order=args["order"], sample_timesteps=True,
                        solver=args["solver"], show_progress=False, num_traj=4)
    nm = NoiseModel([{"name": "lowering", "sites": [0], "strength": 0.8}, {"name": "pauli_z", "sites": [1], "strength": 0.6}])
    try:
        simulator.run(MPS(L, state="x+"), MPO.ising(L, 1.0, 0.5), p, nm, parallel=False)
    except Exception as e:  # noqa: BLE001
        return f"simulator.run raised {type(e).__name__}: {e}"
    want = [1.0, 0.0, 1.0]
    for o, w in zip(obs, want):
        traj = np.real(np.asarray(o.trajectories))[:, 0] if args["solver"] != "Lindblad" else np.real(np.atleast_1d(o.results))[:1]
        if np.max(np.abs(traj - w)) > 1e-9:
            return (f"{args['solver']} order {args['order']}: entry 0 of a noisy run is {traj.tolist()}, "
                    f"the initial state's value is {w}")
    return None


def search(ctx):
    # deterministic events pinned to grid times (scheduled jumps; no stochastic channel): entry k is still the value at k*dt — the dense
    # "apply once at t_k" reference of C14, here for what C15 says about the columns, both orders, with the event at the first, an inner
    # and the last grid time
    from drivers import C14

    for order in (1, 2):
        for kj in (1, 3, 5):
            a = dict(order=order, L=2, dt=0.05, k_total=5, jumps=[(kj, [0], "x")], state="y+")
            try:
                with common.time_limit(120):
                    why = C14.jump_oracle(a)
            except common.HardTimeout:
                continue
            ctx.case(nontrivial_key=("pinned-event", order, kj))
            ctx.count("columns_with_pinned_events")
            if why:
                ctx.violation("pinned-event-columns", f"with a deterministic event at grid index {kj}: {why}", {"oracle": "pinned", "args": a})
    for solver, order in (("TJM", 1), ("TJM", 2), ("MCWF", 1), ("Lindblad", 1)):
        for (k, dt) in ((1, 0.1), (3, 0.1)):
            a = dict(k=k, dt=dt, solver=solver, order=order)
            why = initial_column_oracle(a)
            ctx.case(nontrivial_key=("col0", solver, order, k))
            ctx.count("noisy_initial_column")
            if why:
                ctx.violation("initial-column:" + solver, why, {"oracle": "col0", "args": a})
    plan = []
    for solver, order in (("TJM", 1), ("TJM", 2), ("MCWF", 1), ("Lindblad", 1)):
        for sampling in (True, False):
            for (k, dt) in ((2, 0.1), (1, 0.1), (3, 0.1), (5, 0.05)):
                plan.append(dict(k=k, dt=dt, solver=solver, order=order, sampling=sampling))
            plan.append(dict(k=3, dt=0.1, solver=solver, order=order, sampling=sampling, reuse=True))
    # long horizons on larger registers (dense back-end): many grid points, a Hilbert space larger than any Krylov space
    for (L, k, dt, sampling) in ((7, 60, 0.1, False), (8, 40, 0.25, False), (6, 50, 0.2, True)):
        plan.append(dict(k=k, dt=dt, solver="MCWF", order=1, sampling=sampling, L=L))
    plan.append(dict(k=40, dt=0.25, solver="Lindblad", order=1, sampling=False, L=4))
    if not ctx.quick:
        for _ in range(60):
            plan.append(dict(k=int(ctx.rng.integers(1, 12)), dt=float(ctx.rng.choice([0.1, 0.05, 0.02, 0.07])),
                             solver=str(ctx.rng.choice(["TJM", "MCWF", "Lindblad"])), order=int(ctx.rng.integers(1, 3)),
                             sampling=bool(ctx.rng.random() < 0.5), reuse=bool(ctx.rng.random() < 0.3)))
    for a in plan:
        try:
            with common.time_limit(120):
                why = solver_oracle(a)
        except common.HardTimeout:
            ctx.notes.append(f"solver oracle timed out {a}")
            continue
        ctx.case(nontrivial_key=("solver", a["solver"], a["order"], a["sampling"], a["k"], a["dt"], a.get("L", 2)))
        ctx.count("solver_" + a["solver"])
        if why:
            key = "solver:" + a["solver"] + (":final" if not a["sampling"] else "")
            ctx.violation(key, why, {"oracle": "solver", "args": a})


def replay(ctx, data):
    rp = data.get("replay", data)
    if rp.get("oracle") == "pinned":
        from drivers import C14

        return C14.jump_oracle(rp["args"])
    if rp.get("oracle") == "solver":
        return solver_oracle(rp["args"])
    if rp.get("oracle") == "col0":
        return initial_column_oracle(rp["args"])
    if rp.get("oracle") == "grid":
        n = len(params(rp["T"], rp["dt"]).times)
        return f"{n} grid points for k={rp['k']}" if n != rp["k"] + 1 else None
    if rp.get("oracle") == "cols":
        rows, npts, shape, _ = tracing.analog_columns(rp["order"], rp["T"], rp["dt"], [], rp["sampling"], True)
        want = rp["k"] + 1 if rp["sampling"] else 1
        return f"{shape[1]} columns" if shape[1] != want else None
    return "re-run the check: " + "; ".join(b["what"] for b in data.get("broken", []))
