"""C04 — the equivalence checker decides equivalence correctly in both directions.

Tie: (1) bit-exact — the verdict of the real MPO.check_if_identity on the doubles (|trace|, n, fidelity) captured from
real runs and on constructed near-miss triples vs the binary64 instance of Model/Verdict.verdict; (2) numeric — the dense
matrix of the MPO built by mpo_utils.iterate for ARBITRARY (also non-equivalent) pairs vs U1.U2^dagger from Qiskit.
Search: equivalence_checker.run on equivalent pairs (same circuit re-synthesised, commuted, inverse-padded), near-miss
pairs with overlap just below the fidelity, both argument orders, long-range gates and swaps.
"""
from __future__ import annotations

import numpy as np

import common
from gen import translate_small
from common import g_float, g_nat

RULE = ("pairs of random circuits over {h,x,rx,ry,rz,p,cx,cz,cp,swap,rxx,rzz} incl. gates between distant qubits, n=2..5; "
        "equivalent pairs by re-synthesis / global phase / commuting rewrites; near-miss pairs = one extra rz(eps) with overlap in "
        "[fid-0.05, fid); non-trivial = contains a long-range gate, a swap or cz/cp, or is a near miss; distinct by pair")
TRUSTED = ["Qiskit Operator as the dense reference", "modelled, not verified: the zone-by-zone MPO construction and its SVD "
           "re-splitting (checked numerically against U1.U2^dagger for arbitrary pairs)"]
ASSUMES = ["numerical-noise allowance of the verdict: 1e-9 on the normalised overlap"]

HEADER = "From Coq Require Import PrimFloat.\nFrom Yaqs Require Import Base.Num Model.Verdict."
EPS = 1e-9


def msb(u, n):
    t = u.reshape((2,) * (2 * n))
    perm = list(reversed(range(n))) + [n + i for i in reversed(range(n))]
    return t.transpose(perm).reshape(2**n, 2**n)


def rand_circuit(rng, n, m, long_range=True):
    from qiskit import QuantumCircuit

    qc = QuantumCircuit(n)
    for _ in range(m):
        u = rng.random()
        if u < 0.45:
            g = str(rng.choice(["h", "x", "rx", "ry", "rz", "p"]))
            q = int(rng.integers(0, n))
            if g in ("h", "x"):
                getattr(qc, g)(q)
            else:
                getattr(qc, g)(float(rng.uniform(-3, 3)), q)
        else:
            a = int(rng.integers(0, n))
            b = int(rng.integers(0, n))
            while b == a or (not long_range and abs(a - b) != 1):
                b = int(rng.integers(0, n))
            g = str(rng.choice(["cx", "cz", "cp", "swap", "rxx", "rzz"]))
            if g in ("cx", "cz", "swap"):
                getattr(qc, g)(a, b)
            else:
                getattr(qc, g)(float(rng.uniform(-3, 3)), a, b)
    return qc


def build_mpo(qc1, qc2, threshold):
    from qiskit.converters import circuit_to_dag

    from mqt.yaqs.core.data_structures.networks import MPO
    from mqt.yaqs.digital.utils.mpo_utils import iterate

    mpo = MPO()
    mpo.identity(qc1.num_qubits)
    iterate(mpo, circuit_to_dag(qc1), circuit_to_dag(qc2), threshold)
    return mpo


def capture_verdict(mpo, fid):
    """Run the real check_if_identity and capture the |trace| it used."""
    from mqt.yaqs.core.data_structures.networks import MPS

    cap = {}
    real = MPS.scalar_product

    def sp(self, other, sites=None):
        r = real(self, other, sites)
        cap["trace"] = r
        return r

    MPS.scalar_product = sp
    try:
        v = bool(mpo.check_if_identity(fid))
    finally:
        MPS.scalar_product = real
    return v, float(np.abs(cap["trace"]))


def fake_mpo_with_trace(n, t):
    """An MPO whose trace is exactly t (diagonal first tensor): used to hand exact near-miss doubles to the real verdict."""
    from mqt.yaqs.core.data_structures.networks import MPO

    mpo = MPO()
    mpo.identity(n)
    mpo.tensors[0] = mpo.tensors[0] * (t / 2**n)
    return mpo


def regenerate(ctx):
    """coq/Gen/VerdictGen.v from the current source of check_if_identity (fail closed)"""
    translate_small.regenerate(("verdict",))


def correspond(ctx):
    from qiskit.quantum_info import Operator

    ctx.rules.append(RULE)
    cases, exprs, impl = [], [], []
    # (a) verdict on captured and on constructed doubles
    for k in range(ctx.scale(150, 3000)):
        n = int(ctx.rng.integers(1, 7))
        fid = float(ctx.rng.choice([0.5, 0.9, 0.99, 0.999, 1 - 1e-6, 1 - 1e-13]))
        u = ctx.rng.random()
        if u < 0.5:
            ov = fid + float(ctx.rng.choice([-0.06, -0.011, -1e-3, -2e-9, -1e-9, -5e-10, 0.0, 1e-12, 1e-3])) * (1 if ctx.rng.random() < 0.8 else -1)
        else:
            ov = float(ctx.rng.uniform(0, 1))
        ov = min(max(ov, 0.0), 1.0)
        mpo = fake_mpo_with_trace(n, ov * 2**n)
        v, tr = capture_verdict(mpo, fid)
        impl.append(v)
        exprs.append(f"verdict FN {g_float(tr)} {g_nat(n)} {g_float(fid)} {g_float(EPS)}")
        cases.append(dict(n=n, fidelity=fid, abs_trace=tr, overlap=tr / 2**n))
    vals = common.coq_eval_sharded(HEADER, exprs, tag="c04")
    for c, v, m in zip(cases, impl, vals):
        near = abs(c["overlap"] - c["fidelity"]) < 0.07
        ctx.case(nontrivial_key=(c["n"], c["fidelity"], c["abs_trace"]) if near else None, validated=True, sample={**c, "verdict": v} if near else None)
        ctx.count("verdict_doubles")
        if v != m:
            ctx.mismatch("check_if_identity vs Verdict.verdict (binary64)", c, v, m)
        if c["overlap"] < c["fidelity"] - 1e-6 and v:
            ctx.violation("verdict-unsound", f"check_if_identity reports an identity for normalised overlap {c['overlap']:.6f} at fidelity "
                          f"{c['fidelity']} (n={c['n']}, |trace|={c['abs_trace']:.6f})", {"oracle": "verdict", **c})
        if c["overlap"] >= 1 - 1e-12 and not v:  # the property demands acceptance only for equal unitaries
            ctx.violation("verdict-incomplete", f"check_if_identity rejects normalised overlap {c['overlap']} at fidelity {c['fidelity']}",
                          {"oracle": "verdict", **c})
    # (b) the MPO that reaches the verdict is U1 U2^dagger, also for non-equivalent pairs
    for k in range(ctx.scale(40, 800)):
        n = int(ctx.rng.integers(2, 6))
        qc1 = rand_circuit(ctx.rng, n, int(ctx.rng.integers(1, 9)))
        qc2 = rand_circuit(ctx.rng, n, int(ctx.rng.integers(0, 9)))
        try:
            with common.time_limit(120):
                dense_mpo = build_mpo(qc1, qc2, 1e-13).to_matrix()
        except Exception as e:  # noqa: BLE001
            ctx.mismatch("mpo_utils.iterate raised", {"qc1": str(qc1.draw(output="text"))[:400]}, repr(e), "-")
            continue
        u1, u2 = msb(Operator(qc1).data, n), msb(Operator(qc2).data, n)
        want = u1 @ u2.conj().T
        names = [ci.operation.name for ci in list(qc1.data) + list(qc2.data)]
        lr = any(len(ci.qubits) == 2 and abs(qc1.find_bit(ci.qubits[0]).index - qc1.find_bit(ci.qubits[1]).index) > 1 for ci in qc1.data)
        ctx.case(nontrivial_key=("mpo", k) if lr or "swap" in names or "cz" in names or "cp" in names else None, validated=True)
        ctx.count("dense_mpo_pairs")
        if not np.allclose(dense_mpo, want, atol=1e-8):
            ctx.mismatch("final MPO of iterate vs U1.U2^dagger", {"n": n, "gates1": [(ci.operation.name, [qc1.find_bit(q).index for q in ci.qubits]) for ci in qc1.data],
                                                                 "gates2": [(ci.operation.name, [qc2.find_bit(q).index for q in ci.qubits]) for ci in qc2.data]},
                         float(np.max(np.abs(dense_mpo - want))), 0.0)
    schedule_correspondence(ctx)


# ---- schedule of the construction: real mpo_utils.iterate vs Model/Checker.iterate ---------------------------------------------
def gen_gate_lists(rng, n, m, longp=0.25):
    def circ():
        out = []
        for _ in range(int(rng.integers(0, m + 1))):
            if rng.random() < 0.4 or n < 2:
                out.append(("G1", [int(rng.integers(0, n))]))
            else:
                a = int(rng.integers(0, n))
                if rng.random() < longp and n > 2:
                    b = int(rng.choice([x for x in range(n) if x != a]))
                else:
                    b = a + 1 if a + 1 < n and (a == 0 or rng.random() < 0.5) else a - 1
                out.append(("G2", [a, b]))
        return out

    return circ(), circ()


def tagged_circuit(n, gates, base):
    """gate number i carries the angle 0.1 + 0.01*(base+i): its identity can be read back from the gate object"""
    from qiskit import QuantumCircuit

    qc = QuantumCircuit(n)
    for i, (k, qs) in enumerate(gates):
        th = 0.1 + 0.01 * (base + i)
        if k == "G1":
            qc.rx(th, qs[0])
        else:
            qc.rzz(th, qs[0], qs[1])
    return qc


def checker_trace(n, g1, g2):
    """(side, gate id) of every application the real iterate performs (apply_gate for zone gates, the gate-MPO path for
    long-range gates), and the sweep order select_starting_point chose."""
    import mqt.yaqs.digital.utils.mpo_utils as U
    from qiskit.converters import circuit_to_dag
    from qiskit.dagcircuit import DAGOpNode

    from mqt.yaqs.core.data_structures.networks import MPO

    log, info = [], {}
    saved = (U.apply_gate, U.convert_dag_to_tensor_algorithm, U.select_starting_point, U.apply_long_range_layer)

    def gid(th):
        return int(round((float(th) - 0.1) / 0.01))

    def apply_gate(gate, theta, s0, s1, *a, conjugate=False, **kw):
        log.append(("R" if conjugate else "L", gid(gate.theta)))
        return saved[0](gate, theta, s0, s1, *a, conjugate=conjugate, **kw)

    def conv(dag, *a, **kw):
        out = saved[1](dag, *a, **kw)
        if isinstance(dag, DAGOpNode) and info.get("lr") is not None:
            log.append(("R" if info["lr"] else "L", gid(out[0].theta)))
            info.setdefault("prefs", []).append(gid(out[0].theta))
        return out

    def sel(nq, dag, *a, **kw):
        r = saved[2](nq, dag, *a, **kw)
        info["sweep"] = list(r[0]) + list(r[1])
        return r

    def lr(mpo, d1, d2, thr, *a, conjugate, **kw):
        info["lr"] = conjugate
        try:
            return saved[3](mpo, d1, d2, thr, *a, conjugate=conjugate, **kw)
        finally:
            info["lr"] = None

    U.apply_gate, U.convert_dag_to_tensor_algorithm, U.select_starting_point, U.apply_long_range_layer = apply_gate, conv, sel, lr
    err = None
    try:
        mpo = MPO()
        mpo.identity(n)
        with common.time_limit(20):
            U.iterate(mpo, circuit_to_dag(tagged_circuit(n, g1, 0)), circuit_to_dag(tagged_circuit(n, g2, 100)), 1e-13)
    except common.HardTimeout:
        err = "TIMEOUT"
    except Exception as e:  # noqa: BLE001
        err = f"EXC:{type(e).__name__}:{e}"
    finally:
        U.apply_gate, U.convert_dag_to_tensor_algorithm, U.select_starting_point, U.apply_long_range_layer = saved
    return log, info.get("sweep") or [], err, info.get("prefs", [])


def trace_normal_form(log, qubits):
    """Within a run of applications on the same side, gates on disjoint qubits may be applied in either order (Qiskit lists the
    nodes of a DAG layer in its own order): each maximal same-side run is replaced by its lexicographically least linearisation
    that keeps the order of every two gates sharing a qubit (Mazurkiewicz normal form).  Run boundaries are kept."""
    out, i = [], 0
    while i < len(log):
        j = i
        while j < len(log) and log[j][0] == log[i][0]:
            j += 1
        run = [g for _, g in log[i:j]]
        done = []
        while run:
            avail = [g for k, g in enumerate(run) if not any(set(qubits[h]) & set(qubits[g]) for h in run[:k])]
            pick = min(avail)
            done.append(pick)
            run.remove(pick)
        out += [(log[i][0], g) for g in done]
        i = j
    return out


def schedule_correspondence(ctx):
    application_correspondence(ctx)
    from common import g_list

    hdr = "From Coq Require Import List. Import ListNotations.\nFrom Yaqs Require Import Model.DigitalLoop Model.Checker."

    def g_circ(gates, base):
        return g_list([f"mk {base + i}%nat {k} {g_list([str(q) + '%nat' for q in qs])}" for i, (k, qs) in enumerate(gates)])

    cases, exprs, impl = [], [], []
    for k in range(ctx.scale(80, 1500)):
        n = int(ctx.rng.integers(2, 8))
        g1, g2 = gen_gate_lists(ctx.rng, n, int(ctx.rng.integers(1, 9)))
        if k % 7 == 0:
            g1, g2 = g2, []
        log, sweep, err, prefs = checker_trace(n, g1, g2)
        impl.append((log, err))
        cases.append(dict(n=n, gates1=g1, gates2=g2, sweep=sweep, layer_order=prefs))
        exprs.append(f"match iterate_with {g_list([str(x) + '%nat' for x in prefs])} {len(g1) + len(g2) + 1} {g_list([str(x) + '%nat' for x in sweep])} (init {g_circ(g1, 0)} {g_circ(g2, 100)}) with "
                     "Some s => Some (map (fun p => (match fst p with L => false | R => true end, id (snd p))) (log s)) | None => None end")
    vals = common.coq_eval_sharded(hdr, exprs, tag="c04s")
    for c, (log, err), v in zip(cases, impl, vals):
        qubits = {i: q for i, (_, q) in enumerate(c["gates1"])}
        qubits.update({100 + i: q for i, (_, q) in enumerate(c["gates2"])})
        lr = any(len(q) == 2 and abs(q[0] - q[1]) > 1 for q in qubits.values())
        ctx.case(nontrivial_key=("sched", str(c)) if lr or (c["gates1"] and c["gates2"]) else None, validated=True,
                 sample={**c, "applications": log} if lr and len(ctx.samples) < 3 else None)
        ctx.count("schedule_long_range" if lr else "schedule_short")
        want = None if v is None else [("R" if a else "L", b) for a, b in (v[1] if not isinstance(v, list) else v)]
        if err or want is None or trace_normal_form(log, qubits) != trace_normal_form(want, qubits):
            ctx.mismatch("applications of mpo_utils.iterate (side, gate) vs Checker.iterate, up to reordering gates on disjoint qubits inside a same-side run",
                         c, err or log, want, key="schedule")
        # property-level content: every gate exactly once, on its side
        ids = sorted(g for _, g in log)
        if not err and (ids != sorted(qubits) or any((sd == "L") != (g < 100) for sd, g in log)):
            ctx.violation("schedule-once", f"iterate applied gates {log} for circuits with {len(c['gates1'])} and {len(c['gates2'])} gates: "
                          "not every gate exactly once on its own side", {"oracle": "schedule", **c})


def application_correspondence(ctx):
    """apply_gate on a random merged tensor theta[o1,o2,l,i1,i2,r] vs the entry formulas of LinAlg/TT.v (lact / ract): from the left
    new[O,I] = sum_O' G[O,O'] theta[O',I]; conjugated from the right new[O,I] = sum_I' conj(G[I,I']) theta[O,I'], where G is the
    standard matrix of the gate on (site n, site n+1), the lower site most significant."""
    import mqt.yaqs.digital.utils.mpo_utils as MU
    from drivers.C18 import NPAR, live_gate, qiskit_matrix

    rng = ctx.rng
    one = ["x", "y", "h", "sx", "rx", "ry", "rz", "p", "u2", "u"]
    two = ["cx", "cz", "cp", "swap", "rxx", "ryy", "rzz"]
    for k in range(ctx.scale(80, 1200)):
        n = int(rng.integers(0, 5))
        name = str(rng.choice(one if k % 3 == 0 else two))
        angles = [float(x) for x in rng.uniform(-3, 3, size=NPAR.get(name, 0))] if name in NPAR else []
        g = live_gate(name, angles)
        ref = qiskit_matrix(name, angles)
        if name in one:
            site = n + int(rng.integers(0, 2))
            g.set_sites(site)
            G = np.kron(ref, np.eye(2)) if site == n else np.kron(np.eye(2), ref)
            sites = [site]
        else:
            a, b = (n, n + 1) if rng.random() < 0.5 else (n + 1, n)
            g.set_sites(a, b)
            G = ref if a < b else ref.reshape(2, 2, 2, 2).transpose(1, 0, 3, 2).reshape(4, 4)
            sites = [a, b]
        lft, r = int(rng.integers(1, 4)), int(rng.integers(1, 4))
        theta = rng.normal(size=(2, 2, lft, 2, 2, r)) + 1j * rng.normal(size=(2, 2, lft, 2, 2, r))
        conj = bool(k % 2)
        try:
            out = MU.apply_gate(g, theta.copy(), n, n + 1, conjugate=conj)
        except Exception as e:  # noqa: BLE001
            ctx.mismatch("apply_gate vs TT.lact/ract", {"gate": name, "sites": sites, "pair": [n, n + 1], "conjugate": conj}, repr(e), "-", key="application")
            continue
        th = theta.transpose(0, 1, 3, 4, 2, 5).reshape(4, 4, lft, r)  # [O, I, l, r]
        want = np.einsum("ab,bicd->aicd", G, th) if not conj else np.einsum("ij,ajcd->aicd", np.conj(G), th)
        got = np.asarray(out).transpose(0, 1, 3, 4, 2, 5).reshape(4, 4, lft, r)
        ctx.case(nontrivial_key=("apply", name, tuple(sites), conj), validated=True)
        ctx.count("application_right_conjugated" if conj else "application_left")
        if got.shape != want.shape or not np.allclose(got, want, atol=1e-12):
            ctx.mismatch("apply_gate vs TT.lact/ract (entries of G.O from the left, O.G^dagger for the conjugated right application)",
                         {"gate": name, "angles": angles, "sites": sites, "pair": [n, n + 1], "conjugate": conj},
                         float(np.max(np.abs(got - want))) if got.shape == want.shape else list(got.shape), 0.0, key="application")


def pair_oracle(args):
    from qiskit import QuantumCircuit
    from qiskit.quantum_info import Operator

    from mqt.yaqs.digital import equivalence_checker as EC

    rng = np.random.default_rng(args["seed"])
    n = args["n"]
    kind = args["kind"]
    base = rand_circuit(rng, n, args["m"], long_range=(kind != "near-product"))
    if kind == "equivalent-blocked":
        # two long-range gates: the earlier one still waits behind a nearest-neighbour gate it does not commute with while the later
        # one is already in the front layer
        n = max(n, 6)
        base = QuantumCircuit(n)
        g1 = str(rng.choice(["cx", "rxx"]))
        base.cx(1, 2) if g1 == "cx" else base.rxx(float(rng.uniform(0.4, 2.0)), 1, 2)
        l1 = str(rng.choice(["cz", "cp", "cx", "xc"]))
        {"cz": lambda: base.cz(0, 2), "cp": lambda: base.cp(float(rng.uniform(0.5, 2.5)), 0, 2), "cx": lambda: base.cx(0, 2), "xc": lambda: base.cx(2, 0)}[l1]()
        l2 = str(rng.choice(["cz", "cx", "rzz"]))
        {"cz": lambda: base.cz(3, 5), "cx": lambda: base.cx(3, 5), "rzz": lambda: base.rzz(float(rng.uniform(0.5, 2.5)), 3, 5)}[l2]()
        tail = rand_circuit(rng, n, args["m"], long_range=False)
        base.compose(tail, inplace=True)
        kind = "equivalent"
    if kind == "equivalent":
        other = QuantumCircuit(n)
        for ci in base.data:  # re-synthesis: h = rz ry style rewrites that keep the unitary (up to phase)
            nm, qs = ci.operation.name, [base.find_bit(q).index for q in ci.qubits]
            if nm == "x":
                other.h(qs[0]); other.z(qs[0]); other.h(qs[0])  # noqa: E702
            elif nm == "cz":
                other.h(qs[1]); other.cx(qs[0], qs[1]); other.h(qs[1])  # noqa: E702
            elif nm == "swap":
                other.cx(qs[0], qs[1]); other.cx(qs[1], qs[0]); other.cx(qs[0], qs[1])  # noqa: E702
            elif nm == "rz":
                other.p(ci.operation.params[0], qs[0])  # equal up to a global phase
            else:
                other.append(ci.operation, qs)
    elif kind == "near-product":
        # the circuits differ by small trailing rotations on SEVERAL qubits: U1.U2^dagger is a product of one-site factors, each
        # close to the identity; the overlap is the product of the per-qubit overlaps
        other = base.copy()
        qs = [q for q in range(n) if rng.random() < 0.7] or [0]
        if len(qs) < 2:
            qs = list(range(min(n, 2)))
        for q in qs:
            getattr(other, str(rng.choice(["rz", "rx", "ry"])))(args["eps"], q)
    else:
        other = base.copy()
        other.rz(args["eps"], int(rng.integers(0, n)))
    u1, u2 = msb(Operator(base).data, n), msb(Operator(other).data, n)
    overlap = float(abs(np.trace(u1.conj().T @ u2)) / 2**n)
    fid = args["fidelity"]
    if kind == "near-product":
        # a fidelity between the overlap and the smallest per-qubit overlap (must be rejected), or just below the overlap (must be accepted)
        per_qubit = float(np.cos(args["eps"] / 2))
        fid = (overlap + per_qubit) / 2 if args.get("above", True) else overlap - 0.4 * (per_qubit - overlap)
    for a, b, tag in ((base, other, "as given"), (other, base, "swapped")):
        with common.time_limit(200):
            got = bool(EC.run(a, b, threshold=args["threshold"], fidelity=fid)["equivalent"])
        if overlap < fid - 1e-6 and got:
            return f"reported EQUIVALENT ({tag}) for overlap {overlap:.6f} < fidelity {fid} (n={n}, {kind}, eps={args.get('eps')})"
        if kind == "near-product" and overlap >= fid + 1e-6 and not got:
            return f"reported NOT equivalent ({tag}) for overlap {overlap:.6f} >= fidelity {fid:.6f} (n={n}, small rotations on several qubits)"
        if kind == "equivalent" and not got:
            return f"reported NOT equivalent ({tag}) for a re-synthesised circuit (overlap {overlap:.12f}, fidelity {fid}, n={n})"
    return None


def search(ctx):
    plan = [dict(seed=7, n=2, m=4, kind="near", eps=0.3, fidelity=0.99, threshold=1e-13)]
    for k in range(ctx.scale(24, 400)):
        kind = "equivalent" if k % 2 == 0 else "near"
        fid = float(ctx.rng.choice([0.99, 0.999, 1 - 1e-6, 1 - 1e-13])) if kind == "equivalent" else float(ctx.rng.choice([0.9, 0.99, 0.999]))
        eps = float(ctx.rng.choice([0.1, 0.2, 0.3, 0.45, 0.7]))
        plan.append(dict(seed=int(ctx.rng.integers(0, 2**31)), n=int(ctx.rng.integers(2, 6)), m=int(ctx.rng.integers(2, 9)), kind=kind,
                         eps=eps, fidelity=fid, threshold=float(ctx.rng.choice([1e-13, 1e-11, 1e-9]))))
    for k in range(ctx.scale(6, 60)):
        plan.append(dict(seed=int(ctx.rng.integers(0, 2**31)), n=6, m=int(ctx.rng.integers(0, 5)), kind="equivalent-blocked", eps=0.0,
                         fidelity=float(ctx.rng.choice([0.99, 1 - 1e-9])), threshold=float(ctx.rng.choice([1e-13, 1e-11]))))
    for k in range(ctx.scale(10, 120)):
        plan.append(dict(seed=int(ctx.rng.integers(0, 2**31)), n=int(ctx.rng.integers(2, 7)), m=int(ctx.rng.integers(0, 7)), kind="near-product",
                         eps=float(ctx.rng.choice([0.1, 0.2, 0.25, 0.3])), fidelity=None, above=bool(k % 3), threshold=float(ctx.rng.choice([1e-13, 1e-11]))))
    for a in plan:
        try:
            why = pair_oracle(a)
        except common.HardTimeout:
            ctx.notes.append("pair oracle timed out")
            continue
        except Exception as e:  # noqa: BLE001
            why = f"equivalence_checker.run raised {type(e).__name__}: {e}"
        ctx.case(nontrivial_key=("pair", a["seed"], a["kind"]), sample=a if len(ctx.samples) < 5 else None)
        ctx.count("pairs_" + a["kind"])
        if why:
            ctx.violation("pair:" + ("false-positive" if "EQUIVALENT" in why else "false-negative"), why, {"oracle": "pair", "args": a})


def replay(ctx, data):
    rp = data.get("replay", data)
    if rp.get("oracle") == "schedule":
        log, _, err, _ = checker_trace(rp["n"], [tuple(g) for g in rp["gates1"]], [tuple(g) for g in rp["gates2"]])
        n1, n2 = len(rp["gates1"]), len(rp["gates2"])
        ok = not err and sorted(g for _, g in log) == list(range(n1)) + list(range(100, 100 + n2))
        return None if ok else f"applications {log} {err or ''}"
    if rp.get("oracle") == "pair":
        return pair_oracle(rp["args"])
    if rp.get("oracle") == "verdict":
        v, tr = capture_verdict(fake_mpo_with_trace(rp["n"], rp["abs_trace"]), rp["fidelity"])
        ov = tr / 2 ** rp["n"]
        return f"verdict {v} for overlap {ov}" if (ov < rp["fidelity"] - 1e-6 and v) or (ov >= 1 - 1e-12 and not v) else None
    return "re-run the check: " + "; ".join(b["what"] for b in data.get("broken", []))
